//! C28 — a copied index directory is self-contained.
//! Build an index at `<scratch>/orig`, copy the directory to `<scratch>/copy`, keep / modify /
//! remove the original, then search, commit and compact through the copy while every storage
//! primitive is traced (hook H1).  Finder: no traced path outside the copy, the original's
//! content hash unchanged (when kept), results through the copy equal the original's results at
//! copy time, and everything still works when the original is gone.  Correspondence: the set of
//! segment-file paths the code touches equals the model's `touched resolve copy manifest`.
use crate::idx;
use crate::proto::Driver;
use crate::rng::Rng;
use crate::summary::Summary;
use crate::util::{guarded, scratch};
use crate::{Prop, Tier};
use searchlite_core::api::Index;
use searchlite_core::storage::verif::{install, uninstall, FsEvent};
use serde_json::{json, Value};
use std::collections::{BTreeMap, BTreeSet};
use std::path::{Path, PathBuf};
use std::sync::{Arc, Mutex};

pub struct C28;
pub static P: C28 = C28;

const WORDS: [&str; 6] = ["rust", "search", "engine", "fast", "lite", "index"];

fn schema() -> Value {
  json!({
    "text_fields": [{"name":"body","analyzer":"default","stored":true,"indexed":true}],
    "keyword_fields": [{"name":"tag","stored":true,"indexed":true,"fast":true}],
    "numeric_fields": []
  })
}

fn copy_dir(from: &Path, to: &Path) {
  let _ = std::fs::create_dir_all(to);
  if let Ok(rd) = std::fs::read_dir(from) {
    for e in rd.flatten() {
      if e.path().is_file() {
        let _ = std::fs::copy(e.path(), to.join(e.file_name()));
      }
    }
  }
}

fn dir_hash(dir: &Path) -> BTreeMap<String, u64> {
  let mut out = BTreeMap::new();
  if let Ok(rd) = std::fs::read_dir(dir) {
    for e in rd.flatten() {
      if e.path().is_file() {
        let b = std::fs::read(e.path()).unwrap_or_default();
        out.insert(e.file_name().to_string_lossy().to_string(), crate::summary::fnv(&crate::util::hex(&b)));
      }
    }
  }
  out
}

fn observe(idx: &Index) -> Result<Value, String> {
  let reader = idx.reader().map_err(|e| format!("reader: {e}"))?;
  let mut out = Vec::new();
  for req in [
    json!({"query":{"type":"match_all"},"limit":1000,"return_stored":true,"execution":"bm25"}),
    json!({"query":"rust engine","limit":1000,"return_stored":false,"execution":"bm25"}),
    json!({"query":{"type":"match_all"},"filter":{"KeywordEq":{"field":"tag","value":"red"}},"limit":1000,"return_stored":false}),
  ] {
    match idx::search(&reader, &req) {
      idx::Outcome::Ok(v) => out.push(json!(v["hits"].as_array().map(|a| a.iter().map(|h| json!([h["doc_id"], h["score"], h["fields"]])).collect::<Vec<_>>()))),
      idx::Outcome::Err(e) => return Err(format!("search: {e}")),
      idx::Outcome::Panic(p) => return Err(format!("panic: {p}")),
    }
  }
  Ok(json!(out))
}

impl Prop for C28 {
  fn id(&self) -> &'static str {
    "C28"
  }
  fn rule(&self) -> &'static str {
    "case = random committed index (2-4 commits, optional deletion, optional pending log operations) copied to a new directory, with the original kept / modified by a further commit / removed, followed by search, add+commit, delete+commit and compaction through the copy; non-trivial when the index has at least two segments at copy time (so that compaction rewrites and deletes files); distinct = distinct case JSON"
  }
  fn count(&self, tier: Tier) -> usize {
    tier.pick(24, 400)
  }
  fn gen(&self, rng: &mut Rng, _tier: Tier, _i: usize) -> Value {
    let ncommits = 1 + rng.below(4);
    let mut did = 0;
    let commits: Vec<Value> = (0..ncommits)
      .map(|_| {
        // document counts such as 7, 11, 13 give average field lengths whose decimal form
        // does not survive a JSON round trip (manifest floats, /repo 377f315)
        let nd = if rng.chance(1, 4) { *rng.pick(&[7usize, 11, 13]) } else { 1 + rng.below(4) };
        let docs: Vec<Value> = (0..nd)
          .map(|_| {
            did += 1;
            let nw = 1 + rng.below(5);
            let body: Vec<&str> = (0..nw).map(|_| *rng.pick(&WORDS)).collect();
            let tag = *rng.pick(&["red", "blue"]);
            json!({"_id": format!("d{did}"), "body": body.join(" "), "tag": tag})
          })
          .collect();
        json!(docs)
      })
      .collect();
    let original = *rng.pick(&["kept", "modified", "removed"]);
    json!({"names": rng.below(6), "commits": commits, "delete": if rng.chance(1, 2) { json!(format!("d{}", 1 + rng.below(did))) } else { json!(null) },
           "pending": rng.chance(1, 3), "original": original, "steps": ["search", "commit", "delete", "compact", "search"]})
  }

  fn run_case(&self, drv: &mut Driver, case: &Value, s: &mut Summary) {
    let case = if case.get("case").is_some() { &case["case"] } else { case };
    let base = scratch();
    // directory naming matters for path handling: unrelated names, one a textual prefix of the
    // other (backup restored next to the original), same name under another parent, nested
    let (on, cn) = match case["names"].as_u64().unwrap_or(0) {
      1 => ("idx.bak", "idx"),
      2 => ("idx", "idx2"),
      3 => ("a/idx", "b/idx"),
      4 => ("idx_old", "idx"),
      5 => ("data/idx", "data"),
      _ => ("orig", "copy"),
    };
    let orig = base.path().join(on);
    let copy = base.path().join(cn);
    let built = guarded(|| -> Result<Value, String> {
      let idx = idx::create(&orig, &schema(), false)?;
      for docs in case["commits"].as_array().cloned().unwrap_or_default() {
        idx::add_commit(&idx, docs.as_array().unwrap())?;
      }
      if let Some(id) = case["delete"].as_str() {
        idx::delete_commit(&idx, &[id.to_string()])?;
      }
      if case["pending"] == json!(true) {
        let mut w = idx.writer().map_err(|e| e.to_string())?;
        w.add_document(&idx::doc(&json!({"_id":"pend","body":"pending rust","tag":"red"}))).map_err(|e| e.to_string())?;
      }
      observe(&idx)
    });
    let at_copy = match built {
      Ok(Ok(v)) => v,
      other => {
        s.fail("build", "cannot build the original index", case, json!(format!("{other:?}")));
        return;
      }
    };
    copy_dir(&orig, &copy);
    let manifest_txt = std::fs::read_to_string(copy.join("MANIFEST.json")).unwrap_or_default();
    let manifest: Value = serde_json::from_str(&manifest_txt).unwrap_or(Value::Null);
    let nseg = manifest["segments"].as_array().map(|a| a.len()).unwrap_or(0);
    let mut stored_paths: Vec<String> = Vec::new();
    for seg in manifest["segments"].as_array().cloned().unwrap_or_default() {
      for k in ["terms", "postings", "docstore", "fast", "meta"] {
        if let Some(p) = seg["paths"][k].as_str() {
          stored_paths.push(p.to_string());
        }
      }
    }
    s.case(case, nseg >= 2);
    s.count(&format!("original.{}", case["original"].as_str().unwrap_or("?")));
    s.count(&format!("segments.{}", nseg.min(4)));
    match case["original"].as_str() {
      Some("modified") => {
        let r = guarded(|| -> Result<(), String> {
          let idx = idx::open(&orig)?;
          idx::add_commit(&idx, &[json!({"_id":"late","body":"late rust engine","tag":"red"})])
        });
        if !matches!(r, Ok(Ok(()))) {
          s.notes.push(format!("modifying the original failed: {r:?}"));
        }
      }
      Some("removed") => {
        let _ = std::fs::remove_dir_all(&orig);
      }
      _ => {}
    }
    let orig_hash = dir_hash(&orig);
    // ---- operate on the copy under trace
    let events: Arc<Mutex<Vec<(String, PathBuf)>>> = Arc::new(Mutex::new(Vec::new()));
    let ev2 = events.clone();
    install(base.path().to_path_buf(), Arc::new(move |ev: &FsEvent| {
      if !ev.after {
        ev2.lock().unwrap().push((ev.op.to_string(), ev.path.clone()));
        if let Some(t) = &ev.to {
          ev2.lock().unwrap().push((ev.op.to_string(), t.clone()));
        }
      }
      Ok(())
    }));
    let copy2 = copy.clone();
    let run = guarded(|| -> Result<(Value, Value), String> {
      let idx = idx::open(&copy2)?;
      let first = observe(&idx)?;
      idx::add_commit(&idx, &[json!({"_id":"n1","body":"new rust doc","tag":"blue"})])?;
      idx::delete_commit(&idx, &["d1".to_string()])?;
      idx.compact().map_err(|e| format!("compact: {e}"))?;
      let after = observe(&idx)?;
      // and from disk again
      let idx2 = idx::open(&copy2)?;
      let again = observe(&idx2)?;
      if again != after {
        return Err("results differ after reopening the copy".into());
      }
      Ok((first, after))
    });
    uninstall(base.path());
    let evs = events.lock().unwrap().clone();
    let outside: BTreeSet<String> = evs.iter().filter(|(_, p)| !p.starts_with(&copy) || (orig.starts_with(&copy) && p.starts_with(&orig))).map(|(op, p)| format!("{op} {}", p.display())).collect();
    let sub = case.clone();
    if !outside.is_empty() {
      let ex: Vec<&String> = outside.iter().take(6).collect();
      let destructive = outside.iter().any(|x| x.starts_with("remove") || x.starts_with("create") || x.starts_with("write") || x.starts_with("rename"));
      s.fail(
        if destructive { "copy.modifies-original" } else { "copy.reads-original" },
        "operations through the copied directory touch paths outside it",
        &sub,
        json!({"n": outside.len(), "examples": ex}),
      );
    }
    if case["original"] != "removed" && dir_hash(&orig) != orig_hash {
      s.fail("copy.modifies-original", "files of the original directory changed while only the copy was used", &sub, json!(null));
    }
    match run {
      Ok(Ok((first, _after))) => {
        if first != at_copy {
          s.fail("copy.results-differ", "the copy does not serve the results the original served when it was copied", &sub, json!({"copy": first, "original_at_copy_time": at_copy}));
        }
      }
      Ok(Err(e)) => s.fail("copy.operation-fails", "an operation through the copied directory failed", &sub, json!(e)),
      Err(p) => s.fail("copy.panic", "an operation through the copied directory panicked", &sub, json!(p)),
    }
    // ---- correspondence: segment-file paths touched by the first reader vs the model
    let m = drv.call("C28", json!({"op":"resolve","root": copy.to_string_lossy(), "stored": stored_paths, "legacy": false}));
    let want: BTreeSet<String> = m["paths"].as_array().cloned().unwrap_or_default().iter().filter_map(|p| p.as_str().map(|x| x.to_string())).collect();
    let touched: BTreeSet<String> = evs.iter().map(|(_, p)| p.to_string_lossy().to_string()).collect();
    let orig_names: BTreeSet<String> = stored_paths.iter().map(|p| Path::new(p).file_name().unwrap().to_string_lossy().to_string()).collect();
    let touched_seg: BTreeSet<String> = touched.iter().filter(|p| orig_names.contains(&Path::new(p).file_name().map(|n| n.to_string_lossy().to_string()).unwrap_or_default())).cloned().collect();
    if touched_seg != want {
      s.disagree("paths.touched", &sub, json!(touched_seg), json!(want));
    }
    s.traces_validated += 1;
  }
}
