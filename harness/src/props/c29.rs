//! C29 — vector and hybrid search return correctly scored, filtered hits (feature `vectors`).
//!
//! Correspondence: the real index (several segments, deletions, upserts, missing vectors)
//! is searched with vector-only, multi-clause and hybrid requests and compared with
//! `SL.Vec.searchReq` (same plan rules, same flat-graph construction and search, same
//! blend), hit by hit; the `.hnsw` graph files written by the real segment writer are
//! compared with `SL.Vec.buildGraph`; `HnswIndex` itself is compared with the model on
//! random stores beyond the exactness regime.
//! Finder (implementation alone, brute force in f64): hits are live, have a vector, pass
//! `filter`/`vector_filter`; `vector_score` = exact similarity × boost; `score` = documented
//! blend; order; wrong dimension ⇒ rejected; exact nearest neighbours when every segment
//! holds at most `hnsw.m` vectors; compaction and a directory copy keep vector results.
use crate::proto::Driver;
use crate::rng::Rng;
use crate::summary::Summary;
use crate::{Prop, Tier};
use serde_json::{json, Value};

pub struct C29;
pub static P: C29 = C29;

#[cfg(not(feature = "vectors"))]
impl Prop for C29 {
  fn id(&self) -> &'static str {
    "C29"
  }
  fn rule(&self) -> &'static str {
    "harness built without the `vectors` feature: nothing is run (tools/props.json enables it for ./check C29)"
  }
  fn count(&self, _tier: Tier) -> usize {
    0
  }
  fn gen(&self, _rng: &mut Rng, _tier: Tier, _i: usize) -> Value {
    json!(null)
  }
  fn run_case(&self, _drv: &mut Driver, _case: &Value, _s: &mut Summary) {}
  fn finish(&self, _tier: Tier, s: &mut Summary) {
    s.notes.push("C29: harness built without feature `vectors`; no case was run".to_string());
  }
}

#[cfg(feature = "vectors")]
impl Prop for C29 {
  fn id(&self) -> &'static str {
    "C29"
  }
  fn rule(&self) -> &'static str {
    "case kinds: `index` = random vector schema (1-2 fields, dim 1-8, Cosine/L2, optional hnsw m/ef_construction), 1-4 add commits (= segments) with missing/null vectors, delete-only commits and upserts in between, then 4-8 requests (single vector clause, bool/dis_max of several clauses, hybrid via vector_query tuple/object, hybrid bool, filter/vector_filter, explicit k/candidate_size/ef_search/boost/alpha, wrong dimension and other invalid parameters), optionally followed by compact() (must be refused or a no-op and leave every vector-only result unchanged) or by copying the index directory, removing the original and searching the copy; `hnsw` = HnswIndex built directly on a random store and searched with random (k, ef); `baddoc` = document whose vector has the wrong dimension. One evaluation = one request (or one hnsw search / one bad document). A request is non-trivial when it is rejected for its dimension, or when it returns at least one hit with a vector_score while the index holds at least one ineligible vector document (deleted, filtered out, missing vector) or at least two eligible ones; an hnsw search is non-trivial when the store has at least 2 vectors."
  }
  fn count(&self, tier: Tier) -> usize {
    tier.pick(260, 6000)
  }
  fn gen(&self, rng: &mut Rng, tier: Tier, i: usize) -> Value {
    imp::gen(rng, tier, i)
  }
  fn run_case(&self, drv: &mut Driver, case: &Value, s: &mut Summary) {
    imp::run_case(drv, case, s)
  }
}

#[cfg(feature = "vectors")]
mod imp {
  use super::*;
  use crate::idx;
  use crate::util::{guarded, scratch};
  use searchlite_core::api::types::VectorMetric;
  use searchlite_core::vectors::hnsw::{HnswIndex, HnswParams};
  use searchlite_core::vectors::{normalize_in_place, VectorStore};
  use std::collections::{BTreeMap, BTreeSet};
  use std::sync::Arc;

  const WORDS: [&str; 6] = ["rust", "fast", "lite", "index", "engine", "search"];
  const TAGS: [&str; 3] = ["a", "b", "c"];

  // ---------------------------------------------------------------- generation

  fn coord(rng: &mut Rng) -> f64 {
    rng.range(-8, 8) as f64 * 0.25
  }

  fn vector(rng: &mut Rng, dim: usize) -> Vec<f64> {
    if rng.chance(1, 40) {
      return vec![0.0; dim];
    }
    (0..dim).map(|_| coord(rng)).collect()
  }

  fn gen_filter(rng: &mut Rng) -> Value {
    match rng.below(4) {
      0 => json!({"KeywordEq": {"field": "tag", "value": *rng.pick(&TAGS)}}),
      1 => json!({"KeywordIn": {"field": "tag", "values": [*rng.pick(&TAGS), *rng.pick(&TAGS)]}}),
      2 => {
        let lo = rng.range(0, 6);
        json!({"I64Range": {"field": "n", "min": lo, "max": lo + rng.range(0, 6)}})
      }
      _ => json!({"Not": {"KeywordEq": {"field": "tag", "value": *rng.pick(&TAGS)}}}),
    }
  }

  fn gen_clause(rng: &mut Rng, fields: &[Value], tuning: bool) -> Value {
    let f = rng.pick(fields).clone();
    let dim = f["dim"].as_u64().unwrap() as usize;
    let mut c = json!({"type": "vector", "field": f["name"], "vector": vector(rng, dim)});
    match rng.below(5) {
      0 => {}
      1 | 2 => c["alpha"] = json!(0.0),
      _ => c["alpha"] = json!(*rng.pick(&[0.25, 0.5, 0.75, 1.0])),
    }
    if rng.chance(1, 2) {
      c["k"] = json!(*rng.pick(&[1usize, 2, 3, 5, 10, 50]));
    }
    if rng.chance(1, 3) {
      c["boost"] = json!(*rng.pick(&[0.5, 1.0, 1.5, 2.0, 0.0]));
    }
    if tuning {
      if rng.chance(1, 2) {
        c["candidate_size"] = json!(*rng.pick(&[1usize, 2, 3, 5, 8, 20, 100]));
      }
      if rng.chance(1, 2) {
        c["ef_search"] = json!(*rng.pick(&[1usize, 2, 4, 8, 40, 200]));
      }
    }
    c
  }

  /// one request plus what the generator knows about it (`vector_only`)
  fn gen_request(rng: &mut Rng, fields: &[Value]) -> Value {
    let tuning = rng.chance(1, 4);
    let shape = rng.below(20);
    let limit = *rng.pick(&[1usize, 2, 3, 5, 10, 10, 20]);
    let mut req = json!({"limit": limit, "return_stored": true});
    let vector_only;
    let mut text_words: Vec<&str> = Vec::new();
    let name;
    match shape {
      0..=6 => {
        name = "single";
        req["query"] = gen_clause(rng, fields, tuning);
        vector_only = true;
      }
      7..=9 => {
        name = "multi";
        let n = 2 + rng.below(2);
        let cl: Vec<Value> = (0..n).map(|_| gen_clause(rng, fields, tuning)).collect();
        req["query"] = match rng.below(3) {
          0 => json!({"type": "bool", "should": cl}),
          1 => json!({"type": "bool", "must": [cl[0]], "should": cl[1..]}),
          _ => json!({"type": "dis_max", "queries": cl}),
        };
        vector_only = true;
      }
      10..=12 => {
        name = "hybrid_legacy";
        let w = *rng.pick(&WORDS);
        text_words.push(w);
        let mut q = w.to_string();
        if rng.chance(1, 3) {
          // the same word twice is allowed again (the debug assertion it used to trip is repaired)
          let w2 = *rng.pick(&WORDS);
          text_words.push(w2);
          q = format!("{w} {w2}");
        }
        req["query"] = json!(q);
        let c = gen_clause(rng, fields, false);
        let alpha = *rng.pick(&[0.0, 0.25, 0.5, 0.75, 1.0]);
        req["vector_query"] = json!([c["field"], c["vector"], alpha]);
        vector_only = false;
      }
      13..=15 => {
        name = "hybrid_object";
        let w = *rng.pick(&WORDS);
        text_words.push(w);
        req["query"] = if rng.chance(1, 2) { json!(w) } else { json!({"type": "term", "field": "body", "value": w}) };
        let mut c = gen_clause(rng, fields, tuning);
        c.as_object_mut().unwrap().remove("type");
        req["vector_query"] = c;
        vector_only = false;
      }
      16..=17 => {
        name = "hybrid_bool";
        let w = *rng.pick(&WORDS);
        text_words.push(w);
        let n = 1 + rng.below(2);
        let cl: Vec<Value> = (0..n).map(|_| gen_clause(rng, fields, tuning)).collect();
        req["query"] = json!({"type": "bool", "must": [{"type": "term", "field": "body", "value": w}], "should": cl});
        vector_only = false;
      }
      18 => {
        // wrong dimension
        name = "wrong_dim";
        let mut c = gen_clause(rng, fields, false);
        let mut v = c["vector"].as_array().unwrap().clone();
        if v.len() > 1 && rng.chance(1, 2) {
          v.pop();
        } else {
          v.push(json!(0.5));
        }
        c["vector"] = json!(v);
        if rng.chance(1, 2) {
          req["query"] = c;
          vector_only = true;
        } else {
          req["query"] = json!("rust");
          c.as_object_mut().unwrap().remove("type");
          req["vector_query"] = c;
          vector_only = false;
        }
      }
      _ => {
        // other invalid parameters
        name = "invalid";
        let mut c = gen_clause(rng, fields, false);
        match rng.below(5) {
          0 => c["alpha"] = json!(1.5),
          1 => c["alpha"] = json!(-0.25),
          2 => c["boost"] = json!(-1.0),
          3 => c["field"] = json!("nosuch"),
          _ => {
            let cl: Vec<Value> = (0..9).map(|_| c.clone()).collect();
            c = json!({"type": "bool", "should": cl});
          }
        }
        req["query"] = c;
        vector_only = true;
      }
    }
    if rng.chance(3, 10) {
      req["filter"] = gen_filter(rng);
    }
    if rng.chance(3, 10) {
      req["vector_filter"] = gen_filter(rng);
    }
    if rng.chance(1, 6) {
      req["candidate_size"] = json!(*rng.pick(&[1usize, 3, 10, 50]));
    }
    req["execution"] = json!(if rng.chance(1, 5) { "wand" } else { "bm25" });
    let _ = text_words;
    json!({"shape": name, "vector_only": vector_only, "req": req})
  }

  fn gen_doc(rng: &mut Rng, id: usize, version: usize, fields: &[Value]) -> Value {
    let nw = 1 + rng.below(4);
    let body: Vec<&str> = (0..nw).map(|_| *rng.pick(&WORDS)).collect();
    let mut d = json!({"_id": format!("d{id}"), "ver": format!("d{id}#{version}"), "body": body.join(" "), "n": rng.range(0, 9)});
    if rng.chance(4, 5) {
      d["tag"] = json!(*rng.pick(&TAGS));
    }
    for f in fields {
      let name = f["name"].as_str().unwrap();
      let dim = f["dim"].as_u64().unwrap() as usize;
      match rng.below(20) {
        0..=2 => {}
        3 => d[name] = Value::Null,
        _ => d[name] = json!(vector(rng, dim)),
      }
    }
    d
  }

  fn gen_fields(rng: &mut Rng) -> Vec<Value> {
    let nf = if rng.chance(7, 10) { 1 } else { 2 };
    (0..nf)
      .map(|i| {
        let mut f = json!({"name": format!("v{i}"), "dim": 1 + rng.below(8), "metric": if rng.chance(1, 2) { "Cosine" } else { "L2" }});
        if rng.chance(2, 5) {
          f["hnsw"] = json!({"m": *rng.pick(&[1usize, 2, 3, 4, 6, 8, 16, 24, 48]), "ef_construction": *rng.pick(&[1usize, 2, 4, 8, 64, 100])});
        }
        f
      })
      .collect()
  }

  fn field_m(f: &Value) -> usize {
    f["hnsw"]["m"].as_u64().unwrap_or(16) as usize
  }
  fn field_efc(f: &Value) -> usize {
    f["hnsw"]["ef_construction"].as_u64().unwrap_or(64) as usize
  }

  pub fn gen(rng: &mut Rng, _tier: Tier, i: usize) -> Value {
    if i % 13 == 5 {
      // direct HnswIndex case
      let dim = 1 + rng.below(8);
      let m = *rng.pick(&[1usize, 2, 3, 4, 8, 16, 32]);
      let n = if rng.chance(1, 2) { 1 + rng.below(m + 1) } else { 1 + rng.below(70) };
      let store: Vec<Value> = (0..n).map(|_| if rng.chance(1, 8) { Value::Null } else { json!(vector(rng, dim)) }).collect();
      let searches: Vec<Value> = (0..6)
        .map(|_| json!({"q": vector(rng, dim), "k": *rng.pick(&[1usize, 2, 3, 5, 10, 20, 80]), "ef": *rng.pick(&[1usize, 2, 4, 8, 16, 40, 100])}))
        .collect();
      return json!({"kind": "hnsw", "dim": dim, "metric": if rng.chance(1, 2) { "Cosine" } else { "L2" },
        "m": m, "efc": *rng.pick(&[1usize, 2, 4, 8, 64]), "store": store, "searches": searches});
    }
    let fields = gen_fields(rng);
    if i % 29 == 7 {
      let f = &fields[0];
      let dim = f["dim"].as_u64().unwrap() as usize;
      let bad = if dim > 1 && rng.chance(1, 2) { dim - 1 } else { dim + 1 + rng.below(2) };
      let good = gen_doc(rng, 0, 0, &fields);
      let mut doc = gen_doc(rng, 1, 0, &fields);
      doc[f["name"].as_str().unwrap()] = json!(vector(rng, bad).iter().map(|x| x + 0.25).collect::<Vec<f64>>());
      return json!({"kind": "baddoc", "fields": fields, "good": good, "doc": doc});
    }
    let min_m = fields.iter().map(field_m).min().unwrap_or(16);
    // 65 %: every segment within the exactness regime (at most m documents per segment)
    let exact = rng.chance(13, 20);
    let ncommits = 1 + rng.below(4);
    let mut commits: Vec<Value> = Vec::new();
    let mut next_id = 0usize;
    let mut versions: BTreeMap<usize, usize> = BTreeMap::new();
    for ci in 0..ncommits {
      let cap = if exact { min_m.min(24) } else { (3 * min_m + 3).min(40) };
      let nd = 1 + rng.below(cap.max(1));
      let mut docs = Vec::new();
      let mut used: BTreeSet<usize> = BTreeSet::new();
      for _ in 0..nd {
        let id = if next_id > 0 && rng.chance(3, 20) {
          let id = rng.below(next_id);
          if used.contains(&id) {
            next_id += 1;
            next_id - 1
          } else {
            id
          }
        } else {
          next_id += 1;
          next_id - 1
        };
        used.insert(id);
        let v = versions.entry(id).or_insert(0);
        docs.push(gen_doc(rng, id, *v, &fields));
        *v += 1;
      }
      commits.push(json!({"add": docs}));
      if ci + 1 < ncommits || rng.chance(1, 2) {
        if next_id > 0 && rng.chance(2, 5) {
          let nd = 1 + rng.below(3);
          let ids: Vec<String> = (0..nd).map(|_| format!("d{}", rng.below(next_id))).collect();
          commits.push(json!({"delete": ids}));
        }
      }
    }
    let nreq = 4 + rng.below(5);
    let requests: Vec<Value> = (0..nreq).map(|_| gen_request(rng, &fields)).collect();
    let compact = rng.chance(1, 10);
    let mem = rng.chance(1, 8);
    let copy = !compact && !mem && rng.chance(1, 8);
    json!({"kind": "index", "fields": fields, "commits": commits, "requests": requests, "compact": compact, "copy": copy, "mem": mem})
  }

  // ---------------------------------------------------------------- helpers

  fn near(a: f64, b: f64) -> bool {
    if a == b {
      return true;
    }
    // sums of `f32::MIN` penalties overflow to -inf in the implementation
    if (a == f64::NEG_INFINITY && b <= -1e37) || (b == f64::NEG_INFINITY && a <= -1e37) {
      return true;
    }
    (a - b).abs() <= 1e-5 * 1f64.max(a.abs()).max(b.abs())
  }

  fn f64s(v: &Value) -> Vec<f64> {
    v.as_array().map(|a| a.iter().map(|x| x.as_f64().unwrap_or(f64::NAN)).collect()).unwrap_or_default()
  }

  /// exact similarity in f64: cosine (0 when either side is the zero vector) or −distance
  fn exact_sim(metric: &str, q: &[f64], v: &[f64]) -> f64 {
    if metric == "Cosine" {
      let dot: f64 = q.iter().zip(v).map(|(a, b)| a * b).sum();
      let nq: f64 = q.iter().map(|a| a * a).sum::<f64>().sqrt();
      let nv: f64 = v.iter().map(|a| a * a).sum::<f64>().sqrt();
      if nq == 0.0 || nv == 0.0 {
        0.0
      } else {
        dot / (nq * nv)
      }
    } else {
      -q.iter().zip(v).map(|(a, b)| (a - b) * (a - b)).sum::<f64>().sqrt()
    }
  }

  fn missing_score(metric: &str) -> f64 {
    if metric == "Cosine" {
      -1.0
    } else {
      f32::MIN as f64
    }
  }

  /// the harness's own reading of the four filter forms it generates
  fn passes(filter: &Value, d: &Value) -> bool {
    if filter.is_null() {
      return true;
    }
    if let Some(f) = filter.get("KeywordEq") {
      return d["tag"].as_str() == f["value"].as_str();
    }
    if let Some(f) = filter.get("KeywordIn") {
      let t = d["tag"].as_str();
      return t.is_some() && f["values"].as_array().map(|a| a.iter().any(|x| x.as_str() == t)).unwrap_or(false);
    }
    if let Some(f) = filter.get("I64Range") {
      let n = d["n"].as_i64().unwrap_or(i64::MIN);
      return n >= f["min"].as_i64().unwrap_or(0) && n <= f["max"].as_i64().unwrap_or(0);
    }
    if let Some(f) = filter.get("Not") {
      return !passes(f, d);
    }
    true
  }

  #[derive(Clone)]
  #[allow(dead_code)]
  struct Ver {
    ver: String,
    seg: usize,
    doc: usize,
    deleted: bool,
    json: Value,
  }

  impl Ver {
    fn vec(&self, field: &str) -> Option<Vec<f64>> {
      match self.json.get(field) {
        Some(Value::Array(_)) => Some(f64s(&self.json[field])),
        _ => None,
      }
    }
  }

  /// vector clauses of a request as the generator wrote them (query tree or vector_query)
  fn clauses_of(req: &Value) -> Vec<Value> {
    fn walk(n: &Value, out: &mut Vec<Value>) {
      match n["type"].as_str() {
        Some("vector") => out.push(n.clone()),
        Some("bool") => {
          for k in ["must", "should", "must_not"] {
            for c in n[k].as_array().cloned().unwrap_or_default() {
              walk(&c, out);
            }
          }
        }
        Some("dis_max") => {
          for c in n["queries"].as_array().cloned().unwrap_or_default() {
            walk(&c, out);
          }
        }
        _ => {}
      }
    }
    let mut out = Vec::new();
    walk(&req["query"], &mut out);
    if out.is_empty() {
      match &req["vector_query"] {
        Value::Array(a) if a.len() == 3 => out.push(json!({"field": a[0], "vector": a[1], "alpha": a[2]})),
        Value::Object(_) => out.push(req["vector_query"].clone()),
        _ => {}
      }
    }
    out
  }

  fn field_of<'a>(fields: &'a [Value], name: &str) -> Option<&'a Value> {
    fields.iter().find(|f| f["name"].as_str() == Some(name))
  }

  fn ver_of_hit(h: &Value) -> String {
    let v = &h["fields"]["ver"];
    match v {
      Value::String(s) => s.clone(),
      Value::Array(a) => a.first().and_then(|x| x.as_str()).unwrap_or("").to_string(),
      _ => String::new(),
    }
  }

  /// one search through the real reader; scores are kept bit for bit (`serde_json` would turn
  /// a non-finite `f32` into `null`)
  fn search(reader: &searchlite_core::api::IndexReader, req: &Value) -> idx::Outcome {
    let r = match idx::request(req) {
      Ok(r) => r,
      Err(e) => return idx::Outcome::Err(e),
    };
    match guarded(|| reader.search(&r)) {
      Ok(Ok(res)) => {
        let hits: Vec<Value> = res
          .hits
          .iter()
          .map(|h| json!({"doc_id": h.doc_id, "score": h.score as f64, "score_bits": h.score.to_bits(),
            "vector_score": h.vector_score.map(|x| x as f64), "vs_bits": h.vector_score.map(|x| x.to_bits()), "fields": h.fields}))
          .collect();
        idx::Outcome::Ok(json!({"hits": hits}))
      }
      Ok(Err(e)) => idx::Outcome::Err(e.to_string()),
      Err(p) => idx::Outcome::Panic(p),
    }
  }

  fn hscore(h: &Value) -> f64 {
    f32::from_bits(h["score_bits"].as_u64().unwrap_or(0x7fc00000) as u32) as f64
  }

  fn hvs(h: &Value) -> Option<f64> {
    h["vs_bits"].as_u64().map(|b| f32::from_bits(b as u32) as f64)
  }

  fn bits_f32(j: &Value) -> f64 {
    f32::from_bits(j["bits"].as_u64().unwrap_or(0) as u32) as f64
  }

  fn schema_json(fields: &[Value]) -> Value {
    json!({
      "doc_id_field": "_id",
      "text_fields": [{"name": "body", "analyzer": "default", "stored": true, "indexed": true, "nullable": false}],
      "keyword_fields": [
        {"name": "tag", "stored": true, "indexed": true, "fast": true, "nullable": true},
        {"name": "ver", "stored": true, "indexed": true, "fast": true, "nullable": false}],
      "numeric_fields": [{"name": "n", "i64": true, "fast": true, "stored": true, "nullable": false}],
      "nested_fields": [],
      "vector_fields": fields,
    })
  }

  fn model_schema(fields: &[Value]) -> Value {
    Value::Array(fields.iter().map(|f| json!({"name": f["name"], "dim": f["dim"], "metric": f["metric"], "m": field_m(f), "efc": field_efc(f)})).collect())
  }

  // ---------------------------------------------------------------- case kinds

  pub fn run_case(drv: &mut Driver, case: &Value, s: &mut Summary) {
    match case["kind"].as_str() {
      Some("hnsw") => run_hnsw(drv, case, s),
      Some("baddoc") => run_baddoc(case, s),
      Some("index") => run_index(drv, case, s),
      _ => s.notes.push(format!("C29: unknown case kind {}", case["kind"])),
    }
  }

  /// `HnswIndex` on a store built directly, against `buildGraph` / `search`
  fn run_hnsw(drv: &mut Driver, case: &Value, s: &mut Summary) {
    let dim = case["dim"].as_u64().unwrap_or(1) as usize;
    let metric_s = case["metric"].as_str().unwrap_or("L2");
    let metric = if metric_s == "Cosine" { VectorMetric::Cosine } else { VectorMetric::L2 };
    let m = case["m"].as_u64().unwrap_or(16) as usize;
    let efc = case["efc"].as_u64().unwrap_or(64) as usize;
    let raw = case["store"].as_array().cloned().unwrap_or_default();
    let mut offsets = Vec::new();
    let mut values: Vec<f32> = Vec::new();
    let mut present = 0u32;
    for v in &raw {
      if v.is_null() {
        offsets.push(u32::MAX);
      } else {
        let mut x: Vec<f32> = f64s(v).iter().map(|a| *a as f32).collect();
        if metric_s == "Cosine" {
          normalize_in_place(&mut x);
        }
        offsets.push(present);
        present += 1;
        values.extend(x);
      }
    }
    let store = Arc::new(VectorStore::new(dim, metric, offsets, values));
    let built = guarded(|| {
      let mut index = HnswIndex::new(store.clone(), HnswParams { m, ef_construction: efc });
      for id in 0..raw.len() {
        if store.vector(id as u32).is_some() {
          index.add_vector(id as u32);
        }
      }
      index
    });
    let index = match built {
      Ok(i) => i,
      Err(p) => {
        s.case(case, true);
        s.fail("hnsw.build-panic", "HnswIndex construction panicked", case, json!({"panic": p}));
        return;
      }
    };
    s.count("kind.hnsw");
    let g = serde_json::to_value(index.graph()).unwrap_or(Value::Null);
    let mg = drv.call("C29", json!({"op": "graph", "metric": metric_s, "store": raw, "m": m, "efc": efc}));
    let same = mg["ok"] == json!(true) && mg["entry"] == g["entry"] && mg["neighbors"] == g["neighbors"];
    if !same {
      s.disagree("hnsw.graph", case, json!({"entry": g["entry"], "neighbors": g["neighbors"]}), mg.clone());
    }
    s.traces_validated += 1;
    let n_present = present as usize;
    s.count(if n_present <= m { "hnsw.store<=m" } else { "hnsw.store>m" });
    for sr in case["searches"].as_array().cloned().unwrap_or_default() {
      let mut q: Vec<f32> = f64s(&sr["q"]).iter().map(|a| *a as f32).collect();
      if metric_s == "Cosine" {
        normalize_in_place(&mut q);
      }
      let k = sr["k"].as_u64().unwrap_or(1) as usize;
      let ef = sr["ef"].as_u64().unwrap_or(1) as usize;
      let res = index.search(&q, k, ef);
      let sub = json!({"kind": "hnsw", "dim": dim, "metric": metric_s, "m": m, "efc": efc, "store": raw, "searches": [sr]});
      s.case(&sub, n_present >= 2);
      let mr = drv.call("C29", json!({"op": "hnsw_search", "metric": metric_s, "store": raw, "m": m, "efc": efc, "q": sr["q"], "k": k, "ef": ef}));
      let imp: Vec<(u64, u32)> = res.iter().map(|(id, sc)| (*id as u64, sc.to_bits())).collect();
      let model: Vec<(u64, u32)> = mr["hits"].as_array().map(|a| a.iter().map(|h| (h["id"].as_u64().unwrap_or(u64::MAX), h["score"]["bits"].as_u64().unwrap_or(0) as u32)).collect()).unwrap_or_default();
      if mr["ok"] != json!(true) || imp.iter().map(|x| x.0).collect::<Vec<_>>() != model.iter().map(|x| x.0).collect::<Vec<_>>() {
        s.disagree("hnsw.search", &sub, json!(imp), mr.clone());
      } else if imp != model {
        s.count("hnsw.search.score-bits-differ");
        if imp.iter().zip(&model).any(|(a, b)| !near(f32::from_bits(a.1) as f64, f32::from_bits(b.1) as f64)) {
          s.disagree("hnsw.search.score", &sub, json!(imp), mr.clone());
        }
      } else {
        s.count("hnsw.search.bit-exact");
      }
      // finder: at most m vectors ⇒ exact top-k whenever ef (= max(ef, k)) covers the store
      if n_present <= m {
        let qq = f64s(&sr["q"]);
        let mut exact: Vec<(f64, usize)> = raw.iter().enumerate().filter(|(_, v)| !v.is_null()).map(|(i, v)| (exact_sim(metric_s, &qq, &f64s(v)), i)).collect();
        exact.sort_by(|a, b| b.0.partial_cmp(&a.0).unwrap());
        let want = k.min(exact.len());
        let ok = res.len() == want && res.iter().enumerate().all(|(i, (_, sc))| near(*sc as f64, exact[i].0));
        if !ok {
          let sig = if ef.max(k) < n_present { "exact-nn.ef-below-segment-size" } else { "exact-nn.hnsw" };
          s.fail(sig, "HnswIndex::search on a store with at most m vectors does not return the exact top-k", &sub,
            json!({"returned": res.iter().map(|(i, sc)| json!([i, sc])).collect::<Vec<_>>(), "exact": exact.iter().take(want).map(|(sc, i)| json!([i, sc])).collect::<Vec<_>>(), "ef": ef, "k": k, "vectors": n_present, "m": m}));
        }
      }
    }
  }

  /// a document whose vector has the wrong dimension must be rejected
  fn run_baddoc(case: &Value, s: &mut Summary) {
    let fields = case["fields"].as_array().cloned().unwrap_or_default();
    let dir = scratch();
    let idx = match idx::create(dir.path(), &schema_json(&fields), false) {
      Ok(i) => i,
      Err(e) => {
        s.notes.push(format!("C29 baddoc: create failed: {e}"));
        return;
      }
    };
    s.count("kind.baddoc");
    s.case(case, true);
    if let Err(e) = idx::add_commit(&idx, &[case["good"].clone()]) {
      s.notes.push(format!("C29 baddoc: good doc rejected: {e}"));
      return;
    }
    let r = guarded(|| idx::add_commit(&idx, &[case["doc"].clone()]));
    match r {
      Ok(Err(e)) => {
        s.count(if e.starts_with("add:") { "baddoc.rejected-at-add" } else { "baddoc.rejected-at-commit" });
      }
      Ok(Ok(())) => s.fail("dim.document-accepted", "a document whose vector has the wrong dimension was added and committed", case, json!({"result": "ok"})),
      Err(p) => s.fail("dim.document-panic", "a document whose vector has the wrong dimension panicked", case, json!({"panic": p})),
    }
  }

  struct Built {
    segs: Vec<Vec<Ver>>,
  }

  /// replay the commits on the real index and track which version lives where
  fn build(idx: &searchlite_core::api::Index, commits: &[Value]) -> Result<Built, String> {
    let mut segs: Vec<Vec<Ver>> = Vec::new();
    for c in commits {
      if let Some(docs) = c["add"].as_array() {
        idx::add_commit(idx, docs)?;
        // the writer keeps the pending documents of a commit in a map keyed by id: a segment
        // holds them in byte order of `_id`
        let mut docs: Vec<Value> = docs.clone();
        docs.sort_by(|a, b| a["_id"].as_str().unwrap_or("").cmp(b["_id"].as_str().unwrap_or("")));
        let docs = &docs;
        let seg = segs.len();
        for d in docs {
          let id = d["_id"].as_str().unwrap_or("");
          for sg in segs.iter_mut() {
            for v in sg.iter_mut() {
              if v.json["_id"].as_str() == Some(id) {
                v.deleted = true;
              }
            }
          }
        }
        let vs = docs.iter().enumerate().map(|(i, d)| Ver { ver: d["ver"].as_str().unwrap_or("").to_string(), seg, doc: i, deleted: false, json: d.clone() }).collect();
        segs.push(vs);
      } else if let Some(ids) = c["delete"].as_array() {
        let ids: Vec<String> = ids.iter().filter_map(|x| x.as_str().map(|s| s.to_string())).collect();
        idx::delete_commit(idx, &ids)?;
        for sg in segs.iter_mut() {
          for v in sg.iter_mut() {
            if ids.iter().any(|i| v.json["_id"].as_str() == Some(i)) {
              v.deleted = true;
            }
          }
        }
      }
    }
    Ok(Built { segs })
  }

  fn run_index(drv: &mut Driver, case: &Value, s: &mut Summary) {
    let fields = case["fields"].as_array().cloned().unwrap_or_default();
    let commits = case["commits"].as_array().cloned().unwrap_or_default();
    let mem = case["mem"].as_bool().unwrap_or(false);
    let dir = scratch();
    let idx = match idx::create(dir.path(), &schema_json(&fields), mem) {
      Ok(i) => i,
      Err(e) => {
        s.notes.push(format!("C29: create failed: {e}"));
        return;
      }
    };
    let built = match guarded(|| build(&idx, &commits)) {
      Ok(Ok(b)) => b,
      Ok(Err(e)) => {
        s.case(case, false);
        s.disagree("build", case, json!({"error": e}), json!("the model accepts every generated document"));
        return;
      }
      Err(p) => {
        s.case(case, true);
        s.fail("build.panic", "indexing documents with vectors panicked", case, json!({"panic": p}));
        return;
      }
    };
    s.count("kind.index");
    s.count(if mem { "storage.memory" } else { "storage.fs" });
    s.add("segments", built.segs.len() as u64);
    // layout assumption: one segment per add-commit, in order, documents in add order
    let manifest = serde_json::to_value(idx.manifest()).unwrap_or(Value::Null);
    let msegs = manifest["segments"].as_array().cloned().unwrap_or_default();
    let layout_ok = msegs.len() == built.segs.len()
      && msegs.iter().zip(&built.segs).all(|(m, sg)| {
        m["doc_count"].as_u64() == Some(sg.len() as u64) && {
          let mut del: Vec<u64> = m["deleted_docs"].as_array().map(|a| a.iter().filter_map(|x| x.as_u64()).collect()).unwrap_or_default();
          del.sort();
          let mine: Vec<u64> = sg.iter().filter(|v| v.deleted).map(|v| v.doc as u64).collect();
          del == mine
        }
      });
    if !layout_ok {
      s.disagree("layout", case, json!({"segments": msegs.iter().map(|m| json!({"doc_count": m["doc_count"], "deleted_docs": m["deleted_docs"]})).collect::<Vec<_>>()}),
        json!(built.segs.iter().map(|sg| json!({"doc_count": sg.len(), "deleted": sg.iter().filter(|v| v.deleted).map(|v| v.doc).collect::<Vec<_>>()})).collect::<Vec<_>>()));
      return;
    }
    // regime: every segment holds at most m vectors of every field
    let mut exact_regime = true;
    let mut max_seg_vectors: BTreeMap<String, usize> = BTreeMap::new();
    for f in &fields {
      let name = f["name"].as_str().unwrap_or("");
      for sg in &built.segs {
        let n = sg.iter().filter(|v| v.vec(name).is_some()).count();
        let e = max_seg_vectors.entry(name.to_string()).or_insert(0);
        *e = (*e).max(n);
        if n > field_m(f) {
          exact_regime = false;
        }
      }
    }
    s.count(if exact_regime { "regime.every-segment<=m" } else { "regime.some-segment>m" });
    // graph files written by the real segment writer vs the model's construction
    if !mem {
      for (si, m) in msegs.iter().enumerate() {
        let Some(vdir) = m["paths"]["vector_dir"].as_str() else { continue };
        let vdir = if std::path::Path::new(vdir).is_absolute() { std::path::PathBuf::from(vdir) } else { dir.path().join(vdir) };
        for f in &fields {
          let name = f["name"].as_str().unwrap_or("");
          let Ok(txt) = std::fs::read_to_string(vdir.join(format!("{name}.hnsw"))) else {
            s.count("graph.file-missing");
            continue;
          };
          let g: Value = serde_json::from_str(&txt).unwrap_or(Value::Null);
          let store: Vec<Value> = built.segs[si].iter().map(|v| v.vec(name).map(|x| json!(x)).unwrap_or(Value::Null)).collect();
          let mg = drv.call("C29", json!({"op": "graph", "metric": f["metric"], "store": store, "m": field_m(f), "efc": field_efc(f)}));
          s.traces_validated += 1;
          if mg["ok"] != json!(true) || mg["entry"] != g["entry"] || mg["neighbors"] != g["neighbors"] {
            s.disagree("graph", &json!({"field": f, "store": store}), json!({"entry": g["entry"], "neighbors": g["neighbors"]}), mg);
          } else {
            s.count("graph.equal");
          }
        }
      }
    }
    let reader = match idx.reader() {
      Ok(r) => r,
      Err(e) => {
        s.disagree("reader", case, json!({"error": e.to_string()}), json!("ok"));
        return;
      }
    };
    let requests = case["requests"].as_array().cloned().unwrap_or_default();
    let mut pre: Vec<Option<Vec<(String, f64)>>> = Vec::new();
    let mut model_reqs: Vec<Value> = Vec::new();
    for rq in &requests {
      let mut mreq = Value::Null;
      let r = run_request(drv, s, case, &fields, &built, &reader, rq, exact_regime, &mut mreq);
      pre.push(r);
      model_reqs.push(mreq);
    }
    let sub_of = |rq: &Value, extra: &str| -> Value {
      let mut c = json!({"kind": "index", "fields": fields, "commits": commits, "requests": [rq], "compact": false, "copy": false, "mem": mem});
      c[extra] = json!(true);
      c
    };
    if case["compact"].as_bool().unwrap_or(false) {
      s.count("compact.run");
      // correspondence: is the call refused?  (model: more than one segment and a vector field)
      let segs_min: Vec<Value> = built.segs.iter().map(|sg| Value::Array(sg.iter().map(|v| json!({"deleted": v.deleted})).collect())).collect();
      let mc = drv.call("C29", json!({"op": "compact", "schema": model_schema(&fields), "segments": segs_min}));
      match guarded(|| idx.compact()) {
        Ok(res) => {
          let refused = res.is_err();
          s.count(if refused { "compact.refused" } else { "compact.done" });
          if mc["ok"] != json!(true) || (mc["outcome"] == json!("refused")) != refused {
            s.disagree("compact.outcome", case, json!({"refused": refused, "error": res.as_ref().err().map(|e| e.to_string())}), mc.clone());
          }
          match idx.reader() {
            Ok(reader2) => recheck(drv, s, &reader2, &requests, &pre, &model_reqs, true, built.segs.len() > 1, "compact", &sub_of),
            Err(e) => s.fail("compact.reader-error", "no reader after compact() of an index with vector fields", case, json!({"error": e.to_string()})),
          }
        }
        Err(p) => s.fail("compact.panic", "compact() panicked on an index with vector fields", case, json!({"panic": p})),
      }
    } else if case["copy"].as_bool().unwrap_or(false) && !mem {
      // a copied index directory must be self-contained, vector files included: copy, remove
      // the original, search the copy
      s.count("copy.run");
      let dir2 = scratch();
      let dst = dir2.path().join("copy");
      if let Err(e) = copy_dir(dir.path(), &dst) {
        s.notes.push(format!("C29: copying the index directory failed: {e}"));
        return;
      }
      drop(reader);
      drop(idx);
      let _ = std::fs::remove_dir_all(dir.path());
      let opened = guarded(|| idx::open(&dst).and_then(|i| i.reader().map(|r| (i, r)).map_err(|e| e.to_string())));
      match opened {
        Ok(Ok((_i2, reader2))) => recheck(drv, s, &reader2, &requests, &pre, &model_reqs, false, true, "copy", &sub_of),
        Ok(Err(e)) => s.fail("copy.vector-dir-not-reanchored", "a copied index with vector fields cannot be opened once the original directory is gone", &sub_of(&requests.first().cloned().unwrap_or(Value::Null), "copy"), json!({"error": e})),
        Err(p) => s.fail("copy.panic", "opening a copied index with vector fields panicked", case, json!({"panic": p})),
      }
    }
  }

  fn copy_dir(src: &std::path::Path, dst: &std::path::Path) -> std::io::Result<()> {
    std::fs::create_dir_all(dst)?;
    for e in std::fs::read_dir(src)? {
      let e = e?;
      let to = dst.join(e.file_name());
      if e.file_type()?.is_dir() {
        copy_dir(&e.path(), &to)?;
      } else {
        std::fs::copy(e.path(), &to)?;
      }
    }
    Ok(())
  }

  /// re-run the vector-only requests on a second reader (after `compact()` / on a copy of the
  /// directory): the hits must be the ones seen before (finder) and the ones of the model
  #[allow(clippy::too_many_arguments)]
  fn recheck(drv: &mut Driver, s: &mut Summary, reader2: &searchlite_core::api::IndexReader, requests: &[Value], pre: &[Option<Vec<(String, f64)>>], model_reqs: &[Value], compacted: bool, strict: bool, tag: &str, sub_of: &dyn Fn(&Value, &str) -> Value) {
    for ((rq, before), mreq) in requests.iter().zip(pre).zip(model_reqs) {
      let Some(before) = before else { continue };
      if before.is_empty() || !rq["vector_only"].as_bool().unwrap_or(false) {
        continue;
      }
      let sub = sub_of(rq, tag);
      let after = match search(reader2, &rq["req"]) {
        idx::Outcome::Ok(v) => v["hits"].as_array().cloned().unwrap_or_default().iter().map(|h| (ver_of_hit(h), hscore(h))).collect::<Vec<_>>(),
        o => {
          let sig = if tag == "copy" { "copy.vector-dir-not-reanchored".to_string() } else { format!("{tag}.search-error") };
          s.fail(&sig, "a vector request that succeeded before fails on the second reader", &sub, o.to_json());
          continue;
        }
      };
      if !mreq.is_null() {
        let mut m2 = mreq.clone();
        if compacted {
          m2["compacted"] = json!(true);
        }
        let mr = drv.call("C29", m2);
        let mn = mr["hits"].as_array().map(|a| a.len());
        if mr["outcome"] != json!("hits") || mn != Some(after.len()) {
          s.disagree(&format!("{tag}.search"), &sub, json!(after), mr);
        } else {
          s.count(&format!("{tag}.model-agrees"));
        }
      }
      let same = after.len() == before.len() && after.iter().zip(before).all(|(a, b)| near(a.1, b.1)) && {
        let mut x: Vec<&String> = after.iter().map(|a| &a.0).collect();
        let mut y: Vec<&String> = before.iter().map(|a| &a.0).collect();
        x.sort();
        y.sort();
        x == y
      };
      if !same && strict {
        let sig = match (tag, after.is_empty()) {
          ("copy", _) => "copy.vector-dir-not-reanchored",
          (_, true) => "compact.vectors-dropped",
          _ => "compact.vector-results-changed",
        };
        s.fail(sig, "a vector-only request returns different hits on the second reader (after compact() / on the copied directory)", &sub, json!({"before": before, "after": after}));
      } else {
        s.count(&format!("{tag}.same-results"));
      }
    }
  }

  /// effective per-clause knobs as documented (`k` defaults to `limit`, oversampling
  /// `candidate_size` defaults to twice max(k, limit, 10), beam defaults to max(40, that));
  /// used only to *name* an exactness failure, never to detect one
  fn knobs(c: &Value, limit: usize) -> (usize, usize, usize) {
    let k = c["k"].as_u64().map(|x| x as usize).unwrap_or(limit).max(1);
    let cs = c["candidate_size"].as_u64().map(|x| x as usize).unwrap_or(k.max(limit).max(10) * 2).max(k);
    let ef = c["ef_search"].as_u64().map(|x| x as usize).unwrap_or(cs.max(40));
    (k, cs, ef)
  }

  /// runs one request: correspondence + finder; returns the implementation's (ver, score) list
  #[allow(clippy::too_many_arguments)]
  fn run_request(drv: &mut Driver, s: &mut Summary, case: &Value, fields: &[Value], built: &Built, reader: &searchlite_core::api::IndexReader, rq: &Value, exact_regime: bool, model_req_out: &mut Value) -> Option<Vec<(String, f64)>> {
    let req = &rq["req"];
    let shape = rq["shape"].as_str().unwrap_or("?");
    let vector_only = rq["vector_only"].as_bool().unwrap_or(false);
    let limit = req["limit"].as_u64().unwrap_or(10) as usize;
    s.count(&format!("shape.{shape}"));
    let clauses = clauses_of(req);
    let all: Vec<&Ver> = built.segs.iter().flatten().collect();
    let sub = json!({"kind": "index", "fields": fields, "commits": case["commits"], "requests": [rq], "compact": false, "mem": case["mem"]});

    // text side of a hybrid request, from the implementation itself: same request with
    // every vector clause switched to alpha = 1 (pure BM25), unbounded limit
    let mut bm25: BTreeMap<String, f64> = BTreeMap::new();
    let mut text_ok = true;
    if !vector_only {
      let mut t = req.clone();
      fn set_alpha(n: &mut Value) {
        if n["type"].as_str() == Some("vector") {
          n["alpha"] = json!(1.0);
        }
        for k in ["must", "should", "must_not", "queries"] {
          if let Some(a) = n.get_mut(k).and_then(|x| x.as_array_mut()) {
            for c in a.iter_mut() {
              set_alpha(c);
            }
          }
        }
      }
      set_alpha(&mut t["query"]);
      match &mut t["vector_query"] {
        Value::Array(a) if a.len() == 3 => a[2] = json!(1.0),
        Value::Object(o) => {
          o.insert("alpha".to_string(), json!(1.0));
        }
        _ => {}
      }
      t["limit"] = json!(1000);
      t.as_object_mut().unwrap().remove("candidate_size");
      t.as_object_mut().unwrap().remove("vector_filter");
      match search(reader, &t) {
        idx::Outcome::Ok(v) => {
          for h in v["hits"].as_array().cloned().unwrap_or_default() {
            bm25.insert(ver_of_hit(&h), hscore(&h));
          }
        }
        _ => text_ok = false,
      }
    }

    let out = search(reader, req);
    let imp_hits: Vec<Value> = out.ok().map(|v| v["hits"].as_array().cloned().unwrap_or_default()).unwrap_or_default();
    let imp_list: Vec<(String, f64)> = imp_hits.iter().map(|h| (ver_of_hit(h), hscore(h))).collect();

    // ---------------------------------------------------------------- correspondence
    let filter = &req["filter"];
    let vfilter = &req["vector_filter"];
    let segs_json: Vec<Value> = built
      .segs
      .iter()
      .map(|sg| {
        Value::Array(
          sg.iter()
            .map(|v| {
              let mut vecs = serde_json::Map::new();
              for f in fields {
                let name = f["name"].as_str().unwrap_or("");
                if let Some(x) = v.vec(name) {
                  vecs.insert(name.to_string(), json!(x));
                }
              }
              json!({"deleted": v.deleted, "pass_filter": passes(filter, &v.json), "pass_vfilter": passes(vfilter, &v.json),
                "text_match": bm25.contains_key(&v.ver), "bm25": bm25.get(&v.ver), "vecs": vecs})
            })
            .collect(),
        )
      })
      .collect();
    let mreq = json!({"query": req["query"], "vector_query": req["vector_query"], "limit": limit, "candidate_size": req["candidate_size"]});
    let full_mreq = json!({"op": "search", "schema": model_schema(fields), "segments": segs_json, "req": mreq});
    if vector_only {
      *model_req_out = full_mreq.clone();
    }
    let mr = drv.call("C29", full_mreq);
    let model_class = mr["outcome"].as_str().unwrap_or("?").to_string();
    s.count(&format!("model.{model_class}"));
    let mut nontrivial = false;
    match (&out, model_class.as_str()) {
      (idx::Outcome::Panic(p), _) => {
        s.fail("search.panic", "a vector request panicked", &sub, json!({"panic": p}));
      }
      (idx::Outcome::Err(_), "error") => {
        s.count(&format!("rejected.{}", mr["err"].as_str().unwrap_or("?")));
      }
      (idx::Outcome::Ok(_), "text_only") => {
        if imp_hits.iter().any(|h| !h["vector_score"].is_null()) {
          s.disagree("text-only", &sub, json!(imp_hits), mr.clone());
        }
      }
      (idx::Outcome::Ok(_), "hits") if text_ok => {
        let mh = mr["hits"].as_array().cloned().unwrap_or_default();
        let mlist: Vec<(String, f64, Option<f64>, u64, Option<u64>)> = mh
          .iter()
          .map(|h| {
            let sg = h["seg"].as_u64().unwrap_or(0) as usize;
            let d = h["doc"].as_u64().unwrap_or(0) as usize;
            let ver = built.segs.get(sg).and_then(|x| x.get(d)).map(|v| v.ver.clone()).unwrap_or_default();
            (ver, bits_f32(&h["score"]), if h["vector_score"].is_null() { None } else { Some(bits_f32(&h["vector_score"])) },
             h["score"]["bits"].as_u64().unwrap_or(0), h["vector_score"]["bits"].as_u64())
          })
          .collect();
        let mut ok = mlist.len() == imp_hits.len();
        let mut bit_exact = ok;
        if ok {
          for (i, h) in imp_hits.iter().enumerate() {
            let isc = hscore(h);
            let ivs = hvs(h);
            let (mver, msc, mvs, mbits, mvbits) = &mlist[i];
            if h["score_bits"].as_u64() != Some(*mbits) || h["vs_bits"].as_u64() != *mvbits {
              bit_exact = false;
            }
            if !near(isc, *msc) || ivs.is_some() != mvs.is_some() || !ivs.zip(*mvs).map(|(a, b)| near(a, b)).unwrap_or(true) {
              ok = false;
            }
            if ver_of_hit(h) != *mver {
              // same position may hold a different document only inside a tie group
              let tie = mlist.iter().any(|x| x.0 == ver_of_hit(h) && near(x.1, isc));
              bit_exact = false;
              if !tie {
                ok = false;
              }
            }
          }
        }
        if !ok {
          s.disagree("search", &sub, json!(imp_hits.iter().map(|h| json!({"ver": ver_of_hit(h), "score": h["score"], "vector_score": h["vector_score"]})).collect::<Vec<_>>()),
            json!(mlist.iter().map(|x| json!({"ver": x.0, "score": x.1, "vector_score": x.2})).collect::<Vec<_>>()));
        } else {
          s.count(if bit_exact { "search.bit-exact" } else { "search.within-tolerance" });
        }
      }
      (idx::Outcome::Ok(_), "hits") => s.count("search.text-side-unavailable"),
      (o, _) => {
        s.disagree("outcome-class", &sub, o.to_json(), mr.clone());
      }
    }

    // ---------------------------------------------------------------- finder (implementation alone)
    // wrong dimension ⇒ rejected
    let wrong_dim = clauses.iter().any(|c| field_of(fields, c["field"].as_str().unwrap_or("")).map(|f| f["dim"].as_u64() != Some(f64s(&c["vector"]).len() as u64)).unwrap_or(false));
    if wrong_dim {
      nontrivial = true;
      if let idx::Outcome::Ok(_) = out {
        s.fail("dim.request-accepted", "a vector query whose dimension differs from the field's was accepted", &sub, json!({"hits": imp_hits.len()}));
      }
    }
    let valid = shape != "invalid" && shape != "wrong_dim";
    if let (idx::Outcome::Ok(_), true) = (&out, valid && (vector_only || text_ok)) {
      let by_ver: BTreeMap<&str, &Ver> = all.iter().map(|v| (v.ver.as_str(), *v)).collect();
      let plan_dropped = !vector_only && clauses.iter().all(|c| c["alpha"].as_f64().unwrap_or(0.5) >= 1.0);
      // eligibility of a version for clause c
      let elig = |v: &Ver, c: &Value| -> bool {
        !v.deleted && v.vec(c["field"].as_str().unwrap_or("")).is_some() && passes(filter, &v.json) && passes(vfilter, &v.json) && (vector_only || bm25.contains_key(&v.ver))
      };
      let clause_score = |v: &Ver, c: &Value| -> f64 {
        let fname = c["field"].as_str().unwrap_or("");
        let f = field_of(fields, fname).unwrap();
        exact_sim(f["metric"].as_str().unwrap_or("L2"), &f64s(&c["vector"]), &v.vec(fname).unwrap_or_default()) * c["boost"].as_f64().unwrap_or(1.0)
      };
      let blend = |bm: f64, c: &Value, vs: Option<f64>| -> f64 {
        let f = field_of(fields, c["field"].as_str().unwrap_or("")).unwrap();
        let a = c["alpha"].as_f64().unwrap_or(0.5);
        let vec = vs.unwrap_or(missing_score(f["metric"].as_str().unwrap_or("L2")));
        if a >= 1.0 {
          bm
        } else if a <= 0.0 {
          vec
        } else {
          a * bm + (1.0 - a) * vec
        }
      };
      // the text side only hands the best text hits of each segment to the blend (at least
      // `limit + 1` per segment): a document that is not certainly among them may be blended
      // with a text score of 0
      let mut text_top: BTreeSet<&str> = BTreeSet::new();
      let mut text_cut = false;
      for sg in &built.segs {
        let mut th: Vec<(f64, &str)> = sg.iter().filter_map(|v| bm25.get(&v.ver).map(|b| (*b, v.ver.as_str()))).collect();
        th.sort_by(|a, b| b.0.partial_cmp(&a.0).unwrap_or(std::cmp::Ordering::Equal));
        if th.len() > limit {
          text_cut = true;
        }
        // guaranteed to be handed over = within the best `limit + 1` whatever the order among
        // equal text scores is (the implementation breaks ties by doc id): at most `limit`
        // other text hits of the segment score at least as high
        for (b, ver) in th.iter() {
          let at_least = th.iter().filter(|(b2, v2)| v2 != ver && b2 >= b).count();
          if at_least <= limit {
            text_top.insert(*ver);
          }
        }
      }
      let n_ineligible = all.iter().filter(|v| clauses.iter().any(|c| v.vec(c["field"].as_str().unwrap_or("")).is_some() && !elig(v, c)) || clauses.iter().all(|c| v.vec(c["field"].as_str().unwrap_or("")).is_none())).count();
      let n_eligible = all.iter().filter(|v| clauses.iter().any(|c| elig(v, c))).count();
      let mut seen: BTreeSet<String> = BTreeSet::new();
      let mut prev = f64::INFINITY;
      let mut any_vs = false;
      for h in &imp_hits {
        let ver = ver_of_hit(h);
        let sc = hscore(h);
        let vs = hvs(h);
        let obs = json!({"hit": {"ver": ver, "doc_id": h["doc_id"], "score": sc, "vector_score": vs}});
        if !seen.insert(ver.clone()) {
          s.fail("hits.duplicate", "the same document version is returned twice", &sub, obs.clone());
        }
        if sc > prev && !near(sc, prev) {
          s.fail("order.score-not-descending", "hits are not ordered by descending blended score", &sub, obs.clone());
        }
        prev = sc;
        let Some(v) = by_ver.get(ver.as_str()) else {
          s.fail("hits.unknown-version", "a hit carries stored fields of no indexed version", &sub, obs);
          continue;
        };
        if v.deleted {
          s.fail("hits.deleted", "a deleted or superseded document version is returned", &sub, obs.clone());
          continue;
        }
        if !passes(filter, &v.json) {
          s.fail("hits.filter", "a hit does not pass `filter`", &sub, obs.clone());
          continue;
        }
        if plan_dropped {
          if vs.is_some() {
            s.fail("score.vector-on-text-only", "alpha = 1 everywhere but a vector_score is reported", &sub, obs.clone());
          }
          continue;
        }
        let el: Vec<&Value> = clauses.iter().filter(|c| elig(v, c)).collect();
        let bm = bm25.get(&ver).copied().unwrap_or(0.0);
        let bm_opts: Vec<f64> = if bm != 0.0 && !text_top.contains(ver.as_str()) { vec![bm, 0.0] } else { vec![bm] };
        match vs {
          Some(vs) => {
            any_vs = true;
            if el.is_empty() {
              let why = if clauses.iter().all(|c| v.vec(c["field"].as_str().unwrap_or("")).is_none()) {
                "hits.no-vector"
              } else if !passes(vfilter, &v.json) {
                "hits.vector-filter"
              } else {
                "hits.no-text-match"
              };
              s.fail(why, "a hit with a vector_score is not an eligible vector candidate of any clause", &sub, obs.clone());
              continue;
            }
            // vector_score = Σ over the clauses that kept the document (all eligible ones
            // unless a clause's candidate list was cut) of exact similarity × boost
            let mut found = false;
            let n = el.len();
            for (mask, bm) in (1..(1u32 << n)).rev().flat_map(|m| bm_opts.iter().map(move |b| (m, *b))) {
              let sum: f64 = (0..n).filter(|i| mask >> i & 1 == 1).map(|i| clause_score(v, el[i])).sum();
              if !near(sum, vs) {
                continue;
              }
              let total: f64 = clauses
                .iter()
                .map(|c| {
                  let pos = el.iter().position(|e| std::ptr::eq(*e, c));
                  let cvs = pos.filter(|i| mask >> i & 1 == 1).map(|_| clause_score(v, c));
                  blend(bm, c, cvs)
                })
                .sum::<f64>()
                / clauses.len().max(1) as f64;
              if near(total, sc) {
                found = true;
                if mask != (1u32 << n) - 1 {
                  s.count("finder.partial-clause-set");
                }
                if bm == 0.0 && bm_opts.len() > 1 {
                  s.count("finder.text-score-dropped-outside-segment-top-limit");
                }
                break;
              }
            }
            if !found {
              let full: f64 = el.iter().map(|c| clause_score(v, c)).sum();
              if !near(full, vs) && n == 1 {
                s.fail("score.vector", "vector_score differs from exact similarity × boost", &sub, json!({"hit": obs["hit"], "expected_vector_score": full}));
              } else if n == 1 || near(full, vs) {
                let total: f64 = clauses.iter().map(|c| blend(bm, c, if el.iter().any(|e| std::ptr::eq(*e, c)) { Some(clause_score(v, c)) } else { None })).sum::<f64>() / clauses.len().max(1) as f64;
                s.fail("score.blend", "score differs from the documented blend of text and vector scores", &sub, json!({"hit": obs["hit"], "bm25": bm, "expected_score": total}));
              } else {
                s.fail("score.vector-multi", "vector_score is not the sum of exact similarity × boost over any set of matching clauses", &sub, json!({"hit": obs["hit"], "expected_full_sum": full}));
              }
            }
          }
          None => {
            if vector_only {
              s.fail("hits.no-vector-score", "a vector-only request returned a hit without vector_score", &sub, obs.clone());
            } else if !bm25.contains_key(&ver) {
              s.fail("hits.no-text-match", "a hybrid hit without vector_score is not a text hit", &sub, obs.clone());
            } else if clauses.iter().all(|c| c["alpha"].as_f64().unwrap_or(0.5) <= 0.0) {
              s.fail("hits.text-only-with-alpha-0", "alpha = 0 everywhere but a hit without vector part is returned", &sub, obs.clone());
            } else {
              let total: f64 = clauses.iter().map(|c| blend(bm, c, None)).sum::<f64>() / clauses.len().max(1) as f64;
              let alt = bm_opts.iter().any(|b| near(clauses.iter().map(|c| blend(*b, c, None)).sum::<f64>() / clauses.len().max(1) as f64, sc));
              if !near(total, sc) && !alt && el.is_empty() {
                s.fail("score.blend-missing", "score of a hit without vector differs from the documented blend with the missing-vector penalty", &sub, json!({"hit": obs["hit"], "bm25": bm, "expected_score": total}));
              }
            }
          }
        }
      }
      if any_vs && (n_ineligible >= 1 || n_eligible >= 2) {
        nontrivial = true;
      }
      // exact nearest neighbours when every segment holds at most m vectors
      if exact_regime && !plan_dropped {
        let single = clauses.len() == 1;
        let min_k = clauses.iter().map(|c| knobs(c, limit).0).min().unwrap_or(limit);
        let cut_possible = clauses.iter().any(|c| all.iter().filter(|v| elig(v, c)).count() > knobs(c, limit).0);
        if !vector_only && text_cut {
          s.count("exact.skipped-text-side-cut");
        } else if (single && vector_only) || !cut_possible {
          // (a hybrid request keeps text hits that are not among the k nearest neighbours, with
          // the missing-vector penalty: positions after the k-th neighbour are only comparable
          // when no clause can be cut)
          // expected final score of every potential hit with complete candidate information
          let mut exp: Vec<(f64, String)> = Vec::new();
          for v in &all {
            if v.deleted || !passes(filter, &v.json) {
              continue;
            }
            let el: Vec<&Value> = clauses.iter().filter(|c| elig(v, c)).collect();
            let is_text = bm25.contains_key(&v.ver);
            if el.is_empty() && (vector_only || !is_text || clauses.iter().all(|c| c["alpha"].as_f64().unwrap_or(0.5) <= 0.0)) {
              continue;
            }
            let bm = bm25.get(&v.ver).copied().unwrap_or(0.0);
            let total: f64 = clauses.iter().map(|c| blend(bm, c, if el.iter().any(|e| std::ptr::eq(*e, c)) { Some(clause_score(v, c)) } else { None })).sum::<f64>() / clauses.len().max(1) as f64;
            exp.push((total, v.ver.clone()));
          }
          exp.sort_by(|a, b| b.0.partial_cmp(&a.0).unwrap_or(std::cmp::Ordering::Equal));
          let want_min = limit.min(min_k).min(exp.len());
          let prefix_ok = imp_list.len() <= exp.len() && imp_list.iter().enumerate().all(|(i, (_, sc))| near(*sc, exp[i].0));
          if imp_list.len() < want_min || !prefix_ok {
            s.count("exact.checked");
            // name the failing input class
            let mut sig = "exact-nn.other";
            for c in &clauses {
              let (k, cs, ef) = knobs(c, limit);
              let fname = c["field"].as_str().unwrap_or("");
              for sg in &built.segs {
                let nvec = sg.iter().filter(|v| v.vec(fname).is_some()).count();
                let bad = sg.iter().any(|v| v.vec(fname).is_some() && !elig(v, c));
                if nvec > cs.max(k) && bad {
                  sig = "exact-nn.ineligible-in-segment-topk";
                } else if ef.max(cs.max(k).min(nvec)) < nvec && sig == "exact-nn.other" {
                  sig = "exact-nn.ef-below-segment-size";
                }
              }
            }
            s.fail(sig, "every segment holds at most hnsw.m vectors but the hits are not the exact nearest neighbours", &sub,
              json!({"returned": imp_list, "expected_prefix": exp.iter().take(limit).collect::<Vec<_>>(), "min_expected_len": want_min}));
          } else {
            s.count("exact.checked");
            s.count("exact.ok");
          }
        } else {
          s.count("exact.skipped-multi-clause-cut");
        }
      }
    }
    s.case(&json!({"fields": fields, "segments": built.segs.iter().map(|sg| sg.iter().map(|v| json!({"ver": v.ver, "deleted": v.deleted})).collect::<Vec<_>>()).collect::<Vec<_>>(), "request": rq}), nontrivial);
    match out {
      idx::Outcome::Ok(_) => Some(imp_list),
      _ => None,
    }
  }
}
