//! C30 — composite aggregation paging is complete.
//!
//! One case = corpus, one segment layout, a composite request (1..3 terms/histogram sources over
//! keyword and numeric fields incl. multi-valued, optional child aggregation), page size 1..5.
//!
//! * finder (implementation only): walk the aggregation by sending every `after_key` back as
//!   `after`; the concatenated pages must equal the buckets of the unpaged request (same keys,
//!   order, counts, children), every page but the last must be full and carry the key of its
//!   last bucket, the last page (and the unpaged response) must carry no `after_key`; bucket
//!   keys must be strictly increasing in the documented key order.
//! * correspondence: the pages of `SL.Aggs.compositeWalk` (over the merged bucket map of the
//!   mechanism model, `after_key` sent back through the JSON round trip of the model) vs the
//!   implementation's pages; `partsLt` vs the order of adjacent keys in the implementation.
use super::c12::{build_layout, cmp_parts, composite_parts_of_key, field_kinds, gen_doc, gen_layouts, is_i64, matches_query, parse_doc, Doc, KW_FIELDS};
use crate::idx;
use crate::proto::Driver;
use crate::rng::Rng;
use crate::summary::Summary;
use crate::{Prop, Tier};
use serde_json::{json, Value};
use std::collections::BTreeSet;

pub struct C30;
pub static P: C30 = C30;

fn composite_resp(reader: &searchlite_core::api::IndexReader, query: &Value, agg: &Value) -> Result<Value, String> {
  let req = json!({"query": query, "limit": 1, "aggs": {"c": agg}});
  match idx::search(reader, &req) {
    idx::Outcome::Ok(v) => Ok(v["aggregations"]["c"].clone()),
    idx::Outcome::Err(e) => Err(format!("error: {e}")),
    idx::Outcome::Panic(e) => Err(format!("panic: {e}")),
  }
}

/// (key, doc_count, aggregations) of the buckets of a response
fn buckets_of(resp: &Value) -> Vec<Value> {
  resp["buckets"].as_array().cloned().unwrap_or_default()
}

fn model_key_json(agg: &Value, k: &Value) -> Value {
  // {"p":[{"s":..}|{"q":"n/d"}]} → {"name": value}
  let mut m = serde_json::Map::new();
  let parts = k["p"].as_array().cloned().unwrap_or_default();
  for (s, p) in agg["sources"].as_array().cloned().unwrap_or_default().iter().zip(parts.iter()) {
    let v = if let Some(x) = p.get("s") {
      x.clone()
    } else {
      let q = p["q"].as_str().unwrap_or("0/1");
      let mut it = q.split('/');
      let n: f64 = it.next().unwrap_or("0").parse().unwrap_or(f64::NAN);
      let d: f64 = it.next().unwrap_or("1").parse().unwrap_or(1.0);
      json!(n / d)
    };
    m.insert(s["name"].as_str().unwrap_or("").to_string(), v);
  }
  Value::Object(m)
}

fn keys_equal(a: &Value, b: &Value) -> bool {
  match (a, b) {
    (Value::Object(x), Value::Object(y)) => {
      x.len() == y.len()
        && x.iter().all(|(k, v)| match (v, y.get(k)) {
          (Value::Number(p), Some(Value::Number(q))) => p.as_f64() == q.as_f64(),
          (v, Some(w)) => v == w,
          _ => false,
        })
    }
    _ => a == b,
  }
}

impl Prop for C30 {
  fn id(&self) -> &'static str {
    "C30"
  }
  fn rule(&self) -> &'static str {
    "case = (corpus of 1..20 docs, one random segment layout, composite request with 1..3 terms/histogram sources over keyword/f64/i64 single- and multi-valued fields, optional child aggregation, page size 1..5, match_all or term query); the aggregation is walked by sending each after_key back and compared with the unpaged request; non-trivial = the walk has at least two pages; distinct = distinct case JSON"
  }
  fn count(&self, tier: Tier) -> usize {
    tier.pick(160, 5000)
  }
  fn gen(&self, rng: &mut Rng, _tier: Tier, _i: usize) -> Value {
    let n = 1 + rng.below(20);
    let negzero = rng.chance(1, 8);
    let mut docs: Vec<Value> = (0..n).map(|d| gen_doc(rng, format!("d{d}"))).collect();
    if negzero {
      // exercise the −0.0 / +0.0 keys of histogram sources
      for d in docs.iter_mut() {
        if rng.chance(1, 3) {
          d["f1"] = json!(-0.0);
        } else if rng.chance(1, 3) {
          d["f1"] = json!(0.0);
        }
      }
    }
    let layouts = gen_layouts(rng, &docs, 3);
    let layout = layouts[2].clone();
    let nsrc = 1 + rng.below(3);
    let mut sources = Vec::new();
    for i in 0..nsrc {
      if rng.chance(1, 2) {
        sources.push(json!({"type": "terms", "name": format!("s{i}"), "field": *rng.pick(&KW_FIELDS)}));
      } else {
        let f = if negzero { "f1" } else { *rng.pick(&["i1", "i2", "f1", "f2"]) };
        sources.push(json!({"type": "histogram", "name": format!("s{i}"), "field": f, "interval": *rng.pick(&[0.25, 0.5, 1.0, 2.5, 5.0])}));
      }
    }
    let mut agg = json!({"type": "composite", "sources": sources, "size": 1 + rng.below(5)});
    if rng.chance(1, 3) {
      agg["aggs"] = json!({"n": {"type": "value_count", "field": *rng.pick(&["i1", "f2"])}});
    }
    let query = if rng.chance(3, 4) { json!({"type": "match_all"}) } else { json!({"type": "term", "field": "k2", "value": *rng.pick(&["a", "b"])}) };
    json!({"docs": docs, "layout": layout, "query": query, "agg": agg})
  }

  fn run_case(&self, drv: &mut Driver, case: &Value, s: &mut Summary) {
    let docs_json = case["docs"].as_array().cloned().unwrap_or_default();
    let docs: Vec<Doc> = docs_json.iter().map(parse_doc).collect();
    let query = &case["query"];
    let agg = &case["agg"];
    let size = agg["size"].as_u64().unwrap_or(1) as usize;
    let built = match build_layout(&docs_json, &case["layout"]) {
      Ok(b) => b,
      Err(e) => {
        s.case(case, false);
        s.count("skipped:layout-build-error");
        s.notes.push(format!("layout build error: {e}"));
        return;
      }
    };
    let reader = match built.index.reader() {
      Ok(r) => r,
      Err(e) => {
        s.case(case, false);
        s.fail("composite.reader-error", "reader() failed", case, json!(e.to_string()));
        return;
      }
    };
    // ---- implementation: unpaged
    let mut unpaged_req = agg.clone();
    unpaged_req["size"] = json!(100000);
    let unpaged = match composite_resp(&reader, query, &unpaged_req) {
      Ok(v) => v,
      Err(e) => {
        s.case(case, false);
        s.fail("composite.search-error", "composite request failed", case, json!(e));
        return;
      }
    };
    let all = buckets_of(&unpaged);
    // ---- implementation: walk
    let mut pages: Vec<Value> = Vec::new();
    let mut after: Option<Value> = None;
    let max_pages = all.len() + 3;
    let mut nonterminating = false;
    loop {
      let mut req = agg.clone();
      if let Some(a) = &after {
        req["after"] = a.clone();
      }
      let resp = match composite_resp(&reader, query, &req) {
        Ok(v) => v,
        Err(e) => {
          s.case(case, false);
          s.fail("composite.search-error", "composite page request failed", case, json!({"after": after, "error": e}));
          return;
        }
      };
      let ak = resp.get("after_key").cloned().filter(|k| !k.is_null());
      pages.push(resp);
      match ak {
        Some(k) => after = Some(k),
        None => break,
      }
      if pages.len() > max_pages {
        nonterminating = true;
        break;
      }
    }
    let has_i64 = agg["sources"].as_array().map(|a| a.iter().any(|x| x["type"] == "histogram" && is_i64(x["field"].as_str().unwrap_or("")))).unwrap_or(false);
    let negzero = docs_json.iter().any(|d| d["f1"].as_f64().map(|x| x == 0.0 && x.is_sign_negative()).unwrap_or(false));
    s.case(case, pages.len() >= 2);
    s.count(&format!("sources:{}", agg["sources"].as_array().map(|a| a.len()).unwrap_or(0)));
    s.count(&format!("size:{size}"));
    s.add("pages", pages.len() as u64);
    s.add("buckets", all.len() as u64);
    if has_i64 {
      s.count("histogram-source-over-i64");
    }
    if negzero {
      s.count("negzero-values");
    }
    if !all.is_empty() && all.len() % size == 0 {
      s.count("last-page-exactly-full");
    }

    // ---- finder
    if nonterminating {
      s.fail("composite.walk-nonterminating", "sending after_key back never reaches a page without after_key", case, json!({"pages": pages.len(), "buckets": all.len()}));
      return;
    }
    if unpaged.get("after_key").map(|k| !k.is_null()).unwrap_or(false) {
      s.fail("composite.after-key-on-unpaged", "the unpaged response carries an after_key", case, unpaged.clone());
    }
    let walked: Vec<Value> = pages.iter().flat_map(buckets_of).collect();
    if walked != all {
      let keys = |bs: &Vec<Value>| -> Vec<Value> { bs.iter().map(|b| json!([b["key"], b["doc_count"]])).collect() };
      s.fail(
        "composite.walk-mismatch",
        "the concatenated pages differ from the buckets of the unpaged aggregation (missing, duplicated, reordered or re-counted buckets)",
        case,
        json!({"walk": keys(&walked), "unpaged": keys(&all)}),
      );
    }
    for (pi, p) in pages.iter().enumerate() {
      let bs = buckets_of(p);
      let last = pi + 1 == pages.len();
      let ak = p.get("after_key").cloned().filter(|k| !k.is_null());
      if last {
        if bs.is_empty() && pi > 0 {
          s.fail("composite.after-key-but-no-more", "a page advertised more buckets through after_key but the next page is empty", case, json!({"page": pi}));
        }
        if ak.is_some() {
          s.fail("composite.after-key-on-last-page", "the last page carries an after_key", case, json!({"page": pi, "after_key": ak}));
        }
      } else {
        if bs.len() != size {
          s.fail("composite.page-not-full", "a page with after_key has fewer or more than `size` buckets", case, json!({"page": pi, "len": bs.len(), "size": size}));
        }
        if ak.as_ref() != bs.last().map(|b| &b["key"]) {
          s.fail("composite.after-key-not-last-bucket", "after_key is not the key of the page's last bucket", case, json!({"page": pi, "after_key": ak, "last": bs.last().map(|b| b["key"].clone())}));
        }
      }
    }
    // keys strictly increasing: strings bytewise, numbers by total order, part by part
    for w in all.windows(2) {
      let (a, b) = (composite_parts_of_key(agg, &w[0]["key"]), composite_parts_of_key(agg, &w[1]["key"]));
      if let (Some(a), Some(b)) = (a, b) {
        if cmp_parts(&a, &b) != std::cmp::Ordering::Less {
          s.fail("composite.key-order", "bucket keys of the unpaged response are not strictly increasing", case, json!({"a": w[0]["key"], "b": w[1]["key"]}));
          break;
        }
      }
    }

    // ---- correspondence with the model
    if negzero {
      // the model's numbers are rationals: no signed zero; finder only
      return;
    }
    let matched: BTreeSet<String> = docs.iter().filter(|d| matches_query(query, d)).map(|d| d.id.clone()).collect();
    let segs: Vec<Vec<Value>> = built.segs.iter().map(|seg| seg.iter().filter(|i| matched.contains(&docs[**i].id)).map(|i| docs[*i].model_json(*i)).collect()).collect();
    let m = drv.call("C30", json!({"op": "walk", "fields": field_kinds(), "segs": segs, "agg": agg}));
    if m["ok"] != json!(true) {
      s.disagree("composite.model-error", case, json!(null), m);
      return;
    }
    let mpages = m["pages"].as_array().cloned().unwrap_or_default();
    let view = |bs: Vec<Value>, ak: Option<Value>| -> Value { json!({"buckets": bs, "after": ak}) };
    let imp_view: Vec<Value> = pages
      .iter()
      .map(|p| view(buckets_of(p).iter().map(|b| json!([b["key"], b["doc_count"]])).collect(), p.get("after_key").cloned().filter(|k| !k.is_null())))
      .collect();
    let mod_view: Vec<Value> = mpages
      .iter()
      .map(|p| {
        view(
          p["buckets"].as_array().cloned().unwrap_or_default().iter().map(|b| json!([model_key_json(agg, &b["key"]), b["count"]])).collect(),
          if p["after"].is_null() { None } else { Some(model_key_json(agg, &p["after"])) },
        )
      })
      .collect();
    let same = imp_view.len() == mod_view.len()
      && imp_view.iter().zip(mod_view.iter()).all(|(a, b)| {
        let (ba, bb) = (a["buckets"].as_array().unwrap(), b["buckets"].as_array().unwrap());
        ba.len() == bb.len() && ba.iter().zip(bb.iter()).all(|(x, y)| keys_equal(&x[0], &y[0]) && x[1] == y[1]) && keys_equal(&a["after"], &b["after"])
      });
    if !same {
      s.disagree("composite.walk", case, json!(imp_view), json!(mod_view));
      return;
    }
    // comparator: adjacent keys of the implementation are `lt` in the model
    let part_json = |v: &Value| -> Value { v.clone() };
    for w in all.windows(2).take(6) {
      if let (Some(a), Some(b)) = (composite_parts_of_key(agg, &w[0]["key"]), composite_parts_of_key(agg, &w[1]["key"])) {
        let r = drv.call("C30", json!({"op": "cmp", "a": a.iter().map(part_json).collect::<Vec<_>>(), "b": b.iter().map(part_json).collect::<Vec<_>>()}));
        if r["ok"] != json!(true) || r["lt"] != json!(true) || r["gt"] != json!(false) {
          s.disagree("composite.cmp", case, json!({"a": w[0]["key"], "b": w[1]["key"], "impl": "a before b"}), r);
          return;
        }
      }
    }
  }

  fn finish(&self, _tier: Tier, s: &mut Summary) {
    s.notes.push("corpora with −0.0 values (1 in 8) are checked by the finder only: the model's numbers are rationals".into());
  }
}
