//! Raw HTTP/1.1 client over `std::net::TcpStream` and in-process bootstrap of the real
//! `searchlite_http` server (used by C24 and C25).  No HTTP library on the client side: the
//! request bytes are written verbatim, so malformed requests can be sent.
use clap::Parser;
use std::io::{Read, Write};
use std::net::{Shutdown, TcpStream};
use std::path::Path;
use std::sync::OnceLock;
use std::time::{Duration, Instant};

/// what came back on the socket for one request
#[derive(Debug, Clone, Default)]
pub struct Resp {
  /// `None`: no parsable status line arrived (connection closed / timed out first)
  pub status: Option<u16>,
  pub headers: Vec<(String, String)>,
  pub body: Vec<u8>,
  /// the body was received completely according to its own framing
  pub complete: bool,
  /// why reading stopped when it did not end regularly (`eof`, `timeout`, `reset`, …)
  pub end: String,
  #[allow(dead_code)]
  pub raw_len: usize,
}

impl Resp {
  pub fn header(&self, name: &str) -> Option<&str> {
    self.headers.iter().find(|(k, _)| k.eq_ignore_ascii_case(name)).map(|(_, v)| v.as_str())
  }
  pub fn json(&self) -> Option<serde_json::Value> {
    serde_json::from_slice(&self.body).ok()
  }
  pub fn body_text(&self) -> String {
    let t = String::from_utf8_lossy(&self.body).to_string();
    if t.len() > 300 {
      let mut cut = 300;
      while !t.is_char_boundary(cut) {
        cut -= 1;
      }
      format!("{}…", &t[..cut])
    } else {
      t
    }
  }
}

fn find(hay: &[u8], needle: &[u8]) -> Option<usize> {
  hay.windows(needle.len()).position(|w| w == needle)
}

/// parse one response out of `buf`; returns `Some(resp)` when it is complete
fn parse(buf: &[u8], head_only: bool) -> Option<Resp> {
  let he = find(buf, b"\r\n\r\n")?;
  let head = String::from_utf8_lossy(&buf[..he]).to_string();
  let mut lines = head.split("\r\n");
  let status_line = lines.next()?;
  let mut sp = status_line.splitn(3, ' ');
  let ver = sp.next()?;
  if !ver.starts_with("HTTP/") {
    return None;
  }
  let status: u16 = sp.next()?.parse().ok()?;
  let mut headers = Vec::new();
  for l in lines {
    if let Some(i) = l.find(':') {
      headers.push((l[..i].trim().to_string(), l[i + 1..].trim().to_string()));
    }
  }
  let rest = &buf[he + 4..];
  let mut r = Resp { status: Some(status), headers, body: Vec::new(), complete: false, end: String::new(), raw_len: buf.len() };
  if head_only || status == 204 || status == 304 || (100..200).contains(&status) {
    r.complete = true;
    return Some(r);
  }
  let chunked = r.header("transfer-encoding").map(|v| v.to_ascii_lowercase().contains("chunked")).unwrap_or(false);
  if chunked {
    let mut pos = 0usize;
    let mut body = Vec::new();
    loop {
      let le = find(&rest[pos..], b"\r\n")?;
      let szs = String::from_utf8_lossy(&rest[pos..pos + le]).to_string();
      let sz = usize::from_str_radix(szs.split(';').next().unwrap_or("").trim(), 16).ok()?;
      pos += le + 2;
      if sz == 0 {
        r.body = body;
        r.complete = true;
        return Some(r);
      }
      if rest.len() < pos + sz + 2 {
        return None;
      }
      body.extend_from_slice(&rest[pos..pos + sz]);
      pos += sz + 2;
    }
  }
  if let Some(cl) = r.header("content-length").and_then(|v| v.parse::<usize>().ok()) {
    if rest.len() >= cl {
      r.body = rest[..cl].to_vec();
      r.complete = true;
      return Some(r);
    }
    return None;
  }
  None // framed by connection close: decided by the caller at EOF
}

/// parse whatever arrived when the connection ended / timed out
fn parse_partial(buf: &[u8], end: &str) -> Resp {
  if let Some(mut r) = parse(buf, false) {
    r.end = end.to_string();
    return r;
  }
  // head present, body framed by close or cut short
  if let Some(mut r) = parse(buf, true) {
    let he = find(buf, b"\r\n\r\n").unwrap();
    r.body = buf[he + 4..].to_vec();
    let has_framing = r.header("content-length").is_some() || r.header("transfer-encoding").is_some();
    r.complete = !has_framing && end == "eof";
    r.end = end.to_string();
    return r;
  }
  Resp { status: None, headers: vec![], body: buf.to_vec(), complete: false, end: end.to_string(), raw_len: buf.len() }
}

/// how the request bytes are delivered
#[derive(Debug, Clone, Default)]
pub struct SendPlan {
  /// bytes written first
  pub first: Vec<u8>,
  /// optional second part written after `pause_ms`
  pub second: Vec<u8>,
  pub pause_ms: u64,
  /// close the write half after sending (the client "hangs up" its sending side)
  pub half_close: bool,
  /// give up waiting for a response after this long
  pub wait_ms: u64,
}

/// send raw bytes on a fresh connection, read one response
pub fn exchange(port: u16, plan: &SendPlan) -> Resp {
  let addr = format!("127.0.0.1:{port}");
  let mut s = match TcpStream::connect_timeout(&addr.parse().unwrap(), Duration::from_secs(3)) {
    Ok(s) => s,
    Err(e) => return Resp { end: format!("connect: {e}"), ..Default::default() },
  };
  let _ = s.set_nodelay(true);
  let _ = s.set_read_timeout(Some(Duration::from_millis(100)));
  let _ = s.set_write_timeout(Some(Duration::from_secs(5)));
  let mut buf: Vec<u8> = Vec::new();
  let mut tmp = [0u8; 16384];
  // a server may answer (e.g. 413) and close before the whole body was written: write
  // errors are not fatal, the response is read anyway
  let mut write_all = |s: &mut TcpStream, data: &[u8], buf: &mut Vec<u8>| {
    let mut off = 0;
    while off < data.len() {
      let n = (data.len() - off).min(65536);
      match s.write(&data[off..off + n]) {
        Ok(0) => break,
        Ok(k) => off += k,
        Err(_) => break,
      }
      // drain anything already available so that the peer is never blocked on its send
      let _ = s.set_nonblocking(true);
      while let Ok(k) = s.read(&mut tmp) {
        if k == 0 {
          break;
        }
        buf.extend_from_slice(&tmp[..k]);
      }
      let _ = s.set_nonblocking(false);
    }
  };
  write_all(&mut s, &plan.first, &mut buf);
  if !plan.second.is_empty() || plan.pause_ms > 0 {
    std::thread::sleep(Duration::from_millis(plan.pause_ms));
    write_all(&mut s, &plan.second, &mut buf);
  }
  let _ = s.flush();
  if plan.half_close {
    let _ = s.shutdown(Shutdown::Write);
  }
  let deadline = Instant::now() + Duration::from_millis(plan.wait_ms.max(200));
  loop {
    if let Some(mut r) = parse(&buf, false) {
      // interim 1xx responses are skipped
      if r.status.map(|c| (100..200).contains(&c)).unwrap_or(false) {
        let he = find(&buf, b"\r\n\r\n").unwrap();
        buf.drain(..he + 4);
        continue;
      }
      r.end = "ok".into();
      return r;
    }
    match s.read(&mut tmp) {
      Ok(0) => return parse_partial(&buf, "eof"),
      Ok(k) => buf.extend_from_slice(&tmp[..k]),
      Err(e) if e.kind() == std::io::ErrorKind::WouldBlock || e.kind() == std::io::ErrorKind::TimedOut => {
        if Instant::now() > deadline {
          return parse_partial(&buf, "timeout");
        }
      }
      Err(e) => return parse_partial(&buf, &format!("io: {:?}", e.kind())),
    }
  }
}

/// a well-formed request
pub fn request_bytes(method: &str, path: &str, headers: &[(String, String)], body: &[u8], content_length: Option<usize>) -> Vec<u8> {
  let mut out = Vec::new();
  out.extend_from_slice(format!("{method} {path} HTTP/1.1\r\nHost: localhost\r\n").as_bytes());
  for (k, v) in headers {
    out.extend_from_slice(format!("{k}: {v}\r\n").as_bytes());
  }
  if let Some(cl) = content_length {
    out.extend_from_slice(format!("Content-Length: {cl}\r\n").as_bytes());
  }
  out.extend_from_slice(b"Connection: close\r\n\r\n");
  out.extend_from_slice(body);
  out
}

/// body in `Transfer-Encoding: chunked` framing; `finish` = send the terminating chunk
pub fn chunked_bytes(method: &str, path: &str, headers: &[(String, String)], body: &[u8], chunk: usize, finish: bool) -> Vec<u8> {
  let mut out = Vec::new();
  out.extend_from_slice(format!("{method} {path} HTTP/1.1\r\nHost: localhost\r\n").as_bytes());
  for (k, v) in headers {
    out.extend_from_slice(format!("{k}: {v}\r\n").as_bytes());
  }
  out.extend_from_slice(b"Transfer-Encoding: chunked\r\nConnection: close\r\n\r\n");
  for c in body.chunks(chunk.max(1)) {
    out.extend_from_slice(format!("{:x}\r\n", c.len()).as_bytes());
    out.extend_from_slice(c);
    out.extend_from_slice(b"\r\n");
  }
  if finish {
    out.extend_from_slice(b"0\r\n\r\n");
  }
  out
}

/// plain JSON / NDJSON request with correct framing
pub fn simple(port: u16, method: &str, path: &str, content_type: Option<&str>, body: &[u8]) -> Resp {
  let mut h = Vec::new();
  if let Some(ct) = content_type {
    h.push(("Content-Type".to_string(), ct.to_string()));
  }
  let cl = if method == "GET" && body.is_empty() { None } else { Some(body.len()) };
  exchange(port, &SendPlan { first: request_bytes(method, path, &h, body, cl), wait_ms: 60_000, ..Default::default() })
}

pub fn post_json(port: u16, path: &str, body: &serde_json::Value) -> Resp {
  simple(port, "POST", path, Some("application/json"), body.to_string().as_bytes())
}

// ---------------------------------------------------------------------------------------
// the server, in process
// ---------------------------------------------------------------------------------------

fn runtime() -> &'static tokio::runtime::Runtime {
  static RT: OnceLock<tokio::runtime::Runtime> = OnceLock::new();
  RT.get_or_init(|| tokio::runtime::Builder::new_multi_thread().worker_threads(6).enable_all().build().expect("tokio runtime"))
}

pub struct Server {
  pub port: u16,
  task: tokio::task::JoinHandle<Result<(), String>>,
}

#[derive(Debug, Clone)]
pub struct ServerCfg {
  pub max_body: u64,
  pub timeout_secs: u64,
  pub refresh_on_commit: bool,
  pub require_existing: bool,
}

impl Default for ServerCfg {
  fn default() -> Self {
    ServerCfg { max_body: 50 * 1024 * 1024, timeout_secs: 30, refresh_on_commit: false, require_existing: false }
  }
}

/// Ports for the in-process servers come from a process-wide counter over a range BELOW the
/// kernel's ephemeral range.  (Picking a port with `bind(0)` and releasing it is unsafe here:
/// between the release and the server's own bind, a readiness probe `connect()` to that port
/// can be given the very same number as its source port and connect *to itself* — TCP
/// simultaneous open — so "something accepts on the port" was reported before the server had
/// bound it; the start lock was released, the next `bind(0)` of another worker returned the
/// same still-unbound number, and two cases ended up talking to one server.)
fn next_port() -> u16 {
  static NEXT: std::sync::atomic::AtomicU32 = std::sync::atomic::AtomicU32::new(0);
  let low: u32 = std::fs::read_to_string("/proc/sys/net/ipv4/ip_local_port_range")
    .ok()
    .and_then(|t| t.split_whitespace().next().and_then(|x| x.parse().ok()))
    .unwrap_or(32768);
  let base: u32 = 12000;
  let span = low.saturating_sub(base + 1).max(1000);
  let n = NEXT.fetch_add(1, std::sync::atomic::Ordering::SeqCst);
  (base + (std::process::id().wrapping_mul(7919).wrapping_add(n)) % span) as u16
}

fn port_refuses(port: u16) -> bool {
  TcpStream::connect_timeout(&format!("127.0.0.1:{port}").parse().unwrap(), Duration::from_millis(200)).is_err()
}

impl Server {
  /// start `searchlite_http::run` on a loopback port of our own and wait until *this* server
  /// answers `/healthz`
  pub fn start(index: &Path, cfg: &ServerCfg) -> Result<Server, String> {
    // one start-up at a time inside this process
    static START: std::sync::Mutex<()> = std::sync::Mutex::new(());
    let _starting = START.lock().unwrap_or_else(|e| e.into_inner());
    let mut last = String::new();
    for _attempt in 0..40 {
      let port = next_port();
      // somebody else (another process) is listening there already: take the next one
      if !port_refuses(port) {
        last = format!("port {port} is taken");
        continue;
      }
      let mut argv: Vec<String> = vec![
        "searchlite-http".into(),
        "--index".into(),
        index.to_string_lossy().to_string(),
        "--bind".into(),
        format!("127.0.0.1:{port}"),
        "--max-body-bytes".into(),
        cfg.max_body.to_string(),
        "--request-timeout-secs".into(),
        cfg.timeout_secs.to_string(),
        "--shutdown-grace-secs".into(),
        "0".into(),
      ];
      if cfg.refresh_on_commit {
        argv.push("--refresh-on-commit".into());
      }
      if cfg.require_existing {
        argv.push("--require-existing-index".into());
      }
      let args = match searchlite_http::ServeArgs::try_parse_from(argv) {
        Ok(a) => a,
        Err(e) => return Err(format!("server arguments: {e}")),
      };
      let task = runtime().spawn(async move { searchlite_http::run(args).await.map_err(|e| format!("{e:#}")) });
      let t0 = Instant::now();
      let mut up = false;
      while t0.elapsed() < Duration::from_secs(60) {
        if task.is_finished() {
          break;
        }
        // a real HTTP answer, not just an accepted connection
        let r = exchange(port, &SendPlan { first: request_bytes("GET", "/healthz", &[], b"", None), wait_ms: 2000, ..Default::default() });
        if r.status == Some(200) {
          // a failed bind ends `run` at once: give it a moment, then make sure the answer came
          // from our own task
          std::thread::sleep(Duration::from_millis(20));
          if !task.is_finished() {
            up = true;
          }
          break;
        }
        std::thread::sleep(Duration::from_millis(5));
      }
      if up {
        return Ok(Server { port, task });
      }
      if task.is_finished() {
        last = match runtime().block_on(task) {
          Ok(Err(e)) => e,
          Ok(Ok(())) => "server returned".into(),
          Err(e) => format!("server task: {e}"),
        };
        if !last.contains("binding") {
          return Err(last);
        }
      } else {
        task.abort();
        last = "server did not answer /healthz within 60 s".into();
      }
    }
    Err(last)
  }

  /// the accept loop is still running
  pub fn alive(&self) -> bool {
    !self.task.is_finished()
  }
}

impl Drop for Server {
  /// synchronous stop: the accept task is gone and the port refuses connections before
  /// anything else (a CLI process, an FFI handle, the next server) touches the directory
  fn drop(&mut self) {
    self.task.abort();
    let t0 = Instant::now();
    while !self.task.is_finished() && t0.elapsed() < Duration::from_secs(10) {
      std::thread::sleep(Duration::from_millis(2));
    }
    while !port_refuses(self.port) && t0.elapsed() < Duration::from_secs(10) {
      std::thread::sleep(Duration::from_millis(5));
    }
  }
}
