use crate::Prop;

pub mod c01;
pub mod c02;
pub mod c03;
pub mod c04;
pub mod c05;
pub mod c06;
pub mod c07;
pub mod c08;
pub mod c09;
pub mod c10;
pub mod c11;
pub mod c12;
pub mod c13;
pub mod c14;
pub mod c15;
pub mod c16;
pub mod c17;
pub mod c18;
pub mod c19;
pub mod c20;
pub mod c21;
pub mod c22;
pub mod c23;
pub mod c24;
pub mod c25;
pub mod c26;
pub mod c27;
pub mod c28;
pub mod c29;
pub mod c30;

pub fn lookup(id: &str) -> Option<&'static dyn Prop> {
  match id {
    "C01" => Some(&c01::P),
    "C02" => Some(&c02::P),
    "C03" => Some(&c03::P),
    "C04" => Some(&c04::P),
    "C05" => Some(&c05::P),
    "C06" => Some(&c06::P),
    "C07" => Some(&c07::P),
    "C08" => Some(&c08::P),
    "C09" => Some(&c09::P),
    "C10" => Some(&c10::P),
    "C11" => Some(&c11::P),
    "C12" => Some(&c12::P),
    "C13" => Some(&c13::P),
    "C14" => Some(&c14::P),
    "C15" => Some(&c15::P),
    "C16" => Some(&c16::P),
    "C17" => Some(&c17::P),
    "C18" => Some(&c18::P),
    "C19" => Some(&c19::P),
    "C20" => Some(&c20::P),
    "C21" => Some(&c21::P),
    "C22" => Some(&c22::P),
    "C23" => Some(&c23::P),
    "C24" => Some(&c24::P),
    "C25" => Some(&c25::P),
    "C26" => Some(&c26::P),
    "C27" => Some(&c27::P),
    "C28" => Some(&c28::P),
    "C29" => Some(&c29::P),
    "C30" => Some(&c30::P),
    _ => None,
  }
}
