use crate::Prop;

pub mod c26;

pub fn lookup(id: &str) -> Option<&'static dyn Prop> {
  match id {
    "C26" => Some(&c26::P),
    _ => None,
  }
}
