//! Shared by C13, C18, C19, C20 (post-processing of ranked hits: collapse, rescore, explain,
//! paging vs aggregations).  Included from `c18.rs` through `#[path]`.
//!
//! One *case* = a small corpus (documents, commit layout, deletes) + a query + request options.
//! This module builds the index (in-memory storage), runs typed searches, takes the per-document
//! inputs of the Lean model from implementation runs (matching set + initial score, rescore
//! outcome, layout position) and compares a model response with an implementation response.
use crate::idx;
use crate::rng::Rng;
use crate::util::{guarded, scratch};
use searchlite_core::api::{Hit, Index, IndexReader, SearchResult};
use serde_json::{json, Value};
use std::collections::{BTreeMap, BTreeSet, HashMap};

/// sortable fast fields, by model field index
pub const SORT_FIELDS: [&str; 4] = ["k", "n", "x", "g"];
pub const WORDS: [&str; 8] = ["alpha", "beta", "gamma", "delta", "eps", "zeta", "eta", "theta"];
pub const KEYS: [&str; 5] = ["a", "b", "c", "d", "e"];
pub const ALL: usize = 1000;

pub fn schema() -> Value {
  let kw = |n: &str| json!({"name": n, "stored": true, "indexed": true, "fast": true, "nullable": true});
  let num = |n: &str, i: bool| json!({"name": n, "i64": i, "fast": true, "stored": true, "nullable": true});
  json!({
    "text_fields": [{"name": "body", "analyzer": "default", "stored": true, "indexed": true}],
    "keyword_fields": [kw("g"), kw("k")],
    "numeric_fields": [num("n", true), num("x", false), num("s0", false), num("s1", false)],
  })
}

fn skew(rng: &mut Rng, n: usize) -> usize {
  let a = rng.below(n);
  let b = rng.below(n);
  a.min(b)
}

/// documents + commit sizes + deletes
pub fn gen_corpus(rng: &mut Rng, min_docs: usize, max_docs: usize) -> Value {
  let n = min_docs + rng.below(max_docs - min_docs + 1);
  let ngroups = 1 + rng.below(6);
  let mut docs = Vec::new();
  for i in 0..n {
    let nw = 1 + rng.below(5);
    let body: Vec<&str> = (0..nw).map(|_| WORDS[skew(rng, WORDS.len())]).collect();
    let mut d = json!({"_id": format!("d{i:02}"), "body": body.join(" ")});
    if !rng.chance(1, 10) {
      d["g"] = json!(format!("g{}", skew(rng, ngroups)));
    }
    if !rng.chance(1, 7) {
      d["k"] = json!(*rng.pick(&KEYS));
    }
    if !rng.chance(1, 7) {
      d["n"] = json!(rng.range(-3, 6));
    }
    if !rng.chance(1, 7) {
      d["x"] = json!(rng.range(-8, 8) as f64 * 0.5);
    }
    d["s0"] = json!(rng.range(0, 16) as f64 * 0.25);
    d["s1"] = json!(rng.range(0, 12) as f64 * 0.25);
    docs.push(d);
  }
  let nseg = 1 + rng.below(3.min(n));
  let mut cuts: BTreeSet<usize> = BTreeSet::new();
  while cuts.len() + 1 < nseg {
    cuts.insert(1 + rng.below(n - 1));
  }
  let mut commits = Vec::new();
  let mut prev = 0;
  for c in cuts.iter().chain(std::iter::once(&n)) {
    commits.push(c - prev);
    prev = *c;
  }
  let mut deletes: Vec<String> = Vec::new();
  if rng.chance(1, 4) {
    for _ in 0..1 + rng.below(2) {
      let id = format!("d{:02}", rng.below(n));
      if !deletes.contains(&id) {
        deletes.push(id);
      }
    }
  }
  json!({"docs": docs, "commits": commits, "deletes": deletes})
}

/// initial queries: exact scores from a fast field, constant scores, BM25
pub fn gen_query(rng: &mut Rng) -> Value {
  match rng.below(8) {
    0 | 1 | 2 => json!({"type": "function_score", "query": {"type": "match_all"},
      "functions": [{"type": "field_value_factor", "field": "s0", "factor": 1.0}], "boost_mode": "replace"}),
    3 => json!({"type": "match_all"}),
    4 | 5 => json!({"type": "term", "field": "body", "value": WORDS[skew(rng, 4)]}),
    // (since /repo 458e503 a repeated word in a query string no longer trips the planner's
    // "inconsistent leaf" assertion, so both words are drawn independently)
    6 => json!({"type": "query_string", "query": format!("{} {}", WORDS[skew(rng, 4)], WORDS[skew(rng, WORDS.len())])}),
    _ => json!({"type": "function_score", "query": {"type": "term", "field": "body", "value": WORDS[skew(rng, 3)]},
      "functions": [{"type": "field_value_factor", "field": "s0", "factor": 1.0}], "boost_mode": "sum"}),
  }
}

pub fn gen_filter(rng: &mut Rng) -> Value {
  match rng.below(6) {
    0 => json!({"I64Range": {"field": "n", "min": -1, "max": 5}}),
    1 => json!({"KeywordIn": {"field": "k", "values": ["a", "b", "c"]}}),
    _ => Value::Null,
  }
}

pub fn gen_sort(rng: &mut Rng) -> Value {
  let ord = |rng: &mut Rng| if rng.chance(1, 2) { "asc" } else { "desc" };
  match rng.below(9) {
    0 | 1 | 2 => json!([]),
    3 => json!([{"field": "_score", "order": "asc"}]),
    4 => json!([{"field": "n", "order": ord(rng)}, {"field": "_score", "order": "desc"}]),
    5 => json!([{"field": "k", "order": ord(rng)}]),
    6 => json!([{"field": "x", "order": ord(rng)}, {"field": "n", "order": ord(rng)}]),
    7 => json!([{"field": "_score", "order": "desc"}, {"field": "n", "order": ord(rng)}]),
    _ => json!([{"field": "k"}, {"field": "_score"}]),
  }
}

pub fn gen_exec(rng: &mut Rng) -> &'static str {
  *rng.pick(&["bm25", "wand", "wand", "bmw"])
}

/// WAND/BMW prune with BM25 upper bounds although a `function_score` over a term query changes
/// the score afterwards (pruned top-k differs from exhaustive top-k: property C09, not ours):
/// such queries are run exhaustively here so that the ranking fed to post-processing is the
/// real one
pub fn settle_exec(query: &Value, req: &mut Value) {
  if query["type"] == "function_score" && query["query"]["type"] != "match_all" {
    req["execution"] = json!("bm25");
  }
}

/// rescore queries: exact scores with `min_score`, filtered weights, BM25 terms
pub fn gen_rescore_query(rng: &mut Rng) -> Value {
  let inner = if rng.chance(1, 2) { json!({"type": "match_all"}) } else { json!({"type": "term", "field": "body", "value": WORDS[skew(rng, 4)]}) };
  match rng.below(9) {
    // the same term in two scoring clauses (two leaves) of the rescore query: rescore_hits has
    // to score it once per leaf (/repo d465454), visible wherever the clauses are not just summed
    6 => {
      let a = WORDS[skew(rng, 3)];
      json!({"type": "dis_max", "queries": [{"type": "term", "field": "body", "value": a, "boost": 2.0}, {"type": "term", "field": "body", "value": a}]})
    }
    7 => {
      let a = WORDS[skew(rng, 3)];
      let b = WORDS[skew(rng, WORDS.len())];
      json!({"type": "bool", "should": [{"type": "term", "field": "body", "value": a, "boost": 2.0},
        {"type": "dis_max", "queries": [{"type": "term", "field": "body", "value": a}, {"type": "term", "field": "body", "value": b}]}]})
    }
    8 => {
      let a = WORDS[skew(rng, 3)];
      json!({"type": "query_string", "query": format!("{a} body:{a}")})
    }
    0 | 1 | 2 => {
      let mut q = json!({"type": "function_score", "query": inner,
        "functions": [{"type": "field_value_factor", "field": "s1", "factor": 1.0}], "boost_mode": "replace"});
      if rng.chance(2, 3) {
        q["min_score"] = json!(rng.range(1, 8) as f64 * 0.25);
      }
      q
    }
    3 => json!({"type": "function_score", "query": {"type": "match_all"},
      "functions": [{"type": "weight", "weight": 10.0, "filter": {"KeywordIn": {"field": "k", "values": ["a", "b"]}}}],
      "boost_mode": "replace", "score_mode": "sum"}),
    4 => json!({"type": "term", "field": "body", "value": WORDS[skew(rng, 5)]}),
    _ => json!({"type": "function_score", "query": {"type": "term", "field": "body", "value": WORDS[skew(rng, 3)]},
      "functions": [{"type": "field_value_factor", "field": "s1", "factor": 2.0}], "boost_mode": "multiply", "min_score": 0.5}),
  }
}

pub const MODES: [&str; 5] = ["total", "multiply", "sum", "max", "min"];

pub struct Built {
  pub idx: Index,
  pub reader: IndexReader,
  _dir: tempfile::TempDir,
}

/// build the case's index: one commit per entry of `commits`, then one delete-only commit
pub fn build(corpus: &Value) -> Result<Built, String> {
  let dir = scratch();
  let index = idx::create(dir.path(), &schema(), true)?;
  let docs = corpus["docs"].as_array().cloned().unwrap_or_default();
  let mut at = 0;
  for c in corpus["commits"].as_array().cloned().unwrap_or_default() {
    let n = c.as_u64().unwrap_or(0) as usize;
    idx::add_commit(&index, &docs[at..(at + n).min(docs.len())])?;
    at += n;
  }
  let dels: Vec<String> = corpus["deletes"].as_array().map(|a| a.iter().filter_map(|x| x.as_str().map(|s| s.to_string())).collect()).unwrap_or_default();
  if !dels.is_empty() {
    idx::delete_commit(&index, &dels)?;
  }
  let reader = index.reader().map_err(|e| format!("reader: {e}"))?;
  Ok(Built { idx: index, reader, _dir: dir })
}

/// typed search; `Err` carries the error text (`panic: …` for a panic)
pub fn run(reader: &IndexReader, req: &Value) -> Result<SearchResult, String> {
  let r = idx::request(req)?;
  match guarded(|| reader.search(&r)) {
    Ok(Ok(res)) => Ok(res),
    Ok(Err(e)) => Err(e.to_string()),
    Err(p) => Err(format!("panic: {p}")),
  }
}

/// request skeleton: query + filter of the case, everything else default
pub fn base_req(case: &Value) -> Value {
  let mut r = json!({"query": case["query"], "limit": ALL, "return_stored": false});
  if !case["filter"].is_null() {
    r["filter"] = case["filter"].clone();
  }
  r
}

/// `f64::total_cmp` as an order-preserving map into `i64`
pub fn f64_key(x: f64) -> i64 {
  let b = x.to_bits() as i64;
  b ^ ((((b >> 63) as u64) >> 1) as i64)
}

/// where each live document sits: segment (= commit number) and global position in
/// (segment, document) order, observed from a constant-score run of the implementation
pub struct Layout {
  pub nseg: usize,
  pub seg: HashMap<String, usize>,
  pub pos: HashMap<String, usize>,
  pub by_pos: Vec<String>,
  /// per document: sort field values by model field index
  pub flds: HashMap<String, Vec<Option<i64>>>,
  /// per document: rank of its collapse value
  pub grp: HashMap<String, Option<usize>>,
  pub grp_names: Vec<String>,
}

pub fn layout(reader: &IndexReader, corpus: &Value) -> Result<Layout, String> {
  let docs = corpus["docs"].as_array().cloned().unwrap_or_default();
  let mut seg = HashMap::new();
  let mut at = 0;
  let commits = corpus["commits"].as_array().cloned().unwrap_or_default();
  for (s, c) in commits.iter().enumerate() {
    let n = c.as_u64().unwrap_or(0) as usize;
    for d in &docs[at..(at + n).min(docs.len())] {
      seg.insert(d["_id"].as_str().unwrap_or("").to_string(), s);
    }
    at += n;
  }
  let res = run(reader, &json!({"query": {"type": "match_all"}, "limit": ALL, "return_stored": false, "execution": "bm25"}))?;
  let mut pos = HashMap::new();
  let mut by_pos = Vec::new();
  let mut last_seg = 0;
  for (p, h) in res.hits.iter().enumerate() {
    let s = *seg.get(&h.doc_id).ok_or_else(|| format!("layout: unknown id {}", h.doc_id))?;
    if s < last_seg {
      return Err(format!("layout: constant-score order is not segment order at {}", h.doc_id));
    }
    last_seg = s;
    pos.insert(h.doc_id.clone(), p);
    by_pos.push(h.doc_id.clone());
  }
  let mut ks: BTreeSet<String> = BTreeSet::new();
  let mut gs: BTreeSet<String> = BTreeSet::new();
  for d in &docs {
    if let Some(k) = d["k"].as_str() {
      ks.insert(k.to_string());
    }
    if let Some(g) = d["g"].as_str() {
      gs.insert(g.to_string());
    }
  }
  let ks: Vec<String> = ks.into_iter().collect();
  let gs: Vec<String> = gs.into_iter().collect();
  let mut flds = HashMap::new();
  let mut grp = HashMap::new();
  for d in &docs {
    let id = d["_id"].as_str().unwrap_or("").to_string();
    let k = d["k"].as_str().and_then(|k| ks.iter().position(|x| x == k)).map(|i| i as i64);
    let n = d["n"].as_i64();
    let x = d["x"].as_f64().map(f64_key);
    let g = d["g"].as_str().and_then(|g| gs.iter().position(|x| x == g));
    flds.insert(id.clone(), vec![k, n, x, g.map(|i| i as i64)]);
    grp.insert(id, g);
  }
  Ok(Layout { nseg: commits.len(), seg, pos, by_pos, flds, grp, grp_names: gs })
}

#[derive(Clone, Copy, Debug, PartialEq)]
pub enum RescOut {
  NoMatch,
  Rejected,
  Val(f32),
}

/// the matching documents with their initial scores: the case's query and filter, default sort,
/// a limit covering everything (no pruning, no cursor, no rescore, no collapse)
pub fn initial_scores(reader: &IndexReader, case: &Value, exec: &str) -> Result<Vec<(String, f32)>, String> {
  let mut r = base_req(case);
  r["execution"] = json!(exec);
  let res = run(reader, &r)?;
  Ok(res.hits.iter().map(|h| (h.doc_id.clone(), h.score)).collect())
}

/// what the rescore query does to each document, from two implementation runs of that query
/// as a main query (with and without its top-level `min_score`)
pub fn rescore_outcomes(reader: &IndexReader, rq: &Value, exec: &str) -> Result<HashMap<String, RescOut>, String> {
  let mut loose = rq.clone();
  if loose["type"] == "function_score" {
    if let Some(m) = loose.as_object_mut() {
      m.remove("min_score");
    }
  }
  let matched = run(reader, &json!({"query": loose, "limit": ALL, "return_stored": false, "execution": exec}))?;
  let scored = run(reader, &json!({"query": rq, "limit": ALL, "return_stored": false, "execution": exec}))?;
  let mut out = HashMap::new();
  for h in &matched.hits {
    out.insert(h.doc_id.clone(), RescOut::Rejected);
  }
  for h in &scored.hits {
    out.insert(h.doc_id.clone(), RescOut::Val(h.score));
  }
  Ok(out)
}

pub fn plan_json(sort: &Value) -> Value {
  let specs = sort.as_array().cloned().unwrap_or_default();
  if specs.is_empty() {
    return json!([{"f": "score", "desc": true}]);
  }
  Value::Array(
    specs
      .iter()
      .map(|s| {
        let f = s["field"].as_str().unwrap_or("");
        let desc = match s["order"].as_str() {
          Some("desc") => true,
          Some(_) => false,
          None => f == "_score",
        };
        if f == "_score" {
          json!({"f": "score", "desc": desc})
        } else {
          json!({"f": SORT_FIELDS.iter().position(|x| *x == f).unwrap_or(99), "desc": desc})
        }
      })
      .collect(),
  )
}

/// the model's hit list: every matching live document, in layout order
pub fn model_hits(lay: &Layout, scores: &[(String, f32)], resc: Option<&HashMap<String, RescOut>>) -> Value {
  let mut hs: Vec<(usize, Value)> = scores
    .iter()
    .map(|(id, s)| {
      let r = match resc.and_then(|m| m.get(id)) {
        None | Some(RescOut::NoMatch) => Value::Null,
        Some(RescOut::Rejected) => json!("rej"),
        Some(RescOut::Val(v)) => json!(v.to_bits()),
      };
      let p = lay.pos[id];
      (p, json!({"seg": lay.seg[id], "pos": p, "score": s.to_bits(), "flds": lay.flds[id], "grp": lay.grp[id], "resc": r}))
    })
    .collect();
  hs.sort_by_key(|x| x.0);
  Value::Array(hs.into_iter().map(|x| x.1).collect())
}

/// model request for the implementation request `req` (`cursor` = last hit of the previous page)
pub fn model_req(req: &Value, lay: &Layout, hits: Value, cursor: Option<(&str, f32, usize)>, spec: bool) -> Value {
  let mut m = json!({
    "op": "search", "spec": spec, "hits": hits,
    "plan": plan_json(&req["sort"]),
    "limit": req["limit"], "cand": req["candidate_size"],
    "return_hits": req["return_hits"].as_bool().unwrap_or(true),
    "explain": req["explain"].as_bool().unwrap_or(false),
    "profile": req["profile"].as_bool().unwrap_or(false),
    "hook": has_hook(&req["query"]),
    "nseg": lay.nseg, "agg_field": 1,
  });
  if let Some((id, score, returned)) = cursor {
    m["cursor"] = json!({"pos": lay.pos[id], "score": score.to_bits(), "returned": returned});
  }
  if !req["rescore"].is_null() {
    m["rescore"] = json!({"window": req["rescore"]["window_size"], "mode": req["rescore"]["score_mode"].as_str().unwrap_or("total")});
  }
  if !req["collapse"].is_null() {
    let ih = &req["collapse"]["inner_hits"];
    m["collapse"] = if ih.is_null() {
      json!({"inner": null})
    } else {
      json!({"inner": {"plan": plan_json(&ih["sort"]), "from": ih["from"].as_u64().unwrap_or(0), "size": ih["size"]}})
    };
  }
  m
}

pub fn close32(a: f32, b: f32) -> bool {
  a.to_bits() == b.to_bits() || idx::close(a as f64, b as f64, 2e-5)
}

fn bits_f32(v: &Value) -> f32 {
  f32::from_bits(v.as_u64().unwrap_or(0) as u32)
}

/// the aggregations every case of these properties may request: terms over `g`, value count of `n`
pub fn std_aggs() -> Value {
  json!({"t": {"type": "terms", "field": "g", "size": 100}, "c": {"type": "value_count", "field": "n"}})
}

/// model response vs implementation response; `None` = they agree.
/// Scores are compared with the float rule of DESIGN §3.5; two hit lists that differ only by
/// swapping hits whose scores are within tolerance count as equal.
pub fn compare(model: &Value, imp: &SearchResult, lay: &Layout, check_total: bool) -> Option<String> {
  if model["ok"] != json!(true) {
    return Some(format!("model error: {}", model["error"]));
  }
  let mh = model["hits"].as_array().cloned().unwrap_or_default();
  if mh.len() != imp.hits.len() {
    return Some(format!("hit count: model {} impl {}", mh.len(), imp.hits.len()));
  }
  let ids_m: Vec<&str> = mh.iter().map(|h| lay.by_pos.get(h["pos"].as_u64().unwrap_or(9999) as usize).map(|s| s.as_str()).unwrap_or("?")).collect();
  let same_set = {
    let mut a: Vec<&str> = ids_m.clone();
    let mut b: Vec<&str> = imp.hits.iter().map(|h| h.doc_id.as_str()).collect();
    a.sort();
    b.sort();
    a == b
  };
  for (i, (m, h)) in mh.iter().zip(imp.hits.iter()).enumerate() {
    let ms = bits_f32(&m["score"]);
    if !close32(ms, h.score) {
      return Some(format!("hit {i}: score model {ms} impl {} ({} vs {})", h.score, ids_m[i], h.doc_id));
    }
    if ids_m[i] != h.doc_id {
      if same_set {
        continue; // neighbours with scores within tolerance swapped
      }
      return Some(format!("hit {i}: id model {} impl {}", ids_m[i], h.doc_id));
    }
    let mi: Vec<&str> = m["inner"].as_array().map(|a| a.iter().map(|x| lay.by_pos.get(x["pos"].as_u64().unwrap_or(9999) as usize).map(|s| s.as_str()).unwrap_or("?")).collect()).unwrap_or_default();
    let ii: Vec<&str> = h.inner_hits.as_ref().map(|v| v.iter().map(|x| x.doc_id.as_str()).collect()).unwrap_or_default();
    if mi != ii {
      return Some(format!("hit {i} ({}): inner hits model {:?} impl {:?}", h.doc_id, mi, ii));
    }
    match (&m["final"], &h.explanation) {
      (Value::Null, None) => {}
      (Value::Null, Some(_)) => return Some(format!("hit {i}: implementation has an explanation, model none")),
      (_, None) => return Some(format!("hit {i}: model has an explanation, implementation none")),
      (f, Some(e)) => {
        if !close32(bits_f32(f), e.final_score) {
          return Some(format!("hit {i}: final_score model {} impl {}", bits_f32(f), e.final_score));
        }
        match (&m["resc"], &e.rescore) {
          (Value::Null, None) => {}
          (Value::Array(rc), Some(r)) => {
            if !close32(bits_f32(&rc[0]), r.rescore_score) || !close32(bits_f32(&rc[1]), r.combined_score) {
              return Some(format!("hit {i}: rescore explanation model {:?} impl ({}, {})", rc, r.rescore_score, r.combined_score));
            }
          }
          (a, b) => return Some(format!("hit {i}: rescore explanation presence model {} impl {}", !a.is_null(), b.is_some())),
        }
      }
    }
  }
  if check_total && model["total"].as_u64() != Some(imp.total_hits_estimate) {
    return Some(format!("total: model {} impl {}", model["total"], imp.total_hits_estimate));
  }
  if model["total_groups"].as_u64() != imp.total_groups {
    return Some(format!("total_groups: model {} impl {:?}", model["total_groups"], imp.total_groups));
  }
  if model["has_next"].as_bool() != Some(imp.next_cursor.is_some()) {
    return Some(format!("next_cursor: model {} impl {}", model["has_next"], imp.next_cursor.is_some()));
  }
  if model["profile"].as_bool() != Some(imp.profile.is_some()) {
    return Some(format!("profile presence: model {} impl {}", model["profile"], imp.profile.is_some()));
  }
  if let Some(t) = imp.aggregations.get("t") {
    let tv = serde_json::to_value(t).unwrap_or(Value::Null);
    let mut bi: Vec<(String, u64)> = tv["buckets"].as_array().map(|a| a.iter().map(|b| (key_str(&b["key"]), b["doc_count"].as_u64().unwrap_or(0))).collect()).unwrap_or_default();
    bi.sort();
    let mut bm: Vec<(String, u64)> = model["agg_terms"].as_array().map(|a| a.iter().map(|b| (lay.grp_names.get(b[0].as_u64().unwrap_or(999) as usize).cloned().unwrap_or_default(), b[1].as_u64().unwrap_or(0))).collect()).unwrap_or_default();
    bm.sort();
    if bi != bm {
      return Some(format!("terms aggregation: model {:?} impl {:?}", bm, bi));
    }
  }
  if let Some(c) = imp.aggregations.get("c") {
    let cv = serde_json::to_value(c).unwrap_or(Value::Null);
    let n = cv["value"].as_f64().or_else(|| cv["count"].as_f64()).unwrap_or(-1.0);
    if Some(n as u64) != model["agg_count"].as_u64() {
      return Some(format!("value_count: model {} impl {}", model["agg_count"], cv));
    }
  }
  None
}

pub fn key_str(v: &Value) -> String {
  match v {
    Value::String(s) => s.clone(),
    other => other.to_string(),
  }
}

/// does `total_hits_estimate` count every match for this request (no pruning)?
pub fn total_is_exact(req: &Value, query: &Value) -> bool {
  let fast = plan_json(&req["sort"]) == json!([{"f": "score", "desc": true}]);
  let scan = query["type"] == "match_all" || (query["type"] == "function_score" && query["query"]["type"] == "match_all");
  !fast || scan || req["execution"] == "bm25" || req["aggs"].as_object().map(|m| !m.is_empty()).unwrap_or(false) || !req["return_hits"].as_bool().unwrap_or(true)
}

// ---------------------------------------------------------------------------------------
// oracle-side ordering (Rust, independent of the Lean model): the request's sort comparator
// over (field values, score, layout position)
// ---------------------------------------------------------------------------------------

#[derive(Clone, Debug)]
pub struct OHit {
  pub id: String,
  pub score: f32,
  pub pos: usize,
  pub flds: Vec<Option<i64>>,
}

pub fn cmp_plan(plan: &Value, a: &OHit, b: &OHit) -> std::cmp::Ordering {
  use std::cmp::Ordering::*;
  for sp in plan.as_array().cloned().unwrap_or_default() {
    let desc = sp["desc"].as_bool().unwrap_or(false);
    let o = if sp["f"] == "score" {
      let o = a.score.total_cmp(&b.score);
      if desc { o.reverse() } else { o }
    } else {
      let i = sp["f"].as_u64().unwrap_or(0) as usize;
      match (a.flds.get(i).cloned().flatten(), b.flds.get(i).cloned().flatten()) {
        (None, None) => Equal,
        (None, Some(_)) => Greater,
        (Some(_), None) => Less,
        (Some(x), Some(y)) => {
          let o = x.cmp(&y);
          if desc { o.reverse() } else { o }
        }
      }
    };
    if o != Equal {
      return o;
    }
  }
  a.pos.cmp(&b.pos)
}

pub fn hit_ids(hits: &[Hit]) -> Vec<String> {
  hits.iter().map(|h| h.doc_id.clone()).collect()
}

/// canonical JSON of aggregations + suggestions for cross-variant comparison (floats rounded
/// to 6 significant digits; bucket lists kept in response order)
pub fn canon_aggs(res: &SearchResult) -> Value {
  fn round(v: &Value) -> Value {
    match v {
      Value::Number(n) if n.is_f64() => {
        let x = n.as_f64().unwrap_or(0.0);
        if x == 0.0 || !x.is_finite() {
          json!(0.0)
        } else {
          let mag = 10f64.powi(5 - x.abs().log10().floor() as i32);
          json!((x * mag).round() / mag)
        }
      }
      Value::Array(a) => Value::Array(a.iter().map(round).collect()),
      Value::Object(m) => Value::Object(m.iter().map(|(k, v)| (k.clone(), round(v))).collect()),
      other => other.clone(),
    }
  }
  let a = serde_json::to_value(&res.aggregations).unwrap_or(Value::Null);
  let s = serde_json::to_value(&res.suggest).unwrap_or(Value::Null);
  json!({"aggregations": round(&a), "suggest": round(&s)})
}

pub fn bt<T: Clone>(m: &BTreeMap<String, T>) -> Vec<String> {
  m.keys().cloned().collect()
}

/// `max(limit, candidate_size, rescore.window_size) + 1` (the window counts since /repo 089be57)
pub fn top_k_of(req: &Value) -> usize {
  req["candidate_size"].as_u64().unwrap_or(0).max(req["limit"].as_u64().unwrap_or(0)).max(req["rescore"]["window_size"].as_u64().unwrap_or(0)).min(20000) as usize + 1
}

/// ids of the hits that exist after the segment loop for this request, derived from the full
/// ranking (used only to *classify* a failure, never to decide one)
pub fn fetched_ids(full: &[Hit], lay: &Layout, req: &Value) -> BTreeSet<String> {
  let k = top_k_of(req);
  let fast = plan_json(&req["sort"]) == json!([{"f": "score", "desc": true}]);
  let explain = req["explain"].as_bool().unwrap_or(false);
  let mut out = BTreeSet::new();
  if fast {
    let mut per: HashMap<usize, usize> = HashMap::new();
    for h in full {
      let c = per.entry(lay.seg[&h.doc_id]).or_insert(0);
      if *c < k {
        out.insert(h.doc_id.clone());
      }
      *c += 1;
    }
  } else if explain {
    out.extend(full.iter().map(|h| h.doc_id.clone()));
  } else {
    out.extend(full.iter().take(k).map(|h| h.doc_id.clone()));
  }
  out
}

/// `needs_score_hook`: the query has custom scoring
pub fn has_hook(query: &Value) -> bool {
  matches!(query["type"].as_str(), Some("function_score") | Some("constant_score") | Some("rank_feature") | Some("script_score"))
}

/// the request class for which scores were NOT computed before /repo 8218789 / a5f1a65 (sort
/// without _score, query without custom scoring, explain off): every hit carried 0.  Used only to
/// classify a recurrence of the repaired findings.
pub fn legacy_score_mode_off(req: &Value) -> bool {
  !(plan_json(&req["sort"]).as_array().map(|a| a.iter().any(|p| p["f"] == "score")).unwrap_or(false) || has_hook(&req["query"]) || req["explain"].as_bool().unwrap_or(false))
}

/// the matching documents with their scores for the model: since /repo 8218789 scores are always
/// computed, so they are the scores of the ranking run itself (same sort, same flags)
pub fn raw_scores(_reader: &IndexReader, _ranking: &Value, seen: &SearchResult) -> Result<Vec<(String, f32)>, String> {
  Ok(seen.hits.iter().map(|h| (h.doc_id.clone(), h.score)).collect())
}

/// structural equality of two JSON values with numbers compared by the float rule (DESIGN §3.5)
pub fn value_close(a: &Value, b: &Value) -> bool {
  match (a, b) {
    (Value::Number(x), Value::Number(y)) => {
      if x.is_f64() || y.is_f64() {
        idx::close(x.as_f64().unwrap_or(f64::NAN), y.as_f64().unwrap_or(f64::NAN), 2e-5)
      } else {
        x == y
      }
    }
    (Value::Array(x), Value::Array(y)) => x.len() == y.len() && x.iter().zip(y.iter()).all(|(p, q)| value_close(p, q)),
    (Value::Object(x), Value::Object(y)) => x.len() == y.len() && x.iter().all(|(k, p)| y.get(k).map(|q| value_close(p, q)).unwrap_or(false)),
    _ => a == b,
  }
}

/// does a rescore query use one term in two scoring clauses (two leaves)?
pub fn shared_scoring_term(q: &Value) -> bool {
  fn collect(q: &Value, out: &mut Vec<String>) {
    match q["type"].as_str() {
      Some("term") => out.push(format!("{}:{}", q["field"].as_str().unwrap_or(""), q["value"].as_str().unwrap_or(""))),
      Some("query_string") => {
        for tok in q["query"].as_str().unwrap_or("").split_whitespace() {
          out.push(if tok.contains(':') { tok.to_string() } else { format!("body:{tok}") });
        }
      }
      Some("bool") => {
        for k in ["must", "should"] {
          for c in q[k].as_array().cloned().unwrap_or_default() {
            collect(&c, out);
          }
        }
      }
      Some("dis_max") => {
        for c in q["queries"].as_array().cloned().unwrap_or_default() {
          collect(&c, out);
        }
      }
      Some("function_score") => collect(&q["query"], out),
      _ => {}
    }
  }
  let mut v = Vec::new();
  collect(q, &mut v);
  let n = v.len();
  v.sort();
  v.dedup();
  v.len() < n
}
