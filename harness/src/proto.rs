//! Pipe to the Lean model driver (`slmodel`): one JSON object per line each way.
use serde_json::{json, Value};
use std::io::{BufRead, BufReader, Write};
use std::process::{Child, ChildStdin, ChildStdout, Command, Stdio};

pub struct Driver {
  child: Child,
  stdin: ChildStdin,
  stdout: BufReader<ChildStdout>,
  pub requests: u64,
}

/// root of the verification tree (`/verif`, or a worktree copy of it)
pub fn verif_root() -> String {
  std::env::var("VERIF_ROOT").unwrap_or_else(|_| "/verif".to_string())
}

pub fn driver_path() -> String {
  std::env::var("SLMODEL").unwrap_or_else(|_| format!("{}/lean/.lake/build/bin/slmodel", verif_root()))
}

impl Driver {
  pub fn spawn() -> Driver {
    let mut child = Command::new(driver_path())
      .stdin(Stdio::piped())
      .stdout(Stdio::piped())
      .stderr(Stdio::inherit())
      .spawn()
      .expect("cannot start slmodel (run ./check --setup)");
    let stdin = child.stdin.take().unwrap();
    let stdout = BufReader::new(child.stdout.take().unwrap());
    Driver { child, stdin, stdout, requests: 0 }
  }

  /// Send one request for property `p`; returns the response object (with `"ok"`).
  pub fn call(&mut self, p: &str, mut req: Value) -> Value {
    req["p"] = json!(p);
    let line = serde_json::to_string(&req).unwrap();
    self.requests += 1;
    if self.stdin.write_all(line.as_bytes()).is_err()
      || self.stdin.write_all(b"\n").is_err()
      || self.stdin.flush().is_err()
    {
      return json!({"ok": false, "error": "driver pipe closed"});
    }
    let mut out = String::new();
    match self.stdout.read_line(&mut out) {
      Ok(0) | Err(_) => json!({"ok": false, "error": "driver died"}),
      Ok(_) => serde_json::from_str(&out)
        .unwrap_or_else(|e| json!({"ok": false, "error": format!("bad driver output: {e}: {out}")})),
    }
  }
}

impl Drop for Driver {
  fn drop(&mut self) {
    let _ = self.child.kill();
    let _ = self.child.wait();
  }
}
