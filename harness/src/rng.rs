//! SplitMix64 — every random choice of the harness derives from one seed.
#[derive(Clone)]
pub struct Rng(pub u64);

impl Rng {
  pub fn new(seed: u64) -> Self {
    Rng(seed.wrapping_mul(0x9E3779B97F4A7C15) ^ 0xD1B54A32D192ED03)
  }
  /// independent stream for case `i` of property `tag`
  pub fn for_case(seed: u64, tag: &str, i: u64) -> Self {
    let mut h: u64 = 0xcbf29ce484222325;
    for b in tag.bytes() {
      h = (h ^ b as u64).wrapping_mul(0x100000001b3);
    }
    let mut r = Rng(seed ^ h.rotate_left(17) ^ i.wrapping_mul(0xA24BAED4963EE407));
    r.next();
    r.next();
    r
  }
  pub fn next(&mut self) -> u64 {
    self.0 = self.0.wrapping_add(0x9E3779B97F4A7C15);
    let mut z = self.0;
    z = (z ^ (z >> 30)).wrapping_mul(0xBF58476D1CE4E5B9);
    z = (z ^ (z >> 27)).wrapping_mul(0x94D049BB133111EB);
    z ^ (z >> 31)
  }
  /// uniform in 0..n (n > 0)
  pub fn below(&mut self, n: usize) -> usize {
    (self.next() % (n.max(1) as u64)) as usize
  }
  /// uniform in lo..=hi
  pub fn range(&mut self, lo: i64, hi: i64) -> i64 {
    lo + (self.next() % ((hi - lo + 1) as u64)) as i64
  }
  pub fn chance(&mut self, num: u64, den: u64) -> bool {
    self.next() % den < num
  }
  pub fn pick<'a, T>(&mut self, xs: &'a [T]) -> &'a T {
    &xs[self.below(xs.len())]
  }
  pub fn f64(&mut self) -> f64 {
    (self.next() >> 11) as f64 / (1u64 << 53) as f64
  }
  pub fn shuffle<T>(&mut self, xs: &mut [T]) {
    for i in (1..xs.len()).rev() {
      let j = self.below(i + 1);
      xs.swap(i, j);
    }
  }
}
