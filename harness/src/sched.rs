//! Controlled scheduler over the H2 pause points (`storage::verif::install_points`).
//!
//! Every worker thread of a case carries a thread-local id.  Whenever such a thread hits an
//! instrumented point (section `enter`/`exit`, `at` point) or one of the harness' own call
//! boundaries, it records the event in one totally ordered trace and — if the point is a pause
//! point — blocks until the scheduler grants it the next step.  The scheduler (the case's own
//! thread) lets exactly one thread run at a time and picks the next one by a strategy
//! (round-robin, random, PCT priorities with change points, explicit script).
//!
//! A granted thread that does not arrive at its next point in time is *treated as blocked* (on
//! `writer_lock` or on the manifest `RwLock`) and another thread is chosen; it arrives later,
//! when the lock is released.  Time-outs only influence which schedules are explored: the trace
//! is recorded in real arrival order under one mutex, `enter`/`exit` are reported while the
//! writer lock is held, so the order of sections in the trace is the lock order whatever the
//! timing was.
use crate::rng::Rng;
use searchlite_core::storage::verif;
use serde_json::{json, Value};
use std::cell::Cell;
use std::path::Path;
use std::sync::{Arc, Condvar, Mutex};
use std::time::{Duration, Instant};

thread_local! {
  static TID: Cell<Option<usize>> = const { Cell::new(None) };
  /// storage reads of this thread are counted (and may pause) only while this is set
  static COUNT_READS: Cell<bool> = const { Cell::new(false) };
}

/// additional pause point from hook H1 (filesystem backend): thread `thread` pauses right before
/// its `k`-th storage read (`open_read` / `read_to_end`) inside a `Ctx::count_reads` region
#[derive(Clone, Copy, Debug)]
pub struct FsPause {
  pub thread: usize,
  pub k: usize,
}

#[derive(Clone, Debug)]
pub struct Ev {
  pub thread: usize,
  /// enter | exit | inside | free
  pub kind: &'static str,
  pub name: String,
  /// what the `on_point` callback captured at this event (e.g. the manifest just published)
  pub data: Option<Value>,
  /// which threads were waiting at a pause point when this event was recorded
  pub paused: Vec<bool>,
}

impl Ev {
  pub fn to_json(&self) -> Value {
    json!([self.thread, self.kind, self.name])
  }
}

#[derive(Clone, Copy, PartialEq, Debug)]
enum Status {
  /// granted; `blocked` once its deadline passed without arrival
  Running { since: Instant, predicted: bool, blocked: bool },
  Paused,
  Done,
}

pub enum Strategy {
  RoundRobin { next: usize },
  Random(Rng),
  /// PCT: fixed random priorities; at the given step numbers the thread that ran last drops to
  /// the lowest priority
  Pct { prio: Vec<i64>, changes: Vec<usize>, low: i64 },
  /// explicit order of thread ids; entries whose thread is not waiting are skipped; when the
  /// script is used up the lowest waiting thread id runs
  Script { script: Vec<usize>, pos: usize },
}

impl Strategy {
  pub fn from_json(v: &Value, n: usize) -> Strategy {
    let seed = v["seed"].as_u64().unwrap_or(1);
    match v["kind"].as_str().unwrap_or("rr") {
      "random" => Strategy::Random(Rng::new(seed)),
      "pct" => {
        let mut rng = Rng::new(seed);
        let mut prio: Vec<i64> = (0..n as i64).map(|i| i + 1).collect();
        rng.shuffle(&mut prio);
        let changes = v["changes"].as_array().map(|a| a.iter().filter_map(|x| x.as_u64()).map(|x| x as usize).collect()).unwrap_or_default();
        Strategy::Pct { prio, changes, low: 0 }
      }
      "script" => Strategy::Script {
        script: v["script"].as_array().map(|a| a.iter().filter_map(|x| x.as_u64()).map(|x| x as usize).collect()).unwrap_or_default(),
        pos: 0,
      },
      _ => Strategy::RoundRobin { next: (seed as usize) % n.max(1) },
    }
  }

  fn pick(&mut self, paused: &[usize], step: usize, last: Option<usize>, n: usize) -> usize {
    match self {
      Strategy::RoundRobin { next } => {
        for d in 0..n {
          let t = (*next + d) % n;
          if paused.contains(&t) {
            *next = (t + 1) % n;
            return t;
          }
        }
        paused[0]
      }
      Strategy::Random(rng) => paused[rng.below(paused.len())],
      Strategy::Pct { prio, changes, low } => {
        if changes.contains(&step) {
          if let Some(l) = last {
            *low -= 1;
            prio[l] = *low;
          }
        }
        *paused.iter().max_by_key(|t| prio[**t]).unwrap()
      }
      Strategy::Script { script, pos } => {
        while *pos < script.len() {
          let t = script[*pos];
          *pos += 1;
          if paused.contains(&t) {
            return t;
          }
        }
        *paused.iter().min().unwrap()
      }
    }
  }
}

struct State {
  status: Vec<Status>,
  trace: Vec<Ev>,
  /// thread inside a writer-lock section (by its own enter/exit events)
  holder: Option<usize>,
  /// per thread: name of the last point it reported
  last_point: Vec<String>,
  /// per thread: what it will do next needs the writer lock / the manifest read lock
  wants_writer: Vec<bool>,
  wants_manifest: Vec<bool>,
  /// per thread: it is inside `IndexReader::open` between the manifest copy and the last open,
  /// i.e. it holds the manifest read guard (repaired protocol)
  holds_read: Vec<bool>,
  /// per thread: storage reads counted so far
  fs_reads: Vec<usize>,
}

pub struct Sched {
  st: Mutex<State>,
  cv: Condvar,
  /// which points pause (thread, kind, name); others are only recorded
  pauses: Pauses,
  /// called on the reporting thread (thread-local id cleared, so nested library calls are not
  /// scheduled) before the event is recorded
  on_point: Option<OnPoint>,
}

pub type Pauses = Box<dyn Fn(usize, &str, &str) -> bool + Send + Sync>;
pub type OnPoint = Box<dyn Fn(usize, &str, &str) -> Option<Value> + Send + Sync>;

/// model kind of an H2 event
pub fn classify(kind: &str, name: &str) -> &'static str {
  match kind {
    "enter" => "enter",
    "exit" => "exit",
    _ => {
      if name.starts_with("commit.") || name.starts_with("compact.") {
        "inside"
      } else {
        "free"
      }
    }
  }
}

impl Sched {
  /// called on a worker thread: record the event, pause if it is a pause point
  pub fn arrive(&self, tid: usize, kind: &'static str, name: &str) {
    let data = match &self.on_point {
      Some(f) => {
        TID.with(|t| t.set(None));
        let d = f(tid, kind, name);
        TID.with(|t| t.set(Some(tid)));
        d
      }
      None => None,
    };
    let mut g = self.st.lock().unwrap();
    let paused: Vec<bool> = g.status.iter().map(|s| *s == Status::Paused).collect();
    g.trace.push(Ev { thread: tid, kind, name: name.to_string(), data, paused });
    if kind == "enter" {
      g.holder = Some(tid);
    }
    // manifest read guard: `IndexReader::open` holds it from the copy to the last segment open
    // (the compaction's own internal reader has released it when `compact.after_segment` is hit)
    if name == "reader.after_manifest_copy" {
      g.holds_read[tid] = true;
    } else if name.starts_with("compact.") || name.starts_with("commit.") {
      g.holds_read[tid] = false;
    }
    g.last_point[tid] = name.to_string();
    if kind == "enter" {
      g.wants_writer[tid] = false;
    }
    if name == "reader.after_manifest_copy" {
      g.wants_manifest[tid] = false;
    }
    if (self.pauses)(tid, kind, name) {
      g.status[tid] = Status::Paused;
      self.cv.notify_all();
      while g.status[tid] == Status::Paused {
        g = self.cv.wait(g).unwrap();
      }
    }
    // the writer lock is released only after the thread continues past its `exit` report
    if kind == "exit" && g.holder == Some(tid) {
      g.holder = None;
      self.cv.notify_all();
    }
  }

  fn done(&self, tid: usize) {
    let mut g = self.st.lock().unwrap();
    g.status[tid] = Status::Done;
    self.cv.notify_all();
  }
}

/// handle given to a worker body
pub struct Ctx {
  pub tid: usize,
  sched: Arc<Sched>,
}

impl Ctx {
  /// pause point before call `k`; `writer`: the call takes the writer lock first;
  /// `manifest`: the call copies the manifest (reader open) first
  pub fn begin(&self, k: usize, writer: bool, manifest: bool) {
    {
      let mut g = self.sched.st.lock().unwrap();
      g.wants_writer[self.tid] = writer;
      g.wants_manifest[self.tid] = manifest;
    }
    self.sched.arrive(self.tid, "free", &format!("call.begin:{k}"));
  }
  /// run `f` with this thread's storage reads counted (and pausable, see `FsPause`)
  pub fn count_reads<T>(&self, f: impl FnOnce() -> T) -> T {
    COUNT_READS.with(|c| c.set(true));
    let r = f();
    COUNT_READS.with(|c| c.set(false));
    r
  }
  /// recorded, never pauses
  pub fn end(&self, k: usize) {
    let mut g = self.sched.st.lock().unwrap();
    g.wants_writer[self.tid] = false;
    g.wants_manifest[self.tid] = false;
    g.holds_read[self.tid] = false;
    let paused: Vec<bool> = g.status.iter().map(|s| *s == Status::Paused).collect();
    g.trace.push(Ev { thread: self.tid, kind: "free", name: format!("call.end:{k}"), data: None, paused });
    self.sched.cv.notify_all();
  }
}

pub struct RunOut {
  pub trace: Vec<Ev>,
  /// per thread: what its body returned (None: thread abandoned after a dead-lock)
  pub results: Vec<Option<Vec<Value>>>,
  pub steps: usize,
  /// grants while the lock the thread needs was known to be held (contention exercised)
  pub blocked_predicted: usize,
  /// a thread missed its deadline although nothing it needs was known to be held
  pub blocked_unpredicted: usize,
  /// per thread: it was treated as blocked at least once
  pub was_blocked: Vec<bool>,
  /// per thread: storage reads inside `Ctx::count_reads` regions
  pub fs_reads: Vec<usize>,
  pub stuck: bool,
}

pub struct Timing {
  /// wait for a thread whose next step needs a lock that is known to be held
  pub predicted: Duration,
  /// wait for any other thread before it is treated as blocked
  pub other: Duration,
  /// nobody can run and nobody arrives for this long: dead-lock (generous: a commit under heavy
  /// I/O load was seen to take > 15 s; a real dead-lock never ends)
  pub dead: Duration,
}

impl Default for Timing {
  fn default() -> Self {
    Timing { predicted: Duration::from_millis(12), other: Duration::from_millis(1500), dead: Duration::from_secs(180) }
  }
}

pub type Body = Box<dyn FnOnce(&Ctx) -> Vec<Value> + Send + 'static>;

/// Run the bodies as threads of one index rooted at `root` under the controlled scheduler.
pub fn run(root: &Path, strategy: Strategy, timing: Timing, pauses: Pauses, on_point: Option<OnPoint>, bodies: Vec<Body>) -> RunOut {
  run_fs(root, strategy, timing, pauses, on_point, None, bodies)
}

/// `run` with storage reads of the filesystem backend reported through hook H1: they are counted
/// per thread and `fs_pause` makes one of them a pause point (event `storage.read`)
pub fn run_fs(root: &Path, mut strategy: Strategy, timing: Timing, pauses: Pauses, on_point: Option<OnPoint>, fs_pause: Option<FsPause>, bodies: Vec<Body>) -> RunOut {
  let n = bodies.len();
  let start = Instant::now();
  let sched = Arc::new(Sched {
    st: Mutex::new(State {
      status: vec![Status::Running { since: start, predicted: false, blocked: false }; n],
      trace: Vec::new(),
      holder: None,
      last_point: vec![String::new(); n],
      wants_writer: vec![false; n],
      wants_manifest: vec![false; n],
      holds_read: vec![false; n],
      fs_reads: vec![0usize; n],
    }),
    cv: Condvar::new(),
    pauses,
    on_point,
  });
  {
    let s2 = sched.clone();
    verif::install_points(
      root.to_path_buf(),
      Arc::new(move |_root: &Path, kind: &'static str, name: &'static str| {
        if let Some(tid) = TID.with(|t| t.get()) {
          s2.arrive(tid, classify(kind, name), name);
        }
      }),
    );
  }
  {
    let s2 = sched.clone();
    verif::install(
      root.to_path_buf(),
      Arc::new(move |ev: &verif::FsEvent| {
        if ev.after || !(ev.op == "open_read" || ev.op == "read") || !COUNT_READS.with(|c| c.get()) {
          return Ok(());
        }
        if let Some(tid) = TID.with(|t| t.get()) {
          let k = {
            let mut g = s2.st.lock().unwrap();
            g.fs_reads[tid] += 1;
            g.fs_reads[tid]
          };
          if let Some(p) = fs_pause {
            if p.thread == tid && p.k == k {
              s2.arrive(tid, "free", "storage.read");
            }
          }
        }
        Ok(())
      }),
    );
  }
  let results: Arc<Mutex<Vec<Option<Vec<Value>>>>> = Arc::new(Mutex::new(vec![None; n]));
  let mut handles = Vec::new();
  for (tid, body) in bodies.into_iter().enumerate() {
    let s2 = sched.clone();
    let r2 = results.clone();
    handles.push(std::thread::spawn(move || {
      TID.with(|t| t.set(Some(tid)));
      let ctx = Ctx { tid, sched: s2.clone() };
      let out = crate::util::guarded(|| body(&ctx)).unwrap_or_else(|p| vec![json!({"panic": p})]);
      r2.lock().unwrap()[tid] = Some(out);
      TID.with(|t| t.set(None));
      s2.done(tid);
    }));
  }

  let mut steps = 0usize;
  let mut blocked_predicted = 0usize;
  let mut blocked_unpredicted = 0usize;
  let mut stuck = false;
  let mut last: Option<usize> = None;
  let mut was_blocked = vec![false; n];
  let mut cause_gone_at: Vec<Option<Instant>> = vec![None; n];
  let mut gave_up = vec![false; n];
  let mut g = sched.st.lock().unwrap();
  loop {
    // 1. wait until every running thread has arrived or is treated as blocked; a blocked thread
    //    whose lock is no longer held is waited for again (it is about to arrive)
    loop {
      let now = Instant::now();
      let mut next_deadline: Option<Instant> = None;
      for t in 0..n {
        match g.status[t] {
          Status::Running { since, predicted, blocked: false } => {
            let dl = since + if predicted { timing.predicted } else { timing.other };
            if now >= dl {
              g.status[t] = Status::Running { since, predicted, blocked: true };
              was_blocked[t] = true;
              cause_gone_at[t] = None;
              gave_up[t] = false;
              if predicted {
                blocked_predicted += 1;
              } else {
                blocked_unpredicted += 1;
              }
            } else {
              next_deadline = Some(next_deadline.map_or(dl, |d: Instant| d.min(dl)));
            }
          }
          Status::Running { blocked: true, .. } if !gave_up[t] => {
            if cause_holds(&g, t, n) {
              cause_gone_at[t] = None;
            } else {
              let t0 = *cause_gone_at[t].get_or_insert(now);
              let dl = t0 + timing.other;
              if now >= dl {
                gave_up[t] = true;
                blocked_unpredicted += 1;
              } else {
                next_deadline = Some(next_deadline.map_or(dl, |d: Instant| d.min(dl)));
              }
            }
          }
          _ => {}
        }
      }
      match next_deadline {
        None => break,
        Some(dl) => {
          let (g2, _) = sched.cv.wait_timeout(g, dl.saturating_duration_since(Instant::now()) + Duration::from_micros(200)).unwrap();
          g = g2;
        }
      }
    }
    if g.status.iter().all(|s| *s == Status::Done) {
      break;
    }
    // 2. candidates
    let paused: Vec<usize> = (0..n).filter(|t| g.status[*t] == Status::Paused).collect();
    if paused.is_empty() {
      // everybody left is blocked: wait for an arrival
      let t0 = Instant::now();
      let mut arrived = false;
      while t0.elapsed() < timing.dead {
        let (g2, _) = sched.cv.wait_timeout(g, Duration::from_millis(50)).unwrap();
        g = g2;
        if g.status.iter().any(|s| *s == Status::Paused) || g.status.iter().all(|s| *s == Status::Done) {
          arrived = true;
          break;
        }
      }
      if !arrived {
        stuck = true;
        break;
      }
      continue;
    }
    // 3. pick and grant
    let t = strategy.pick(&paused, steps, last, n);
    steps += 1;
    last = Some(t);
    let predicted = cause_holds(&g, t, n);
    g.status[t] = Status::Running { since: Instant::now(), predicted, blocked: false };
    sched.cv.notify_all();
  }
  let trace = g.trace.clone();
  let fs_reads = g.fs_reads.clone();
  drop(g);
  if !stuck {
    for h in handles {
      let _ = h.join();
    }
  }
  verif::uninstall_points(root);
  verif::uninstall(root);
  let results = results.lock().unwrap().clone();
  RunOut { trace, results, steps, blocked_predicted, blocked_unpredicted, was_blocked, fs_reads, stuck }
}

/// the lock thread `t` needs next is known to be held by another thread: the writer lock by the
/// thread inside a section; the manifest lock by a compaction paused at `compact.after_segment`
/// (blocks readers) or by a reader paused inside its open window (blocks the manifest swap of a
/// commit or compaction)
fn cause_holds(g: &State, t: usize, n: usize) -> bool {
  let compactor_holds_manifest = (0..n).any(|u| u != t && g.last_point[u] == "compact.after_segment" && g.status[u] != Status::Done);
  // a writer parked on `manifest.write()` also blocks new readers (parking_lot is write-preferring)
  let writer_parked = (0..n).any(|u| u != t && wants_write(g, u) && matches!(g.status[u], Status::Running { blocked: true, .. }));
  let reader_holds_guard = (0..n).any(|u| u != t && g.holds_read[u] && g.status[u] != Status::Done);
  (g.wants_writer[t] && g.holder.is_some() && g.holder != Some(t))
    || (g.wants_manifest[t] && (compactor_holds_manifest || writer_parked))
    || (wants_write(g, t) && reader_holds_guard)
}

/// thread `t` is inside a commit/compaction section and has not yet passed the manifest swap: its
/// next step may need `manifest.write()`
fn wants_write(g: &State, t: usize) -> bool {
  g.holder == Some(t)
    && matches!(
      g.last_point[t].as_str(),
      "compact" | "commit" | "reader.after_manifest_copy" | "reader.before_segment_open" | "commit.after_snapshot" | "commit.after_segment" | "commit.after_store" | "commit.after_marker"
    )
}

/// `(thread, k)` of the calls in the order of their `enter` events (k-th enter of a thread =
/// its k-th call), computed on the harness side, independently of the model
pub fn enter_order(trace: &[Ev], n: usize) -> Vec<(usize, usize)> {
  let mut next = vec![0usize; n];
  let mut out = Vec::new();
  for e in trace {
    if e.kind == "enter" {
      out.push((e.thread, next[e.thread]));
      next[e.thread] += 1;
    }
  }
  out
}
