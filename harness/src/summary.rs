//! What one harness run reports to `check`.
use serde_json::{json, Value};
use std::collections::{BTreeMap, BTreeSet};

const KEEP: usize = 12;

#[derive(Default)]
pub struct Summary {
  pub cases: u64,
  pub nontrivial: BTreeSet<u64>,
  pub dist: BTreeMap<String, u64>,
  pub samples: Vec<Value>,
  /// model vs implementation differ (correspondence break)
  pub disagreements: Vec<Value>,
  pub n_disagreements: u64,
  /// the property predicate itself fails on the implementation
  pub failures: Vec<Value>,
  pub n_failures: u64,
  pub failure_sigs: BTreeMap<String, u64>,
  pub traces_validated: u64,
  pub model_requests: u64,
  pub notes: Vec<String>,
  pub exhaustive: bool,
  /// distinct non-trivial cases counted by child processes (isolated execution)
  pub nontrivial_children: u64,
}

pub fn fnv(s: &str) -> u64 {
  let mut h: u64 = 0xcbf29ce484222325;
  for b in s.bytes() {
    h = (h ^ b as u64).wrapping_mul(0x100000001b3);
  }
  h
}

impl Summary {
  /// register one executed case; `nontrivial` by the property's stated rule
  pub fn case(&mut self, case: &Value, nontrivial: bool) {
    self.cases += 1;
    if nontrivial {
      self.nontrivial.insert(fnv(&case.to_string()));
    }
    if self.samples.len() < 3 && nontrivial {
      self.samples.push(case.clone());
    }
  }
  pub fn count(&mut self, key: &str) {
    *self.dist.entry(key.to_string()).or_insert(0) += 1;
  }
  pub fn add(&mut self, key: &str, n: u64) {
    *self.dist.entry(key.to_string()).or_insert(0) += n;
  }
  pub fn disagree(&mut self, name: &str, case: &Value, imp: Value, model: Value) {
    self.n_disagreements += 1;
    if self.disagreements.len() < KEEP {
      self.disagreements.push(json!({"correspondence": name, "case": case, "impl": imp, "model": model}));
    }
  }
  /// `sig`: signature string matched against known_findings.json
  pub fn fail(&mut self, sig: &str, what: &str, case: &Value, observed: Value) {
    self.n_failures += 1;
    *self.failure_sigs.entry(sig.to_string()).or_insert(0) += 1;
    let kept = self.failures.iter().filter(|f| f["sig"] == sig).count();
    if kept < 3 && self.failures.len() < 4 * KEEP {
      self.failures.push(json!({"sig": sig, "what": what, "case": case, "observed": observed}));
    }
  }
  pub fn merge(&mut self, o: Summary) {
    self.cases += o.cases;
    self.nontrivial.extend(o.nontrivial);
    for (k, v) in o.dist {
      *self.dist.entry(k).or_insert(0) += v;
    }
    for s in o.samples {
      if self.samples.len() < 3 {
        self.samples.push(s);
      }
    }
    self.n_disagreements += o.n_disagreements;
    for d in o.disagreements {
      if self.disagreements.len() < KEEP {
        self.disagreements.push(d);
      }
    }
    self.n_failures += o.n_failures;
    for (k, v) in o.failure_sigs {
      *self.failure_sigs.entry(k).or_insert(0) += v;
    }
    for f in o.failures {
      let kept = self.failures.iter().filter(|g| g["sig"] == f["sig"]).count();
      if kept < 3 && self.failures.len() < 4 * KEEP {
        self.failures.push(f);
      }
    }
    self.traces_validated += o.traces_validated;
    self.model_requests += o.model_requests;
    self.notes.extend(o.notes);
    self.nontrivial_children += o.nontrivial_children;
  }
  /// fold in the JSON summary written by a child process that ran some of the cases
  pub fn absorb_json(&mut self, j: &Value) {
    self.cases += j["cases"].as_u64().unwrap_or(0);
    self.nontrivial_children += j["distinct_nontrivial"].as_u64().unwrap_or(0);
    if let Some(d) = j["distribution"].as_object() {
      for (k, v) in d {
        *self.dist.entry(k.clone()).or_insert(0) += v.as_u64().unwrap_or(0);
      }
    }
    for x in j["samples"].as_array().cloned().unwrap_or_default() {
      if self.samples.len() < 3 {
        self.samples.push(x);
      }
    }
    self.n_disagreements += j["n_disagreements"].as_u64().unwrap_or(0);
    for d in j["disagreements"].as_array().cloned().unwrap_or_default() {
      if self.disagreements.len() < KEEP {
        self.disagreements.push(d);
      }
    }
    self.n_failures += j["n_failures"].as_u64().unwrap_or(0);
    if let Some(d) = j["failure_sigs"].as_object() {
      for (k, v) in d {
        *self.failure_sigs.entry(k.clone()).or_insert(0) += v.as_u64().unwrap_or(0);
      }
    }
    for f in j["failures"].as_array().cloned().unwrap_or_default() {
      let kept = self.failures.iter().filter(|g| g["sig"] == f["sig"]).count();
      if kept < 3 && self.failures.len() < 4 * KEEP {
        self.failures.push(f);
      }
    }
    self.traces_validated += j["traces_validated_against_impl"].as_u64().unwrap_or(0);
    self.model_requests += j["model_requests"].as_u64().unwrap_or(0);
    for n in j["notes"].as_array().cloned().unwrap_or_default() {
      if let Some(t) = n.as_str() {
        self.notes.push(t.to_string());
      }
    }
  }
  pub fn to_json(&self, property: &str, rule: &str, tier: &str, seed: u64) -> Value {
    json!({
      "property": property, "tier": tier, "seed": seed,
      "cases": self.cases, "distinct_nontrivial": self.nontrivial.len() as u64 + self.nontrivial_children, "rule": rule,
      "distribution": self.dist, "samples": self.samples,
      "disagreements": self.disagreements, "n_disagreements": self.n_disagreements,
      "failures": self.failures, "n_failures": self.n_failures, "failure_sigs": self.failure_sigs,
      "traces_validated_against_impl": self.traces_validated,
      "model_requests": self.model_requests,
      "notes": self.notes, "exhaustive": self.exhaustive,
    })
  }
}
