//! Shared helpers: scratch directories, panic capture, hex.
use std::panic::{catch_unwind, AssertUnwindSafe};

/// run `f`, mapping a panic to `Err(message)`
pub fn guarded<T>(f: impl FnOnce() -> T) -> Result<T, String> {
  catch_unwind(AssertUnwindSafe(f)).map_err(|e| {
    if let Some(s) = e.downcast_ref::<&str>() {
      s.to_string()
    } else if let Some(s) = e.downcast_ref::<String>() {
      s.clone()
    } else {
      "panic".to_string()
    }
  })
}

pub fn hex(bytes: &[u8]) -> String {
  let mut s = String::with_capacity(bytes.len() * 2);
  for b in bytes {
    s.push_str(&format!("{:02x}", b));
  }
  s
}

pub fn unhex(s: &str) -> Vec<u8> {
  (0..s.len() / 2).map(|i| u8::from_str_radix(&s[2 * i..2 * i + 2], 16).unwrap_or(0)).collect()
}

/// scratch directory outside /repo and /verif, removed on drop
pub fn scratch() -> tempfile::TempDir {
  let base = std::env::var("VERIF_SCRATCH").unwrap_or_else(|_| "/tmp".to_string());
  tempfile::Builder::new().prefix("slh-").tempdir_in(base).expect("scratch dir")
}
