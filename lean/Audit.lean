import Lean
/-!
`lake env lean --run Audit.lean SLModel.Props.C26 …`
For every theorem declared in the named modules prints one JSON object per line:
`{"module":…,"theorem":…,"axioms":[…]}`.  Lemmas used from other modules are covered
transitively because `collectAxioms` walks the whole proof term.
-/
open Lean

def auditModule (env : Environment) (modName : Name) : IO Unit := do
  let some idx := env.getModuleIdx? modName
    | throw <| IO.userError s!"module {modName} not found"
  let mut names : Array Name := #[]
  for (n, ci) in env.constants.map₁.toList do
    if env.getModuleIdxFor? n == some idx then
      match ci with
      | .thmInfo _ => if !n.isInternal then names := names.push n
      | _ => pure ()
  let sorted := names.qsort (fun a b => a.toString < b.toString)
  for n in sorted do
    let (axs0, _) ← (collectAxioms n : CoreM (Array Name)).toIO
      { fileName := "<audit>", fileMap := default } { env := env }
    let axs := axs0.qsort (fun a b => a.toString < b.toString)
    let j := Json.mkObj [("module", modName.toString), ("theorem", n.toString),
      ("axioms", Json.arr (axs.map (fun a => (a.toString : Json))))]
    IO.println j.compress

unsafe def main (args : List String) : IO UInt32 := do
  initSearchPath (← findSysroot)
  unsafe enableInitializersExecution
  let mods := args.map String.toName
  let env ← importModules (mods.toArray.map (fun m => { module := m })) {} (loadExts := true)
  for m in mods do
    auditModule env m
  return 0
