import SLModel.Drv.Util
import SLModel.Drv.C01
import SLModel.Drv.C02
import SLModel.Drv.C03
import SLModel.Drv.C04
import SLModel.Drv.C05
import SLModel.Drv.C06
import SLModel.Drv.C07
import SLModel.Drv.C08
import SLModel.Drv.C09
import SLModel.Drv.C10
import SLModel.Drv.C11
import SLModel.Drv.C12
import SLModel.Drv.C13
import SLModel.Drv.C14
import SLModel.Drv.C15
import SLModel.Drv.C16
import SLModel.Drv.C17
import SLModel.Drv.C18
import SLModel.Drv.C19
import SLModel.Drv.C20
import SLModel.Drv.C21
import SLModel.Drv.C22
import SLModel.Drv.C23
import SLModel.Drv.C24
import SLModel.Drv.C25
import SLModel.Drv.C26
import SLModel.Drv.C27
import SLModel.Drv.C28
import SLModel.Drv.C29
import SLModel.Drv.C30
/-!
`slmodel`: JSON-lines server around the model's executable definitions.
One request per line `{"p":"C26","op":…,…}`; one response line `{"ok":true,…}` or
`{"ok":false,"error":…}`.  Dispatch is by property id; each `SLModel/Drv/Cnn.lean`
exports `handle : Json → Except String Json`.
-/
open Lean

def dispatch (p : String) (req : Json) : Except String Json :=
  match p with
  | "C01" => SL.Drv.C01.handle req
  | "C02" => SL.Drv.C02.handle req
  | "C03" => SL.Drv.C03.handle req
  | "C04" => SL.Drv.C04.handle req
  | "C05" => SL.Drv.C05.handle req
  | "C06" => SL.Drv.C06.handle req
  | "C07" => SL.Drv.C07.handle req
  | "C08" => SL.Drv.C08.handle req
  | "C09" => SL.Drv.C09.handle req
  | "C10" => SL.Drv.C10.handle req
  | "C11" => SL.Drv.C11.handle req
  | "C12" => SL.Drv.C12.handle req
  | "C13" => SL.Drv.C13.handle req
  | "C14" => SL.Drv.C14.handle req
  | "C15" => SL.Drv.C15.handle req
  | "C16" => SL.Drv.C16.handle req
  | "C17" => SL.Drv.C17.handle req
  | "C18" => SL.Drv.C18.handle req
  | "C19" => SL.Drv.C19.handle req
  | "C20" => SL.Drv.C20.handle req
  | "C21" => SL.Drv.C21.handle req
  | "C22" => SL.Drv.C22.handle req
  | "C23" => SL.Drv.C23.handle req
  | "C24" => SL.Drv.C24.handle req
  | "C25" => SL.Drv.C25.handle req
  | "C26" => SL.Drv.C26.handle req
  | "C27" => SL.Drv.C27.handle req
  | "C28" => SL.Drv.C28.handle req
  | "C29" => SL.Drv.C29.handle req
  | "C30" => SL.Drv.C30.handle req
  | _ => .error s!"unknown property {p}"

def handleLine (line : String) : String :=
  match Json.parse line with
  | .error e => (Json.mkObj [("ok", false), ("error", s!"parse: {e}")]).compress
  | .ok req =>
    match req.getObjVal? "p" >>= (·.getStr?) with
    | .error e => (Json.mkObj [("ok", false), ("error", e)]).compress
    | .ok p =>
      match dispatch p req with
      | .ok (Json.obj kvs) => (Json.obj (kvs.insert "ok" true)).compress
      | .ok j => (Json.mkObj [("ok", true), ("value", j)]).compress
      | .error e => (Json.mkObj [("ok", false), ("error", e)]).compress

partial def loop (hin hout : IO.FS.Stream) : IO Unit := do
  let line ← hin.getLine
  if line.isEmpty then return ()
  let t := line.trimAscii.toString
  if t.isEmpty then loop hin hout else
  hout.putStrLn (handleLine t)
  hout.flush
  loop hin hout

def main : IO Unit := do
  loop (← IO.getStdin) (← IO.getStdout)
