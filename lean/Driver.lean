import SLModel.Drv.Util
import SLModel.Drv.C26
/-!
`slmodel`: JSON-lines server around the model's executable definitions.
One request per line `{"p":"C26","op":…,…}`; one response line `{"ok":true,…}` or
`{"ok":false,"error":…}`.  Dispatch is by property id; each `SLModel/Drv/Cnn.lean`
exports `handle : Json → Except String Json`.
-/
open Lean

def dispatch (p : String) (req : Json) : Except String Json :=
  match p with
  | "C26" => SL.Drv.C26.handle req
  | _ => .error s!"unknown property {p}"

def handleLine (line : String) : String :=
  match Json.parse line with
  | .error e => (Json.mkObj [("ok", false), ("error", s!"parse: {e}")]).compress
  | .ok req =>
    match req.getObjVal? "p" >>= (·.getStr?) with
    | .error e => (Json.mkObj [("ok", false), ("error", e)]).compress
    | .ok p =>
      match dispatch p req with
      | .ok (Json.obj kvs) => (Json.obj (kvs.insert "ok" true)).compress
      | .ok j => (Json.mkObj [("ok", true), ("value", j)]).compress
      | .error e => (Json.mkObj [("ok", false), ("error", e)]).compress

partial def loop (hin hout : IO.FS.Stream) : IO Unit := do
  let line ← hin.getLine
  if line.isEmpty then return ()
  let t := line.trimAscii.toString
  if t.isEmpty then loop hin hout else
  hout.putStrLn (handleLine t)
  hout.flush
  loop hin hout

def main : IO Unit := do
  loop (← IO.getStdin) (← IO.getStdout)
