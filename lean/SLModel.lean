import SLModel.Core.Ffi
import SLModel.Props.C26
