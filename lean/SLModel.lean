import SLModel.Core.Ffi
import SLModel.Core.Fs
import SLModel.Lemmas.Keyset
import SLModel.Lemmas.TopK
import SLModel.Lemmas.ISort
import SLModel.Lemmas.Varint
import SLModel.Lemmas.Locked
import SLModel.Props.C26
