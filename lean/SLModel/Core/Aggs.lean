/-!
# Core/Aggs — model of searchlite's aggregation pipeline
(`searchlite-core/src/query/aggs/mod.rs`, `query/aggregation.rs`, `api/reader.rs`).
Import-free, executable.

Mechanism that is mirrored (per search request, `reader.rs` loop over `self.segments`):

```
for every segment:   collector = AggregationNode::from_request(..); collector.collect(doc) for
                     every accepted live doc; intermediate = collector.finish()     -- `collect`
merge_aggregation_results: fold `merge_intermediate_in_place` over the segments     -- `merge`
finalize_response on the merged intermediate                                        -- `finalize`
```

Representation choices (DESIGN §3.1, §3.6):
* A segment is the list of its matched live documents; a document exposes its fast-field
  values (`kw` keyword values, `num` numeric values, both in stored order, duplicates kept).
* Hash maps (`HashMap<BucketKey, BucketState>`, `HashSet<u64>`) and the bucket `Vec`s of the
  intermediates are represented by *key-sorted association lists*: every consumer in the code
  sorts with a total order before the result is observable, so the iteration/insertion order
  is not.  What is mirrored exactly is **where** filters, limits and thresholds are applied.
  Since the repairs 0d5edb4 / a3ebc01 that is `finalize_response` only: terms / histogram /
  date_histogram `min_doc_count`, rare_terms `max_doc_count`, terms / rare_terms `size`, the
  top_hits `from`/`size` window, composite after/size/after_key; the segments' `finish()` keep
  every bucket (rare_terms: `doc_count > 0`) and the best `from + size` hits.  The mechanism of
  the code before the repairs is kept in `Core/AggsLegacy.lean`.
* Per segment the collectors are streaming (doc by doc); here a segment's bucket is the
  sub-list of the segment's documents that fall into it (`docs.filter (inB b k)`), its
  children are the child collectors run on that sub-list.
* Numbers are `Rat` (exact); IEEE rounding is outside the model (DESIGN §3.5).
* `Doc.id` is the position of the document in the index (segment order, then position in the
  segment — a commit's documents are stored in id order), the tie-break of top_hits.
* `MAX_BUCKETS = 10_000`, the t-digest mode of percentiles (> 256 values), significant_terms,
  sampling, an explicit `shard_size` (per-segment truncation that is approximate by design) and
  pipeline aggregations are not modelled.
-/
namespace SL.Aggs

/-! ## keys and their order -/

/-- order on key atoms (`String` in the driver, `Nat` in kernel-checked witnesses) -/
class KOrd (κ : Type) where
  lt : κ → κ → Bool

instance : KOrd Nat := ⟨Nat.blt⟩
instance : KOrd String := ⟨fun a b => decide (a < b)⟩

/-- one component of a composite key (`CompositeKeyPart`); also the element type of the
cardinality sets -/
inductive Part (κ : Type) where
  | str (s : κ)
  | num (q : Rat)
deriving DecidableEq, Repr

/-- bucket keys: terms (string), histogram/range (bucket id / range index), composite, filter -/
inductive Key (κ : Type) where
  | str (s : κ)
  | num (i : Int)
  | parts (ps : List (Part κ))
  | unit
deriving DecidableEq, Repr

/-- `CompositeKeyPart::cmp`: strings before numbers, numbers by `total_cmp` -/
def Part.lt {κ : Type} [KOrd κ] : Part κ → Part κ → Bool
  | .str a, .str b => KOrd.lt a b
  | .num a, .num b => decide (a < b)
  | .str _, .num _ => true
  | .num _, .str _ => false

/-- `CompositeKey::cmp`: first differing part decides, then the length -/
def partsLt {κ : Type} [KOrd κ] : List (Part κ) → List (Part κ) → Bool
  | [], [] => false
  | [], _ :: _ => true
  | _ :: _, [] => false
  | a :: as, b :: bs => if Part.lt a b then true else if Part.lt b a then false else partsLt as bs

def Key.rank {κ : Type} : Key κ → Nat
  | .str _ => 0
  | .num _ => 1
  | .parts _ => 2
  | .unit => 3

def Key.lt {κ : Type} [KOrd κ] : Key κ → Key κ → Bool
  | .str a, .str b => KOrd.lt a b
  | .num a, .num b => decide (a < b)
  | .parts a, .parts b => partsLt a b
  | a, b => Nat.blt a.rank b.rank

/-! ## key-sorted association lists (the model of the code's hash maps) -/

section SMap
variable {α β : Type}

/-- insert `k ↦ v`, combining with `f old new` when `k` is present -/
def insertWith (lt : α → α → Bool) (f : β → β → β) (k : α) (v : β) : List (α × β) → List (α × β)
  | [] => [(k, v)]
  | (k', v') :: t =>
    if lt k k' then (k, v) :: (k', v') :: t
    else if lt k' k then (k', v') :: insertWith lt f k v t
    else (k', f v' v) :: t

/-- `target ∪ incoming`, combining equal keys with `f target incoming` -/
def unionWith (lt : α → α → Bool) (f : β → β → β) (a b : List (α × β)) : List (α × β) :=
  b.foldl (fun acc kv => insertWith lt f kv.1 kv.2 acc) a

/-- the set of the listed keys -/
def keySet (lt : α → α → Bool) (ks : List α) : List (α × Unit) :=
  ks.foldl (fun acc k => insertWith lt (fun _ _ => ()) k () acc) []

/-- structural insertion sort (same as `SL.ISort.isort`; `List.mergeSort` does not reduce
under `decide`) -/
def sortIns (lt : α → α → Bool) (x : α) : List α → List α
  | [] => [x]
  | y :: ys => if lt x y then x :: y :: ys else y :: sortIns lt x ys

def sortBy (lt : α → α → Bool) : List α → List α
  | [] => []
  | x :: xs => sortIns lt x (sortBy lt xs)

end SMap

/-! ## documents -/

/-- fast-field view of one matched live document -/
structure Doc (φ κ : Type) where
  id : Nat
  kw : φ → List κ
  num : φ → List Rat

/-- `numeric_values(field, doc, missing)` -/
def numVals {φ κ : Type} (f : φ) (missing : Option Rat) (d : Doc φ κ) : List Rat :=
  match d.num f with
  | [] => missing.toList
  | vs => vs

/-! ## metric states -/

/-- `StatsState` -/
structure Stats where
  count : Nat
  mn : Rat
  mx : Rat
  sum : Rat
  m2 : Rat
deriving DecidableEq, Repr

def Stats.zero : Stats := ⟨0, 0, 0, 0, 0⟩
def Stats.single (v : Rat) : Stats := ⟨1, v, v, v, 0⟩

/-- `merge_stats` (parallel Welford update) -/
def mergeStats (a b : Stats) : Stats :=
  if a.count = 0 then b
  else if b.count = 0 then a
  else
    let delta := b.sum / b.count - a.sum / a.count
    let count := a.count + b.count
    { count := count
      mn := min a.mn b.mn
      mx := max a.mx b.mx
      sum := a.sum + b.sum
      m2 := a.m2 + b.m2 + delta * delta * ((a.count : Rat) * (b.count : Rat) / (count : Rat)) }

/-- `StatsCollector::collect` over all values of the segment, in document order -/
def collectStats (vals : List Rat) : Stats :=
  vals.foldl (fun s v => mergeStats s (Stats.single v)) Stats.zero

def Stats.avg (s : Stats) : Rat := if s.count = 0 then 0 else s.sum / s.count
def Stats.variance (s : Stats) : Rat := if s.count = 0 then 0 else s.m2 / s.count

def sumL (l : List Rat) : Rat := l.foldl (· + ·) 0
def minL (x : Rat) (l : List Rat) : Rat := l.foldl min x
def maxL (x : Rat) (l : List Rat) : Rat := l.foldl max x

/-- reference: statistics of a value list computed directly -/
def specStats : List Rat → Stats
  | [] => Stats.zero
  | x :: xs =>
    let l := x :: xs
    let s := sumL l
    { count := l.length, mn := minL x xs, mx := maxL x xs, sum := s
      m2 := sumL (l.map (fun v => v * v)) - s * s / (l.length : Rat) }

/-- `QuantileState::percentile` in exact mode on the sorted values -/
def percentileOf (sorted : List Rat) (pct : Rat) : Rat :=
  match sorted with
  | [] => 0
  | v0 :: _ =>
    let n : Nat := sorted.length
    let p := max 0 (min 100 pct)
    let rank := max 0 (p / 100 * ((n : Rat) - 1))
    let low := rank.floor.toNat
    let high := rank.ceil.toNat
    if low = high then sorted.getD low v0
    else
      let w := rank - (low : Rat)
      sorted.getD low v0 * (1 - w) + sorted.getD high v0 * w

/-- `QuantileState::percentile_rank` in exact mode -/
def percentileRankOf (vals : List Rat) (target : Rat) : Rat :=
  match vals with
  | [] => 0
  | _ => ((vals.filter (fun v => decide (v ≤ target))).length : Rat) / (vals.length : Rat) * 100

/-! ## aggregation requests -/

/-- the filter of a `filter` aggregation (fragment of `Filter`; filter semantics are C08) -/
inductive Pred (φ κ : Type) where
  | tt
  | kwEq (f : φ) (v : κ)
  | numRange (f : φ) (lo hi : Rat)
  | and (a b : Pred φ κ)
  | or (a b : Pred φ κ)
  | not (a : Pred φ κ)

def Pred.eval {φ κ : Type} [DecidableEq κ] : Pred φ κ → Doc φ κ → Bool
  | .tt, _ => true
  | .kwEq f v, d => (d.kw f).any (fun x => decide (x = v))
  | .numRange f lo hi, d => (d.num f).any (fun x => decide (lo ≤ x) && decide (x ≤ hi))
  | .and a b, d => a.eval d && b.eval d
  | .or a b, d => a.eval d || b.eval d
  | .not a, d => !(a.eval d)

/-! ### calendar arithmetic (UTC, proleptic Gregorian; `Int` `/`, `%` are floor division/modulo
for the positive divisors used here) -/

/-- days since 1970-01-01 of a civil date -/
def daysFromCivil (y m d : Int) : Int :=
  let y' := if m ≤ 2 then y - 1 else y
  let era := y' / 400
  let yoe := y' - era * 400
  let mp := (m + 9) % 12
  let doy := (153 * mp + 2) / 5 + d - 1
  let doe := yoe * 365 + yoe / 4 - yoe / 100 + doy
  era * 146097 + doe - 719468

/-- (year, month, day) of a day number -/
def civilFromDays (z : Int) : Int × Int × Int :=
  let z' := z + 719468
  let era := z' / 146097
  let doe := z' - era * 146097
  let yoe := (doe - doe / 1460 + doe / 36524 - doe / 146096) / 365
  let y := yoe + era * 400
  let doy := doe - (365 * yoe + yoe / 4 - yoe / 100)
  let mp := (5 * doy + 2) / 153
  let d := doy - (153 * mp + 2) / 5 + 1
  let m := if mp < 10 then mp + 3 else mp - 9
  (if m ≤ 2 then y + 1 else y, m, d)

def msPerDay : Int := 86400000

inductive CalUnit where
  | day | week | month | quarter | year
deriving DecidableEq, Repr

/-- `DateInterval` -/
inductive DInterval where
  | fixed (step : Int)
  | calendar (u : CalUnit)
deriving DecidableEq, Repr

/-- `truncate_calendar` (epoch milliseconds).  `strict = true` is the code before a754ee4: the
quarter branch called `date.with_month(quarter_start)?` *before* `with_day(1)`, which fails when
the quarter's first month is shorter than the day of the month (May 31 → "April 31"): the value
then had no bucket.  `strict = false` is the code now (and the reference). -/
def truncCalendar (strict : Bool) (v : Int) (u : CalUnit) : Option Int :=
  let days := v / msPerDay
  let c := civilFromDays days
  match u with
  | .day => some (days * msPerDay)
  | .week => some ((days - (days + 3) % 7) * msPerDay)
  | .month => some (daysFromCivil c.1 c.2.1 1 * msPerDay)
  | .quarter =>
    let qs := ((c.2.1 - 1) / 3) * 3 + 1
    let dim : Int := if qs = 4 then 30 else 31
    if strict && decide (dim < c.2.2) then none else some (daysFromCivil c.1 qs 1 * msPerDay)
  | .year => some (daysFromCivil c.1 1 1 * msPerDay)

/-- `bucket_start`: fixed intervals label a value with the next multiple of the step at or above
it (`ceil`, as the code and its test suite have it), calendar intervals with the start of the
unit -/
def dateBucket (strict : Bool) (iv : DInterval) (offset v : Int) : Option Int :=
  match iv with
  | .fixed step => some ((-((-(v - offset)) / step)) * step + offset)
  | .calendar u => (truncCalendar strict (v - offset) u).map (· + offset)

/-- `add_interval` / `add_calendar` (the time of day of `cur` is dropped by the calendar units) -/
def addInterval (iv : DInterval) (cur : Int) : Int :=
  match iv with
  | .fixed step => cur + step
  | .calendar u =>
    let days := cur / msPerDay
    let c := civilFromDays days
    let next := match u with
      | .day => days + 1
      | .week => days + 7
      | .month => if c.2.1 + 1 > 12 then daysFromCivil (c.1 + 1) 1 1 else daysFromCivil c.1 (c.2.1 + 1) 1
      | .quarter =>
        if c.2.1 + 3 > 12 then daysFromCivil (c.1 + 1) (c.2.1 + 3 - 12) 1
        else daysFromCivil c.1 (c.2.1 + 3) 1
      | .year => daysFromCivil (c.1 + 1) 1 1
    next * msPerDay

/-- `add_interval(current, offset, interval)`, the step of the bounds-fill loop (since 0b763bf):
bucket starts are calendar boundaries shifted by the offset, so the calendar step is taken in
the offset-free calendar and the offset is added back -/
def fillStep (iv : DInterval) (offset : Int) (cur : Int) : Int :=
  match iv with
  | .fixed step => cur + step
  | .calendar u => addInterval (.calendar u) (cur - offset) + offset

/-- the step before 0b763bf: `add_interval(current, interval)`, whose calendar branch drops the
time of day of `current` and with it the offset (only used by `Core/AggsLegacy`) -/
def legacyFillStep (iv : DInterval) (cur : Int) : Int := addInterval iv cur

/-- the `while current <= end` loop of `DateHistogramCollector::finish` -/
def fillFrom (next : Int → Int) (cur hi : Int) : Nat → List Int
  | 0 => []
  | fuel + 1 => if cur ≤ hi then cur :: fillFrom next (next cur) hi fuel else []

/-- `v as i64` on a finite float: truncation toward zero -/
def truncToInt (q : Rat) : Int := if 0 ≤ q then q.floor else q.ceil

/-- `CompositeSource`.  `f64col` (is the field an f64 column?) is only read by the legacy
mechanism: before 71fb08f the collector read `f64_values`, which is empty for an i64 column;
now it reads `numeric_values` -/
inductive CSrc (φ : Type) where
  | terms (f : φ)
  | hist (f : φ) (interval : Rat) (f64col : Bool)

/-- bucket aggregations -/
inductive BSpec (φ κ : Type) where
  | terms (f : φ) (size : Option Nat) (minDoc : Nat) (missing : Option κ)
  | rare (f : φ) (maxDoc : Nat) (size : Option Nat)
  | range (f : φ) (ranges : List (Option Rat × Option Rat)) (missing : Option Rat)
  | hist (f : φ) (interval offset : Rat) (minDoc : Nat) (ext hard : Option (Rat × Rat))
      (missing : Option Rat)
  | dhist (f : φ) (iv : DInterval) (offset : Int) (minDoc : Nat) (ext hard : Option (Int × Int))
      (missing : Option Int)
  | filter (p : Pred φ κ)
  | composite (srcs : List (CSrc φ)) (size : Nat) (after : Option (List (Part κ)))

mutual
/-- aggregation tree (children are positional: the code keeps them in a `BTreeMap` by name and
every segment is given the same request) -/
inductive Agg (φ κ : Type) where
  | stats (f : φ) (missing : Option Rat)
  | extStats (f : φ) (missing : Option Rat)
  | valueCount (f : φ) (missing : Option Rat)
  | cardKw (f : φ) (missing : Option κ)
  | cardNum (f : φ) (missing : Option Rat)
  | percentiles (f : φ) (missing : Option Rat) (percents : List Rat)
  | ranks (f : φ) (missing : Option Rat) (targets : List Rat)
  | topHits (size fromN : Nat) (sort : List (φ × Bool))
  | bucket (b : BSpec φ κ) (subs : Aggs φ κ)
inductive Aggs (φ κ : Type) where
  | nil
  | cons (a : Agg φ κ) (rest : Aggs φ κ)
end

/-- intermediates and responses (one tree type; `finalize` maps states to results) -/
inductive Node (κ : Type) where
  | stats (s : Stats)
  | count (n : Nat)
  | set (vs : List (Part κ × Unit))
  | vals (vs : List Rat)
  | table (rows : List (Rat × Rat))
  | hits (total : Nat) (hs : List (List (Option Rat) × Nat))
  | buckets (bs : List (Key κ × Nat × List (Node κ))) (after : Option (Key κ))

abbrev Buckets (κ : Type) := List (Key κ × Nat × List (Node κ))

/-! ## which buckets a document falls into -/

section Buckets
variable {φ κ : Type} [KOrd κ] [DecidableEq κ]

def histId (interval offset v : Rat) : Int := ((v - offset) / interval).floor

def inRange (r : Option Rat × Option Rat) (v : Rat) : Bool :=
  (match r.1 with | some f => decide (f ≤ v) | none => true) &&
  (match r.2 with | some t => decide (v ≤ t) | none => true)

/-- indices (from `i`) of the ranges hit by some value -/
def rangeKeys (vs : List Rat) : List (Option Rat × Option Rat) → Nat → List (Key κ)
  | [], _ => []
  | r :: rs, i => (if vs.any (inRange r) then [Key.num (i : Int)] else []) ++ rangeKeys vs rs (i + 1)

/-- values of one composite source for a document -/
def srcParts (d : Doc φ κ) : CSrc φ → List (Part κ)
  | .terms f => (d.kw f).map Part.str
  | .hist f interval _ => (d.num f).map (fun v => Part.num ((v / interval).floor * interval))

/-- `build_composite_keys`: cartesian product of the per-source values -/
def combos : List (List (Part κ)) → List (List (Part κ))
  | [] => [[]]
  | vs :: rest => vs.flatMap (fun v => (combos rest).map (fun c => v :: c))

/-- keys of the buckets document `d` is counted in (duplicates allowed; the `seen` sets of the
collectors are modelled by the set-valued bucket map) -/
def keysOf (b : BSpec φ κ) (d : Doc φ κ) : List (Key κ) :=
  match b with
  | .terms f _ _ missing =>
    match d.kw f with
    | [] => (missing.map Key.str).toList
    | vs => vs.map Key.str
  | .rare f _ _ => (d.kw f).map Key.str
  | .range f ranges missing => rangeKeys (numVals f missing d) ranges 0
  | .hist f interval offset _ _ hard missing =>
    ((numVals f missing d).filter (fun v =>
        match hard with
        | some (lo, hi) => !(decide (v < lo) || decide (hi < v))
        | none => true)).map (fun v => Key.num (histId interval offset v))
  | .dhist f iv offset _ _ hard missing =>
    (((numVals f (missing.map (fun (m : Int) => (m : Rat))) d).map truncToInt).filter (fun v =>
        match hard with
        | some (lo, hi) => !(decide (v < lo) || decide (hi < v))
        | none => true)).filterMap (fun v => (dateBucket false iv offset v).map Key.num)
  | .filter p => if p.eval d then [Key.unit] else []
  | .composite srcs _ _ =>
    let per := srcs.map (srcParts d)
    if per.any List.isEmpty then [] else (combos per).map Key.parts

def idRange (lo hi : Int) : List Int := (List.range (hi - lo + 1).toNat).map (fun (i : Nat) => lo + (i : Int))

/-- buckets that exist in every segment's intermediate whether or not a document hit them:
all ranges; the histogram buckets between the (extended, else hard) bounds; the filter bucket -/
def extraKeys (b : BSpec φ κ) : List (Key κ) :=
  match b with
  | .range _ ranges _ => (List.range ranges.length).map (fun (i : Nat) => Key.num (i : Int))
  | .hist _ interval offset _ ext hard _ =>
    match ext.or hard with
    | some (lo, hi) => (idRange (histId interval offset lo) (histId interval offset hi)).map Key.num
    | none => []
  | .dhist _ iv offset _ ext hard _ =>
    match ext.or hard with
    | some (lo, hi) =>
      match dateBucket false iv offset lo, dateBucket false iv offset hi with
      | some a, some b =>
        let start := if b < a then b else a
        let stop := if b < a then a else b
        let minStep : Int := match iv with | .fixed step => step | .calendar _ => msPerDay
        (fillFrom (fillStep iv offset) start stop (((stop - start) / minStep).toNat + 2)).map Key.num
      | _, _ => []
    | none => []
  | .filter _ => [Key.unit]
  | _ => []

def inB (b : BSpec φ κ) (k : Key κ) (d : Doc φ κ) : Bool := decide (k ∈ keysOf b d)

/-- `RangeCollector::new` and `FilterCollector::new` build the child collectors of every bucket
up front; all other collectors build them when the first document reaches the bucket -/
def eager (b : BSpec φ κ) : Bool :=
  match b with
  | .range _ _ _ => true
  | .filter _ => true
  | _ => false

/-- one bucket of a document list: doc_count and the children run on the bucket's documents
(a histogram bucket created from the bounds has `aggs: BTreeMap::new()`: no children) -/
def bucketOf (b : BSpec φ κ) (children : List (Doc φ κ) → List (Node κ)) (docs : List (Doc φ κ))
    (k : Key κ) : Nat × List (Node κ) :=
  let dk := docs.filter (inB b k)
  (dk.length, if dk.isEmpty && !(eager b) then [] else children dk)

/-- all buckets of a document list, before any threshold -/
def rawBuckets (b : BSpec φ κ) (children : List (Doc φ κ) → List (Node κ))
    (docs : List (Doc φ κ)) : Buckets κ :=
  (keySet Key.lt (docs.flatMap (keysOf b) ++ extraKeys b)).map
    (fun kv => (kv.1, bucketOf b children docs kv.1))

/-! ## orders, limits, thresholds -/

/-- `terms_bucket_cmp`: doc_count descending, then key -/
def termsLt (x y : Key κ × Nat × List (Node κ)) : Bool :=
  decide (y.2.1 < x.2.1) || (decide (x.2.1 = y.2.1) && Key.lt x.1 y.1)

/-- `rare_terms_bucket_cmp`: doc_count ascending, then key -/
def rareLt (x y : Key κ × Nat × List (Node κ)) : Bool :=
  decide (x.2.1 < y.2.1) || (decide (x.2.1 = y.2.1) && Key.lt x.1 y.1)

def truncate {α : Type} (size : Option Nat) (l : List α) : List α :=
  match size with
  | some n => l.take n
  | none => l

/-- `XCollector::finish`: what a segment's collector drops before the merge.  Since the
thresholds moved to `finalize_response` only `RareTermsCollector::finish` filters
(`doc_count > 0`); terms truncates only by an explicit `shard_size`, which is not modelled -/
def finishSeg (b : BSpec φ κ) (bs : Buckets κ) : Buckets κ :=
  match b with
  | .rare _ _ _ => bs.filter (fun x => decide (1 ≤ x.2.1))
  | _ => bs

/-- composite `after` filter: keys strictly greater than `after` -/
def afterFilter (after : Option (List (Part κ))) (bs : Buckets κ) : Buckets κ :=
  match after with
  | none => bs
  | some a => bs.filter (fun x => Key.lt (Key.parts a) x.1)

/-- `finalize_response` on the merged bucket list: the doc-count thresholds (terms, histogram,
date_histogram `min_doc_count`; rare_terms `max_doc_count`), presentation order, `size`, and
the composite `after` / `size` / `after_key` -/
def finalPost (b : BSpec φ κ) (bs : Buckets κ) : Buckets κ × Option (Key κ) :=
  match b with
  | .terms _ size minDoc _ =>
    (truncate size (sortBy termsLt (bs.filter (fun x => decide (minDoc ≤ x.2.1)))), none)
  | .rare _ maxDoc size =>
    (truncate size (sortBy rareLt
      (bs.filter (fun x => decide (0 < x.2.1) && decide (x.2.1 ≤ maxDoc)))), none)
  | .hist _ _ _ minDoc _ _ _ => (bs.filter (fun x => decide (minDoc ≤ x.2.1)), none)
  | .dhist _ _ _ minDoc _ _ _ => (bs.filter (fun x => decide (minDoc ≤ x.2.1)), none)
  | .composite _ size after =>
    let c := afterFilter after bs
    if size < c.length then
      let page := c.take size
      (page, (page.getLast?).map (·.1))
    else (c, none)
  | _ => (bs, none)

/-- reference: thresholds and limits applied once, to the counts over all documents — which is
what `finalize_response` now does -/
def specPost (b : BSpec φ κ) (bs : Buckets κ) : Buckets κ × Option (Key κ) := finalPost b bs

end Buckets

/-! ## collect / merge / finalize / Spec -/

section Mech
variable {φ κ : Type} [KOrd κ] [DecidableEq κ]

def partSet (ps : List (Part κ)) : List (Part κ × Unit) := keySet Part.lt ps

def ratLt (a b : Rat) : Bool := decide (a < b)

/-! ### top_hits -/

/-- `SortKeyPart::cmp` on a numeric sort value: `Missing` last whatever the order -/
def svLt (desc : Bool) : Option Rat → Option Rat → Bool
  | none, _ => false
  | some _, none => true
  | some x, some y => if desc then decide (y < x) else decide (x < y)

/-- the parts of `SortKey::cmp`, each compared with its own direction (a shorter key sorts first;
keys built from one request all have the same length) -/
def headDir : List Bool → Bool
  | [] => false
  | d :: _ => d

def keysLt : List Bool → List (Option Rat) → List (Option Rat) → Bool
  | _, [], [] => false
  | _, [], _ :: _ => true
  | _, _ :: _, [] => false
  | ds, x :: xs, y :: ys =>
    if svLt (headDir ds) x y then true
    else if svLt (headDir ds) y x then false
    else keysLt ds.tail xs ys

/-- `SortKey::cmp`: parts in order, then (segment_ord, doc_id) — the position of the document in
the index (segment order, then position inside the segment), which is what `Doc.id` holds -/
def hitLt (dirs : List Bool) (a b : List (Option Rat) × Nat) : Bool :=
  keysLt dirs a.1 b.1 || (!(keysLt dirs b.1 a.1) && decide (a.2 < b.2))

/-- `pick_numeric`: smallest value for ascending, largest for descending order -/
def pickVal (desc : Bool) : List Rat → Option Rat
  | [] => none
  | x :: xs => some (if desc then maxL x xs else minL x xs)

def mkHit (sort : List (φ × Bool)) (d : Doc φ κ) : List (Option Rat) × Nat :=
  (sort.map (fun s => pickVal s.2 (d.num s.1)), d.id)

/-- heap capacity of `TopHitsCollector` / `merge_top_hits` -/
def hitsLimit (size fromN : Nat) : Nat := max (max (size + fromN) size) 1

/-- the `limit` best hits in order: what `TopHitsCollector::finish` and `merge_top_hits` keep -/
def hitsKeep (dirs : List Bool) (size fromN : Nat) (hs : List (List (Option Rat) × Nat)) :
    List (List (Option Rat) × Nat) :=
  (sortBy (hitLt dirs) hs).take (hitsLimit size fromN)

mutual
/-- one segment: run the collectors over the segment's matched documents and `finish` -/
def collect : Agg φ κ → List (Doc φ κ) → Node κ
  | .stats f m, docs => .stats (collectStats (docs.flatMap (numVals f m)))
  | .extStats f m, docs => .stats (collectStats (docs.flatMap (numVals f m)))
  | .valueCount f m, docs => .count (docs.flatMap (numVals f m)).length
  | .cardKw f m, docs =>
    .set (partSet (docs.flatMap (fun d =>
      match d.kw f with
      | [] => (m.map Part.str).toList
      | vs => vs.map Part.str)))
  | .cardNum f m, docs => .set (partSet ((docs.flatMap (numVals f m)).map Part.num))
  | .percentiles f m _, docs => .vals (sortBy ratLt (docs.flatMap (numVals f m)))
  | .ranks f m _, docs => .vals (sortBy ratLt (docs.flatMap (numVals f m)))
  | .topHits size fromN sort, docs =>
    .hits docs.length (hitsKeep (sort.map (·.2)) size fromN (docs.map (mkHit sort)))
  | .bucket b subs, docs => .buckets (finishSeg b (rawBuckets b (collectList subs) docs)) none
def collectList : Aggs φ κ → List (Doc φ κ) → List (Node κ)
  | .nil, _ => []
  | .cons a rest, docs => collect a docs :: collectList rest docs
end

mutual
/-- `merge_intermediate_in_place target incoming` -/
def merge : Agg φ κ → Node κ → Node κ → Node κ
  | .stats _ _, .stats a, .stats b => .stats (mergeStats a b)
  | .extStats _ _, .stats a, .stats b => .stats (mergeStats a b)
  | .valueCount _ _, .count a, .count b => .count (a + b)
  | .cardKw _ _, .set a, .set b => .set (unionWith Part.lt (fun _ _ => ()) a b)
  | .cardNum _ _, .set a, .set b => .set (unionWith Part.lt (fun _ _ => ()) a b)
  | .percentiles _ _ _, .vals a, .vals b => .vals (sortBy ratLt (a ++ b))
  | .ranks _ _ _, .vals a, .vals b => .vals (sortBy ratLt (a ++ b))
  | .topHits size fromN sort, .hits ta a, .hits tb b =>
    .hits (ta + tb) (hitsKeep (sort.map (·.2)) size fromN (a ++ b))
  | .bucket b subs, .buckets x _, .buckets y _ =>
    .buckets (unionWith Key.lt (fun v w => (v.1 + w.1, mergeList subs v.2 w.2)) x y) none
  | _, x, _ => x
/-- children maps: `Vacant` entries are inserted, `Occupied` ones merged -/
def mergeList : Aggs φ κ → List (Node κ) → List (Node κ) → List (Node κ)
  | .nil, _, _ => []
  | .cons _ _, [], ys => ys
  | .cons _ _, x :: xs, [] => x :: xs
  | .cons a rest, x :: xs, y :: ys => merge a x y :: mergeList rest xs ys
end

mutual
/-- `finalize_response` -/
def finalize : Agg φ κ → Node κ → Node κ
  | .cardKw _ _, .set vs => .count vs.length
  | .cardNum _ _, .set vs => .count vs.length
  | .percentiles _ _ ps, .vals vs => .table (ps.map (fun p => (p, percentileOf vs p)))
  | .ranks _ _ ts, .vals vs => .table (ts.map (fun t => (t, percentileRankOf vs t)))
  | .topHits size fromN _, .hits total hs => .hits total ((hs.drop fromN).take size)
  | .bucket b subs, .buckets bs _ =>
    let r := finalPost b bs
    .buckets (r.1.map (fun x => (x.1, x.2.1, finalizeList subs x.2.2))) r.2
  | _, x => x
def finalizeList : Aggs φ κ → List (Node κ) → List (Node κ)
  | .nil, _ => []
  | .cons _ _, [] => []
  | .cons a rest, x :: xs => finalize a x :: finalizeList rest xs
end

/-- the whole pipeline over the segments of a reader (`merged` starts with the first segment) -/
def mergeAll (a : Agg φ κ) : List (Node κ) → Option (Node κ)
  | [] => none
  | x :: xs => some (xs.foldl (merge a) x)

def run (a : Agg φ κ) (segs : List (List (Doc φ κ))) : Option (Node κ) :=
  (mergeAll a (segs.map (collect a))).map (finalize a)

namespace Spec
mutual
/-- reference semantics: computed directly over all matched live documents, every limit and
threshold applied once to the global counts -/
def agg : Agg φ κ → List (Doc φ κ) → Node κ
  | .stats f m, docs => .stats (specStats (docs.flatMap (numVals f m)))
  | .extStats f m, docs => .stats (specStats (docs.flatMap (numVals f m)))
  | .valueCount f m, docs => .count (docs.flatMap (numVals f m)).length
  | .cardKw f m, docs =>
    .count (partSet (docs.flatMap (fun d =>
      match d.kw f with
      | [] => (m.map Part.str).toList
      | vs => vs.map Part.str))).length
  | .cardNum f m, docs =>
    .count (partSet (κ := κ) ((docs.flatMap (numVals f m)).map Part.num)).length
  | .percentiles f m ps, docs =>
    let vs := sortBy ratLt (docs.flatMap (numVals f m))
    .table (ps.map (fun p => (p, percentileOf vs p)))
  | .ranks f m ts, docs =>
    let vs := sortBy ratLt (docs.flatMap (numVals f m))
    .table (ts.map (fun t => (t, percentileRankOf vs t)))
  | .topHits size fromN sort, docs =>
    .hits docs.length (((sortBy (hitLt (sort.map (·.2))) (docs.map (mkHit sort))).drop fromN).take size)
  | .bucket b subs, docs =>
    let r := specPost b (rawBuckets b (aggs subs) docs)
    .buckets r.1 r.2
def aggs : Aggs φ κ → List (Doc φ κ) → List (Node κ)
  | .nil, _ => []
  | .cons a rest, docs => agg a docs :: aggs rest docs
end
end Spec

end Mech

/-! ## composite paging (C30): key ⇄ JSON and the client's walk -/

section Composite
variable {φ κ ν : Type} [KOrd κ] [DecidableEq κ] [DecidableEq ν]

/-- JSON value of one key component as `composite_key_from_value` looks at it -/
inductive PJ (κ : Type) where
  | str (s : κ)
  | num (q : Rat)
  | other
deriving DecidableEq, Repr

/-- `CompositeKeyPart::to_json` (numbers are finite in the model) -/
def Part.toJ : Part κ → PJ κ
  | .str s => .str s
  | .num q => .num q

def objGet (name : ν) : List (ν × PJ κ) → Option (PJ κ)
  | [] => none
  | (n, v) :: t => if name = n then some v else objGet name t

/-- `composite_key_to_json`: `obj.insert(source.name, part.to_json())` along the zip of parts and
sources (a later insert of the same name wins: modelled by prepending) -/
def keyToJson : List ν → List (Part κ) → List (ν × PJ κ) → List (ν × PJ κ)
  | n :: ns, p :: ps, acc => keyToJson ns ps ((n, p.toJ) :: acc)
  | _, _, acc => acc

/-- `composite_key_from_value`: every source name must be present with a value of the source's
kind (`true` = terms source: string; `false` = histogram source: number) -/
def keyFromJson (obj : List (ν × PJ κ)) : List (ν × Bool) → Option (List (Part κ))
  | [] => some []
  | (name, isTerms) :: rest =>
    match objGet name obj, isTerms with
    | some (.str s), true =>
      match keyFromJson obj rest with
      | some ps => some (Part.str s :: ps)
      | none => none
    | some (.num q), false =>
      match keyFromJson obj rest with
      | some ps => some (Part.num q :: ps)
      | none => none
    | _, _ => none

/-- a key whose parts have the kinds of the sources -/
def wfKey : List (ν × Bool) → List (Part κ) → Bool
  | [], [] => true
  | (_, true) :: ss, .str _ :: ps => wfKey ss ps
  | (_, false) :: ss, .num _ :: ps => wfKey ss ps
  | _, _ => false

/-- what the client sends back as `after` for a received `after_key` -/
def afterOfKey (srcs : List (ν × Bool)) : Key κ → Option (List (Part κ))
  | .parts ps => keyFromJson (keyToJson (srcs.map (·.1)) ps []) srcs
  | _ => none

/-- one page of the composite aggregation over the merged bucket map `bs` -/
def compositePage (size : Nat) (after : Option (List (Part κ))) (bs : Buckets κ) :
    Buckets κ × Option (Key κ) :=
  finalPost (φ := Unit) (.composite [] size after) bs

/-- the client's walk: request pages, sending each `after_key` back as `after`, until a page
comes without `after_key` -/
def compositeWalk (srcs : List (ν × Bool)) (size : Nat) (bs : Buckets κ) :
    Nat → Option (List (Part κ)) → List (Buckets κ × Option (Key κ))
  | 0, _ => []
  | fuel + 1, after =>
    match compositePage size after bs with
    | (page, none) => [(page, none)]
    | (page, some k) => (page, some k) :: compositeWalk srcs size bs fuel (afterOfKey srcs k)

end Composite

/-- `f64::total_cmp` on finite floats including the two zeros: value, then `-0.0 < +0.0`
(`negz` marks a negative zero) -/
def f64Lt (a b : Rat × Bool) : Bool :=
  decide (a.1 < b.1) || (decide (a.1 = b.1) && a.2 && !b.2)

end SL.Aggs
