import SLModel.Core.Aggs
/-!
# Core/AggsLegacy — the aggregation mechanism as it was before the repairs

0d5edb4 (thresholds after the merge), a3ebc01 (top_hits window once), 71fb08f (composite
histogram sources over i64 columns), a754ee4 (calendar quarter on the 31st of May), 0b763bf (bounds fill keeps the offset).
Kept so that the negative witnesses of `Props/C12` remain kernel-checked documentation of the
original defects.  Import-free apart from `Core/Aggs`; executable; nothing here is run by the
driver.
-/
namespace SL.Aggs.Legacy
open SL.Aggs

section
variable {φ κ : Type} [KOrd κ] [DecidableEq κ]

/-- before 71fb08f a histogram source over a non-f64 column had no values, so no document had a
composite key; before a754ee4 the quarter of a value on a 31st of May did not exist -/
def keysOf (b : BSpec φ κ) (d : Doc φ κ) : List (Key κ) :=
  match b with
  | .composite srcs _ _ =>
    if srcs.any (fun s => match s with | .hist _ _ false => true | _ => false) then []
    else SL.Aggs.keysOf b d
  | .dhist f iv offset _ _ hard missing =>
    (((numVals f (missing.map (fun (m : Int) => (m : Rat))) d).map truncToInt).filter (fun v =>
        match hard with
        | some (lo, hi) => !(decide (v < lo) || decide (hi < v))
        | none => true)).filterMap (fun v => (dateBucket true iv offset v).map Key.num)
  | b => SL.Aggs.keysOf b d

def extraKeys (b : BSpec φ κ) : List (Key κ) :=
  match b with
  | .dhist _ iv offset _ ext hard _ =>
    match ext.or hard with
    | some (lo, hi) =>
      match dateBucket true iv offset lo, dateBucket true iv offset hi with
      | some a, some b =>
        let start := if b < a then b else a
        let stop := if b < a then a else b
        let minStep : Int := match iv with | .fixed step => step | .calendar _ => msPerDay
        (fillFrom (legacyFillStep iv) start stop (((stop - start) / minStep).toNat + 2)).map Key.num
      | _, _ => []
    | none => []
  | b => SL.Aggs.extraKeys b

def rawBuckets (b : BSpec φ κ) (children : List (Doc φ κ) → List (Node κ))
    (docs : List (Doc φ κ)) : Buckets κ :=
  (keySet Key.lt (docs.flatMap (keysOf b) ++ extraKeys b)).map (fun kv =>
    let dk := docs.filter (fun d => decide (kv.1 ∈ keysOf b d))
    (kv.1, dk.length, if dk.isEmpty && !(eager b) then [] else children dk))

/-- sort by `lt`, truncate to `size`, keep those buckets (in key order): the sorted-and-truncated
`Vec` of the code, re-read as a key-sorted map -/
def keepTop (lt : (Key κ × Nat × List (Node κ)) → (Key κ × Nat × List (Node κ)) → Bool)
    (size : Option Nat) (bs : Buckets κ) : Buckets κ :=
  match size with
  | none => bs
  | some n =>
    let top := ((sortBy lt bs).take n).map (·.1)
    bs.filter (fun x => decide (x.1 ∈ top))

/-- the old `XCollector::finish`: thresholds and `size` per segment -/
def finishSeg (b : BSpec φ κ) (bs : Buckets κ) : Buckets κ :=
  match b with
  | .terms _ size minDoc _ => keepTop termsLt size (bs.filter (fun x => decide (minDoc ≤ x.2.1)))
  | .rare _ maxDoc size =>
    keepTop rareLt size (bs.filter (fun x => decide (0 < x.2.1) && decide (x.2.1 ≤ maxDoc)))
  | .hist _ _ _ minDoc _ _ _ => bs.filter (fun x => decide (minDoc ≤ x.2.1))
  | .dhist _ _ _ minDoc _ _ _ => bs.filter (fun x => decide (minDoc ≤ x.2.1))
  | _ => bs

/-- the old rare_terms merge arm: `max_doc_count` and `size` at every merge step -/
def mergePost (b : BSpec φ κ) (bs : Buckets κ) : Buckets κ :=
  match b with
  | .rare _ maxDoc size =>
    keepTop rareLt size (bs.filter (fun x => decide (0 < x.2.1) && decide (x.2.1 ≤ maxDoc)))
  | _ => bs

/-- the old `finalize_response`: only order, `size` and the composite page -/
def finalPost (b : BSpec φ κ) (bs : Buckets κ) : Buckets κ × Option (Key κ) :=
  match b with
  | .terms _ size _ _ => (truncate size (sortBy termsLt bs), none)
  | .rare _ _ size => (truncate size (sortBy rareLt bs), none)
  | .composite _ _ _ => SL.Aggs.finalPost b bs
  | _ => (bs, none)

/-- keep the `limit` best, sort, then `skip(from).take(size)` — in every `finish()` and in every
`merge_top_hits` -/
def hitsWindow (dirs : List Bool) (size fromN : Nat) (hs : List (List (Option Rat) × Nat)) :
    List (List (Option Rat) × Nat) :=
  (((sortBy (hitLt dirs) hs).take (hitsLimit size fromN)).drop fromN).take size

mutual
def collect : Agg φ κ → List (Doc φ κ) → Node κ
  | .topHits size fromN sort, docs =>
    .hits docs.length (hitsWindow (sort.map (·.2)) size fromN (docs.map (mkHit sort)))
  | .bucket b subs, docs => .buckets (finishSeg b (rawBuckets b (collectList subs) docs)) none
  | a, docs => SL.Aggs.collect a docs
def collectList : Aggs φ κ → List (Doc φ κ) → List (Node κ)
  | .nil, _ => []
  | .cons a rest, docs => collect a docs :: collectList rest docs
end

mutual
def merge : Agg φ κ → Node κ → Node κ → Node κ
  | .topHits size fromN sort, .hits ta a, .hits tb b =>
    .hits (ta + tb) (hitsWindow (sort.map (·.2)) size fromN (a ++ b))
  | .bucket b subs, .buckets x _, .buckets y _ =>
    .buckets (mergePost b (unionWith Key.lt
      (fun v w => (v.1 + w.1, mergeList subs v.2 w.2)) x y)) none
  | .bucket _ _, x, _ => x
  | .topHits _ _ _, x, _ => x
  | a, x, y => SL.Aggs.merge a x y
def mergeList : Aggs φ κ → List (Node κ) → List (Node κ) → List (Node κ)
  | .nil, _, _ => []
  | .cons _ _, [], ys => ys
  | .cons _ _, x :: xs, [] => x :: xs
  | .cons a rest, x :: xs, y :: ys => merge a x y :: mergeList rest xs ys
end

mutual
def finalize : Agg φ κ → Node κ → Node κ
  | .topHits _ _ _, x => x
  | .bucket b subs, .buckets bs _ =>
    let r := finalPost b bs
    .buckets (r.1.map (fun x => (x.1, x.2.1, finalizeList subs x.2.2))) r.2
  | .bucket _ _, x => x
  | a, x => SL.Aggs.finalize a x
def finalizeList : Aggs φ κ → List (Node κ) → List (Node κ)
  | .nil, _ => []
  | .cons _ _, [] => []
  | .cons a rest, x :: xs => finalize a x :: finalizeList rest xs
end

def mergeAll (a : Agg φ κ) : List (Node κ) → Option (Node κ)
  | [] => none
  | x :: xs => some (xs.foldl (merge a) x)

/-- the pipeline of the code before the repairs -/
def run (a : Agg φ κ) (segs : List (List (Doc φ κ))) : Option (Node κ) :=
  (mergeAll a (segs.map (collect a))).map (finalize a)

end
end SL.Aggs.Legacy
