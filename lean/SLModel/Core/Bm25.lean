/-!
# Core/Bm25 — scoring layer shared by C09 and C10 (import-free, executable)

Mirrors, for the modelled query fragment, what `IndexReader::search`/`search_segment` compute
per segment before any top-k selection happens:

* the inverted index of a segment (`index/segment.rs write_segment_stream`,
  `index/postings.rs InvertedIndexBuilder::add_term`): postings `(doc ordinal, tf)` per
  `field:term`, *including* documents that were deleted later; per-document field lengths
  (`_len:<field>` column), `avg_field_length = Σ len / doc_count` (all documents of the
  segment, deleted or not);
* BM25 exactly as `query/bm25.rs bm25` and `query/wand.rs score_tf/upper_bound_tf` spell it,
  with `docs = seg.live_docs()` (live documents) and `df = postings.len()` (all documents);
* the planner of `query/planner.rs` (`build_node`: leaf allocation, boosts multiplied down
  the tree, `ScoreExpr`, `ScoreNode`, `QueryMatcher`) for term / query_string / bool /
  dis_max / function_score / script_score / rank_feature / match_all;
* `api/reader.rs`: `expand_term_groups` (qualified terms, exact expansion only),
  `term_weights` (weights summed per (term key, leaf)), `QueryEvaluator::matches_node`,
  `evaluate_compiled_score`, `has_custom_scoring`, `query/score_functions.rs`
  (`weight`, `field_value_factor`), `query/script.rs CompiledScript::evaluate` (RPN).

Arithmetic is IEEE double (`Float`); the code computes in `f32`.  Theorems never talk about
`Float`; they are about the `Nat`-scored selection layer (`Core/TopK`, `Core/Sort`) which
receives these numbers through a monotone quantisation.  DESIGN §3.5.
-/
namespace SL.Bm25

/-! ## small helpers -/

/-- `f32::max` / `f32::min`: the other operand when one is NaN (matters: `ln` of a negative
quotient when a segment has fewer live documents than `df`) -/
def fmax (a b : Float) : Float := if a.isNaN then b else if b.isNaN then a else if a < b then b else a
def fmin (a b : Float) : Float := if a.isNaN then b else if b.isNaN then a else if b < a then b else a
def fabs (a : Float) : Float := if a < 0.0 then 0.0 - a else a

def lookupD {α : Type} (k : String) (l : List (String × α)) (d : α) : α :=
  match l.lookup k with
  | some v => v
  | none => d

def sumF : List Float → Float
  | [] => 0.0
  | x :: xs => x + sumF xs

def enumFrom {α : Type} : Nat → List α → List (Nat × α)
  | _, [] => []
  | i, x :: xs => (i, x) :: enumFrom (i + 1) xs

/-! ## corpus -/

/-- one document of a segment after analysis (token texts per text field, fast-field values) -/
structure Doc where
  id      : String
  deleted : Bool
  text    : List (String × List String)
  kw      : List (String × List String)
  i64     : List (String × List Int)
  f64     : List (String × List Float)
deriving Inhabited

/-- a segment: documents in ordinal order -/
abbrev Seg := List Doc

def countTok (t : String) : List String → Nat
  | [] => 0
  | x :: xs => (if x == t then 1 else 0) + countTok t xs

def Doc.tf (d : Doc) (field term : String) : Nat := countTok term (lookupD field d.text [])

/-- `_len:<field>` fast value (0 when the document has no value for the field) -/
def Doc.len (d : Doc) (field : String) : Nat := (lookupD field d.text []).length

/-- postings of `field:term`: `(doc ordinal, tf)`, increasing ordinal; deleted documents stay in -/
def postings (seg : Seg) (field term : String) : List (Nat × Nat) :=
  (enumFrom 0 seg).filterMap fun (i, d) =>
    let tf := d.tf field term
    if tf > 0 then some (i, tf) else none

def liveDocs (seg : Seg) : Nat := (seg.filter (fun d => !d.deleted)).length

def sumNat : List Nat → Nat
  | [] => 0
  | x :: xs => x + sumNat xs

/-- `SegmentReader::avg_field_length` -/
def avgdl (seg : Seg) (field : String) : Float :=
  if seg.length == 0 then 0.0
  else (sumNat (seg.map (·.len field))).toFloat / seg.length.toFloat

/-- `TermState::new`: minimal positive length of the field over *all* documents of the segment,
else `avgdl.max(1.0)` -/
def minDocLen (seg : Seg) (field : String) : Float :=
  let lens := (seg.map (·.len field)).filter (· > 0)
  match lens with
  | [] => fmax (avgdl seg field) 1.0
  | l :: ls => (ls.foldl min l).toFloat

/-- `ScoredTerm::doc_len` / `TermState::doc_len` -/
def docLenF (seg : Seg) (field : String) (doc : Nat) : Float :=
  match seg[doc]? with
  | some d => if d.len field > 0 then (d.len field).toFloat else fmax (avgdl seg field) 1.0
  | none => fmax (avgdl seg field) 1.0

/-! ## BM25 (`query/bm25.rs`, `query/wand.rs score_tf`) -/

def bm25 (tf df docLen avgdl docs k1 b : Float) : Float :=
  let idf := fmax (Float.log ((docs - df + 0.5) / (df + 0.5))) 0.0 + 1.0
  let normDl := if avgdl > 0.0 then docLen / avgdl else 1.0
  let denom := tf + k1 * (1.0 - b + b * normDl)
  idf * (tf * (k1 + 1.0)) / fmax denom 1e-6

def scoreTf (tf df docLen avgdl docs k1 b weight : Float) : Float :=
  let normLen := if docLen > 0.0 then docLen else fmax avgdl tf
  bm25 tf df normLen avgdl docs k1 b * weight

def upperBoundTf (tf df docLen avgdl docs k1 b weight : Float) : Float :=
  if tf <= 0.0 then 0.0 else scoreTf tf df docLen avgdl docs k1 b weight

/-! ## query fragment -/

inductive Modifier | none | log | log1p | log2p | sqrt | reciprocal
deriving Repr, DecidableEq, Inhabited

inductive SMode | sum | multiply | max | min | avg
deriving Repr, DecidableEq, Inhabited

inductive BMode | multiply | sum | replace | max | min
deriving Repr, DecidableEq, Inhabited

inductive Fn
  | weight (w : Float)
  | fvf (field : String) (factor : Float) (modifier : Modifier) (missing : Float)
deriving Inhabited

/-- `script.rs Instruction` (parameters are inlined as constants) -/
inductive Instr | const (v : Float) | field (name : String) | score | add | sub | mul | div | neg
deriving Inhabited

inductive Q
  | matchAll
  | term (field value : String) (boost : Float)
  | qstring (terms : List String) (fields : Option (List (String × Float))) (boost : Float)
  | disMax (qs : List Q) (tie boost : Float)
  | bool (must should mustNot : List Q) (msm : Option Nat) (boost : Float)
  | fnScore (q : Q) (fns : List Fn) (sm : SMode) (bm : BMode) (maxBoost minScore : Option Float)
      (boost : Float)
  | rank (field : String) (modifier : Modifier) (missing : Float) (boost : Float)
  | script (q : Q) (code : List Instr) (boost : Float)
deriving Inhabited

/-! ## plan (`planner.rs`) -/

inductive ScoreExpr
  | leaf (i : Nat)
  | sum (cs : List ScoreExpr)
  | disMax (cs : List ScoreExpr) (tie : Float)
deriving Inhabited

inductive Matcher
  | all
  | group (g : Nat)
  | qs (groups : List Nat) (msm : Nat)
  | disMax (cs : List Matcher)
  | bool (must should mustNot : List Matcher) (msm : Option Nat)
deriving Inhabited

inductive ScoreNode
  | empty
  | expr (e : ScoreExpr)
  | sum (cs : List ScoreNode)
  | disMax (cs : List ScoreNode) (tie : Float)
  | fnScore (m : Matcher) (base : ScoreNode) (fns : List Fn) (sm : SMode) (bm : BMode)
      (maxBoost minScore : Option Float) (boost : Float)
  | rank (field : String) (modifier : Modifier) (missing : Float) (boost : Float)
  | script (m : Matcher) (base : ScoreNode) (code : List Instr) (boost : Float)
deriving Inhabited

/-- `TermGroupSpec`: fields with (boost, per-field leaf), term, boost, scored?, group leaf -/
structure Group where
  fields : List (String × Float × Option Nat)
  term   : String
  boost  : Float
  score  : Bool
  leaf   : Option Nat
deriving Inhabited

structure PState where
  nextLeaf : Nat := 0
  groups   : List Group := []     -- in allocation order
deriving Inhabited

def PState.alloc (s : PState) : Nat × PState := (s.nextLeaf, { s with nextLeaf := s.nextLeaf + 1 })
def PState.push (s : PState) (g : Group) : Nat × PState :=
  (s.groups.length, { s with groups := s.groups ++ [g] })

structure Built where
  m : Matcher
  e : Option ScoreExpr
  n : ScoreNode
deriving Inhabited

def exprNode (e : Option ScoreExpr) : ScoreNode :=
  match e with
  | some x => .expr x
  | none => .empty

def isEmptyNode : ScoreNode → Bool
  | .empty => true
  | _ => false

/-- query_string terms: one group and (when scoring) one leaf per term over the base fields -/
def buildTerms (fields : List (String × Float × Option Nat)) (boost : Float) (score : Bool) :
    List String → PState → (List Nat × List ScoreExpr) × PState
  | [], s => (([], []), s)
  | t :: ts, s =>
    let (leaf, s1) := if score then (let (l, s') := s.alloc; (some l, s')) else (none, s)
    let (g, s2) := s1.push { fields := fields, term := t, boost := boost, score := score, leaf := leaf }
    let ((gs, ls), s3) := buildTerms fields boost score ts s2
    let ls' := match leaf with
      | some l => ScoreExpr.leaf l :: ls
      | none => ls
    ((g :: gs, ls'), s3)

mutual
/-- `QueryPlanBuilder::build_node` -/
def build : Q → Bool → Float → PState → Built × PState
  | .matchAll, _, _, s => (⟨.all, none, .empty⟩, s)
  | .term field value nb, score, boost, s =>
    let (leaf, s1) := if score then (let (l, s') := s.alloc; (some l, s')) else (none, s)
    let (g, s2) := s1.push
      { fields := [(field, 1.0, none)], term := value, boost := boost * nb, score := score, leaf := leaf }
    let e := leaf.map ScoreExpr.leaf
    (⟨.group g, e, exprNode e⟩, s2)
  | .qstring terms fields nb, score, boost, s =>
    let base : List (String × Float × Option Nat) := match fields with
      | some fs => fs.map fun (f, fb) => (f, fb, none)
      | none => []          -- the driver always resolves the default fields
    let ((gs, ls), s1) := buildTerms base (boost * nb) score terms s
    let e := match ls with
      | [] => none
      | [x] => some x
      | _ => some (ScoreExpr.sum ls)
    (⟨.qs gs 1, e, exprNode e⟩, s1)
  | .disMax qs tie nb, score, boost, s =>
    let (bs, s1) := buildList qs score (boost * nb) s
    let es := bs.filterMap (·.e)
    let ns := (bs.map (·.n)).filter (fun n => !isEmptyNode n)
    let e := match es with
      | [] => none
      | [x] => some x
      | _ => some (ScoreExpr.disMax es tie)
    let n := match ns with
      | [] => ScoreNode.empty
      | [x] => x
      | _ => ScoreNode.disMax ns tie
    (⟨.disMax (bs.map (·.m)), e, n⟩, s1)
  | .bool must should mustNot msm nb, score, boost, s =>
    let cb := boost * nb
    let (bm, s1) := buildList must score cb s
    let (bsh, s2) := buildList should score cb s1
    let (bn, s3) := buildList mustNot false cb s2
    let all := bm ++ bsh ++ bn
    let es := all.filterMap (·.e)
    let ns := (all.map (·.n)).filter (fun n => !isEmptyNode n)
    let e := match es with
      | [] => none
      | [x] => some x
      | _ => some (ScoreExpr.sum es)
    let n := match ns with
      | [] => ScoreNode.empty
      | [x] => x
      | _ => ScoreNode.sum ns
    (⟨.bool (bm.map (·.m)) (bsh.map (·.m)) (bn.map (·.m)) msm, e, n⟩, s3)
  | .fnScore q fns sm bmode maxB minS nb, score, boost, s =>
    let (b, s1) := build q score boost s
    (⟨b.m, b.e, .fnScore b.m b.n fns sm bmode maxB minS (boost * nb)⟩, s1)
  | .rank field modifier missing nb, _, boost, s =>
    (⟨.all, none, .rank field modifier missing (boost * nb)⟩, s)
  | .script q code nb, score, boost, s =>
    let (b, s1) := build q score boost s
    (⟨b.m, b.e, .script b.m b.n code (boost * nb)⟩, s1)

def buildList : List Q → Bool → Float → PState → List Built × PState
  | [], _, _, s => ([], s)
  | q :: qs, score, boost, s =>
    let (b, s1) := build q score boost s
    let (bs, s2) := buildList qs score boost s1
    (b :: bs, s2)
end

mutual
def ScoreExpr.maxLeaf : ScoreExpr → Nat      -- `max_leaf + 1`, 0 when there is none
  | .leaf i => i + 1
  | .sum cs => maxLeafList cs
  | .disMax cs _ => maxLeafList cs
def maxLeafList : List ScoreExpr → Nat
  | [] => 0
  | c :: cs => max c.maxLeaf (maxLeafList cs)
end

structure Plan where
  matcher   : Matcher
  scorer    : Option ScoreExpr
  tree      : ScoreNode
  groups    : List Group
  leafCount : Nat
deriving Inhabited

/-- `build_query_plan` -/
def mkPlan (q : Q) : Plan :=
  let (b, s) := build q true 1.0 {}
  let lc := match b.e with
    | some e => max s.nextLeaf e.maxLeaf
    | none => s.nextLeaf
  { matcher := b.m, scorer := b.e, tree := b.n, groups := s.groups, leafCount := lc }

mutual
/-- `has_custom_scoring` -/
def ScoreNode.custom : ScoreNode → Bool
  | .empty => false
  | .expr _ => false
  | .sum cs => customList cs
  | .disMax cs _ => customList cs
  | .fnScore .. => true
  | .rank .. => true
  | .script .. => true
def customList : List ScoreNode → Bool
  | [] => false
  | c :: cs => c.custom || customList cs
end

/-! ## qualified terms (`expand_term_groups`, exact expansion, text fields, one token per term) -/

structure QTerm where
  field  : String
  term   : String
  weight : Float
  leaf   : Nat
deriving Inhabited

def Group.qterms (g : Group) : List QTerm :=
  if g.score then
    g.fields.filterMap fun (f, fb, lf) =>
      match (match lf with | some l => some l | none => g.leaf) with
      | some l => some { field := f, term := g.term, weight := g.boost * fb, leaf := l }
      | none => none
  else []

def qualified (p : Plan) : List QTerm := p.groups.flatMap Group.qterms

/-- `term_weights` (since /repo commit 458e503): one entry per **(term key, leaf)** — the same
term scored by two clauses yields two scored terms, one per leaf; weights of qualified terms
with the same key *and* leaf are summed -/
def addWeight (t : QTerm) : List QTerm → List QTerm
  | [] => [t]
  | u :: us =>
    if u.field == t.field && u.term == t.term && u.leaf == t.leaf then
      { u with weight := u.weight + t.weight } :: us
    else u :: addWeight t us

def mergeWeights (ts : List QTerm) : List QTerm := ts.foldl (fun acc t => addWeight t acc) []

/-! ## matching (`QueryEvaluator::matches_node`) -/

def Group.matchesDoc (g : Group) (d : Doc) : Bool :=
  g.fields.any fun (f, _, _) => d.tf f g.term > 0

mutual
def Matcher.eval (gm : Nat → Bool) : Matcher → Bool
  | .all => true
  | .group g => gm g
  | .qs gs msm => if gs.isEmpty then false else decide ((gs.filter gm).length ≥ msm)
  | .disMax cs => anyM gm cs
  | .bool must should mustNot msm =>
    allM gm must && !(anyM gm mustNot) &&
      (let n := countM gm should
       let need := match msm with
         | some v => v
         | none => if should.isEmpty then 0 else if must.isEmpty then 1 else 0
       decide (n ≥ need))
def anyM (gm : Nat → Bool) : List Matcher → Bool
  | [] => false
  | c :: cs => c.eval gm || anyM gm cs
def allM (gm : Nat → Bool) : List Matcher → Bool
  | [] => true
  | c :: cs => c.eval gm && allM gm cs
def countM (gm : Nat → Bool) : List Matcher → Nat
  | [] => 0
  | c :: cs => (if c.eval gm then 1 else 0) + countM gm cs
end

def Plan.groupMatches (p : Plan) (d : Doc) (g : Nat) : Bool :=
  match p.groups[g]? with
  | some grp => grp.matchesDoc d
  | none => false

def Plan.matchesDoc (p : Plan) (d : Doc) : Bool := p.matcher.eval (p.groupMatches d)

/-! ## score tree (`ScoreExpr::evaluate`, `evaluate_compiled_score`) -/

mutual
def ScoreExpr.eval (lv : List Float) : ScoreExpr → Float
  | .leaf i => lv.getD i 0.0
  | .sum cs => evalSumE lv cs
  | .disMax cs tie =>
    match cs with
    | [] => 0.0
    | _ =>
      let mx := evalMaxE lv cs
      let sm := evalSumE lv cs
      mx + tie * (sm - mx)
def evalSumE (lv : List Float) : List ScoreExpr → Float
  | [] => 0.0
  | c :: cs => c.eval lv + evalSumE lv cs
def evalMaxE (lv : List Float) : List ScoreExpr → Float
  | [] => 0.0 - 1.0e308 * 10.0      -- f32::NEG_INFINITY
  | c :: cs => fmax (c.eval lv) (evalMaxE lv cs)
end

/-! ### single-value fast-field reads (`FastFieldsReader::{i64_value, f64_value}`)

A column is a plain column (`Vec<Option<T>>`) until some document of the segment sets a list
(`FastFieldsWriter::set`: `values.len() != 1`), then it is a list column (`offsets` + flat
`values`).  On list columns the single-value accessors read `values[start]` of the document's
range **when the range is non-empty** (`Some((start, end)) if start < end`, repaired by /repo
commit 96697a7).  `colReadLegacy` is the read before the repair, which did not test
`start < end`: a document without a value got the first value of the next document that has one.
`colSpec` is what the statement says (first value of the document itself). -/

def isListCol {α : Type} (col : List (List α)) : Bool := col.any fun v => decide (v.length ≥ 2)

/-- the code's single-value read of document `doc` in a column given as per-document value lists -/
def colRead {α : Type} (col : List (List α)) (doc : Nat) : Option α :=
  if isListCol col then
    (match col[doc]? with
     | some vs => if vs.isEmpty then none else (col.drop doc).flatten.head?
     | none => none)
  else match col[doc]? with
    | some v => v.head?
    | none => none

/-- the read before commit 96697a7 (kept as documentation of the repaired defect) -/
def colReadLegacy {α : Type} (col : List (List α)) (doc : Nat) : Option α :=
  if isListCol col then (col.drop doc).flatten.head?
  else match col[doc]? with
    | some v => v.head?
    | none => none

/-- the documented meaning: the first value of the document, `none` when it has none -/
def colSpec {α : Type} (col : List (List α)) (doc : Nat) : Option α :=
  match col[doc]? with
  | some v => v.head?
  | none => none

/-- `numeric_value`: `f64_value(field).or_else(|| i64_value(field) as f64)` -/
def segNumeric (seg : Seg) (doc : Nat) (field : String) : Option Float :=
  match colRead (seg.map fun d => lookupD field d.f64 []) doc with
  | some v => some v
  | none => (colRead (seg.map fun d => lookupD field d.i64 []) doc).map Float.ofInt

def applyModifier (v : Float) : Modifier → Float
  | .none => v
  | .log => if v <= 0.0 then 0.0 else Float.log v
  | .log1p => if v <= 0.0 - 1.0 then 0.0 else Float.log (1.0 + v)
  | .log2p => if v <= 0.0 - 1.0 then 0.0 else Float.log2 (v + 1.0)
  | .sqrt => if v < 0.0 then 0.0 else Float.sqrt v
  | .reciprocal => if v == 0.0 then 0.0 else 1.0 / v

/-- `CompiledFunction::evaluate` (no per-function filter in the fragment) -/
def Fn.eval (num : String → Option Float) : Fn → Option Float
  | .weight w => some w
  | .fvf field factor modifier missing =>
    let raw := (num field).getD missing
    let scaled := raw * factor
    if !scaled.isFinite then none
    else
      let m := applyModifier scaled modifier
      if !m.isFinite then none else some m

def combineFns (vs : List Float) (m : SMode) : Option Float :=
  match vs with
  | [] => none
  | v :: rest =>
    match m with
    | .sum => some (sumF vs)
    | .multiply => some (vs.foldl (· * ·) 1.0)
    | .max => some (rest.foldl fmax v)
    | .min => some (rest.foldl fmin v)
    | .avg => some (sumF vs / vs.length.toFloat)

def applyBoostMode (base f : Float) : BMode → Float
  | .multiply => base * f
  | .sum => base + f
  | .replace => f
  | .max => fmax base f
  | .min => fmin base f

/-- `CompiledScript::evaluate` -/
def runScript (num : String → Option Float) (base : Float) : List Instr → List Float → Option Float
  | [], [v] => if v.isFinite then some v else none
  | [], _ => none
  | .const v :: is, st => runScript num base is (v :: st)
  | .field f :: is, st => runScript num base is ((num f).getD 0.0 :: st)
  | .score :: is, st => runScript num base is (base :: st)
  | .add :: is, b :: a :: st => let v := a + b; if v.isFinite then runScript num base is (v :: st) else none
  | .sub :: is, b :: a :: st => let v := a - b; if v.isFinite then runScript num base is (v :: st) else none
  | .mul :: is, b :: a :: st => let v := a * b; if v.isFinite then runScript num base is (v :: st) else none
  | .div :: is, b :: a :: st =>
    if b == 0.0 then none else let v := a / b; if v.isFinite then runScript num base is (v :: st) else none
  | .neg :: is, a :: st => let v := 0.0 - a; if v.isFinite then runScript num base is (v :: st) else none
  | _, _ => none

def f32Epsilon : Float := 1.1920929e-7

mutual
/-- `evaluate_compiled_score`; `gm` answers `matches_subquery` for term groups -/
def ScoreNode.eval (gm : Nat → Bool) (num : String → Option Float) (lv : List Float) : ScoreNode → Option Float
  | .empty => some 1.0
  | .expr e => some (e.eval lv)
  | .sum cs =>
    let (sm, has) := evalSumN gm num lv cs
    if has || cs.isEmpty then some sm else none
  | .disMax cs tie =>
    match cs with
    | [] => some 0.0
    | _ =>
      let (sm, mx, has) := evalMaxN gm num lv cs
      if has then some (mx + tie * (sm - mx)) else none
  | .fnScore m base fns smode bmode maxB minS boost =>
    if !(m.eval gm) then some 0.0 else
    match base.eval gm num lv with
    | none => none
    | some baseScore =>
      let vals := fns.filterMap (Fn.eval num)
      let eff := if fabs baseScore <= f32Epsilon && !vals.isEmpty then 1.0 else baseScore
      let combined := match combineFns vals smode with
        | some f => applyBoostMode eff f bmode
        | none => eff
      let combined := match maxB with
        | some mb => fmin combined mb
        | none => combined
      match minS with
      | some ms => if combined < ms then none else some (combined * boost)
      | none => some (combined * boost)
  | .rank field modifier missing boost =>
    let raw := (num field).getD missing
    let m := applyModifier raw modifier
    if !m.isFinite then none else
    let s := m * boost
    if !s.isFinite then none else some s
  | .script m base code boost =>
    if !(m.eval gm) then some 0.0 else
    match base.eval gm num lv with
    | none => none
    | some baseScore =>
      match runScript num baseScore code [] with
      | none => none
      | some v => let s := v * boost; if s.isFinite then some s else none
def evalSumN (gm : Nat → Bool) (num : String → Option Float) (lv : List Float) : List ScoreNode → Float × Bool
  | [] => (0.0, false)
  | c :: cs =>
    let (sm, has) := evalSumN gm num lv cs
    match c.eval gm num lv with
    | some v => (v + sm, true)
    | none => (sm, has)
def evalMaxN (gm : Nat → Bool) (num : String → Option Float) (lv : List Float) : List ScoreNode → Float × Float × Bool
  | [] => (0.0, 0.0 - 1.0e308 * 10.0, false)
  | c :: cs =>
    let (sm, mx, has) := evalMaxN gm num lv cs
    match c.eval gm num lv with
    | some v => (v + sm, fmax v mx, true)
    | none => (sm, mx, has)
end

/-! ## per-segment scoring (`search_segment`, `brute_force`) -/

/-- a scored term of one segment (`ScoredTerm` + what `TermState::new` derives) -/
structure TermF where
  field  : String
  term   : String
  posts  : List (Nat × Nat)        -- (doc, tf)
  weight : Float
  leaf   : Nat
  df     : Float
  avgdl  : Float
  docs   : Float
  minLen : Float
deriving Inhabited

structure Params where
  k1 : Float
  b  : Float

def segTerms (seg : Seg) (p : Plan) : List TermF :=
  (mergeWeights (qualified p)).filterMap fun t =>
    let ps := postings seg t.field t.term
    if ps.isEmpty then none
    else some
      { field := t.field, term := t.term, posts := ps, weight := t.weight, leaf := t.leaf,
        df := ps.length.toFloat, avgdl := avgdl seg t.field, docs := (liveDocs seg).toFloat,
        minLen := minDocLen seg t.field }

def TermF.contrib (pr : Params) (seg : Seg) (t : TermF) (doc tf : Nat) : Float :=
  scoreTf tf.toFloat t.df (docLenF seg t.field doc) t.avgdl t.docs pr.k1 pr.b t.weight

/-- `TermState::new`: `upper_bound_tf(max_tf, …, min_doc_len, …)` -/
def TermF.ub (pr : Params) (t : TermF) : Float :=
  let maxTf := (t.posts.map (·.2)).foldl max 0
  upperBoundTf maxTf.toFloat t.df t.minLen t.avgdl t.docs pr.k1 pr.b t.weight

/-- `TermState::block_upper_bound` for a block whose maximal tf is `tf` -/
def TermF.blockUb (pr : Params) (t : TermF) (tf : Nat) : Float :=
  scoreTf tf.toFloat t.df t.minLen t.avgdl t.docs pr.k1 pr.b t.weight

def addAt : List Float → Nat → Float → List Float
  | [], _, _ => []
  | x :: xs, 0, v => (x + v) :: xs
  | x :: xs, i + 1, v => x :: addAt xs i v

def TermF.tfOf (t : TermF) (doc : Nat) : Option Nat := (t.posts.find? (·.1 == doc)).map (·.2)

/-- leaf buffer of a document: `buf[term.leaf] += score` over the terms containing it -/
def leafScores (pr : Params) (seg : Seg) (ts : List TermF) (leafCount doc : Nat) : List Float :=
  ts.foldl (fun buf t =>
    match t.tfOf doc with
    | some tf => addAt buf t.leaf (t.contrib pr seg doc tf)
    | none => buf) (List.replicate leafCount 0.0)

def insertSorted (x : Nat) : List Nat → List Nat
  | [] => [x]
  | y :: ys => if x < y then x :: y :: ys else if x == y then y :: ys else y :: insertSorted x ys

/-- candidate documents of a segment: union of the scored postings, increasing -/
def candidates (ts : List TermF) : List Nat :=
  ts.foldl (fun acc t => t.posts.foldl (fun a p => insertSorted p.1 a) acc) []

/-- final score of a candidate as `brute_force` + the score hook compute it; `none` = the hook
dropped the document (`min_score`, non-finite) -/
def finalScore (pr : Params) (seg : Seg) (p : Plan) (ts : List TermF) (doc : Nat) : Option Float :=
  match seg[doc]? with
  | none => none
  | some d =>
    let lv := leafScores pr seg ts p.leafCount doc
    if p.tree.custom then p.tree.eval (p.groupMatches d) (segNumeric seg doc) lv
    else match p.scorer with
      | some e => some (e.eval lv)
      | none => some (sumF lv)

/-- the `accept` closure of `search_segment` without filter and cursor -/
def accepts (seg : Seg) (p : Plan) (doc : Nat) : Bool :=
  match seg[doc]? with
  | none => false
  | some d => !d.deleted && p.matchesDoc d

/-- `scan_segment` (no qualified term in the whole query): every live matching document,
score from the hook when there is one, else the constant `dflt` (1.0 when the sort uses the
score, else 0.0) -/
def scanScores (seg : Seg) (p : Plan) (dflt : Float) : List (Nat × Float) :=
  (enumFrom 0 seg).filterMap fun (i, d) =>
    if d.deleted || !p.matchesDoc d then none
    else if p.tree.custom then (p.tree.eval (p.groupMatches d) (segNumeric seg i) []).map fun s => (i, s)
    else some (i, dflt)

end SL.Bm25
