/-!
# Core/Contents — committed contents of an index: spec and mechanism

Import-free, executable.  Polymorphic in the id type `ι` and the document type `δ`
(witnesses use `Nat`, the driver uses `String` ids and JSON documents).

Mirrors, as the code exists in `/repo`:

* `searchlite-core/src/api/writer.rs` — `IndexWriter::{new, add_document, delete_documents,
  commit, rollback}`, `Drop`, `load_live_docs`: a handle's queue is the pending operations of the
  log at creation followed by its own operations; `commit` re-reads the manifest, uses its cached
  `live_docs` iff the manifest's maximal generation equals `live_generation`, folds the queue
  (every add/delete removes the id from the live map and tombstones the old address; adds go to
  `pending_new`, deletes remove from it), merges the tombstones into the segments' `deleted_docs`,
  writes one new segment (generation max+1) when `pending_new` is non-empty, truncates the log.
  `commit` with an empty queue returns early (log untouched).  `rollback` clears the queue and
  truncates the whole log.
* `searchlite-core/src/index/mod.rs` — `Index::compact`: no-op for ≤ 1 segment, refused when the
  schema has an indexed/fast unstored field, otherwise every live stored document is re-ingested
  into one new segment of generation max+1; a re-ingest failure leaves the manifest unchanged.
* `searchlite-core/src/index/wal.rs`, `storage/mod.rs` — the log.  Filesystem backend: the file is
  opened in append mode, every record goes to the end.  In-memory backend: every handle's
  `MemFile` has its own write position (initialised to the length at creation, reset to 0 by that
  handle's own truncation), a write overwrites from that position and zero-fills a gap; replay
  stops at the first position that does not start a whole record.  `Wal::open` (every new handle)
  first cuts the file back to that valid prefix.

Not modelled (abstracted): the order of documents inside a new segment (`BTreeMap` order; nothing
observable here depends on it), the set representation of `deleted_docs` (sorted, de-duplicated in
the code; a list with set semantics here), commit markers (appended and truncated away inside one
successful `commit`), storage failures (C03).
-/
namespace SL.Contents

/-! ## association lists (first match wins) -/

def alGet {κ α : Type} [DecidableEq κ] : List (κ × α) → κ → Option α
  | [], _ => none
  | (k', v) :: r, k => if k' = k then some v else alGet r k

def alDel {κ α : Type} [DecidableEq κ] (l : List (κ × α)) (k : κ) : List (κ × α) :=
  l.filter (fun p => decide (p.1 ≠ k))

def alPut {κ α : Type} [DecidableEq κ] (l : List (κ × α)) (k : κ) (v : α) : List (κ × α) :=
  (k, v) :: alDel l k

/-- replace the value of every entry with key `k` -/
def alSet {κ α : Type} [DecidableEq κ] (l : List (κ × α)) (k : κ) (v : α) : List (κ × α) :=
  l.map (fun p => if p.1 = k then (k, v) else p)

/-! ## operations, log -/

inductive Op (ι δ : Type) where
  | add (i : ι) (d : δ)
  | del (i : ι)
deriving DecidableEq, Repr

def Op.id {ι δ : Type} : Op ι δ → ι
  | .add i _ => i
  | .del i => i

/-- one byte of the in-memory log file: a zero (gap fill) or byte `off` of the record with serial
number `ser`, which encodes `op` in `size` bytes -/
inductive Cell (ι δ : Type) where
  | zero
  | byte (op : Op ι δ) (ser size off : Nat)
deriving DecidableEq, Repr

/-- `fs`: append-mode file = the record list itself.  `mem`: bytes. -/
inductive Log (ι δ : Type) where
  | fs (ops : List (Op ι δ))
  | mem (cells : List (Cell ι δ))
deriving DecidableEq, Repr

def Cell.isByte {ι δ : Type} (c : Cell ι δ) (ser off : Nat) : Bool :=
  match c with
  | .byte _ s _ o => s == ser && o == off
  | .zero => false

/-- do the cells start with bytes `off, off+1, …` (`n` of them) of record `ser`? -/
def restMatches {ι δ : Type} (ser : Nat) : Nat → Nat → List (Cell ι δ) → Bool
  | 0, _, _ => true
  | _ + 1, _, [] => false
  | n + 1, off, c :: cs => c.isByte ser off && restMatches ser n (off + 1) cs

/-- `Wal::replay` on the byte image: whole records from the start, stop at the first position
that is not the start of a whole record (zero fill, torn or partly overwritten record: the length /
checksum test fails there — assumption `NoAccidentalMatch` of DESIGN §3.3). -/
def parse {ι δ : Type} : Nat → List (Cell ι δ) → List (Op ι δ)
  | 0, _ => []
  | _ + 1, [] => []
  | _ + 1, .zero :: _ => []
  | fuel + 1, .byte op ser size off :: cs =>
    if off = 0 ∧ 1 ≤ size ∧ restMatches ser (size - 1) 1 cs = true then
      op :: parse fuel (cs.drop (size - 1))
    else []

def recCells {ι δ : Type} (op : Op ι δ) (ser size : Nat) : Nat → Nat → List (Cell ι δ)
  | 0, _ => []
  | n + 1, off => .byte op ser size off :: recCells op ser size n (off + 1)

def zeros {ι δ : Type} : Nat → List (Cell ι δ)
  | 0 => []
  | n + 1 => .zero :: zeros n

/-- `MemFile::write` at position `pos`: zero-fill up to `pos`, overwrite, keep the tail -/
def writeAt {ι δ : Type} (cells : List (Cell ι δ)) (pos : Nat) (new : List (Cell ι δ)) :
    List (Cell ι δ) :=
  let padded := cells ++ zeros (pos - cells.length)
  padded.take pos ++ new ++ padded.drop (pos + new.length)

/-- position of a freshly opened append handle -/
def Log.len {ι δ : Type} : Log ι δ → Nat
  | .fs _ => 0
  | .mem cells => cells.length

/-- append one record through a handle whose write position is `pos`; returns the new position -/
def Log.append {ι δ : Type} (l : Log ι δ) (pos : Nat) (op : Op ι δ) (ser size : Nat) :
    Log ι δ × Nat :=
  match l with
  | .fs ops => (.fs (ops ++ [op]), 0)
  | .mem cells => (.mem (writeAt cells pos (recCells op ser size size 0)), pos + size)

/-- `set_len(0)` -/
def Log.clear {ι δ : Type} : Log ι δ → Log ι δ
  | .fs _ => .fs []
  | .mem _ => .mem []

/-- byte length of the valid prefix (`Wal::scan(..).1`): total size of the whole records `parse`
accepts -/
def parseLen {ι δ : Type} : Nat → List (Cell ι δ) → Nat
  | 0, _ => 0
  | _ + 1, [] => 0
  | _ + 1, .zero :: _ => 0
  | fuel + 1, .byte _ ser size off :: cs =>
    if off = 0 ∧ 1 ≤ size ∧ restMatches ser (size - 1) 1 cs = true then
      size + parseLen fuel (cs.drop (size - 1))
    else 0

/-- `Wal::open`: the log is cut back to its valid prefix before a new handle appends -/
def Log.openCut {ι δ : Type} : Log ι δ → Log ι δ
  | .fs ops => .fs ops
  | .mem cells => .mem (cells.take (parseLen cells.length cells))

/-- `Wal::last_pending_ops` (no commit marker is ever at rest in the log, see header) -/
def Log.pending {ι δ : Type} : Log ι δ → List (Op ι δ)
  | .fs ops => ops
  | .mem cells => parse cells.length cells

/-! ## specification: committed map, queues -/

/-- fold of a committed queue into the contents: add = upsert (of the stored projection),
delete = remove -/
def Spec.apply {ι δ : Type} [DecidableEq ι] (proj : δ → δ) (c : List (ι × δ)) : Op ι δ → List (ι × δ)
  | .add i d => alPut c i (proj d)
  | .del i => alDel c i

structure Spec.Handle (ι δ : Type) where
  queue : List (Op ι δ)
  pos : Nat
deriving Repr

structure Spec.St (ι δ : Type) where
  committed : List (ι × δ)
  log : Log ι δ
  handles : List (Nat × Spec.Handle ι δ)
  nextSer : Nat
deriving Repr

inductive Call (ι δ : Type) where
  | newWriter (h : Nat)
  | add (h : Nat) (i : ι) (d : δ) (size : Nat)
  | del (h : Nat) (i : ι) (size : Nat)
  | commit (h : Nat)
  | rollback (h : Nat)
  | dropWriter (h : Nat)
  | compact
  | reopen
deriving Repr

def Spec.init {ι δ : Type} (mem : Bool) : Spec.St ι δ :=
  { committed := [], log := if mem then .mem [] else .fs [], handles := [], nextSer := 0 }

def Spec.step {ι δ : Type} [DecidableEq ι] (proj : δ → δ) (s : Spec.St ι δ) : Call ι δ → Spec.St ι δ
  | .newWriter h =>
    { s with log := s.log.openCut,
             handles := (h, { queue := s.log.pending, pos := s.log.openCut.len }) :: alDel s.handles h }
  | .add h i d size =>
    match alGet s.handles h with
    | none => s
    | some hd =>
      let r := s.log.append hd.pos (.add i d) s.nextSer size
      { s with log := r.1, nextSer := s.nextSer + 1,
               handles := alSet s.handles h { queue := hd.queue ++ [.add i d], pos := r.2 } }
  | .del h i size =>
    match alGet s.handles h with
    | none => s
    | some hd =>
      let r := s.log.append hd.pos (.del i) s.nextSer size
      { s with log := r.1, nextSer := s.nextSer + 1,
               handles := alSet s.handles h { queue := hd.queue ++ [.del i], pos := r.2 } }
  | .commit h =>
    match alGet s.handles h with
    | none => s
    | some hd =>
      if hd.queue.isEmpty then s else
      { s with committed := hd.queue.foldl (Spec.apply proj) s.committed, log := s.log.clear,
               handles := alSet s.handles h { queue := [], pos := 0 } }
  | .rollback h =>
    match alGet s.handles h with
    | none => s
    | some _ => { s with log := s.log.clear, handles := alSet s.handles h { queue := [], pos := 0 } }
  | .dropWriter h => { s with handles := alDel s.handles h }
  | .compact => s
  | .reopen => { s with handles := [] }

def Spec.run {ι δ : Type} [DecidableEq ι] (proj : δ → δ) (mem : Bool) (cs : List (Call ι δ)) :
    Spec.St ι δ :=
  cs.foldl (Spec.step proj) (Spec.init mem)

/-! ## mechanism: segments, tombstones, generations, cached live maps -/

structure Seg (ι δ : Type) where
  id : Nat
  gen : Nat
  docs : List (ι × δ)
  deleted : List Nat
deriving Repr

/-- address of a stored document: (segment id, ordinal) -/
abbrev Addr := Nat × Nat

structure Handle (ι δ : Type) where
  queue : List (Op ι δ)
  live : List (ι × Addr)
  liveGen : Nat
  pos : Nat
deriving Repr

structure St (ι δ : Type) where
  segs : List (Seg ι δ)
  log : Log ι δ
  handles : List (Nat × Handle ι δ)
  nextSeg : Nat
  nextSer : Nat
deriving Repr

/-- what the schema and the documents contribute: the stored projection, whether compaction is
allowed by `ensure_compact_safe`, and whether a stored document passes re-ingestion -/
structure Cfg (δ : Type) where
  proj : δ → δ
  safe : Bool
  reingestOk : δ → Bool

inductive Res where
  | ok | noHandle | refused | failed
deriving DecidableEq, Repr

def maxGen {ι δ : Type} : List (Seg ι δ) → Nat
  | [] => 0
  | s :: r => max s.gen (maxGen r)

/-- live documents of one segment with their ordinals, from ordinal `n` on -/
def liveFrom {ι δ : Type} (del : List Nat) : Nat → List (ι × δ) → List (Nat × ι × δ)
  | _, [] => []
  | n, p :: ps => if n ∈ del then liveFrom del (n + 1) ps else (n, p) :: liveFrom del (n + 1) ps

def Seg.live {ι δ : Type} (s : Seg ι δ) : List (Nat × ι × δ) := liveFrom s.deleted 0 s.docs

/-- observable contents: the live documents of all segments (what a fresh reader's match-all
returns) -/
def abs {ι δ : Type} (segs : List (Seg ι δ)) : List (ι × δ) :=
  segs.flatMap (fun s => s.live.map (·.2))

/-- the stored versions a reader sees for id `i` -/
def copies {ι δ : Type} [DecidableEq ι] (segs : List (Seg ι δ)) (i : ι) : List δ :=
  ((abs segs).filter (fun p => decide (p.1 = i))).map (·.2)

/-- `load_live_docs`: hash-map inserts in segment order, ordinal order (last insert wins) -/
def load {ι δ : Type} [DecidableEq ι] (segs : List (Seg ι δ)) : List (ι × Addr) :=
  (segs.flatMap (fun s => s.live.map (fun e => (e.2.1, (s.id, e.1))))).foldl
    (fun acc e => alPut acc e.1 e.2) []

structure Acc (ι δ : Type) where
  live : List (ι × Addr)
  tombs : List Addr
  pnew : List (ι × δ)

/-- one iteration of the loop over `pending_ops` in `commit` -/
def Acc.step {ι δ : Type} [DecidableEq ι] (a : Acc ι δ) : Op ι δ → Acc ι δ
  | .add i d =>
    { live := alDel a.live i,
      tombs := match alGet a.live i with | some ad => ad :: a.tombs | none => a.tombs,
      pnew := alPut a.pnew i d }
  | .del i =>
    { live := alDel a.live i,
      tombs := match alGet a.live i with | some ad => ad :: a.tombs | none => a.tombs,
      pnew := alDel a.pnew i }

def Seg.kill {ι δ : Type} (s : Seg ι δ) (tombs : List Addr) : Seg ι δ :=
  { s with deleted := s.deleted ++ (tombs.filter (fun a => a.1 == s.id)).map (·.2) }

/-- cache entries for the documents of the new segment -/
def addNew {ι δ : Type} [DecidableEq ι] (live : List (ι × Addr)) (sid : Nat) :
    Nat → List (ι × δ) → List (ι × Addr)
  | _, [] => live
  | n, p :: ps => addNew (alPut live p.1 (sid, n)) sid (n + 1) ps

def init {ι δ : Type} (mem : Bool) : St ι δ :=
  { segs := [], log := if mem then .mem [] else .fs [], handles := [], nextSeg := 0, nextSer := 0 }

/-- the segment written by a commit: none when `pending_new` is empty -/
def extraSeg {ι δ : Type} (proj : δ → δ) (sid g : Nat) (pnew : List (ι × δ)) : List (Seg ι δ) :=
  if pnew.isEmpty then []
  else [{ id := sid, gen := g, docs := pnew.map (fun p => (p.1, proj p.2)), deleted := [] }]

def commit {ι δ : Type} [DecidableEq ι] (cfg : Cfg δ) (s : St ι δ) (hid : Nat) : St ι δ × Res :=
  match alGet s.handles hid with
  | none => (s, .noHandle)
  | some h =>
    if h.queue.isEmpty then (s, .ok) else
    let live0 := if maxGen s.segs = h.liveGen then h.live else load s.segs
    let acc := h.queue.foldl Acc.step { live := live0, tombs := [], pnew := [] }
    let segs1 := s.segs.map (·.kill acc.tombs)
    let segs2 := segs1 ++ extraSeg cfg.proj s.nextSeg (maxGen segs1 + 1) acc.pnew
    ({ s with segs := segs2, log := s.log.clear, nextSeg := s.nextSeg + 1,
              handles := alSet s.handles hid
                { queue := [], live := addNew acc.live s.nextSeg 0 acc.pnew,
                  liveGen := maxGen segs2, pos := 0 } }, .ok)

def compact {ι δ : Type} (cfg : Cfg δ) (s : St ι δ) : St ι δ × Res :=
  if s.segs.length ≤ 1 then (s, .ok)
  else if !cfg.safe then (s, .refused)
  else if !(abs s.segs).all (fun p => cfg.reingestOk p.2) then (s, .failed)
  else
    let seg : Seg ι δ :=
      { id := s.nextSeg, gen := maxGen s.segs + 1,
        docs := (abs s.segs).map (fun p => (p.1, cfg.proj p.2)), deleted := [] }
    ({ s with segs := [seg], nextSeg := s.nextSeg + 1 }, .ok)

def step {ι δ : Type} [DecidableEq ι] (cfg : Cfg δ) (s : St ι δ) : Call ι δ → St ι δ × Res
  | .newWriter h =>
    ({ s with log := s.log.openCut, handles :=
        (h, { queue := s.log.pending, live := load s.segs, liveGen := maxGen s.segs,
              pos := s.log.openCut.len }) :: alDel s.handles h }, .ok)
  | .add h i d size =>
    match alGet s.handles h with
    | none => (s, .noHandle)
    | some hd =>
      let r := s.log.append hd.pos (.add i d) s.nextSer size
      ({ s with log := r.1, nextSer := s.nextSer + 1,
                handles := alSet s.handles h { hd with queue := hd.queue ++ [.add i d], pos := r.2 } },
       .ok)
  | .del h i size =>
    match alGet s.handles h with
    | none => (s, .noHandle)
    | some hd =>
      let r := s.log.append hd.pos (.del i) s.nextSer size
      ({ s with log := r.1, nextSer := s.nextSer + 1,
                handles := alSet s.handles h { hd with queue := hd.queue ++ [.del i], pos := r.2 } },
       .ok)
  | .commit h => commit cfg s h
  | .rollback h =>
    match alGet s.handles h with
    | none => (s, .noHandle)
    | some hd =>
      ({ s with log := s.log.clear, handles := alSet s.handles h { hd with queue := [], pos := 0 } },
       .ok)
  | .dropWriter h => ({ s with handles := alDel s.handles h }, .ok)
  | .compact => compact cfg s
  | .reopen => ({ s with handles := [] }, .ok)

def run {ι δ : Type} [DecidableEq ι] (cfg : Cfg δ) (mem : Bool) (cs : List (Call ι δ)) : St ι δ :=
  cs.foldl (fun s c => (step cfg s c).1) (init mem)

/-- run, keeping every intermediate state and result (driver) -/
def trace {ι δ : Type} [DecidableEq ι] (cfg : Cfg δ) (s : St ι δ) :
    List (Call ι δ) → List (St ι δ × Res)
  | [] => []
  | c :: cs => let r := step cfg s c; r :: trace cfg r.1 cs

end SL.Contents
