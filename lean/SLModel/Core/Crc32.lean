/-!
# Core/Crc32 — CRC-32 (IEEE 802.3, reflected, as `crc32fast`) over `Nat` bytes.
Executable instance of the `crc` parameter of `Core/Wal`; its agreement with `crc32fast` is
part of the WAL correspondence.  No theorem depends on this particular function.
-/
namespace SL.Crc32

def step8 (c : Nat) : Nat → Nat
  | 0 => c
  | k + 1 =>
    let c' := if c % 2 = 1 then (c / 2) ^^^ 0xEDB88320 else c / 2
    step8 c' k

def update (c : Nat) (b : Nat) : Nat := step8 ((c ^^^ (b % 256)) % 4294967296) 8

def crc32 (bs : List Nat) : Nat := (bs.foldl update 0xFFFFFFFF) ^^^ 0xFFFFFFFF

/-- little-endian 4 bytes, as `checksum.to_le_bytes()` -/
def le32 (n : Nat) : List Nat := [n % 256, n / 256 % 256, n / 65536 % 256, n / 16777216 % 256]

def crcLE (bs : List Nat) : List Nat := le32 (crc32 bs)

theorem crcLE_length (bs : List Nat) : (crcLE bs).length = 4 := rfl

end SL.Crc32
