/-!
# Core/Cursor — cursors and keyset pages of `IndexReader::search`
(`searchlite-core/src/api/reader.rs`: `PaginationCursor`, `SortCursorState`, `hex_decode`,
`decode_cursor`, `encode_cursor`, the cursor test in `search_segment`/`scan_segment`
(`cursor_key`, `saw_cursor`), `top_k = limit+1`, `next_cursor`, `total_hits_estimate`;
`query/sort.rs`: `compute_hash`).  Import-free, executable.

Everything is over **bytes** (`List UInt8`): a cursor string is its UTF-8 bytes.

* score cursor (default sort `_score` desc): 42 hex chars = 21 bytes
  `version(1) generation(4) score_bits(4) segment_ord(4) doc_id(4) returned(4)`, big endian;
* sort cursor (every other plan): `hex(serde_json(SortCursorState))`.

Things outside the model (stated once):
* the real hex loops call `str::from_utf8(chunk).unwrap()` on two-byte chunks and **panic** on a
  chunk that splits a multi-byte character; the model answers `error` there (that defect is
  C16's; C11 feeds ASCII cursors only);
* `serde_json` is modelled for the shapes listed at `parseSort`; inputs that are valid for serde
  in ways the model does not follow (struct given as a JSON array, nested arrays/objects as the
  value of an unknown key, `"v"` before `"t"` inside a value, extra keys inside a value) are
  answered `unmodelled`, never `ok`/`error`;
* an `f64` sort value travels as its **bit pattern** (`f64::to_bits`, a `u64`; reader.rs since
  0331be9, `SORT_CURSOR_VERSION = 3`), so the codec is exact; before that commit it was a JSON
  number whose text serde_json does not always parse back (legacy witness in `Props/C11`).
-/
namespace SL.Cursor

abbrev Bytes := List UInt8

/-! ## hex -/

/-- lower-case hex digit of a nibble -/
def hexChar (n : Nat) : UInt8 := if n < 10 then (48 + n).toUInt8 else (87 + n).toUInt8

/-- `hex_encode` -/
def hexEncode : Bytes → Bytes
  | [] => []
  | b :: r => hexChar (b.toNat / 16) :: hexChar (b.toNat % 16) :: hexEncode r

/-- `char::to_digit(16)` on an ASCII byte -/
def hexVal (c : UInt8) : Option Nat :=
  let n := c.toNat
  if 48 ≤ n ∧ n ≤ 57 then some (n - 48)
  else if 97 ≤ n ∧ n ≤ 102 then some (n - 87)
  else if 65 ≤ n ∧ n ≤ 70 then some (n - 55)
  else none

/-- `u8::from_str_radix(chunk, 16)` on a two-byte chunk.  `from_str_radix` accepts one leading
`+`, so the chunk `+f` is 15 (and `++`, `+` followed by a non-digit are errors). -/
def hexByte (a b : UInt8) : Option UInt8 :=
  if a.toNat = 43 then
    match hexVal b with
    | some y => some y.toUInt8
    | none => none
  else
    match hexVal a, hexVal b with
    | some x, some y => some (x * 16 + y).toUInt8
    | _, _ => none

/-- the chunk loop shared by `PaginationCursor::decode` and `hex_decode`
(`none` = odd length or a bad chunk) -/
def hexDecode : Bytes → Option Bytes
  | [] => some []
  | [_] => none
  | a :: b :: r =>
    match hexByte a b with
    | none => none
    | some x =>
      match hexDecode r with
      | none => none
      | some xs => some (x :: xs)

/-! ## outcomes -/

inductive DecErr where
  | length      -- score cursor: not 42 bytes / sort cursor: odd length
  | hex         -- a chunk is not a hex byte
  | version
  | advance     -- `returned > MAX_CURSOR_ADVANCE`
  | generation  -- stale cursor
  | json        -- payload is not a `SortCursorState`
  | planHash    -- cursor sort order does not match this request
  | arity       -- number of sort values ≠ number of plan fields
  | fuel        -- never returned (theorem `decode_total`)
deriving DecidableEq, Repr

/-- result of a decoder: `unmodelled` marks inputs on which the model makes no claim -/
inductive Dec (α : Type) where
  | ok (a : α)
  | error (e : DecErr)
  | unmodelled
deriving Repr, DecidableEq

def maxCursorAdvance : Nat := 50000
def cursorVersion : Nat := 1
def sortCursorVersion : Nat := 3

/-! ## score cursor -/

structure ScoreCursor where
  version : Nat
  generation : Nat
  scoreBits : Nat
  segmentOrd : Nat
  docId : Nat
  returned : Nat
deriving DecidableEq, Repr

def ScoreCursor.wf (c : ScoreCursor) : Prop :=
  c.version < 256 ∧ c.generation < 4294967296 ∧ c.scoreBits < 4294967296 ∧
  c.segmentOrd < 4294967296 ∧ c.docId < 4294967296 ∧ c.returned < 4294967296

/-- `u32::to_be_bytes` -/
def be32 (n : Nat) : Bytes :=
  [(n / 16777216 % 256).toUInt8, (n / 65536 % 256).toUInt8, (n / 256 % 256).toUInt8, (n % 256).toUInt8]

/-- `u32::from_be_bytes` -/
def ofBe32 (a b c d : UInt8) : Nat :=
  a.toNat * 16777216 + b.toNat * 65536 + c.toNat * 256 + d.toNat

def scoreBytes (c : ScoreCursor) : Bytes :=
  c.version.toUInt8 :: (be32 c.generation ++ be32 c.scoreBits ++ be32 c.segmentOrd ++ be32 c.docId ++
    be32 c.returned)

/-- `PaginationCursor::encode` -/
def encodeScore (c : ScoreCursor) : Bytes := hexEncode (scoreBytes c)

/-- `PaginationCursor::decode` (length, hex, version, advance cap) -/
def parseScore (raw : Bytes) : Dec ScoreCursor :=
  if raw.length ≠ 42 then .error .length
  else match hexDecode raw with
    | none => .error .hex
    | some [v, g0, g1, g2, g3, s0, s1, s2, s3, o0, o1, o2, o3, d0, d1, d2, d3, r0, r1, r2, r3] =>
      if v.toNat ≠ cursorVersion then .error .version
      else if ofBe32 r0 r1 r2 r3 > maxCursorAdvance then .error .advance
      else .ok { version := v.toNat, generation := ofBe32 g0 g1 g2 g3, scoreBits := ofBe32 s0 s1 s2 s3,
                 segmentOrd := ofBe32 o0 o1 o2 o3, docId := ofBe32 d0 d1 d2 d3,
                 returned := ofBe32 r0 r1 r2 r3 }
    | some _ => .error .length

/-- what a request knows when it decodes a cursor -/
structure Req where
  generation : Nat      -- maximal segment generation of the reader's manifest
  planHash : Nat        -- `SortPlan::hash`
  planLen : Nat         -- number of sort fields
  scoreFast : Bool      -- plan is exactly `_score` desc
deriving DecidableEq, Repr

/-- the score branch of `decode_cursor` -/
def decodeScore (req : Req) (raw : Bytes) : Dec ScoreCursor :=
  match parseScore raw with
  | .ok c => if c.generation ≠ req.generation then .error .generation else .ok c
  | .error e => .error e
  | .unmodelled => .unmodelled

/-! ## sort cursor: values, printing -/

inductive CVal where
  | score (bits : Nat)
  | i64 (v : Int)
  | f64 (bits : Nat)      -- `f64::to_bits`
  | str (s : Bytes)       -- UTF-8 bytes of the keyword
  | missing
deriving DecidableEq, Repr

structure SortCursor where
  version : Nat
  generation : Nat
  returned : Nat
  planHash : Nat
  segmentOrd : Nat
  docId : Nat
  values : List CVal
deriving DecidableEq, Repr

/-- little-endian decimal digits, `fuel > n` suffices -/
def digitsLE : Nat → Nat → List Nat
  | 0, _ => []
  | fuel+1, n => if n < 10 then [n] else (n % 10) :: digitsLE fuel (n / 10)

/-- decimal text of a natural number (`itoa`) -/
def natDec (n : Nat) : Bytes := ((digitsLE (n + 1) n).reverse).map (fun d => (48 + d).toUInt8)

def intDec (v : Int) : Bytes :=
  match v with
  | .ofNat n => natDec n
  | .negSucc n => 45 :: natDec (n + 1)

/-- `\u00XX` for a control byte -/
def escU (b : UInt8) : Bytes := [92, 117, 48, 48, hexChar (b.toNat / 16), hexChar (b.toNat % 16)]

/-- serde_json's `format_escaped_str_contents`, byte by byte -/
def escByte (b : UInt8) : Bytes :=
  let n := b.toNat
  if n = 34 then [92, 34]
  else if n = 92 then [92, 92]
  else if n = 8 then [92, 98]
  else if n = 9 then [92, 116]
  else if n = 10 then [92, 110]
  else if n = 12 then [92, 102]
  else if n = 13 then [92, 114]
  else if n < 32 then escU b
  else [b]

def jsonStr (s : Bytes) : Bytes := 34 :: (s.flatMap escByte ++ [34])

/-- `t` -/
def kT : Bytes := [116]
/-- `v` -/
def kV : Bytes := [118]
/-- `score` -/
def tScore : Bytes := [115, 99, 111, 114, 101]
/-- `i64` -/
def tI64 : Bytes := [105, 54, 52]
/-- `f64` -/
def tF64 : Bytes := [102, 54, 52]
/-- `str` -/
def tStr : Bytes := [115, 116, 114]
/-- `missing` -/
def tMissing : Bytes := [109, 105, 115, 115, 105, 110, 103]
/-- `version` -/
def kVersion : Bytes := [118, 101, 114, 115, 105, 111, 110]
/-- `generation` -/
def kGeneration : Bytes := [103, 101, 110, 101, 114, 97, 116, 105, 111, 110]
/-- `returned` -/
def kReturned : Bytes := [114, 101, 116, 117, 114, 110, 101, 100]
/-- `plan_hash` -/
def kPlanHash : Bytes := [112, 108, 97, 110, 95, 104, 97, 115, 104]
/-- `segment_ord` -/
def kSegmentOrd : Bytes := [115, 101, 103, 109, 101, 110, 116, 95, 111, 114, 100]
/-- `doc_id` -/
def kDocId : Bytes := [100, 111, 99, 95, 105, 100]
/-- `values` -/
def kValues : Bytes := [118, 97, 108, 117, 101, 115]

/-- `"key":value` -/
def mem (key val : Bytes) : Bytes := 34 :: (key ++ 34 :: 58 :: val)

/-- `"tag"` -/
def quoted (s : Bytes) : Bytes := 34 :: (s ++ [34])

/-- `{"t":"<tag>","v":<val>}` -/
def tagged (tag val : Bytes) : Bytes := 123 :: (mem kT (quoted tag) ++ 44 :: (mem kV val ++ [125]))

/-- serde's adjacently tagged `CursorValue` (`tag = "t"`, `content = "v"`, lower-case names) -/
def printVal : CVal → Bytes
  | .score b => tagged tScore (natDec b)
  | .i64 v => tagged tI64 (intDec v)
  | .f64 b => tagged tF64 (natDec b)
  | .str s => tagged tStr (jsonStr s)
  | .missing => 123 :: (mem kT (quoted tMissing) ++ [125])

def printVals : List CVal → Bytes
  | [] => []
  | [v] => printVal v
  | v :: w :: r => printVal v ++ 44 :: printVals (w :: r)

/-- `serde_json::to_vec(&SortCursorState)` (compact, fields in declaration order) -/
def sortJson (c : SortCursor) : Bytes :=
  123 :: (mem kVersion (natDec c.version) ++ 44 :: (mem kGeneration (natDec c.generation) ++
  44 :: (mem kReturned (natDec c.returned) ++ 44 :: (mem kPlanHash (natDec c.planHash) ++
  44 :: (mem kSegmentOrd (natDec c.segmentOrd) ++ 44 :: (mem kDocId (natDec c.docId) ++
  44 :: (mem kValues (91 :: (printVals c.values ++ [93])) ++ [125])))))))

/-- sort branch of `encode_cursor` -/
def encodeSort (c : SortCursor) : Bytes := hexEncode (sortJson c)

/-! ## sort cursor: JSON reading -/

def isWs (b : UInt8) : Bool := b.toNat = 32 || b.toNat = 9 || b.toNat = 10 || b.toNat = 13
def isDigit (b : UInt8) : Bool := 48 ≤ b.toNat && b.toNat ≤ 57

def skipWs : Bytes → Bytes
  | [] => []
  | b :: r => if isWs b then skipWs r else b :: r

/-- skip whitespace, then expect the byte `c` -/
def tok (c : Nat) (bs : Bytes) : Option Bytes :=
  match skipWs bs with
  | [] => none
  | b :: r => if b.toNat = c then some r else none

/-- leading digits and the rest -/
def spanDigits : Bytes → Bytes × Bytes
  | [] => ([], [])
  | b :: r => if isDigit b then ((b :: (spanDigits r).1), (spanDigits r).2) else ([], b :: r)

def digitsVal (ds : Bytes) : Nat := ds.foldl (fun a d => a * 10 + (d.toNat - 48)) 0

/-- a JSON number token -/
structure Num where
  neg : Bool
  int : Bytes                 -- digits, no superfluous leading zero
  frac : Option Bytes         -- digits after `.` (non-empty)
  exp : Option (Bool × Bytes) -- exponent: negative?, digits (non-empty)
  lex : Bytes                 -- the whole lexeme
deriving Repr, DecidableEq

/-- optional `-` -/
def lexSign (bs : Bytes) : Bool × Bytes :=
  match bs with
  | b :: r => if b.toNat = 45 then (true, r) else (false, bs)
  | [] => (false, bs)

/-- optional `.digits`; `none` = a dot without digits -/
def lexFrac (bs : Bytes) : Option (Option Bytes × Bytes) :=
  match bs with
  | b :: r =>
    if b.toNat = 46 then
      (if (spanDigits r).1 = [] then none else some (some (spanDigits r).1, (spanDigits r).2))
    else some (none, bs)
  | [] => some (none, bs)

/-- optional sign of an exponent -/
def expSign (r : Bytes) : Bool × Bytes :=
  match r with
  | s :: r' => if s.toNat = 43 then (false, r') else if s.toNat = 45 then (true, r') else (false, r)
  | [] => (false, r)

/-- optional exponent; `none` = `e` without digits -/
def lexExp (bs : Bytes) : Option (Option (Bool × Bytes) × Bytes) :=
  match bs with
  | c :: r =>
    if c.toNat = 101 ∨ c.toNat = 69 then
      (if (spanDigits (expSign r).2).1 = [] then none
       else some (some ((expSign r).1, (spanDigits (expSign r).2).1), (spanDigits (expSign r).2).2))
    else some (none, bs)
  | [] => some (none, bs)

/-- JSON number grammar `-? (0 | [1-9][0-9]*) (\. [0-9]+)? ([eE] [+-]? [0-9]+)?`;
`none` = not a number (serde_json: "invalid number") -/
def lexNum (bs : Bytes) : Option (Num × Bytes) :=
  let s := lexSign bs
  let d := spanDigits s.2
  match d.1 with
  | [] => none
  | d0 :: dr =>
    if d0.toNat = 48 ∧ dr ≠ [] then none          -- leading zero
    else
      match lexFrac d.2 with
      | none => none
      | some (frac, r2) =>
        match lexExp r2 with
        | none => none
        | some (exp, r3) =>
          some ({ neg := s.1, int := d.1, frac := frac, exp := exp,
                  lex := bs.take (bs.length - r3.length) }, r3)

def Num.isInt (n : Num) : Bool := n.frac.isNone && n.exp.isNone

/-- an unsigned integer field (`u8`/`u32`): plain non-negative integer lexeme within `max`.
(`-0`, fractions, exponents and anything above `u64` are floats for serde_json, hence type
errors.) -/
def Num.asUnsigned (n : Num) (max : Nat) : Option Nat :=
  if n.isInt && !n.neg && digitsVal n.int ≤ max then some (digitsVal n.int) else none

/-- an `i64` value; `-0` is a float for serde_json -/
def Num.asI64 (n : Num) : Option Int :=
  if !n.isInt then none
  else if n.neg then
    (if digitsVal n.int = 0 ∨ digitsVal n.int > 9223372036854775808 then none
     else some (-(digitsVal n.int : Int)))
  else (if digitsVal n.int > 9223372036854775807 then none else some (digitsVal n.int : Int))

def hex4 (a b c d : UInt8) : Option Nat :=
  match hexVal a, hexVal b, hexVal c, hexVal d with
  | some w, some x, some y, some z => some (w * 4096 + x * 256 + y * 16 + z)
  | _, _, _, _ => none

/-- UTF-8 encoding of a scalar value -/
def utf8Enc (n : Nat) : Bytes :=
  if n < 128 then [n.toUInt8]
  else if n < 2048 then [(192 + n / 64).toUInt8, (128 + n % 64).toUInt8]
  else if n < 65536 then [(224 + n / 4096).toUInt8, (128 + n / 64 % 64).toUInt8, (128 + n % 64).toUInt8]
  else [(240 + n / 262144).toUInt8, (128 + n / 4096 % 64).toUInt8, (128 + n / 64 % 64).toUInt8,
        (128 + n % 64).toUInt8]

/-- prepend unescaped bytes to the result of the rest -/
def consStr (pre : Bytes) : Option (Bytes × Bytes) → Option (Bytes × Bytes)
  | none => none
  | some (s, r) => some (pre ++ s, r)

/-- the byte a one-letter escape stands for -/
def simpleEsc (e : UInt8) : Option UInt8 :=
  if e.toNat = 34 then some 34
  else if e.toNat = 92 then some 92
  else if e.toNat = 47 then some 47
  else if e.toNat = 98 then some 8
  else if e.toNat = 102 then some 12
  else if e.toNat = 110 then some 10
  else if e.toNat = 114 then some 13
  else if e.toNat = 116 then some 9
  else none

/-- body of a JSON string after the opening quote: unescaped bytes and the rest after the
closing quote (`SliceRead::parse_str_bytes` + `parse_escape`); `none` = error -/
def lexStrRaw : Bytes → Option (Bytes × Bytes)
  | [] => none
  | b :: r =>
    if b.toNat = 34 then some ([], r)
    else if b.toNat = 92 then
      match r with
      | [] => none
      | e :: r1 =>
        if e.toNat = 117 then
          match r1 with
          | a :: b1 :: c :: d :: r2 =>
            match hex4 a b1 c d with
            | none => none
            | some n1 =>
              if 56320 ≤ n1 ∧ n1 ≤ 57343 then none          -- lone trailing surrogate
              else if 55296 ≤ n1 ∧ n1 ≤ 56319 then
                match r2 with
                | bs :: u :: a2 :: b2 :: c2 :: d2 :: r3 =>
                  if bs.toNat = 92 ∧ u.toNat = 117 then
                    match hex4 a2 b2 c2 d2 with
                    | none => none
                    | some n2 =>
                      if 56320 ≤ n2 ∧ n2 ≤ 57343 then
                        consStr (utf8Enc ((n1 - 55296) * 1024 + (n2 - 56320) + 65536)) (lexStrRaw r3)
                      else none
                  else none
                | _ => none
              else consStr (utf8Enc n1) (lexStrRaw r2)
          | _ => none
        else
          match simpleEsc e with
          | none => none
          | some x => consStr [x] (lexStrRaw r1)
    else if b.toNat < 32 then none                          -- raw control character
    else consStr [b] (lexStrRaw r)

def isCont (b : UInt8) : Bool := 128 ≤ b.toNat && b.toNat ≤ 191

/-- `str::from_utf8(..).is_ok()` -/
def validUtf8 : Bytes → Bool
  | [] => true
  | a :: r =>
    if a.toNat < 128 then validUtf8 r
    else if 194 ≤ a.toNat ∧ a.toNat ≤ 223 then
      match r with
      | b :: r' => isCont b && validUtf8 r'
      | _ => false
    else if 224 ≤ a.toNat ∧ a.toNat ≤ 239 then
      match r with
      | b :: c :: r' =>
        ((if a.toNat = 224 then 160 else 128) ≤ b.toNat && b.toNat ≤ (if a.toNat = 237 then 159 else 191))
          && isCont c && validUtf8 r'
      | _ => false
    else if 240 ≤ a.toNat ∧ a.toNat ≤ 244 then
      match r with
      | b :: c :: d :: r' =>
        ((if a.toNat = 240 then 144 else 128) ≤ b.toNat && b.toNat ≤ (if a.toNat = 244 then 143 else 191))
          && isCont c && isCont d && validUtf8 r'
      | _ => false
    else false

/-- a JSON string that is deserialised into a `String` / field identifier -/
def lexStr (bs : Bytes) : Option (Bytes × Bytes) :=
  match lexStrRaw bs with
  | none => none
  | some (s, r) => if validUtf8 s then some (s, r) else none

/-- result of reading one thing: value and rest, error, or outside the model -/
inductive Rd (α : Type) where
  | ok (a : α) (rest : Bytes)
  | err
  | unm
  | fuel     -- the fuel of a loop ran out (never happens: theorem `decode_total`)
deriving Repr

/-- skip the value of an unknown key (`IgnoredAny`): scalars only, containers are unmodelled -/
def skipScalar (bs : Bytes) : Rd Unit :=
  match bs with
  | [] => .err
  | b :: r =>
    if b.toNat = 34 then
      match lexStrRaw r with
      | some (_, r') => .ok () r'
      | none => .err
    else if b.toNat = 91 ∨ b.toNat = 123 then .unm
    else if (bs.take 4).map UInt8.toNat = [110, 117, 108, 108] then .ok () (bs.drop 4)
    else if (bs.take 4).map UInt8.toNat = [116, 114, 117, 101] then .ok () (bs.drop 4)
    else if (bs.take 5).map UInt8.toNat = [102, 97, 108, 115, 101] then .ok () (bs.drop 5)
    else match lexNum bs with
      | some (_, r') => .ok () r'
      | none => .err

def readUnsigned (max : Nat) (bs : Bytes) : Rd Nat :=
  match lexNum bs with
  | none => .err
  | some (n, r) =>
    match n.asUnsigned max with
    | some v => .ok v r
    | none => .err

def u32Max : Nat := 4294967295
def u64Max : Nat := 18446744073709551615

/-- after the content of a value: `}` closes it, a further key is outside the model -/
def closeVal (v : CVal) (rest : Bytes) : Rd CVal :=
  match skipWs rest with
  | [] => .err
  | b :: r => if b.toNat = 125 then .ok v r else if b.toNat = 44 then .unm else .err

/-- the content `"v": …` of a value with a known, non-`missing` tag -/
def readContent (tag : Bytes) (bs : Bytes) : Rd CVal :=
  if tag = tStr then
    match bs with
    | [] => .err
    | b :: r =>
      if b.toNat = 34 then
        match lexStr r with
        | some (s, rb) => closeVal (.str s) rb
        | none => .err
      else .err
  else
    match lexNum bs with
    | none => .err
    | some (n, rb) =>
      if tag = tScore then
        match n.asUnsigned u32Max with
        | some v => closeVal (.score v) rb
        | none => .err
      else if tag = tI64 then
        match n.asI64 with
        | some v => closeVal (.i64 v) rb
        | none => .err
      else
        match n.asUnsigned u64Max with
        | some v => closeVal (.f64 v) rb
        | none => .err

def knownTag (tag : Bytes) : Bool :=
  tag = tScore || tag = tI64 || tag = tF64 || tag = tStr || tag = tMissing

/-- one element of `values` after its opening brace: `"t":TAG` then `,"v":VAL`.
Shapes serde also accepts but the model does not follow (`"v"` first, further keys) are `unm`. -/
def readVal (bs : Bytes) : Rd CVal :=
  match tok 34 bs with
  | none => .err
  | some r0 =>
    match lexStr r0 with
    | none => .err
    | some (k, r1) =>
      if k ≠ kT then .unm
      else match tok 58 r1 with
        | none => .err
        | some r2 =>
          match tok 34 r2 with
          | none => .err                                 -- the tag must be a string
          | some r3 =>
            match lexStr r3 with
            | none => .err
            | some (tag, r4) =>
              if !knownTag tag then .err                 -- unknown variant
              else match skipWs r4 with
                | [] => .err
                | c :: r5 =>
                  if c.toNat = 125 then
                    (if tag = tMissing then .ok .missing r5 else .err)   -- missing field `v`
                  else if c.toNat = 44 then
                    if tag = tMissing then .unm
                    else match tok 34 r5 with
                      | none => .err
                      | some r6 =>
                        match lexStr r6 with
                        | none => .err
                        | some (k2, r7) =>
                          if k2 ≠ kV then .unm
                          else match tok 58 r7 with
                            | none => .err
                            | some r8 => readContent tag (skipWs r8)
                  else .err

/-- elements of the `values` array, positioned before an element (fuel = remaining length) -/
def readVals : Nat → Bytes → Rd (List CVal)
  | 0, _ => .fuel
  | fuel+1, bs =>
    match skipWs bs with
    | [] => .err
    | b :: r =>
      if b.toNat = 123 then
        match readVal r with
        | .err => .err
        | .unm => .unm
        | .fuel => .fuel
        | .ok v r1 =>
          match skipWs r1 with
          | [] => .err
          | c :: r2 =>
            if c.toNat = 93 then .ok [v] r2
            else if c.toNat = 44 then
              match readVals fuel r2 with
              | .ok vs r3 => .ok (v :: vs) r3
              | .err => .err
              | .unm => .unm
              | .fuel => .fuel
            else .err
      else if b.toNat = 91 then .unm                      -- enum given as a sequence
      else .err

def readValues (bs : Bytes) : Rd (List CVal) :=
  match tok 91 bs with
  | none => .err
  | some r =>
    match tok 93 r with
    | some r' => .ok [] r'
    | none => readVals (r.length + 1) r

/-- fields seen so far -/
structure Acc where
  version : Option Nat := none
  generation : Option Nat := none
  returned : Option Nat := none
  planHash : Option Nat := none
  segmentOrd : Option Nat := none
  docId : Option Nat := none
  values : Option (List CVal) := none
deriving Repr

def Acc.finish (a : Acc) : Option SortCursor :=
  match a.version, a.generation, a.returned, a.planHash, a.segmentOrd, a.docId, a.values with
  | some v, some g, some r, some h, some s, some d, some vs =>
    some { version := v, generation := g, returned := r, planHash := h, segmentOrd := s, docId := d,
           values := vs }
  | _, _, _, _, _, _, _ => none

/-- a numeric field: a duplicate is an error before the value is looked at -/
def readNumField (cur : Option Nat) (max : Nat) (set : Nat → Acc) (bs : Bytes) : Rd Acc :=
  if cur.isSome then .err
  else match readUnsigned max bs with
    | .ok v r => .ok (set v) r
    | .err => .err
    | .unm => .unm
    | .fuel => .fuel

/-- value of member `key` (after `:` and whitespace) -/
def readField (key : Bytes) (a : Acc) (bs : Bytes) : Rd Acc :=
  if key = kVersion then readNumField a.version 255 (fun v => { a with version := some v }) bs
  else if key = kGeneration then readNumField a.generation u32Max (fun v => { a with generation := some v }) bs
  else if key = kReturned then readNumField a.returned u32Max (fun v => { a with returned := some v }) bs
  else if key = kPlanHash then readNumField a.planHash u32Max (fun v => { a with planHash := some v }) bs
  else if key = kSegmentOrd then readNumField a.segmentOrd u32Max (fun v => { a with segmentOrd := some v }) bs
  else if key = kDocId then readNumField a.docId u32Max (fun v => { a with docId := some v }) bs
  else if key = kValues then
    if a.values.isSome then .err
    else match readValues bs with
      | .ok vs r => .ok { a with values := some vs } r
      | .err => .err
      | .unm => .unm
      | .fuel => .fuel
  else match skipScalar bs with
    | .ok _ r => .ok a r
    | .err => .err
    | .unm => .unm
    | .fuel => .fuel

/-- members of the top-level object, positioned before a key (fuel = remaining length) -/
def readMembers : Nat → Acc → Bytes → Rd Acc
  | 0, _, _ => .fuel
  | fuel+1, a, bs =>
    match tok 34 bs with
    | none => .err
    | some r0 =>
      match lexStr r0 with
      | none => .err
      | some (key, r1) =>
        match tok 58 r1 with
        | none => .err
        | some r2 =>
          match readField key a (skipWs r2) with
          | .err => .err
          | .unm => .unm
          | .fuel => .fuel
          | .ok a' r3 =>
            match skipWs r3 with
            | [] => .err
            | c :: r4 =>
              if c.toNat = 125 then .ok a' r4
              else if c.toNat = 44 then readMembers fuel a' r4
              else .err

/-- end of input after the object; all fields present -/
def finishSort (a : Acc) (rest : Bytes) : Dec SortCursor :=
  if skipWs rest ≠ [] then .error .json                  -- trailing characters
  else match a.finish with
    | some c => .ok c
    | none => .error .json                                -- missing field

/-- `serde_json::from_slice::<SortCursorState>` -/
def parseSortJson (bs : Bytes) : Dec SortCursor :=
  match skipWs bs with
  | [] => .error .json
  | b :: r =>
    if b.toNat = 123 then
      match tok 125 r with
      | some r' => finishSort {} r'
      | none =>
        match readMembers (r.length + 1) {} r with
        | .ok a rest => finishSort a rest
        | .err => .error .json
        | .unm => .unmodelled
        | .fuel => .error .fuel
    else if b.toNat = 91 then .unmodelled                  -- struct given as a sequence
    else .error .json

/-- `hex_decode` + `serde_json::from_slice` -/
def parseSort (raw : Bytes) : Dec SortCursor :=
  if raw.length % 2 ≠ 0 then .error .length
  else match hexDecode raw with
    | none => .error .hex
    | some bs => parseSortJson bs

/-- the checks of `decode_cursor` after parsing, in the code's order; `key_from_values` last -/
def checkSort (req : Req) (c : SortCursor) : Dec SortCursor :=
  if c.version ≠ sortCursorVersion then .error .version
  else if c.generation ≠ req.generation then .error .generation
  else if c.planHash ≠ req.planHash then .error .planHash
  else if c.returned > maxCursorAdvance then .error .advance
  else if c.values.length ≠ req.planLen then .error .arity
  else .ok c

def decodeSort (req : Req) (raw : Bytes) : Dec SortCursor :=
  match parseSort raw with
  | .ok c => checkSort req c
  | .error e => .error e
  | .unmodelled => .unmodelled

/-- what `decode_cursor` hands to the search: the key parts and `returned` -/
structure CursorState where
  values : List CVal
  segmentOrd : Nat
  docId : Nat
  returned : Nat
  generation : Nat
  planHash : Option Nat     -- `none` for the score cursor
deriving DecidableEq, Repr

/-- `decode_cursor`: the branch is chosen by the *request's* plan -/
def decodeCursor (req : Req) (raw : Bytes) : Dec CursorState :=
  if req.scoreFast then
    match decodeScore req raw with
    | .ok c => .ok { values := [.score c.scoreBits], segmentOrd := c.segmentOrd, docId := c.docId,
                     returned := c.returned, generation := c.generation, planHash := none }
    | .error e => .error e
    | .unmodelled => .unmodelled
  else
    match decodeSort req raw with
    | .ok c => .ok { values := c.values, segmentOrd := c.segmentOrd, docId := c.docId,
                     returned := c.returned, generation := c.generation, planHash := some c.planHash }
    | .error e => .error e
    | .unmodelled => .unmodelled

/-! ## plan hash (`compute_hash`, CRC-32/IEEE of kind, name, order per field) -/

def crcStep (c : Nat) : Nat := if c % 2 = 1 then (c / 2) ^^^ 3988292384 else c / 2

def crcByte (crc : Nat) (b : UInt8) : Nat :=
  let c := crc ^^^ b.toNat
  crcStep (crcStep (crcStep (crcStep (crcStep (crcStep (crcStep (crcStep c)))))))

def crc32 (bs : Bytes) : Nat := (bs.foldl crcByte 4294967295) ^^^ 4294967295

structure PlanField where
  kind : Nat          -- 0 score, 1 keyword, 2 i64, 3 f64
  name : Bytes
  desc : Bool
deriving DecidableEq, Repr

def planBytes (fs : List PlanField) : Bytes :=
  fs.flatMap (fun f => f.kind.toUInt8 :: ((if f.kind = 0 then [] else f.name) ++ [if f.desc then 1 else 0]))

def planHash (fs : List PlanField) : Nat := crc32 (planBytes fs)

def isScoreFast (fs : List PlanField) : Bool :=
  match fs with
  | [f] => f.kind = 0 && f.desc
  | _ => false

/-! ## pages (generic in the key type; `lt` is `SortKey::cmp == Less`) -/

section Page
variable {κ : Type} (lt : κ → κ → Bool)

def insKey (x : κ) : List κ → List κ
  | [] => [x]
  | y :: ys => if lt x y then x :: y :: ys else y :: insKey x ys

/-- `hits.sort_by(key.cmp)` — structural insertion sort -/
def sortKeys : List κ → List κ
  | [] => []
  | x :: xs => insKey lt x (sortKeys xs)

/-- `key.cmp(cur) == Equal` -/
def keyEq (a b : κ) : Bool := !lt a b && !lt b a

structure Cur (κ : Type) where
  key : κ
  returned : Nat
deriving Repr, DecidableEq

structure Resp (κ : Type) where
  hits : List κ
  next : Option (Cur κ)
  total : Nat
deriving Repr, DecidableEq

inductive PageErr where
  | stale      -- "stale or invalid cursor for this result set" (`saw_cursor` false)
  | advance    -- decode: `returned > MAX_CURSOR_ADVANCE`
deriving DecidableEq, Repr

/-- documents that pass the cursor test of `search_segment`/`scan_segment`:
`key.cmp(cur)` is neither `Less` nor `Equal` -/
def afterCursor (matched : List κ) : Option (Cur κ) → List κ
  | none => matched
  | some c => matched.filter (fun k => lt c.key k)

def sawCursor (matched : List κ) : Option (Cur κ) → Bool
  | none => true
  | some c => matched.any (fun k => keyEq lt k c.key)

/-- `cursor_returned` -/
def curReturned : Option (Cur κ) → Nat
  | none => 0
  | some c => c.returned

/-- the tail of `search`: `top` = the `limit+1` best remaining hits, sorted -/
def pageOf (top : List κ) (limit returned total : Nat) : Except PageErr (Resp κ) :=
  if top.length > limit then
    match (top.take limit).getLast? with
    | some k => .ok { hits := top.take limit,
                      next := some { key := k, returned := min (returned + limit) u32Max }, total := total }
    | none => .ok { hits := top.take limit, next := none, total := total }   -- limit = 0 (rejected earlier)
  else .ok { hits := top, next := none, total := total }

/-- the two hard limits of `reader.rs` -/
structure Limits where
  maxAdvance : Nat       -- `MAX_CURSOR_ADVANCE`
  maxCandidates : Nat    -- `MAX_CANDIDATE_SIZE`
deriving DecidableEq, Repr

def Limits.real : Limits := { maxAdvance := maxCursorAdvance, maxCandidates := 20000 }

/-- One request.  `matched` = keys of all live matching documents (segment order);
`skipped` = number of after-cursor documents a pruning executor never evaluated (0 for
`execution: "bm25"` and for every non-default sort).  Mirrors: advance cap (checked when the
cursor is decoded), cursor test, `saw_cursor`, `page_size = min(limit, MAX_CANDIDATE_SIZE)`,
`top_k = page_size + 1` (no `candidate_size`/rescore window in the request), sort,
`hits.len() > page_size ⇒ next_cursor` with `returned = cursor_returned + page_size`
(saturating to `u32`), `truncate(page_size)`, `total_hits_estimate = total_matches +
cursor_returned` (reader.rs since 7ad6649: a limit above the fetch cap is served in pages of
`MAX_CANDIDATE_SIZE` hits with a cursor for the rest).
(For `limit > MAX_CANDIDATE_SIZE` the default-sort path ranks `top_k` hits *per segment*; the
model follows the global heap of the other path, which is the same thing for one segment.) -/
def page (cfg : Limits) (matched : List κ) (cur : Option (Cur κ)) (limit : Nat) (skipped : Nat := 0) :
    Except PageErr (Resp κ) :=
  if curReturned cur > cfg.maxAdvance then .error .advance
  else if !sawCursor lt matched cur then .error .stale
  else
    pageOf ((sortKeys lt (afterCursor lt matched cur)).take (min limit cfg.maxCandidates + 1))
      (min limit cfg.maxCandidates)
      (curReturned cur) (((afterCursor lt matched cur).length - skipped) + curReturned cur)

/-- the page cut before 7ad6649: the look-ahead test, `returned` and the truncation used the
requested `limit` although only `min(limit, MAX_CANDIDATE_SIZE) + 1` hits were fetched (kept for
the legacy witness `legacy_large_limit_truncates`) -/
def pageLegacy (cfg : Limits) (matched : List κ) (cur : Option (Cur κ)) (limit : Nat) (skipped : Nat := 0) :
    Except PageErr (Resp κ) :=
  if curReturned cur > cfg.maxAdvance then .error .advance
  else if !sawCursor lt matched cur then .error .stale
  else
    pageOf ((sortKeys lt (afterCursor lt matched cur)).take (min limit cfg.maxCandidates + 1)) limit
      (curReturned cur) (((afterCursor lt matched cur).length - skipped) + curReturned cur)

/-- Follow `next` until it is absent; `none` = some request failed.  `recode` is what a key
goes through between two requests: `encode_cursor` then `decode_cursor` (identity on the bytes
the model covers; the float printer/parser for `f64` sort values is a parameter, DESIGN §3.5). -/
def walkPages (cfg : Limits) (recode : κ → κ) (matched : List κ) (limit : Nat) :
    Nat → Option (Cur κ) → Option (List (Resp κ))
  | 0, _ => some []
  | fuel+1, cur =>
    match page lt cfg matched cur limit with
    | .error _ => none
    | .ok r =>
      match r.next with
      | none => some [r]
      | some c =>
        match walkPages cfg recode matched limit fuel (some { c with key := recode c.key }) with
        | none => none
        | some rs => some (r :: rs)

end Page

/-! ## the concrete key of the driver (`SortKey`, `SortKeyPart::cmp`, `SortKey::cmp`)

Sort values are abstracted to integer ranks by the caller (order-preserving per column:
keyword = rank of the string, i64 = itself, f64/score = rank under `total_cmp`); `none` is
`SortValue::Missing`. -/

structure DKey where
  parts : List (Option Int)
  seg : Nat
  doc : Nat
deriving DecidableEq, Repr

/-- `SortKeyPart::cmp`: `Missing` is greater than everything in both directions -/
def cmpPart (desc : Bool) (a b : Option Int) : Ordering :=
  match a, b with
  | none, none => .eq
  | none, some _ => .gt
  | some _, none => .lt
  | some x, some y =>
    if x < y then (if desc then .gt else .lt)
    else if y < x then (if desc then .lt else .gt)
    else .eq

/-- the `zip` loop of `SortKey::cmp` -/
def cmpParts : List Bool → List (Option Int) → List (Option Int) → Ordering
  | d :: ds, a :: as, b :: bs =>
    match cmpPart d a b with
    | .eq => cmpParts ds as bs
    | o => o
  | _, _, _ => .eq

def cmpNat (a b : Nat) : Ordering := if a < b then .lt else if b < a then .gt else .eq

/-- `SortKey::cmp`: parts, then segment ordinal, then doc id -/
def cmpKey (dirs : List Bool) (a b : DKey) : Ordering :=
  match cmpParts dirs a.parts b.parts with
  | .eq =>
    match cmpNat a.seg b.seg with
    | .eq => cmpNat a.doc b.doc
    | o => o
  | o => o

def ltKey (dirs : List Bool) (a b : DKey) : Bool :=
  match cmpKey dirs a b with
  | .lt => true
  | _ => false

/-! ## index generations (`writer.rs` commit, `index/mod.rs` compact) -/

structure Seg where
  generation : Nat
  docs : Nat               -- doc_count
  deleted : List Nat       -- tombstoned doc ids
deriving DecidableEq, Repr

abbrev Index := List Seg

/-- `manifest.segments.iter().map(|s| s.generation).max().unwrap_or(0)` -/
def manifestGen : Index → Nat
  | [] => 0
  | s :: r => max s.generation (manifestGen r)

/-- add the tombstones `dels` (segment position, doc id) to the segments, positions from `i` -/
def markDeleted (dels : List (Nat × Nat)) : Nat → Index → Index
  | _, [] => []
  | i, s :: r =>
    { s with deleted := s.deleted ++ ((dels.filter (fun d => d.1 = i)).map (·.2)) } :: markDeleted dels (i + 1) r

/-- a commit: `dels` = tombstones (documents deleted or replaced), `adds` = number of documents
in `pending_new`.  A new segment (generation max+1) is written only when `adds > 0`. -/
def commit (idx : Index) (dels : List (Nat × Nat)) (adds : Nat) : Index :=
  if adds = 0 then markDeleted dels 0 idx
  else markDeleted dels 0 idx ++ [{ generation := manifestGen idx + 1, docs := adds, deleted := [] }]

def liveCount : Index → Nat
  | [] => 0
  | s :: r => (s.docs - s.deleted.eraseDups.length) + liveCount r

/-- `Index::compact`: nothing with ≤ 1 segment, else one segment with generation max+1 -/
def compact (idx : Index) : Index :=
  if idx.length ≤ 1 then idx
  else [{ generation := manifestGen idx + 1, docs := liveCount idx, deleted := [] }]

/-! ### the manifest revision (fc973e1): what cursors are bound to -/

/-- manifest = segments + `revision: u32` -/
structure IndexState where
  segs : Index
  revision : Nat
deriving DecidableEq, Repr

def u32Mod : Nat := 4294967296

/-- `revision.wrapping_add(1)` -/
def bump (r : Nat) : Nat := (r + 1) % u32Mod

/-- an operation on the index: a commit with `pending` queued operations (`dels` tombstones,
`adds` documents in the new segment) or a compaction -/
inductive IdxOp where
  | commit (dels : List (Nat × Nat)) (adds : Nat) (pending : Nat)
  | compact
deriving Repr

/-- does the operation do anything?  `IndexWriter::commit` returns early without pending
operations; `Index::compact` returns early with ≤ 1 segment.  Exactly these bump the revision. -/
def IdxOp.effective (st : IndexState) : IdxOp → Bool
  | .commit _ _ pending => pending != 0
  | .compact => decide (1 < st.segs.length)

def IdxOp.apply (st : IndexState) (op : IdxOp) : IndexState :=
  if op.effective st then
    match op with
    | .commit dels adds _ => { segs := SL.Cursor.commit st.segs dels adds, revision := bump st.revision }
    | .compact => { segs := SL.Cursor.compact st.segs, revision := bump st.revision }
  else st

def runOps (st : IndexState) : List IdxOp → IndexState
  | [] => st
  | op :: r => runOps (op.apply st) r

/-- number of effective operations along a history -/
def effCount (st : IndexState) : List IdxOp → Nat
  | [] => 0
  | op :: r => (if op.effective st then 1 else 0) + effCount (op.apply st) r

/-- the generation `IndexReader::search` compares cursors with -/
def readerGen (st : IndexState) : Nat := st.revision

/-- the same before fc973e1: the maximal segment generation -/
def readerGenLegacy (st : IndexState) : Nat := manifestGen st.segs

end SL.Cursor
