/-!
# Core/CursorBytes — byte-level model of the two cursor decoders
(`searchlite-core/src/api/reader.rs`: `PaginationCursor::decode`, `hex_decode`, the score
fast path of `decode_cursor`).  Import-free, executable.  Bytes are `Nat`s (the functions
are total on every `Nat`; a real byte is `< 256`).

The code walks `raw.as_bytes().chunks_exact(2)` and, per chunk, does

```
let hex = std::str::from_utf8(chunk).unwrap();          // (L) legacy: panics off a char boundary
let value = u8::from_str_radix(hex, 16).with_context(..)?;
```

`decode…` below is the decoder **without** step (L) (nibbles are read from the bytes; a
non-hex byte is an error) — the behaviour `decode_total` is about.  `legacy…` keeps step (L)
with a third outcome `panic`; it is the mechanism model of the ORIGINAL code and the subject
of the negative witness.  Since /repo commit 0bc4e6f step (L) reads
`from_utf8(chunk).map_err(|_| anyhow!("invalid cursor: non-hex character …"))?`: `repaired…`
mirrors that two-step loop literally (UTF-8 test ⇒ error, then the radix parse) and is the
mechanism model of the code as it exists now; it has the same outcome as `decode…` on every
input (`Props/C16`: `repaired_eq_decode`).

`u8::from_str_radix` accepts one leading `+` (std behaviour: `"+f"` parses to 15); whether a
decoder keeps that is the `plus` parameter — every theorem holds for both values.
-/
namespace SL.CursorBytes

/-- outcome of a decoder: a value, an `Err` returned to the caller, or a Rust panic -/
inductive Out (α : Type) where
  | ok (v : α)
  | err (why : String)
  | panic
deriving Repr, DecidableEq

def Out.isPanic {α : Type} : Out α → Bool
  | .panic => true
  | _ => false

def Out.cls {α : Type} : Out α → String
  | .ok _ => "ok"
  | .err _ => "error"
  | .panic => "panic"

def Out.map {α β : Type} (f : α → β) : Out α → Out β
  | .ok v => .ok (f v)
  | .err e => .err e
  | .panic => .panic

/-- value of one hex digit byte (`char::to_digit(16)`): `0-9`, `a-f`, `A-F` -/
def hexVal (b : Nat) : Option Nat :=
  if 48 ≤ b ∧ b ≤ 57 then some (b - 48)
  else if 97 ≤ b ∧ b ≤ 102 then some (b - 87)
  else if 65 ≤ b ∧ b ≤ 70 then some (b - 55)
  else none

/-- `u8::from_str_radix(<two bytes>, 16)`: two hex digits, or (when `plus`) `+` and one digit -/
def pairVal (plus : Bool) (a b : Nat) : Option Nat :=
  if plus && a == 43 then hexVal b
  else
    match hexVal a, hexVal b with
    | some x, some y => some (16 * x + y)
    | _, _ => none

/-- is the two-byte chunk on its own valid UTF-8?  (two ASCII bytes, or one two-byte
scalar `C2..DF 80..BF`) — what `std::str::from_utf8(chunk)` decides -/
def utf8Ok2 (a b : Nat) : Bool :=
  (a < 128 && b < 128) || (194 ≤ a && a ≤ 223 && 128 ≤ b && b ≤ 191)

/-- decode consecutive two-byte chunks; a trailing odd byte is ignored like
`chunks_exact(2)` does (callers check the length first) -/
def decodePairs (plus : Bool) : List Nat → Out (List Nat)
  | a :: b :: r =>
    match pairVal plus a b with
    | none => .err "decoding cursor: not a hex byte"
    | some v => (decodePairs plus r).map (v :: ·)
  | _ => .ok []

/-- the unchanged loop: `from_utf8(chunk).unwrap()` first, then the radix parse -/
def legacyPairs (plus : Bool) : List Nat → Out (List Nat)
  | a :: b :: r =>
    if !utf8Ok2 a b then .panic
    else
      match pairVal plus a b with
      | none => .err "decoding cursor: not a hex byte"
      | some v => (legacyPairs plus r).map (v :: ·)
  | _ => .ok []

/-- the loop since 0bc4e6f: a chunk that is not UTF-8 on its own is an error, then the radix parse -/
def repairedPairs (plus : Bool) : List Nat → Out (List Nat)
  | a :: b :: r =>
    if !utf8Ok2 a b then .err "invalid cursor: non-hex character"
    else
      match pairVal plus a b with
      | none => .err "decoding cursor: not a hex byte"
      | some v => (repairedPairs plus r).map (v :: ·)
  | _ => .ok []

/-- forget the wording of an error (the code has two messages for "not hex") -/
def Out.forget {α : Type} : Out α → Out α
  | .err _ => .err ""
  | o => o

/-- big-endian value of a byte list -/
def be (bs : List Nat) : Nat := bs.foldl (fun acc b => acc * 256 + b) 0

/-- decoded score cursor (`PaginationCursor` minus the constant version) -/
structure ScoreCursor where
  generation : Nat
  scoreBits : Nat
  segmentOrd : Nat
  docId : Nat
  returned : Nat
deriving Repr, DecidableEq

def cursorVersion : Nat := 1
def cursorBytes : Nat := 21
def cursorHexLen : Nat := 42
def maxCursorAdvance : Nat := 50000

/-- the part of `PaginationCursor::decode` after the hex loop -/
def parseScore (bytes : List Nat) : Out ScoreCursor :=
  match bytes with
  | v :: rest =>
    if v ≠ cursorVersion then .err "unsupported cursor version"
    else
      let c : ScoreCursor := {
        generation := be (rest.take 4)
        scoreBits := be ((rest.drop 4).take 4)
        segmentOrd := be ((rest.drop 8).take 4)
        docId := be ((rest.drop 12).take 4)
        returned := be ((rest.drop 16).take 4) }
      if c.returned > maxCursorAdvance then .err "cursor requests too many hits" else .ok c
  | [] => .err "unsupported cursor version"

def bindOut {α β : Type} (o : Out α) (f : α → Out β) : Out β :=
  match o with
  | .ok v => f v
  | .err e => .err e
  | .panic => .panic

/-- `PaginationCursor::decode` reading nibbles from bytes (no `from_utf8`) -/
def decodeScore (plus : Bool) (raw : List Nat) : Out ScoreCursor :=
  if raw.length ≠ cursorHexLen then .err "invalid cursor length"
  else bindOut (decodePairs plus raw) parseScore

/-- `PaginationCursor::decode` as it is in the unchanged tree -/
def legacyScore (plus : Bool) (raw : List Nat) : Out ScoreCursor :=
  if raw.length ≠ cursorHexLen then .err "invalid cursor length"
  else bindOut (legacyPairs plus raw) parseScore

/-- `PaginationCursor::decode` as it is since 0bc4e6f -/
def repairedScore (plus : Bool) (raw : List Nat) : Out ScoreCursor :=
  if raw.length ≠ cursorHexLen then .err "invalid cursor length"
  else bindOut (repairedPairs plus raw) parseScore

/-- `hex_decode` as it is since 0bc4e6f -/
def repairedHexDecode (plus : Bool) (raw : List Nat) : Out (List Nat) :=
  if raw.length % 2 ≠ 0 then .err "invalid cursor: expected even-length hex string"
  else repairedPairs plus raw

/-- `hex_decode` (sort cursors) reading nibbles from bytes -/
def hexDecode (plus : Bool) (raw : List Nat) : Out (List Nat) :=
  if raw.length % 2 ≠ 0 then .err "invalid cursor: expected even-length hex string"
  else decodePairs plus raw

/-- `hex_decode` as it is in the unchanged tree -/
def legacyHexDecode (plus : Bool) (raw : List Nat) : Out (List Nat) :=
  if raw.length % 2 ≠ 0 then .err "invalid cursor: expected even-length hex string"
  else legacyPairs plus raw

/-- score fast path of `decode_cursor` (code since 0bc4e6f): decode, then the generation test -/
def decodeCursorFast (plus : Bool) (raw : List Nat) (manifestGeneration : Nat) : Out ScoreCursor :=
  bindOut (repairedScore plus raw) fun c =>
    if c.generation ≠ manifestGeneration then .err "stale cursor for this index generation" else .ok c

/-- lower-case hex of one byte / of a byte list (`hex_encode`, `PaginationCursor::encode`) -/
def hexChar (n : Nat) : Nat := if n < 10 then 48 + n else 87 + n

def hexEncode (bs : List Nat) : List Nat := bs.flatMap fun b => [hexChar (b / 16), hexChar (b % 16)]

/-- 4 big-endian bytes of a number (`u32::to_be_bytes`, the number taken modulo 2^32) -/
def be4 (n : Nat) : List Nat := [n / 16777216 % 256, n / 65536 % 256, n / 256 % 256, n % 256]

def encodeScore (c : ScoreCursor) : List Nat :=
  hexEncode (cursorVersion :: (be4 c.generation ++ be4 c.scoreBits ++ be4 c.segmentOrd ++ be4 c.docId ++ be4 c.returned))

/-- index of the first chunk that is not valid UTF-8 on its own (none: every chunk is) -/
def firstBadChunk : List Nat → Option Nat
  | a :: b :: r => if !utf8Ok2 a b then some 0 else (firstBadChunk r).map (· + 1)
  | _ => none

/-- index of the first chunk that does not parse as a hex byte -/
def firstBadDigit (plus : Bool) : List Nat → Option Nat
  | a :: b :: r => if (pairVal plus a b).isNone then some 0 else (firstBadDigit plus r).map (· + 1)
  | _ => none

end SL.CursorBytes
