/-!
# Core/Doc — JSON documents, schema, stored projection, re-ingestion check

Import-free, executable, structurally recursive (so that `decide` evaluates it).  Polymorphic in
the atom type `σ` of field names and string values (witnesses use `Nat`, the driver `String`).

Mirrors `searchlite-core/src/index/segment.rs`: `collect_document` (top-level dispatch, stored
values of flat fields via `collect_strings`/`collect_i64s`/`collect_f64s` + `push_stored`),
`finalize_stored` (one value → scalar, otherwise array — also for zero values), `collect_nested` +
`stored_nested_value` (arrays keep the elements whose projection is non-empty, objects keep stored
non-null leaf properties and non-empty child projections; an empty result is dropped), and
`index/manifest.rs`: `validate_document`, `NestedField::validate`, `validate_value`, plus the
`bail!` conditions of `collect_nested`/`collect_nested_object` (these decide whether a stored
document can be re-ingested by compaction), `index/mod.rs: ensure_compact_safe`.

Not modelled: number representation beyond "integer or not" (`3` vs `3.0`, i64 range), whitespace
trimming of ids, dotted top-level names that collide with nested paths, vector fields.
-/
namespace SL.Doc

mutual
inductive J (σ : Type) where
  | null
  | bool (b : Bool)
  | num (m : Int) (e : Nat)
  | str (s : σ)
  | arr (a : JL σ)
  | obj (kv : JO σ)
inductive JL (σ : Type) where
  | nil
  | cons (h : J σ) (t : JL σ)
inductive JO (σ : Type) where
  | nil
  | cons (k : σ) (v : J σ) (t : JO σ)
end

inductive Kind where
  | text | keyword | i64 | f64
deriving DecidableEq, Repr

structure Leaf (σ : Type) where
  name : σ
  kind : Kind
  stored : Bool
  indexed : Bool
  fast : Bool
  nullable : Bool

mutual
inductive NProp (σ : Type) where
  | leaf (l : Leaf σ)
  | object (n : Nested σ)
inductive Nested (σ : Type) where
  | mk (name : σ) (nullable : Bool) (props : NProps σ)
inductive NProps (σ : Type) where
  | nil
  | cons (p : NProp σ) (t : NProps σ)
end

structure Schema (σ : Type) where
  idField : σ
  flat : List (Leaf σ)
  nested : List (Nested σ)

variable {σ : Type}

def J.isNull : J σ → Bool
  | .null => true
  | _ => false

def JL.isNil : JL σ → Bool
  | .nil => true
  | _ => false

def JO.isNil : JO σ → Bool
  | .nil => true
  | _ => false

def JL.toList : JL σ → List (J σ)
  | .nil => []
  | .cons h t => h :: t.toList

def JL.ofList : List (J σ) → JL σ
  | [] => .nil
  | h :: t => .cons h (JL.ofList t)

def JL.length : JL σ → Nat
  | .nil => 0
  | .cons _ t => t.length + 1

def JO.get [DecidableEq σ] : JO σ → σ → Option (J σ)
  | .nil, _ => none
  | .cons k v t, x => if k = x then some v else t.get x

def JO.hasKey [DecidableEq σ] : JO σ → σ → Bool
  | .nil, _ => false
  | .cons k _ t, x => k = x || t.hasKey x

def Nested.name : Nested σ → σ
  | .mk n _ _ => n
def Nested.nullable : Nested σ → Bool
  | .mk _ b _ => b
def Nested.props : Nested σ → NProps σ
  | .mk _ _ p => p

def NProp.name : NProp σ → σ
  | .leaf l => l.name
  | .object n => n.name
def NProp.nullable : NProp σ → Bool
  | .leaf l => l.nullable
  | .object n => n.nullable

def NProps.find [DecidableEq σ] : NProps σ → σ → Option (NProp σ)
  | .nil, _ => none
  | .cons p t, x => if p.name = x then some p else t.find x

/-! ## flat fields -/

def J.isStr : J σ → Bool
  | .str _ => true
  | _ => false
def J.isNum : J σ → Bool
  | .num _ _ => true
  | _ => false
def J.isInt : J σ → Bool
  | .num _ 0 => true
  | _ => false

/-- the test a value of a field of kind `k` must pass to be collected -/
def Kind.accepts (k : Kind) (v : J σ) : Bool :=
  match k with
  | .text | .keyword => v.isStr
  | .i64 => v.isInt
  | .f64 => v.isNum

def filterJL (p : J σ → Bool) : JL σ → List (J σ)
  | .nil => []
  | .cons h t => if p h then h :: filterJL p t else filterJL p t

/-- `collect_strings` / `collect_i64s` / `collect_f64s` -/
def collect (k : Kind) (v : J σ) : List (J σ) :=
  match v with
  | .arr a => filterJL k.accepts a
  | v => if k.accepts v then [v] else []

/-- `finalize_stored`: exactly one value is stored as a scalar, anything else as an array -/
def norm : List (J σ) → J σ
  | [v] => v
  | vs => .arr (JL.ofList vs)

def storedFlat (k : Kind) (v : J σ) : J σ := norm (collect k v)

/-! ## nested fields: `stored_nested_value` -/

mutual
def storedNested [DecidableEq σ] (n : Nested σ) : J σ → Option (J σ)
  | .arr a =>
    let f := storedList n a
    if f.isNil then none else some (.arr f)
  | .obj kv =>
    let out := storedObj n.props kv
    if out.isNil then none else some (.obj out)
  | _ => none
def storedList [DecidableEq σ] (n : Nested σ) : JL σ → JL σ
  | .nil => .nil
  | .cons h t =>
    match storedNested n h with
    | some f => .cons f (storedList n t)
    | none => storedList n t
def storedObj [DecidableEq σ] (props : NProps σ) : JO σ → JO σ
  | .nil => .nil
  | .cons k v t =>
    match props.find k with
    | some (.leaf l) =>
      if !v.isNull && l.stored then .cons k v (storedObj props t) else storedObj props t
    | some (.object child) =>
      if v.isNull then storedObj props t
      else match storedNested child v with
        | some c => .cons k c (storedObj props t)
        | none => storedObj props t
    | none => storedObj props t
end

/-! ## whole documents -/

def Schema.findFlat [DecidableEq σ] (s : Schema σ) (x : σ) : Option (Leaf σ) :=
  s.flat.find? (fun l => decide (l.name = x))

def Schema.findNested [DecidableEq σ] (s : Schema σ) (x : σ) : Option (Nested σ) :=
  s.nested.find? (fun n => decide (n.name = x))

/-- stored entries of the top-level fields other than the id -/
def projFields [DecidableEq σ] (s : Schema σ) : JO σ → JO σ
  | .nil => .nil
  | .cons k v t =>
    if k = s.idField then projFields s t else
    match s.findFlat k with
    | some l => if l.stored then .cons k (storedFlat l.kind v) (projFields s t) else projFields s t
    | none =>
      match s.findNested k with
      | some n =>
        if v.isNull then projFields s t
        else match storedNested n v with
          | some f => .cons k f (projFields s t)
          | none => projFields s t
      | none => projFields s t

/-- the stored projection of a document (`collect_document` + `finalize_stored`) -/
def project [DecidableEq σ] (s : Schema σ) : J σ → J σ
  | .obj kv =>
    match kv.get s.idField with
    | some (.str id) => .obj (.cons s.idField (.str id) (projFields s kv))
    | _ => .null
  | _ => .null

/-- the document id (`doc_id_from_document`) -/
def docId [DecidableEq σ] (s : Schema σ) : J σ → Option σ
  | .obj kv =>
    match kv.get s.idField with
    | some (.str id) => some id
    | _ => none
  | _ => none

/-! ## can a (stored) document be ingested?  `validate_document` ∧ `collect_document` succeed -/

def allJL (p : J σ → Bool) : JL σ → Bool
  | .nil => true
  | .cons h t => p h && allJL p t

/-- `validate_field_value` for a top-level field -/
def flatOk (l : Leaf σ) (v : J σ) : Bool :=
  match v with
  | .null => l.nullable
  | .arr a => allJL l.kind.accepts a
  | v => l.kind.accepts v

/-- `NestedProperty::validate_value` for a leaf property (shape only: string|array, number|array) -/
def leafPropOk (l : Leaf σ) (v : J σ) : Bool :=
  match v with
  | .null => l.nullable
  | .arr _ => true
  | v => match l.kind with
    | .text | .keyword => v.isStr
    | .i64 | .f64 => v.isNum

/-- every non-nullable property is present -/
def requiredPresent [DecidableEq σ] (kv : JO σ) : NProps σ → Bool
  | .nil => true
  | .cons p t => (kv.hasKey p.name || p.nullable) && requiredPresent kv t

mutual
/-- `NestedField::validate` ∧ `collect_nested` on a non-null value of nested field `n` -/
def nestedOk [DecidableEq σ] (n : Nested σ) : J σ → Bool
  | .arr a => elemsOk n a
  | .obj kv => entriesOk n.props kv && requiredPresent kv n.props
  | _ => false
/-- array elements: null (if nullable) or object -/
def elemsOk [DecidableEq σ] (n : Nested σ) : JL σ → Bool
  | .nil => true
  | .cons h t =>
    (match h with
     | .null => n.nullable
     | .obj kv => entriesOk n.props kv && requiredPresent kv n.props
     | _ => false) && elemsOk n t
/-- every entry of an object names a property and has an acceptable value -/
def entriesOk [DecidableEq σ] (props : NProps σ) : JO σ → Bool
  | .nil => true
  | .cons k v t =>
    (match props.find k with
     | some (.leaf l) => leafPropOk l v
     | some (.object child) => if v.isNull then child.nullable else nestedOk child v
     | none => false) && entriesOk props t
end

def fieldsOk [DecidableEq σ] (s : Schema σ) : JO σ → Bool
  | .nil => true
  | .cons k v t =>
    (if k = s.idField then true else
     match s.findFlat k with
     | some l => flatOk l v
     | none =>
       match s.findNested k with
       | some n => if v.isNull then n.nullable else nestedOk n v
       | none => false) && fieldsOk s t

/-- the document passes `validate_document` and `collect_document` -/
def ingestOk [DecidableEq σ] (s : Schema σ) (d : J σ) : Bool :=
  match d with
  | .obj kv => (docId s d).isSome && fieldsOk s kv
  | _ => false

/-! ## `ensure_compact_safe` -/

def Leaf.safe (l : Leaf σ) : Bool :=
  let indexed := match l.kind with
    | .i64 | .f64 => true
    | _ => l.indexed
  let fast := match l.kind with
    | .text => false
    | _ => l.fast
  !(indexed || fast) || l.stored

mutual
def Nested.safe : Nested σ → Bool
  | .mk _ _ props => propsSafe props
def propsSafe : NProps σ → Bool
  | .nil => true
  | .cons (.leaf l) t => l.safe && propsSafe t
  | .cons (.object n) t => n.safe && propsSafe t
end

def compactSafe (s : Schema σ) : Bool :=
  s.flat.all Leaf.safe && s.nested.all Nested.safe

/-! ## what a nested filter can observe of a nested value: the object count -/

/-- `nested_counts` entry written by `collect_nested` for a non-null value: array length (null
elements included), 1 for a single object -/
def nestedCount : J σ → Nat
  | .arr a => a.length
  | .obj _ => 1
  | _ => 0

/-! ## single-level nested filters over keyword leaves (what `nested_filter_passes` evaluates)

`Filter::Nested { path, filter }` iterates over the `nested_count` objects of the value — null
elements of the array are objects without values — and evaluates the inner filter on the values
recorded for that object index; values are recorded for *fast keyword* leaves only
(`record_nested_strings(collect_strings(v))`).  Case folding of the comparison is not modelled. -/

def strsJL : JL σ → List σ
  | .nil => []
  | .cons (.str s) t => s :: strsJL t
  | .cons _ t => strsJL t

/-- `collect_strings` -/
def strsOf : J σ → List σ
  | .str s => [s]
  | .arr a => strsJL a
  | _ => []

/-- the strings recorded for property `x` of one object -/
def fieldStrs [DecidableEq σ] : JO σ → σ → List σ
  | .nil, _ => []
  | .cons k v t, x => (if k = x then strsOf v else []) ++ fieldStrs t x

inductive NF (σ : Type) where
  | kwEq (field value : σ)
  | not (f : NF σ)
  | and (f g : NF σ)
  | or (f g : NF σ)

/-- is `x` a fast keyword leaf of the nested field? -/
def NProps.fastKeyword [DecidableEq σ] (props : NProps σ) (x : σ) : Bool :=
  match props.find x with
  | some (.leaf l) => l.kind == .keyword && l.fast
  | _ => false

def NF.evalObj [DecidableEq σ] (props : NProps σ) (kv : JO σ) : NF σ → Bool
  | .kwEq f v => props.fastKeyword f && (fieldStrs kv f).contains v
  | .not f => !(f.evalObj props kv)
  | .and f g => f.evalObj props kv && g.evalObj props kv
  | .or f g => f.evalObj props kv || g.evalObj props kv

/-- one element of the nested array: an object, or (null) an object without values -/
def elemPasses [DecidableEq σ] (props : NProps σ) (f : NF σ) : J σ → Bool
  | .obj kv => f.evalObj props kv
  | _ => f.evalObj props .nil

def anyJL (p : J σ → Bool) : JL σ → Bool
  | .nil => false
  | .cons h t => p h || anyJL p t

/-- `nested_filter_passes` for a top-level nested field with value `v` -/
def nestedPasses [DecidableEq σ] (n : Nested σ) (f : NF σ) : J σ → Bool
  | .arr a => anyJL (elemPasses n.props f) a
  | .obj kv => f.evalObj n.props kv
  | _ => false

/-- every element of the array is an object whose stored projection is non-empty (so
`stored_nested_value` keeps every element in place) -/
def keepsAll [DecidableEq σ] (props : NProps σ) : JL σ → Bool
  | .nil => true
  | .cons (.obj kv) t => !(storedObj props kv).isNil && keepsAll props t
  | .cons _ _ => false

end SL.Doc
