import SLModel.Core.Doc
import SLModel.Core.Contents
/-! the `Contents` configuration contributed by a schema: stored projection, `ensure_compact_safe`,
re-ingestion check of a stored document -/
namespace SL.Doc

def docCfg {σ : Type} [DecidableEq σ] (s : Schema σ) : SL.Contents.Cfg (J σ) :=
  { proj := project s, safe := compactSafe s, reingestOk := ingestOk s }

end SL.Doc
