import SLModel.Core.Doc
/-!
# Core/DocValidate — what `add_document` accepts and what `commit` needs (C15)

Import-free apart from `Core/Doc`, executable, structurally recursive.  This is the code **after**
the repairs 8c4f4e4 (stored projection checked against the docstore cap when queued), 37df93e (unknown top-level names rejected when queued), 919e2f9 (an array directly
inside a nested array rejected when queued) and 6d0f8bf (values of nested leaf properties
type-checked like top-level fields); the add-time validation as it was before them is kept in
`Core/DocValidateLegacy`.

* `validateDoc` mirrors `Schema::validate_document` (`index/manifest.rs`): the id test, then for
  every top-level entry *in this order*: a nested field of that name → `NestedField::validate`;
  otherwise a flat field of that name → `validate_field_value`; otherwise the id field → nothing;
  otherwise `bail!("unknown field")`.  `NestedField::validate`: null only if nullable; an array
  → every element is validated against the same field, an element that is itself an array is
  refused; an object → every entry by `NestedProperty::validate_value` (leaf: the same test as a
  top-level field of that kind — null only if nullable, a scalar of the kind or an array of such
  scalars; object: null only if nullable, otherwise recursive), then the presence of the
  non-nullable properties.
* `collectDoc` mirrors the `bail!` sites of `collect_document`/`collect_nested`/
  `collect_nested_object` (`index/segment.rs`): unknown top-level name, null where not nullable,
  scalar nested value, non-object element of a nested array, unknown nested property, missing
  required property.  `handle_field` never fails (values of the wrong type are dropped).
* `validateAdd` = `IndexWriter::add_document` accepts: `validate_document`, then (since 8c4f4e4)
  `ensure_storable` = `collect_document` succeeds and the stored projection is within the cap.
* `collectOk` = what `write_segment_stream` needs for one document: `validate_document` again,
  `collect_document`, and the docstore cap on the serialised stored projection
  (`DocStoreWriter::add_document`, `MAX_DOCSTORE_BYTES`).  The serialised size is a parameter
  (`size : J σ → Nat`), like every other external function of the model.
* `conforms` is the documented rule set ("documents that violate the schema are rejected"):
  strict typing at every level, no unknown names, nested values are objects or arrays of objects.

Not modelled: dotted top-level names that resolve to nested leaves (`field_meta("c.a")`),
schemas whose field names collide, vector fields, i64 range.
-/
namespace SL.Doc

variable {σ : Type}

def J.isArr : J σ → Bool
  | .arr _ => true
  | _ => false

/-! ## add time -/

/-- `doc.fields.get(id).and_then(as_str).map(trim).filter(!is_empty)`; `blank` = "trims to
nothing" -/
def idOk [DecidableEq σ] (blank : σ → Bool) (s : Schema σ) (kv : JO σ) : Bool :=
  match kv.get s.idField with
  | some (.str x) => !blank x
  | _ => false

mutual
/-- `NestedField::validate` -/
def nestedValid [DecidableEq σ] (n : Nested σ) : J σ → Bool
  | .null => n.nullable
  | .arr a => elemsValid n a
  | .obj kv => entriesValid n.props kv && requiredPresent kv n.props
  | _ => false
/-- the array case: an element that is an array is refused, every other element is validated
against the same field -/
def elemsValid [DecidableEq σ] (n : Nested σ) : JL σ → Bool
  | .nil => true
  | .cons h t =>
    (!h.isArr && nestedValid n h) && elemsValid n t
/-- the entry loop of the object case (`NestedProperty::validate_value`): leaves are tested like
top-level fields (`flatOk`) -/
def entriesValid [DecidableEq σ] (props : NProps σ) : JO σ → Bool
  | .nil => true
  | .cons k v t =>
    (match props.find k with
     | some (.leaf l) => flatOk l v
     | some (.object child) => if v.isNull then child.nullable else nestedValid child v
     | none => false) && entriesValid props t
end

/-- the entry loop of `validate_document`: nested name first, then flat name, then the id field,
else `bail!("unknown field")` -/
def fieldsValid [DecidableEq σ] (s : Schema σ) : JO σ → Bool
  | .nil => true
  | .cons k v t =>
    (match s.findNested k with
     | some n => nestedValid n v
     | none =>
       match s.findFlat k with
       | some l => flatOk l v
       | none => decide (k = s.idField)) && fieldsValid s t

/-- `Schema::validate_document` returns `Ok` -/
def validateDoc [DecidableEq σ] (blank : σ → Bool) (s : Schema σ) : J σ → Bool
  | .obj kv => idOk blank s kv && fieldsValid s kv
  | _ => false

/-! ## commit time -/

mutual
/-- `collect_nested` on a non-null value -/
def collectNested [DecidableEq σ] (n : Nested σ) : J σ → Bool
  | .null => n.nullable
  | .arr a => collectElems n a
  | .obj kv => collectEntries n.props kv && requiredPresent kv n.props
  | _ => false
/-- the element loop: null (if nullable) or object, nothing else -/
def collectElems [DecidableEq σ] (n : Nested σ) : JL σ → Bool
  | .nil => true
  | .cons h t =>
    (match h with
     | .null => n.nullable
     | .obj kv => collectEntries n.props kv && requiredPresent kv n.props
     | _ => false) && collectElems n t
/-- the entry loop of `collect_nested_object`: leaves never fail -/
def collectEntries [DecidableEq σ] (props : NProps σ) : JO σ → Bool
  | .nil => true
  | .cons k v t =>
    (match props.find k with
     | some (.leaf _) => true
     | some (.object child) => if v.isNull then child.nullable else collectNested child v
     | none => false) && collectEntries props t
end

/-- the entry loop of `collect_document`: id skipped, flat name first, then nested name, else
`bail!("unknown field")` -/
def collectFields [DecidableEq σ] (s : Schema σ) : JO σ → Bool
  | .nil => true
  | .cons k v t =>
    (if k = s.idField then true else
     match s.findFlat k with
     | some _ => true
     | none =>
       match s.findNested k with
       | some n => if v.isNull then n.nullable else collectNested n v
       | none => false) && collectFields s t

def collectDoc [DecidableEq σ] (s : Schema σ) : J σ → Bool
  | .obj kv => collectFields s kv
  | _ => false

/-- `ensure_storable` (added by 8c4f4e4): `collect_document` succeeds and the serialised stored
projection is within `MAX_DOCSTORE_BYTES` -/
def storable [DecidableEq σ] (size : J σ → Nat) (cap : Nat) (s : Schema σ) (d : J σ) : Bool :=
  collectDoc s d && decide (size (project s d) ≤ cap)

/-- `IndexWriter::add_document` returns `Ok`: `validate_document`, then `ensure_storable` (the log
append cannot fail on content) -/
def validateAdd [DecidableEq σ] (blank : σ → Bool) (size : J σ → Nat) (cap : Nat) (s : Schema σ)
    (d : J σ) : Bool :=
  validateDoc blank s d && storable size cap s d

/-- one document passes `write_segment_stream`: validated again, collected, stored projection
within the docstore cap (`DocStoreWriter::add_document`) -/
def collectOk [DecidableEq σ] (blank : σ → Bool) (size : J σ → Nat) (cap : Nat) (s : Schema σ)
    (d : J σ) : Bool :=
  validateDoc blank s d && collectDoc s d && decide (size (project s d) ≤ cap)

/-! ## the documented rules: strict conformance -/

/-- a leaf value: null if nullable, a scalar of the kind, or an array of such scalars -/
def leafStrict (l : Leaf σ) (v : J σ) : Bool := flatOk l v

mutual
def nestedStrict [DecidableEq σ] (n : Nested σ) : J σ → Bool
  | .arr a => elemsStrict n a
  | .obj kv => entriesStrict n.props kv && requiredPresent kv n.props
  | _ => false
def elemsStrict [DecidableEq σ] (n : Nested σ) : JL σ → Bool
  | .nil => true
  | .cons h t =>
    (match h with
     | .null => n.nullable
     | .obj kv => entriesStrict n.props kv && requiredPresent kv n.props
     | _ => false) && elemsStrict n t
def entriesStrict [DecidableEq σ] (props : NProps σ) : JO σ → Bool
  | .nil => true
  | .cons k v t =>
    (match props.find k with
     | some (.leaf l) => leafStrict l v
     | some (.object child) => if v.isNull then child.nullable else nestedStrict child v
     | none => false) && entriesStrict props t
end

def fieldsStrict [DecidableEq σ] (s : Schema σ) : JO σ → Bool
  | .nil => true
  | .cons k v t =>
    (if k = s.idField then true else
     match s.findNested k with
     | some n => if v.isNull then n.nullable else nestedStrict n v
     | none =>
       match s.findFlat k with
       | some l => leafStrict l v
       | none => false) && fieldsStrict s t

/-- the document obeys the schema as documented -/
def conforms [DecidableEq σ] (blank : σ → Bool) (s : Schema σ) : J σ → Bool
  | .obj kv => idOk blank s kv && fieldsStrict s kv
  | _ => false

/-- no nested field is called like the id field (then the id entry itself is validated as a
nested value and nothing can be added at all) -/
def idNotNested [DecidableEq σ] (s : Schema σ) : Bool :=
  (s.findNested s.idField).isNone && (s.findFlat s.idField).isNone

end SL.Doc
