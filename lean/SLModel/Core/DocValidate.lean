import SLModel.Core.Doc
/-!
# Core/DocValidate — what `add_document` accepts and what `commit` needs (C15)

Import-free apart from `Core/Doc`, executable, structurally recursive.

* `validateAdd` mirrors `Schema::validate_document` (`index/manifest.rs`): the id test, then for
  every top-level entry *in this order*: a nested field of that name → `NestedField::validate`;
  otherwise a flat field of that name → `validate_field_value`; otherwise **nothing** (unknown
  names are ignored).  `NestedField::validate` recurses into arrays with the *same* field
  (arrays of arrays pass), checks every entry of an object with `NestedProperty::validate_value`
  (leaf: null only if nullable, otherwise string|array resp. number|array — array elements are
  not looked at; object: null only if nullable, otherwise recursive) and then the presence of the
  non-nullable properties.
* `collectDoc` mirrors the `bail!` sites of `collect_document`/`collect_nested`/
  `collect_nested_object` (`index/segment.rs`): unknown top-level name, null where not nullable,
  scalar nested value, non-object element of a nested array, unknown nested property, missing
  required property.  `handle_field` never fails (values of the wrong type are dropped).
* `collectOk` = what `write_segment_stream` needs for one document: `validate_document` again,
  `collect_document`, and the docstore cap on the serialised stored projection
  (`DocStoreWriter::add_document`, `MAX_DOCSTORE_BYTES`).  The serialised size is a parameter
  (`size : J σ → Nat`), like every other external function of the model.
* `conforms` is the documented rule set ("documents that violate the schema are rejected"):
  strict typing at every level, no unknown names, nested values are objects or arrays of objects.

Not modelled: dotted top-level names that resolve to nested leaves (`field_meta("c.a")`),
schemas whose field names collide, vector fields, i64 range.
-/
namespace SL.Doc

variable {σ : Type}

/-! ## add time -/

/-- `doc.fields.get(id).and_then(as_str).map(trim).filter(!is_empty)`; `blank` = "trims to
nothing" -/
def idOk [DecidableEq σ] (blank : σ → Bool) (s : Schema σ) (kv : JO σ) : Bool :=
  match kv.get s.idField with
  | some (.str x) => !blank x
  | _ => false

mutual
/-- `NestedField::validate` -/
def nestedValid [DecidableEq σ] (n : Nested σ) : J σ → Bool
  | .null => n.nullable
  | .arr a => elemsValid n a
  | .obj kv => entriesValid n.props kv && requiredPresent kv n.props
  | _ => false
/-- the array case: every element is validated against the same field -/
def elemsValid [DecidableEq σ] (n : Nested σ) : JL σ → Bool
  | .nil => true
  | .cons h t => nestedValid n h && elemsValid n t
/-- the entry loop of the object case (`NestedProperty::validate_value`) -/
def entriesValid [DecidableEq σ] (props : NProps σ) : JO σ → Bool
  | .nil => true
  | .cons k v t =>
    (match props.find k with
     | some (.leaf l) => leafPropOk l v
     | some (.object child) => if v.isNull then child.nullable else nestedValid child v
     | none => false) && entriesValid props t
end

/-- the entry loop of `validate_document`: nested name first, then flat name, else ignored -/
def fieldsValid [DecidableEq σ] (s : Schema σ) : JO σ → Bool
  | .nil => true
  | .cons k v t =>
    (match s.findNested k with
     | some n => nestedValid n v
     | none =>
       match s.findFlat k with
       | some l => flatOk l v
       | none => true) && fieldsValid s t

/-- `IndexWriter::add_document` returns `Ok` (the log append cannot fail on content) -/
def validateAdd [DecidableEq σ] (blank : σ → Bool) (s : Schema σ) : J σ → Bool
  | .obj kv => idOk blank s kv && fieldsValid s kv
  | _ => false

/-! ## commit time -/

mutual
/-- `collect_nested` on a non-null value -/
def collectNested [DecidableEq σ] (n : Nested σ) : J σ → Bool
  | .null => n.nullable
  | .arr a => collectElems n a
  | .obj kv => collectEntries n.props kv && requiredPresent kv n.props
  | _ => false
/-- the element loop: null (if nullable) or object, nothing else -/
def collectElems [DecidableEq σ] (n : Nested σ) : JL σ → Bool
  | .nil => true
  | .cons h t =>
    (match h with
     | .null => n.nullable
     | .obj kv => collectEntries n.props kv && requiredPresent kv n.props
     | _ => false) && collectElems n t
/-- the entry loop of `collect_nested_object`: leaves never fail -/
def collectEntries [DecidableEq σ] (props : NProps σ) : JO σ → Bool
  | .nil => true
  | .cons k v t =>
    (match props.find k with
     | some (.leaf _) => true
     | some (.object child) => if v.isNull then child.nullable else collectNested child v
     | none => false) && collectEntries props t
end

/-- the entry loop of `collect_document`: id skipped, flat name first, then nested name, else
`bail!("unknown field")` -/
def collectFields [DecidableEq σ] (s : Schema σ) : JO σ → Bool
  | .nil => true
  | .cons k v t =>
    (if k = s.idField then true else
     match s.findFlat k with
     | some _ => true
     | none =>
       match s.findNested k with
       | some n => if v.isNull then n.nullable else collectNested n v
       | none => false) && collectFields s t

def collectDoc [DecidableEq σ] (s : Schema σ) : J σ → Bool
  | .obj kv => collectFields s kv
  | _ => false

/-- one document passes `write_segment_stream`: validated again, collected, stored projection
within the docstore cap -/
def collectOk [DecidableEq σ] (blank : σ → Bool) (size : J σ → Nat) (cap : Nat) (s : Schema σ)
    (d : J σ) : Bool :=
  validateAdd blank s d && collectDoc s d && decide (size (project s d) ≤ cap)

/-! ## the classes of documents on which add time and commit time differ -/

/-- a top-level name that is neither the id, nor a flat field, nor a nested field -/
def unknownTop [DecidableEq σ] (s : Schema σ) : JO σ → Bool
  | .nil => false
  | .cons k _ t =>
    (!(decide (k = s.idField)) && (s.findFlat k).isNone && (s.findNested k).isNone) ||
      unknownTop s t

mutual
/-- a nested value (below field `n`) contains an array directly inside an array -/
def arrInArr [DecidableEq σ] (n : Nested σ) : J σ → Bool
  | .arr a => arrInArrElems n a
  | .obj kv => arrInArrEntries n.props kv
  | _ => false
def arrInArrElems [DecidableEq σ] (n : Nested σ) : JL σ → Bool
  | .nil => false
  | .cons h t =>
    (match h with
     | .arr _ => true
     | .obj kv => arrInArrEntries n.props kv
     | _ => false) || arrInArrElems n t
def arrInArrEntries [DecidableEq σ] (props : NProps σ) : JO σ → Bool
  | .nil => false
  | .cons k v t =>
    (match props.find k with
     | some (.object child) => arrInArr child v
     | _ => false) || arrInArrEntries props t
end

def arrInArrTop [DecidableEq σ] (s : Schema σ) : JO σ → Bool
  | .nil => false
  | .cons k v t =>
    (match s.findNested k with
     | some n => arrInArr n v
     | none => false) || arrInArrTop s t

/-- the hypothesis of the partial theorem: none of the three defect classes -/
def benign [DecidableEq σ] (size : J σ → Nat) (cap : Nat) (s : Schema σ) (d : J σ) : Bool :=
  match d with
  | .obj kv => !unknownTop s kv && !arrInArrTop s kv && decide (size (project s d) ≤ cap)
  | _ => true

/-! ## the documented rules: strict conformance -/

/-- a leaf value: null if nullable, a scalar of the kind, or an array of such scalars -/
def leafStrict (l : Leaf σ) (v : J σ) : Bool := flatOk l v

mutual
def nestedStrict [DecidableEq σ] (n : Nested σ) : J σ → Bool
  | .arr a => elemsStrict n a
  | .obj kv => entriesStrict n.props kv && requiredPresent kv n.props
  | _ => false
def elemsStrict [DecidableEq σ] (n : Nested σ) : JL σ → Bool
  | .nil => true
  | .cons h t =>
    (match h with
     | .null => n.nullable
     | .obj kv => entriesStrict n.props kv && requiredPresent kv n.props
     | _ => false) && elemsStrict n t
def entriesStrict [DecidableEq σ] (props : NProps σ) : JO σ → Bool
  | .nil => true
  | .cons k v t =>
    (match props.find k with
     | some (.leaf l) => leafStrict l v
     | some (.object child) => if v.isNull then child.nullable else nestedStrict child v
     | none => false) && entriesStrict props t
end

def fieldsStrict [DecidableEq σ] (s : Schema σ) : JO σ → Bool
  | .nil => true
  | .cons k v t =>
    (if k = s.idField then true else
     match s.findNested k with
     | some n => if v.isNull then n.nullable else nestedStrict n v
     | none =>
       match s.findFlat k with
       | some l => leafStrict l v
       | none => false) && fieldsStrict s t

/-- the document obeys the schema as documented -/
def conforms [DecidableEq σ] (blank : σ → Bool) (s : Schema σ) : J σ → Bool
  | .obj kv => idOk blank s kv && fieldsStrict s kv
  | _ => false

/-! ## typed leaves inside nested values (what add time does not look at) -/

mutual
/-- every leaf value inside the nested value is typed as the documentation demands (what
`NestedProperty::validate_value` does not check: elements of arrays, integrality of i64) -/
def leavesTyped [DecidableEq σ] (n : Nested σ) : J σ → Bool
  | .arr a => leavesTypedElems n a
  | .obj kv => leavesTypedEntries n.props kv
  | _ => true
def leavesTypedElems [DecidableEq σ] (n : Nested σ) : JL σ → Bool
  | .nil => true
  | .cons h t =>
    (match h with
     | .obj kv => leavesTypedEntries n.props kv
     | _ => true) && leavesTypedElems n t
def leavesTypedEntries [DecidableEq σ] (props : NProps σ) : JO σ → Bool
  | .nil => true
  | .cons k v t =>
    (match props.find k with
     | some (.leaf l) => leafStrict l v
     | some (.object child) => leavesTyped child v
     | none => true) && leavesTypedEntries props t
end

def leavesTypedTop [DecidableEq σ] (s : Schema σ) : JO σ → Bool
  | .nil => true
  | .cons k v t =>
    (match s.findNested k with
     | some n => leavesTyped n v
     | none => true) && leavesTypedTop s t

/-- no nested field is called like the id field (then the id entry itself is validated as a
nested value and nothing can be added at all) -/
def idNotNested [DecidableEq σ] (s : Schema σ) : Bool :=
  (s.findNested s.idField).isNone && (s.findFlat s.idField).isNone

end SL.Doc
