import SLModel.Core.DocValidate
/-!
# Core/DocValidateLegacy — add-time validation as it was BEFORE the repairs 37df93e, 919e2f9,
6d0f8bf (kept so that the original defects stay documented by kernel-checked witnesses in
`Props/C15`; the driver runs it on request: `"legacy": true`).

(The add-time check between those repairs and 8c4f4e4 — no docstore cap — is `SL.Doc.validateDoc`
itself.)  Differences from `Core/DocValidate`: unknown top-level names were ignored; `NestedField::validate`
recursed into arrays inside arrays; a nested leaf property only had to be "string or array" resp.
"number or array" (`leafPropOk`: array elements and integrality were not looked at).
-/
namespace SL.Doc.Legacy
open SL.Doc

variable {σ : Type}

mutual
def nestedValid [DecidableEq σ] (n : Nested σ) : J σ → Bool
  | .null => n.nullable
  | .arr a => elemsValid n a
  | .obj kv => entriesValid n.props kv && requiredPresent kv n.props
  | _ => false
def elemsValid [DecidableEq σ] (n : Nested σ) : JL σ → Bool
  | .nil => true
  | .cons h t => nestedValid n h && elemsValid n t
def entriesValid [DecidableEq σ] (props : NProps σ) : JO σ → Bool
  | .nil => true
  | .cons k v t =>
    (match props.find k with
     | some (.leaf l) => leafPropOk l v
     | some (.object child) => if v.isNull then child.nullable else nestedValid child v
     | none => false) && entriesValid props t
end

def fieldsValid [DecidableEq σ] (s : Schema σ) : JO σ → Bool
  | .nil => true
  | .cons k v t =>
    (match s.findNested k with
     | some n => nestedValid n v
     | none =>
       match s.findFlat k with
       | some l => flatOk l v
       | none => true) && fieldsValid s t

def validateAdd [DecidableEq σ] (blank : σ → Bool) (s : Schema σ) : J σ → Bool
  | .obj kv => idOk blank s kv && fieldsValid s kv
  | _ => false

/-- commit re-validated with the same (legacy) rules -/
def collectOk [DecidableEq σ] (blank : σ → Bool) (size : J σ → Nat) (cap : Nat) (s : Schema σ)
    (d : J σ) : Bool :=
  validateAdd blank s d && collectDoc s d && decide (size (project s d) ≤ cap)

end SL.Doc.Legacy
