/-!
# Core/FastCol — the fast-field column builder shared by the documents of one commit
(`FastFieldsWriter::set`, `index/fastfields.rs`) — C15

Import-free, executable.  One column per field name holds the values of ALL documents of the
segment under construction; `write_segment_stream` calls `set(field, doc, value)` once per document
and field with `FastValue::X(v)` when the document has exactly one value and `FastValue::XList(vs)`
otherwise.  A column starts single-valued and is *promoted* to a list column by the first
multi-valued document; every arm that does not fit ends in `panic!("fast field type mismatch")`,
which fails the whole commit.  `ty` is the value type of the column (i64 / f64 / string columns
are separate Rust enum variants).

`set` mirrors the arms that exist; `setSeeded` is the variant of the seeded change C15-b (the arm
"single value into a list column" missing).
-/
namespace SL.FastCol

/-- value type of a column -/
inductive Ty | i64 | f64 | str
deriving DecidableEq, Repr

/-- `FastValue::X(v)` / `FastValue::XList(vs)` -/
inductive FV (α : Type) where
  | one (v : α)
  | many (vs : List α)

def FV.toList {α : Type} : FV α → List α
  | .one v => [v]
  | .many vs => vs

/-- `ColumnBuilder::X(Vec<Option<_>>)` / `ColumnBuilder::XList(Vec<Vec<_>>)` -/
inductive Col (α : Type) where
  | single (ty : Ty) (vals : List (Option α))
  | list (ty : Ty) (vals : List (List α))

def Col.ty {α : Type} : Col α → Ty
  | .single t _ => t
  | .list t _ => t

/-- `values.resize(idx + 1, d)` when too short, then `values[idx] = x` -/
def setAt {β : Type} (d : β) : List β → Nat → β → List β
  | [], 0, x => [x]
  | [], i + 1, x => d :: setAt d [] i x
  | _ :: t, 0, x => x :: t
  | h :: t, i + 1, x => h :: setAt d t i x

/-- the values a column holds for document `idx` -/
def Col.get {α : Type} : Col α → Nat → List α
  | .single _ vals, i => match vals.getD i none with | some v => [v] | none => []
  | .list _ vals, i => vals.getD i []

/-- `FastFieldsWriter::set` for a value of type `ty`; `none` = `panic!("fast field type mismatch")` -/
def set {α : Type} (ty : Ty) (col : Option (Col α)) (idx : Nat) (v : FV α) : Option (Col α) :=
  match col, v with
  | none, .one x => some (.single ty (setAt none [] idx (some x)))
  | none, .many xs => some (.list ty (setAt [] [] idx xs))
  | some (.single t vals), .one x =>
    if t = ty then some (.single t (setAt none vals idx (some x))) else none
  | some (.list t vals), .one x =>
    if t = ty then some (.list t (setAt [] vals idx [x])) else none
  | some (.list t vals), .many xs =>
    if t = ty then some (.list t (setAt [] vals idx xs)) else none
  | some (.single t vals), .many xs =>
    -- promotion: every present value becomes a one-element list
    if t = ty then
      some (.list t (setAt [] (vals.map (fun o => match o with | some x => [x] | none => [])) idx xs))
    else none

/-- the seeded variant: no arm for a single value arriving at a list column -/
def setSeeded {α : Type} (ty : Ty) (col : Option (Col α)) (idx : Nat) (v : FV α) : Option (Col α) :=
  match col, v with
  | some (.list _ _), .one _ => none
  | col, v => set ty col idx v

/-- the `set` calls of one commit for one field, in document order -/
def run {α : Type} (step : Ty → Option (Col α) → Nat → FV α → Option (Col α)) (ty : Ty) :
    Option (Col α) → List (Nat × FV α) → Option (Option (Col α))
  | col, [] => some col
  | col, (i, v) :: t =>
    match step ty col i v with
    | some c => run step ty (some c) t
    | none => none

end SL.FastCol
