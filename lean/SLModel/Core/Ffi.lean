/-!
# Core/Ffi — model of `searchlite_search`'s argument handling and bounded copy-out
(`searchlite-ffi/src/lib.rs`).  Import-free, executable.

The C entry point receives raw pointers.  What matters for C26 is (a) which argument
combinations lead to *no write at all* and a `0` return, and (b) the final copy:

```
let len = bytes.len().min(buf_cap.saturating_sub(1));
copy_nonoverlapping(bytes.as_ptr(), out, len);  *out.add(len) = 0;  len
```
-/
namespace SL.Ffi

/-- Abstract view of one call: which pointers are null and which fallible steps fail.
`resp` is the serialised response that *would* be produced (irrelevant when an earlier
step bails out). -/
structure Args where
  handleNull : Bool
  queryNull  : Bool
  readerErr  : Bool      -- `index.reader()` failed
  aggsBad    : Bool      -- aggs pointer non-null, `aggs_len > 0`, body is not valid JSON
  searchErr  : Bool      -- `reader.search` returned `Err`
  bufNull    : Bool
  cap        : Nat
deriving Repr, DecidableEq

/-- What the call did to the caller's buffer: the bytes written starting at offset 0
(empty = nothing written) and the return value. -/
structure Out where
  written : List UInt8
  ret     : Nat
deriving Repr, DecidableEq

/-- number of response bytes copied (before the NUL) -/
def copyLen (respLen cap : Nat) : Nat := min respLen (cap - 1)

/-- the copy-out step on its own (`cap > 0`, non-null buffer) -/
def copyOut (resp : List UInt8) (cap : Nat) : Out :=
  let n := copyLen resp.length cap
  { written := resp.take n ++ [0], ret := n }

/-- the whole decision ladder of `searchlite_search` -/
def search (a : Args) (resp : List UInt8) : Out :=
  if a.handleNull || a.queryNull then ⟨[], 0⟩
  else if a.readerErr then ⟨[], 0⟩
  else if a.aggsBad then ⟨[], 0⟩
  else if a.searchErr then ⟨[], 0⟩
  else if a.bufNull || a.cap == 0 then ⟨[], 0⟩
  else copyOut resp a.cap

/-- machine-word version of the length computation (`usize` = 64 bit):
`saturating_sub(1)` then `min`. -/
def copyLen64 (respLen cap : UInt64) : UInt64 :=
  let c1 := if cap = 0 then 0 else cap - 1
  if respLen ≤ c1 then respLen else c1

end SL.Ffi
