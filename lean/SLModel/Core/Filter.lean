import SLModel.Core.Doc
/-!
# Core/Filter — filter trees: documented semantics on the document tree, and the columnar
mechanism the code uses (C08)

Import-free apart from `Core/Doc`, executable, structural or fuel recursion only.  Polymorphic in
the atom type `σ` (field names and keyword values); `fold : σ → σ` is case folding.

* `Filter` is the repository's `Filter` enum; leaf clauses carry a *path* (a dotted name split at
  the dots), `Nested` a single name.
* `Spec.eval` — the documented semantics, on the JSON tree: a nested clause binds one object of the
  named child **of the object bound by the enclosing clause**; the nested clauses of one `And`
  that name the same child are evaluated together on one object (and so on recursively); keyword
  comparison is case-insensitive; ranges are inclusive and apply to fields of the matching numeric
  type only; any value of a multi-valued field can satisfy a clause; only `fast` fields can be
  filtered; `Or`/`Not` as written.  A `null` element of a nested array counts as an object
  without properties (it is counted and indexed like one by the code, see `Core/Doc`).
* `flatten` — what `collect_document`/`collect_nested`/`collect_nested_object`/`record_nested_*`
  (`index/segment.rs`, after the repair a2fc693) leave in the fast-field columns of one document,
  organised by the schema tree instead of by dotted path strings (the two are in bijection): the
  objects of a nested path are numbered across all parent objects in collection order; per path
  the total object count, the parent index of every object, and per fast leaf the value list of
  every object index.  The columns as they were before the repair are in `Core/FilterLegacy`.
* `Col.eval` — `passes_filters_at` / `nested_group_passes` / `nested_filter_passes` /
  `filter_matches` (`query/filters.rs`) over those columns, with `object_idx : Option Nat`.

Not modelled: the `_id` column, schemas whose field names collide, values outside the i64 range /
floats that are not short decimals (comparison is exact on decimals), text fields (never fast).
-/
namespace SL.Filter
open SL.Doc

variable {σ : Type}

/-! ## filters -/

/-- `m · 10^(-e)` ≤ `m' · 10^(-e')` -/
def numLe (a b : Int × Nat) : Bool := decide (a.1 * (10 : Int) ^ b.2 ≤ b.1 * (10 : Int) ^ a.2)

inductive Clause (σ : Type) where
  | kwEq (v : σ)
  | kwIn (vs : List σ)
  | i64Range (lo hi : Int)
  | f64Range (lo hi : Int × Nat)

/-- does one collected value of a field of kind `k` satisfy the clause?
(`case_insensitive_equals`, `v >= min && v <= max` on the column of the matching type) -/
def Clause.test [DecidableEq σ] (fold : σ → σ) (k : Kind) (c : Clause σ) (x : J σ) : Bool :=
  match c, x with
  | .kwEq v, .str s => k == .keyword && decide (fold s = fold v)
  | .kwIn vs, .str s => k == .keyword && vs.any (fun v => decide (fold s = fold v))
  | .i64Range lo hi, .num m e => k == .i64 && e == 0 && decide (lo ≤ m) && decide (m ≤ hi)
  | .f64Range lo hi, .num m e => k == .f64 && numLe lo (m, e) && numLe (m, e) hi
  | _, _ => false

inductive Filter (σ : Type) where
  | leaf (field : List σ) (c : Clause σ)
  | nested (path : σ) (f : Filter σ)
  | and (fs : List (Filter σ))
  | or (fs : List (Filter σ))
  | not (f : Filter σ)

def Filter.isNested : Filter σ → Bool
  | .nested _ _ => true
  | _ => false

/-- the paths of the `Nested` members of an `And` (keys of the grouping map) -/
def groupPaths [DecidableEq σ] : List (Filter σ) → List σ
  | [] => []
  | .nested p _ :: t => if (groupPaths t).contains p then groupPaths t else p :: groupPaths t
  | _ :: t => groupPaths t

/-- the inner filters of the `Nested` members with path `p` -/
def inners [DecidableEq σ] (p : σ) : List (Filter σ) → List (Filter σ)
  | [] => []
  | .nested q g :: t => if q = p then g :: inners p t else inners p t
  | _ :: t => inners p t

mutual
def Filter.size : Filter σ → Nat
  | .leaf _ _ => 1
  | .nested _ f => f.size + 1
  | .and fs => sizeList fs + 1
  | .or fs => sizeList fs + 1
  | .not f => f.size + 1
def sizeList : List (Filter σ) → Nat
  | [] => 0
  | f :: t => f.size + sizeList t
end

mutual
/-- every leaf clause names a single (undotted) field -/
def Filter.allPlain : Filter σ → Bool
  | .leaf p _ => p.length == 1
  | .nested _ g => g.allPlain
  | .and fs => allPlainList fs
  | .or fs => allPlainList fs
  | .not g => g.allPlain
def allPlainList : List (Filter σ) → Bool
  | [] => true
  | f :: t => f.allPlain && allPlainList t
end

/-! ## objects of a nested value -/

def elemObj : J σ → JO σ
  | .obj kv => kv
  | _ => .nil

/-- the objects a (non-null) nested value holds, by object index -/
def objsOf : J σ → List (JO σ)
  | .arr a => a.toList.map elemObj
  | .obj kv => [kv]
  | _ => []

/-- the top level seen as one object: flat fields first (as `collect_document` resolves names),
then the nested fields -/
def rootProps (s : Schema σ) : NProps σ :=
  s.flat.foldr (fun l acc => .cons (.leaf l) acc)
    (s.nested.foldr (fun n acc => .cons (.object n) acc) .nil)

/-! ## documented semantics on the tree -/

namespace Spec

/-- some value reachable from object `kv` along `path` satisfies the clause -/
def leafPasses [DecidableEq σ] (fold : σ → σ) (c : Clause σ) :
    NProps σ → JO σ → List σ → Bool
  | _, _, [] => false
  | props, kv, a :: rest =>
    match rest with
    | [] =>
      match props.find a with
      | some (.leaf l) =>
        l.fast && (collect l.kind ((kv.get a).getD .null)).any (c.test fold l.kind)
      | _ => false
    | _ :: _ =>
      match props.find a with
      | some (.object n) =>
        match kv.get a with
        | some v => (objsOf v).any (fun o => leafPasses fold c n.props o rest)
        | none => false
      | _ => false

/-- some object of child `r` of object `kv` satisfies `k` -/
def bind [DecidableEq σ] (props : NProps σ) (kv : JO σ) (r : σ)
    (k : NProps σ → JO σ → Bool) : Bool :=
  match props.find r with
  | some (.object n) =>
    match kv.get r with
    | some v => (objsOf v).any (k n.props)
    | none => false
  | _ => false

def eval [DecidableEq σ] (fold : σ → σ) : Nat → NProps σ → JO σ → Filter σ → Bool
  | 0, _, _, _ => false
  | _ + 1, props, kv, .leaf path c => leafPasses fold c props kv path
  | n + 1, props, kv, .nested r g => bind props kv r (fun p o => eval fold n p o g)
  | n + 1, props, kv, .and fs =>
    (fs.filter (fun f => !f.isNested)).all (eval fold n props kv) &&
    (groupPaths fs).all (fun r =>
      bind props kv r (fun p o => eval fold n p o (.and (inners r fs))))
  | n + 1, props, kv, .or fs => fs.any (eval fold n props kv)
  | n + 1, props, kv, .not g => !(eval fold n props kv g)

/-- a document (its top-level object) passes the filter -/
def passes [DecidableEq σ] (fold : σ → σ) (s : Schema σ) (kv : JO σ) (f : Filter σ) : Bool :=
  eval fold f.size (rootProps s) kv f

end Spec

/-! ## the columns of one document -/

mutual
inductive NCol (σ : Type) where
  | mk (count : Nat) (parents : List (Option Nat)) (entries : NEntries σ)
inductive NEntries (σ : Type) where
  | nil
  | cons (name : σ) (e : NEntry σ) (t : NEntries σ)
inductive NEntry (σ : Type) where
  /-- a fast leaf: values by object index -/
  | leaf (kind : Kind) (objs : List (List (J σ)))
  | child (c : NCol σ)
  /-- a leaf that is not fast: no column -/
  | skip
end

def NEntries.find [DecidableEq σ] : NEntries σ → σ → Option (NEntry σ)
  | .nil, _ => none
  | .cons k e t, x => if k = x then some e else t.find x

/-- one object of a nested path with the index of its parent object (in the numbering of the
parent path) -/
abbrev PObj (σ : Type) := Option Nat × JO σ

/-- the objects of child path `r`, in the order `collect_nested` meets them: for every object of
the parent path (indices from `i`), the objects of its value under `r` (none for a missing, null
or scalar value).  Their position in this list is their object index: since a2fc693 the objects of
a child path are numbered across all parents (`base = nested_counts[prefix]`,
`nested_counts[prefix] = base + n`, `nested_parents[prefix][base..base+n] = parent`). -/
def childObjsFrom [DecidableEq σ] (r : σ) : Nat → List (PObj σ) → List (PObj σ)
  | _, [] => []
  | i, po :: t =>
    (match po.2.get r with
     | some v => (objsOf v).map (fun o => (some i, o))
     | none => []) ++ childObjsFrom r (i + 1) t

/-- the columns below one nested path whose objects are `objs`: per fast leaf the value list of
every object index (`record_nested_*`), per child path the total object count, the parent index of
every child object, and the child's own columns -/
def flattenProps [DecidableEq σ] : NProps σ → List (PObj σ) → NEntries σ
  | .nil, _ => .nil
  | .cons (.leaf l) t, objs =>
    .cons l.name
      (if l.fast then
        .leaf l.kind (objs.map (fun po => collect l.kind ((po.2.get l.name).getD .null)))
       else .skip)
      (flattenProps t objs)
  | .cons (.object (.mk nm _ ps)) t, objs =>
    .cons nm
      (.child (.mk (childObjsFrom nm 0 objs).length ((childObjsFrom nm 0 objs).map (·.1))
        (flattenProps ps (childObjsFrom nm 0 objs))))
      (flattenProps t objs)

/-- the fast-field columns of one document; the top level is the single "object" of an
artificial root path (its count and parents are never read; the code stores "no parent" for the
objects of a top-level nested field, the model the root index 0 — never read either, because the
top level evaluates with `object_idx = None`) -/
def flatten [DecidableEq σ] (s : Schema σ) (kv : JO σ) : NEntries σ :=
  flattenProps (rootProps s) [(none, kv)]

/-! ## the code's evaluation over the columns -/

namespace Col

/-- a leaf clause: the column is found by the full dotted name, then indexed by the current
object index (`nested_*_values(full).get(idx)`), or — at the top level — any object
(`matches_*`) -/
def leafPasses [DecidableEq σ] (fold : σ → σ) (c : Clause σ) (idx : Option Nat) :
    NEntries σ → List σ → Bool
  | _, [] => false
  | es, a :: rest =>
    match rest with
    | [] =>
      match es.find a with
      | some (.leaf k objs) =>
        (match idx with
         | some i => (objs.getD i []).any (c.test fold k)
         | none => objs.any (fun vs => vs.any (c.test fold k)))
      | _ => false
    | _ :: _ =>
      match es.find a with
      | some (.child (.mk _ _ es')) => leafPasses fold c idx es' rest
      | _ => false

/-- `nested_filter_passes` / `nested_group_passes`: the loop over the objects of path `r` -/
def bind [DecidableEq σ] (es : NEntries σ) (idx : Option Nat) (r : σ)
    (k : NEntries σ → Nat → Bool) : Bool :=
  match es.find r with
  | some (.child (.mk count parents es')) =>
    (List.range count).any (fun j =>
      (match idx with
       | some p => parents.getD j none == some p
       | none => true) && k es' j)
  | _ => false

/-- `filter_matches` (`and` = `passes_filters_at`) -/
def eval [DecidableEq σ] (fold : σ → σ) : Nat → NEntries σ → Option Nat → Filter σ → Bool
  | 0, _, _, _ => false
  | _ + 1, es, idx, .leaf path c => leafPasses fold c idx es path
  | n + 1, es, idx, .nested r g => bind es idx r (fun es' j => eval fold n es' (some j) g)
  | n + 1, es, idx, .and fs =>
    (fs.filter (fun f => !f.isNested)).all (eval fold n es idx) &&
    (groupPaths fs).all (fun r =>
      bind es idx r (fun es' j => eval fold n es' (some j) (.and (inners r fs))))
  | n + 1, es, idx, .or fs => fs.any (eval fold n es idx)
  | n + 1, es, idx, .not g => !(eval fold n es idx g)

/-- `passes_filter(reader, doc, filter)` on the columns of that document -/
def passes [DecidableEq σ] (fold : σ → σ) (cols : NEntries σ) (f : Filter σ) : Bool :=
  eval fold f.size cols none f

end Col

end SL.Filter
