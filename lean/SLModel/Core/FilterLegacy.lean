import SLModel.Core.Filter
/-!
# Core/FilterLegacy — the fast-field columns as `collect_nested` wrote them BEFORE the repair
a2fc693 (kept so that the original defect `nested.child-index-collision` stays documented by a
kernel-checked witness in `Props/C08`; the driver evaluates it on request).

The child objects were numbered from 0 for every parent object: per nested path the object count
was the LAST invocation's (`nested_counts.insert`), the parent indices kept the last writer per
index, and the values of equal object indices were appended whatever parent they came from.  An
*invocation* is one call of `collect_nested` for a path: its parent object index and the
(non-null) value it was called with.  `singleCarrier` is the fragment on which these columns were
faithful (at most one parent object carrying a value per path).
-/
namespace SL.Filter.Legacy
open SL.Doc SL.Filter

variable {σ : Type}
/-- one call of `collect_nested`: parent object index, value -/
abbrev Inv (σ : Type) := Option Nat × J σ

/-- the calls of `collect_nested` for child `r` made while the objects `os` (indices from `b`)
are collected: one per object that has a non-null `r` -/
def carriersFrom [DecidableEq σ] (r : σ) : Nat → List (JO σ) → List (Inv σ)
  | _, [] => []
  | i, o :: t =>
    (match o.get r with
     | some v => if v.isNull then [] else [(some i, v)]
     | none => []) ++ carriersFrom r (i + 1) t

def childInvs [DecidableEq σ] (r : σ) (invs : List (Inv σ)) : List (Inv σ) :=
  invs.flatMap (fun inv => carriersFrom r 0 (objsOf inv.2))

/-- `nested_counts.insert(prefix, len)`: the last call wins -/
def lastCount (invs : List (Inv σ)) : Nat :=
  match invs.getLast? with
  | some inv => (objsOf inv.2).length
  | none => 0

def maxCount (invs : List (Inv σ)) : Nat :=
  invs.foldl (fun m inv => max m (objsOf inv.2).length) 0

/-- the `nested_parents` entry after one more call -/
def parentsStep (acc : Option (List (Option Nat))) (inv : Inv σ) : Option (List (Option Nat)) :=
  match inv.2 with
  | .arr a =>
    let len := a.toList.length
    match inv.1 with
    | some p =>
      let e := acc.getD (List.replicate len none)
      let e := e ++ List.replicate (len - e.length) none
      some (List.replicate len (some p) ++ e.drop len)
    | none => some (acc.getD (List.replicate len none))
  | .obj _ => some (acc.getD [inv.1])
  | _ => acc

def parentsOf (invs : List (Inv σ)) : List (Option Nat) :=
  (invs.foldl parentsStep none).getD []

/-- `record_nested_*`: the values recorded for leaf `l` at each object index -/
def leafObjs [DecidableEq σ] (l : Leaf σ) (invs : List (Inv σ)) : List (List (J σ)) :=
  (List.range (maxCount invs)).map (fun i =>
    invs.flatMap (fun inv =>
      match (objsOf inv.2)[i]? with
      | some o => collect l.kind ((o.get l.name).getD .null)
      | none => []))

/-- the columns below one nested path, given the calls of `collect_nested` for that path -/
def flattenProps [DecidableEq σ] : NProps σ → List (Inv σ) → NEntries σ
  | .nil, _ => .nil
  | .cons (.leaf l) t, invs =>
    .cons l.name (if l.fast then .leaf l.kind (leafObjs l invs) else .skip) (flattenProps t invs)
  | .cons (.object (.mk nm _ ps)) t, invs =>
    .cons nm
      (.child (.mk (lastCount (childInvs nm invs)) (parentsOf (childInvs nm invs))
        (flattenProps ps (childInvs nm invs))))
      (flattenProps t invs)

/-- the fast-field columns of one document; the top level is the single "object" of an
artificial root path (its count and parents are never read) -/
def flatten [DecidableEq σ] (s : Schema σ) (kv : JO σ) : NEntries σ :=
  flattenProps (rootProps s) [(none, .obj kv)]

/-! ## the fragment on which the columns are faithful -/

/-- every nested path has at most one parent object that carries a (non-null) value: then
`collect_nested` is called at most once per path -/
def singleProps [DecidableEq σ] : NProps σ → List (JO σ) → Bool
  | .nil, _ => true
  | .cons (.leaf _) t, os => singleProps t os
  | .cons (.object (.mk nm _ ps)) t, os =>
    (match carriersFrom nm 0 os with
     | [] => true
     | [inv] => singleProps ps (objsOf inv.2)
     | _ => false) && singleProps t os

def singleCarrier [DecidableEq σ] (s : Schema σ) (kv : JO σ) : Bool :=
  singleProps (rootProps s) [kv]

