/-!
# Core/Frontend — what the three front ends (CLI, HTTP service, C FFI) do in terms of the
Rust API (`searchlite-cli/src/main.rs`, `searchlite-http/src/lib.rs`, `searchlite-ffi/src/lib.rs`).
Import-free, executable.

Two parts.

1. **Request construction**: `cliRequest` mirrors `build_search_request_from_cli`
   (`parse_sort`, `parse_execution`, `fields` splitting, the hard-coded remaining fields),
   `ffiRequest` mirrors the struct literal in `searchlite_search`, `fill` mirrors serde's
   defaulting of a request JSON (`SearchRequestHelper`).
2. **Denotation**: `denote : FrontOp → List LibOp` — the library calls a front-end operation
   performs, in order — and a small contents semantics of those calls (`step`, `run`): the
   shared operation log, commit = fold of the log over the committed map, the failure mode of
   a writer session (`add_document` fails ⇒ the CLI stops, the FFI skips its commit; the HTTP
   handlers queue a request's documents as one unit with `IndexWriter::add_documents`, which
   validates them all first, so a rejected batch queues nothing and leaves earlier queued
   operations alone — 69e89dd.  `denoteLegacy` keeps the handlers before that commit, which
   added one by one and on a failure rolled the *whole* log back).

Text that is *parsed* (`--sort`, `--execution`, `--fields`) is a `List Char`; text that is
only passed on (query string, cursor, highlight field) is an opaque `String`.
-/
namespace SL.Frontend

abbrev Str := List Char

/-- Rust `char::is_whitespace` (Unicode `White_Space`), used by `str::trim` -/
def isWs (c : Char) : Bool :=
  let n := c.toNat
  (9 ≤ n && n ≤ 13) || n == 32 || n == 0x85 || n == 0xA0 || n == 0x1680 ||
  (0x2000 ≤ n && n ≤ 0x200A) || n == 0x2028 || n == 0x2029 || n == 0x202F || n == 0x205F ||
  n == 0x3000

def trimStart (s : Str) : Str := s.dropWhile isWs
def trimEnd (s : Str) : Str := (s.reverse.dropWhile isWs).reverse
/-- `str::trim` -/
def trim (s : Str) : Str := trimEnd (trimStart s)

/-- `str::split(sep)`: one more piece than separators -/
def splitOn (sep : Char) : Str → List Str
  | [] => [[]]
  | c :: cs =>
    if c == sep then [] :: splitOn sep cs
    else match splitOn sep cs with
      | [] => [[c]]
      | p :: ps => (c :: p) :: ps

/-- `str::splitn(2, sep)`: text before the first separator, and the rest if there is one -/
def splitFirst (sep : Char) : Str → Str × Option Str
  | [] => ([], none)
  | c :: cs =>
    if c == sep then ([], some cs)
    else ((c :: (splitFirst sep cs).1), (splitFirst sep cs).2)

/-- `str::to_ascii_lowercase` -/
def lower (s : Str) : Str := s.map Char.toLower

inductive Exec | bm25 | wand | bmw
deriving Repr, DecidableEq

/-- `parse_execution` -/
def parseExecution (v : Str) : Exec :=
  let l := lower v
  if l = ['b', 'm', '2', '5'] then .bm25
  else if l = ['b', 'm', 'w'] then .bmw
  else .wand

inductive Order | asc | desc
deriving Repr, DecidableEq

structure SortSpec where
  field : Str
  order : Option Order
deriving Repr, DecidableEq

/-- one non-empty, trimmed clause of `--sort` -/
def parseClause (t : Str) : Except Str SortSpec :=
  match splitFirst ':' t with
  | (field, none) => .ok ⟨field, none⟩
  | (field, some o) =>
    let l := lower o
    if l = ['a', 's', 'c'] then .ok ⟨field, some .asc⟩
    else if l = ['d', 'e', 's', 'c'] then .ok ⟨field, some .desc⟩
    else .error o

def parseClauses : List Str → Except Str (List SortSpec)
  | [] => .ok []
  | c :: cs =>
    let t := trim c
    if t = [] then parseClauses cs
    else match parseClause t with
      | .error e => .error e
      | .ok s =>
        match parseClauses cs with
        | .error e => .error e
        | .ok r => .ok (s :: r)

/-- `parse_sort` (the error carries the offending order text) -/
def parseSort : Option Str → Except Str (List SortSpec)
  | none => .ok []
  | some raw => parseClauses (splitOn ',' raw)

/-- `fields.map(|f| f.split(',').map(|s| s.trim().to_string()).collect())` -/
def parseFields (f : Option Str) : Option (List Str) :=
  f.map fun s => (splitOn ',' s).map trim

/-- the `query` member: legacy string or structured node (opaque) -/
inductive Query (ν : Type)
  | str (s : String)
  | node (n : ν)
deriving Repr, DecidableEq

/-- `SearchRequest` (without the `vectors` feature); `J` = opaque JSON subtrees -/
structure Request (ν J : Type) where
  query : Query ν
  fields : Option (List Str)
  filter : Option J
  limit : Nat
  returnHits : Bool
  candidateSize : Option Nat
  sort : List SortSpec
  cursor : Option String
  execution : Exec
  bmwBlockSize : Option Nat
  fuzzy : Option J
  returnStored : Bool
  highlightField : Option String
  highlight : Option J
  collapse : Option J
  aggs : List (String × J)
  suggest : List (String × J)
  rescore : Option J
  explain : Bool
  profile : Bool
deriving Repr, DecidableEq

/-- a request as written in JSON: three required members, the rest optional -/
structure Partial (ν J : Type) where
  query : Query ν
  limit : Nat
  returnStored : Bool
  fields : Option (List Str) := none
  filter : Option J := none
  returnHits : Option Bool := none
  candidateSize : Option Nat := none
  sort : Option (List SortSpec) := none
  cursor : Option String := none
  execution : Option Exec := none
  bmwBlockSize : Option Nat := none
  fuzzy : Option J := none
  highlightField : Option String := none
  highlight : Option J := none
  collapse : Option J := none
  aggs : Option (List (String × J)) := none
  suggest : Option (List (String × J)) := none
  rescore : Option J := none
  explain : Option Bool := none
  profile : Option Bool := none

/-- serde's defaults (`SearchRequestHelper`): what `IndexReader::search` receives for a
JSON request — the *library request with the stated defaults* -/
def fill {ν J : Type} (p : Partial ν J) : Request ν J :=
  { query := p.query, fields := p.fields, filter := p.filter, limit := p.limit,
    returnHits := p.returnHits.getD true, candidateSize := p.candidateSize,
    sort := p.sort.getD [], cursor := p.cursor, execution := p.execution.getD .wand,
    bmwBlockSize := p.bmwBlockSize, fuzzy := p.fuzzy, returnStored := p.returnStored,
    highlightField := p.highlightField, highlight := p.highlight, collapse := p.collapse,
    aggs := p.aggs.getD [], suggest := p.suggest.getD [], rescore := p.rescore,
    explain := p.explain.getD false, profile := p.profile.getD false }

/-- `--aggs` / `--aggs-file` after `load_aggs`, resp. the FFI's `aggs_json` argument -/
inductive AggsArg (J : Type)
  | absent                          -- not given (FFI: null pointer or `aggs_len == 0`)
  | blank                           -- CLI only: the text is empty after trimming
  | parsed (m : List (String × J))
  | invalid                         -- not a JSON map of aggregations
deriving Repr, DecidableEq

def AggsArg.map? {J : Type} : AggsArg J → Option (List (String × J))
  | .absent => some []
  | .blank => some []
  | .parsed m => some m
  | .invalid => none

/-- the `search` sub-command's flags, with clap's defaults -/
structure CliArgs (J : Type) where
  query : Option String := none
  limit : Nat := 10
  execution : Str := ['w', 'a', 'n', 'd']
  bmwBlockSize : Option Nat := none
  fields : Option Str := none
  returnStored : Bool := false
  highlight : Option String := none
  cursor : Option String := none
  returnHits : Bool := true
  sort : Option Str := none
  aggs : AggsArg J := .absent

inductive CliErr
  | queryRequired | limitZero | badSortOrder (o : Str) | badAggs
deriving Repr, DecidableEq

/-- `build_search_request_from_cli` (feature `vectors` off), checks in the code's order -/
def cliRequest {ν J : Type} (a : CliArgs J) : Except CliErr (Request ν J) :=
  match a.query with
  | none => .error .queryRequired
  | some q =>
    if a.limit = 0 then .error .limitZero
    else match parseSort a.sort with
      | .error o => .error (.badSortOrder o)
      | .ok sort =>
        match a.aggs.map? with
        | none => .error .badAggs
        | some aggs =>
          .ok { query := .str q, fields := parseFields a.fields, filter := none, limit := a.limit,
                returnHits := a.returnHits, candidateSize := none, sort := sort,
                execution := parseExecution a.execution, bmwBlockSize := a.bmwBlockSize,
                fuzzy := none, returnStored := a.returnStored, highlightField := a.highlight,
                highlight := none, collapse := none, cursor := a.cursor, aggs := aggs,
                suggest := [], rescore := none, explain := false, profile := false }

/-- `searchlite_search`'s request: `parseNode` stands for
`serde_json::from_str::<QueryNode>(query)`; `none` = the aggregation JSON does not parse
(the function returns 0) -/
def ffiRequest {ν J : Type} (parseNode : String → Option ν) (query : String) (limit : Nat)
    (cursor : Option String) (aggs : AggsArg J) : Option (Request ν J) :=
  match aggs.map? with
  | none => none
  | some m =>
    some { query := (match parseNode query with | some n => .node n | none => .str query),
           fields := none, filter := none, limit := limit, returnHits := true,
           candidateSize := none, sort := [], execution := .wand, bmwBlockSize := none,
           fuzzy := none, returnStored := true, highlightField := none, highlight := none,
           collapse := none, cursor := cursor, aggs := m, suggest := [], rescore := none,
           explain := false, profile := false }

/-! ## Denotation of front-end operations

`κ` = document ids, `δ` = documents (both opaque; the driver uses `String` and JSON, the
witnesses use `Nat`). -/

/-- library calls (those that matter for contents) -/
inductive LibOp (κ δ : Type)
  | createIdx                    -- `IndexBuilder::create(path, schema, opts)`
  | openIdx (create : Bool)      -- `Index::open(opts)` with `create_if_missing`
  | newWriter                    -- `index.writer()`
  | add (d : δ)                  -- `writer.add_document(&d)`
  | addBatch (docs : List δ)     -- `writer.add_documents(&docs)`: all or nothing
  | delete (ids : List κ)        -- `writer.delete_documents(&ids)`
  | commit                       -- `writer.commit()`
  | rollbackIfFailed             -- `writer.rollback()` in the `Err` branch of an add (legacy HTTP)
  | dropWriter
  | compact                      -- `index.compact()`
  | refresh                      -- `index.reader()` (result dropped)
deriving Repr, DecidableEq

inductive FrontOp (κ δ : Type)
  | cliInit | cliAdd (docs : List δ) | cliUpdate (docs : List δ) | cliDelete (ids : List κ)
  | cliCommit | cliCompact
  | httpInit | httpAdd (docs : List δ) | httpBulk (docs : List δ) | httpDelete (ids : List κ)
  | httpCommit (refresh : Bool) | httpCompact | httpRefresh
  | ffiOpen | ffiAdd (d : δ) | ffiCommit
deriving Repr, DecidableEq

/-- the library calls each front-end operation makes, in order.  Every CLI command is its
own process: it opens the index and a writer, and drops them at exit; the HTTP service keeps
the index and takes a fresh writer per request; `searchlite_add_json` commits by itself. -/
def denote {κ δ : Type} : FrontOp κ δ → List (LibOp κ δ)
  | .cliInit => [.createIdx]
  | .cliAdd docs => [.openIdx false, .newWriter] ++ docs.map .add ++ [.dropWriter]
  | .cliUpdate docs => [.openIdx false, .newWriter] ++ docs.map .add ++ [.dropWriter]
  | .cliDelete ids => [.openIdx false, .newWriter, .delete ids, .dropWriter]
  | .cliCommit => [.openIdx false, .newWriter, .commit, .dropWriter]
  | .cliCompact => [.openIdx false, .compact]
  | .httpInit => [.createIdx]
  | .httpAdd docs => if docs.isEmpty then [] else [.newWriter, .addBatch docs, .dropWriter]
  | .httpBulk docs => [.newWriter, .addBatch docs, .dropWriter]
  | .httpDelete ids => [.newWriter, .delete ids, .dropWriter]
  | .httpCommit refresh => [.newWriter, .commit] ++ (if refresh then [.refresh] else []) ++ [.dropWriter]
  | .httpCompact => [.compact]
  | .httpRefresh => [.refresh]
  | .ffiOpen => [.openIdx true]
  | .ffiAdd d => [.newWriter, .add d, .commit, .dropWriter]
  | .ffiCommit => [.newWriter, .commit, .dropWriter]

/-- the front ends before 69e89dd: HTTP `/add` and `/bulk` added document by document and
called `writer.rollback()` (which truncates the whole log) when one was rejected -/
def denoteLegacy {κ δ : Type} : FrontOp κ δ → List (LibOp κ δ)
  | .httpAdd docs =>
    if docs.isEmpty then [] else [.newWriter] ++ docs.map .add ++ [.rollbackIfFailed, .dropWriter]
  | .httpBulk docs => [.newWriter] ++ docs.map .add ++ [.rollbackIfFailed, .dropWriter]
  | op => denote op

/-- one entry of the shared operation log -/
inductive LogOp (κ δ : Type)
  | put (id : κ) (d : δ)
  | del (id : κ)
deriving Repr, DecidableEq

/-- contents state: committed map (association list, first binding wins), pending log
(oldest first), and whether the current writer session has hit a failing `add_document` -/
structure St (κ δ : Type) where
  committed : List (κ × δ)
  log : List (LogOp κ δ)
  failed : Bool
deriving Repr, DecidableEq

section contents
variable {κ δ : Type} [DecidableEq κ]

def erase (id : κ) (m : List (κ × δ)) : List (κ × δ) :=
  m.filter (fun kv => kv.1 ≠ id)

def applyOp (m : List (κ × δ)) : LogOp κ δ → List (κ × δ)
  | .put id d => (id, d) :: erase id m
  | .del id => erase id m

/-- `commit`: the log folded, in order, over the committed map -/
def applyLog (log : List (LogOp κ δ)) (m : List (κ × δ)) : List (κ × δ) :=
  log.foldl applyOp m

def lookup (m : List (κ × δ)) (id : κ) : Option δ :=
  (m.find? (fun kv => kv.1 = id)).map (·.2)

/-- contents semantics of one library call; `idOf d = none` ⇔ `add_document` rejects `d`.
After a failed add the session's remaining adds/deletes/commit are not executed (the caller
has returned), only `rollbackIfFailed` and `dropWriter` are. -/
def step (idOf : δ → Option κ) (s : St κ δ) : LibOp κ δ → St κ δ
  | .createIdx => s
  | .openIdx _ => s
  | .newWriter => { s with failed := false }
  | .add d =>
    if s.failed then s
    else match idOf d with
      | none => { s with failed := true }
      | some id => { s with log := s.log ++ [.put id d] }
  | .addBatch docs =>
    if s.failed then s
    else if docs.all (fun d => (idOf d).isSome) then
      { s with log := s.log ++ docs.filterMap (fun d => (idOf d).map (fun id => .put id d)) }
    else { s with failed := true }
  | .delete ids => if s.failed then s else { s with log := s.log ++ ids.map .del }
  | .commit => if s.failed then s else { s with committed := applyLog s.log s.committed, log := [] }
  | .rollbackIfFailed => if s.failed then { s with log := [] } else s
  | .dropWriter => { s with failed := false }
  | .compact => s
  | .refresh => s

def run (idOf : δ → Option κ) (s : St κ δ) (ops : List (LibOp κ δ)) : St κ δ :=
  ops.foldl (step idOf) s

/-- a whole front-end script -/
def runFront (idOf : δ → Option κ) (s : St κ δ) (script : List (FrontOp κ δ)) : St κ δ :=
  script.foldl (fun s op => run idOf s (denote op)) s

end contents

end SL.Frontend
