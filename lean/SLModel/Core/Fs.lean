namespace SL.Fs
abbrev Name := String
abbrev InodeId := Nat
structure Piece where
  chunk : Nat
  kept  : Nat
  total : Nat
deriving DecidableEq, Repr
abbrev Content := List Piece
def Piece.full (c n : Nat) : Piece := ⟨c, n, n⟩
inductive DataOp where
  | write (p : Piece)
  | setLen (n : Nat)
deriving DecidableEq, Repr
def cut : Content → Nat → Content
  | [], _ => []
  | p :: ps, n =>
    if n = 0 then [] else
    if p.kept ≤ n then p :: cut ps (n - p.kept) else [{ p with kept := n }]
def applyOp (c : Content) : DataOp → Content
  | .write p => c ++ [p]
  | .setLen n => cut c n
structure Inode where
  durable : Content
  pending : List DataOp
deriving Repr
structure Fs where
  inodes : List Inode
  dir    : List (Name × List (Option InodeId))
deriving Repr
def Fs.hist (fs : Fs) (n : Name) : List (Option InodeId) :=
  match fs.dir.lookup n with
  | some h => h
  | none => [none]
def Fs.inode (fs : Fs) (i : InodeId) : Inode := fs.inodes.getD i ⟨[], []⟩
def InodeCrash (ino : Inode) (c : Content) : Prop :=
  ∃ j, j ≤ ino.pending.length ∧
    (c = (ino.pending.take j).foldl applyOp ino.durable ∨
     ∃ p k, ino.pending[j]? = some (.write p) ∧ k < p.total ∧
       c = (ino.pending.take j).foldl applyOp ino.durable ++ [{ p with kept := k }])
abbrev Image := Name → Option Content
def CrashImage (fs : Fs) (img : Image) : Prop :=
  ∀ n, ∃ v, v ∈ fs.hist n ∧
    match v with
    | none => img n = none
    | some i => ∃ c, InodeCrash (fs.inode i) c ∧ img n = some c
structure Manifest where
  chunk : Nat
  size  : Nat
  files : List (Name × Content)
  contents : Nat
deriving DecidableEq, Repr
def recover (reg : Nat → Option Manifest) (img : Image) : Option Nat :=
  match img "MANIFEST" with
  | some [p] =>
    if p.kept = p.total then
      match reg p.chunk with
      | some m => if m.files.all (fun nc => decide (img nc.1 = some nc.2)) then some m.contents else none
      | none => none
    else none
  | _ => none
def settledFile (fs : Fs) (n : Name) (c : Content) : Prop :=
  ∃ j, fs.hist n = [some j] ∧ (fs.inode j).durable = c ∧ (fs.inode j).pending = []
def manifestOk (fs : Fs) (allowed : List Manifest) : Option InodeId → Prop
  | none => False
  | some i => (fs.inode i).pending = [] ∧
      ∃ m, m ∈ allowed ∧ (fs.inode i).durable = [Piece.full m.chunk m.size] ∧
        ∀ nc ∈ m.files, settledFile fs nc.1 nc.2
def PublishInv (fs : Fs) (allowed : List Manifest) : Prop :=
  ∀ v ∈ fs.hist "MANIFEST", manifestOk fs allowed v

theorem inodeCrash_of_no_pending {ino : Inode} {c : Content} (h : ino.pending = [])
    (hc : InodeCrash ino c) : c = ino.durable := by
  obtain ⟨j, hj, hc⟩ := hc
  rw [h] at hj hc
  have : j = 0 := by simpa using hj
  subst this
  rcases hc with hc | ⟨p, k, hp, _, _⟩
  · simpa using hc
  · simp at hp

theorem image_of_settled {fs : Fs} {img : Image} {n : Name} {c : Content}
    (hs : settledFile fs n c) (hi : CrashImage fs img) : img n = some c := by
  obtain ⟨j, hh, hd, hp⟩ := hs
  obtain ⟨v, hv, hm⟩ := hi n
  rw [hh] at hv
  have : v = some j := by simpa using hv
  subst this
  obtain ⟨c', hc', himg⟩ := hm
  have := inodeCrash_of_no_pending hp hc'
  rw [himg, this, hd]

theorem inv_crash_atomic {fs : Fs} {allowed : List Manifest} {reg : Nat → Option Manifest}
    {img : Image}
    (hreg : ∀ m ∈ allowed, reg m.chunk = some m)
    (hinv : PublishInv fs allowed) (hi : CrashImage fs img) :
    ∃ m ∈ allowed, recover reg img = some m.contents := by
  obtain ⟨v, hv, hm⟩ := hi "MANIFEST"
  have hok := hinv v hv
  cases v with
  | none => exact absurd hok (by simp [manifestOk])
  | some i =>
    obtain ⟨hp, m, hmem, hd, hfiles⟩ := hok
    obtain ⟨c, hc, himg⟩ := hm
    have hc' := inodeCrash_of_no_pending hp hc
    refine ⟨m, hmem, ?_⟩
    have hall : m.files.all (fun nc => decide (img nc.1 = some nc.2)) = true := by
      rw [List.all_eq_true]
      intro nc hnc
      simp only [decide_eq_true_eq]
      exact image_of_settled (hfiles nc hnc) hi
    unfold recover
    rw [himg, hc', hd]
    simp [Piece.full, hreg m hmem, hall]
end SL.Fs

/-!
## Executable part: storage operations, decidable monitors, crash-image enumeration
-/
namespace SL.Fs

/-- one primitive of the storage layer, as recorded by hook H1 (file operations are resolved
through the *current* directory entry of the name, as the code re-opens files by path) -/
inductive FsOp where
  | create (n : Name)                 -- `File::create`: new inode, or truncate the existing one
  | write (n : Name) (p : Piece)
  | setLen (n : Name) (len : Nat)
  | fsync (n : Name)
  | rename (a b : Name)
  | unlink (n : Name)
  | fsyncDir
deriving DecidableEq, Repr

def Fs.cur (fs : Fs) (n : Name) : Option InodeId := ((fs.hist n).getLast?).join

def Fs.setHist (fs : Fs) (n : Name) (h : List (Option InodeId)) : Fs :=
  if fs.dir.any (fun e => e.1 == n) then
    { fs with dir := fs.dir.map fun e => if e.1 == n then (n, h) else e }
  else { fs with dir := fs.dir ++ [(n, h)] }

def Fs.modInode (fs : Fs) (i : InodeId) (f : Inode → Inode) : Fs :=
  { fs with inodes := fs.inodes.zipIdx.map fun (ino, k) => if k == i then f ino else ino }

def applyAll (c : Content) (ops : List DataOp) : Content := ops.foldl applyOp c

def run (fs : Fs) : FsOp → Fs
  | .create n =>
    match fs.cur n with
    | some i => fs.modInode i fun ino => { ino with pending := ino.pending ++ [.setLen 0] }
    | none =>
      let i := fs.inodes.length
      ({ fs with inodes := fs.inodes ++ [({ durable := [], pending := [] } : Inode)] }).setHist n (fs.hist n ++ [some i])
  | .write n p =>
    match fs.cur n with
    | some i => fs.modInode i fun ino => { ino with pending := ino.pending ++ [.write p] }
    | none => fs
  | .setLen n len =>
    match fs.cur n with
    | some i => fs.modInode i fun ino => { ino with pending := ino.pending ++ [.setLen len] }
    | none => fs
  | .fsync n =>
    match fs.cur n with
    | some i => fs.modInode i fun ino => { durable := applyAll ino.durable ino.pending, pending := [] }
    | none => fs
  | .rename a b =>
    match fs.cur a with
    | some i => (fs.setHist b (fs.hist b ++ [some i])).setHist a (fs.hist a ++ [none])
    | none => fs
  | .unlink n => fs.setHist n (fs.hist n ++ [none])
  | .fsyncDir => { fs with dir := fs.dir.map fun e => (e.1, [(e.2.getLast?).join]) }

def runAll (fs : Fs) (ops : List FsOp) : Fs := ops.foldl run fs

def Fs.empty : Fs := ⟨[], []⟩

/-! ### decidable monitors -/

def settledFileB (fs : Fs) (n : Name) (c : Content) : Bool :=
  match fs.hist n with
  | [some j] => decide ((fs.inode j).durable = c) && (fs.inode j).pending.isEmpty
  | _ => false

def manifestOkB (fs : Fs) (allowed : List Manifest) : Option InodeId → Bool
  | none => false
  | some i =>
    (fs.inode i).pending.isEmpty &&
      allowed.any fun m =>
        decide ((fs.inode i).durable = [Piece.full m.chunk m.size]) &&
          m.files.all fun nc => settledFileB fs nc.1 nc.2

/-- the publication invariant, executable: evaluated by the driver on every prefix state of a
storage trace recorded from the real code -/
def publishInvB (fs : Fs) (allowed : List Manifest) : Bool :=
  (fs.hist "MANIFEST").all (manifestOkB fs allowed)

/-- between calls: the manifest entry itself is durable and is the manifest `m` -/
def settledB (fs : Fs) (m : Manifest) : Bool :=
  (fs.hist "MANIFEST").length == 1 && publishInvB fs [m]

theorem settledFileB_sound {fs : Fs} {n : Name} {c : Content} (h : settledFileB fs n c = true) :
    settledFile fs n c := by
  unfold settledFileB at h
  split at h
  · rename_i j hj
    simp only [Bool.and_eq_true, decide_eq_true_eq, List.isEmpty_iff] at h
    exact ⟨j, hj, h.1, h.2⟩
  · simp at h

theorem manifestOkB_sound {fs : Fs} {allowed : List Manifest} {v : Option InodeId}
    (h : manifestOkB fs allowed v = true) : manifestOk fs allowed v := by
  cases v with
  | none => simp [manifestOkB] at h
  | some i =>
    simp only [manifestOkB, Bool.and_eq_true, List.isEmpty_iff, List.any_eq_true,
      decide_eq_true_eq, List.all_eq_true] at h
    obtain ⟨hp, m, hm, hd, hf⟩ := h
    exact ⟨hp, m, hm, hd, fun nc hnc => settledFileB_sound (hf nc hnc)⟩

theorem publishInvB_sound {fs : Fs} {allowed : List Manifest} (h : publishInvB fs allowed = true) :
    PublishInv fs allowed := by
  unfold publishInvB at h
  rw [List.all_eq_true] at h
  exact fun v hv => manifestOkB_sound (h v hv)

/-! ### enumeration of crash images (to drive the real code) -/

/-- contents an inode may have after a crash: durable, then each prefix of the pending
operations; a pending write may additionally be torn at the byte offsets listed by `tears` -/
def inodeCrashes (tears : Nat → List Nat) (ino : Inode) : List Content :=
  (List.range (ino.pending.length + 1)).flatMap fun j =>
    let base := applyAll ino.durable (ino.pending.take j)
    base ::
      (match ino.pending[j]? with
       | some (.write p) => ((tears p.total).filter (· < p.total)).map fun k => base ++ [{ p with kept := k }]
       | _ => [])

theorem mem_inodeCrashes_sound (tears : Nat → List Nat) (ino : Inode) (c : Content)
    (h : c ∈ inodeCrashes tears ino) : InodeCrash ino c := by
  simp only [inodeCrashes, List.mem_flatMap, List.mem_range] at h
  obtain ⟨j, hj, hc⟩ := h
  refine ⟨j, by omega, ?_⟩
  rcases List.mem_cons.mp hc with rfl | hc
  · exact Or.inl rfl
  · right
    cases hp : ino.pending[j]? with
    | none => simp [hp] at hc
    | some op =>
      cases op with
      | setLen n => simp [hp] at hc
      | write p =>
        simp only [hp, List.mem_map, List.mem_filter, decide_eq_true_eq] at hc
        obtain ⟨k, ⟨_, hk⟩, rfl⟩ := hc
        exact ⟨p, k, rfl, hk, rfl⟩

end SL.Fs
