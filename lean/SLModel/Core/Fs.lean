namespace SL.Fs
abbrev Name := String
abbrev InodeId := Nat
structure Piece where
  chunk : Nat
  kept  : Nat
  total : Nat
deriving DecidableEq, Repr
abbrev Content := List Piece
def Piece.full (c n : Nat) : Piece := ⟨c, n, n⟩
inductive DataOp where
  | write (p : Piece)
  | setLen (n : Nat)
deriving DecidableEq, Repr
def cut : Content → Nat → Content
  | [], _ => []
  | p :: ps, n =>
    if n = 0 then [] else
    if p.kept ≤ n then p :: cut ps (n - p.kept) else [{ p with kept := n }]
def applyOp (c : Content) : DataOp → Content
  | .write p => c ++ [p]
  | .setLen n => cut c n
structure Inode where
  durable : Content
  pending : List DataOp
deriving Repr
structure Fs where
  inodes : List Inode
  dir    : List (Name × List (Option InodeId))
deriving Repr
def Fs.hist (fs : Fs) (n : Name) : List (Option InodeId) :=
  match fs.dir.lookup n with
  | some h => h
  | none => [none]
def Fs.inode (fs : Fs) (i : InodeId) : Inode := fs.inodes.getD i ⟨[], []⟩
def InodeCrash (ino : Inode) (c : Content) : Prop :=
  ∃ j, j ≤ ino.pending.length ∧
    (c = (ino.pending.take j).foldl applyOp ino.durable ∨
     ∃ p k, ino.pending[j]? = some (.write p) ∧ k < p.total ∧
       c = (ino.pending.take j).foldl applyOp ino.durable ++ [{ p with kept := k }])
abbrev Image := Name → Option Content
def CrashImage (fs : Fs) (img : Image) : Prop :=
  ∀ n, ∃ v, v ∈ fs.hist n ∧
    match v with
    | none => img n = none
    | some i => ∃ c, InodeCrash (fs.inode i) c ∧ img n = some c
structure Manifest where
  chunk : Nat
  size  : Nat
  files : List (Name × Content)
  contents : Nat
deriving DecidableEq, Repr
def recover (reg : Nat → Option Manifest) (img : Image) : Option Nat :=
  match img "MANIFEST" with
  | some [p] =>
    if p.kept = p.total then
      match reg p.chunk with
      | some m => if m.files.all (fun nc => decide (img nc.1 = some nc.2)) then some m.contents else none
      | none => none
    else none
  | _ => none
def settledFile (fs : Fs) (n : Name) (c : Content) : Prop :=
  ∃ j, fs.hist n = [some j] ∧ (fs.inode j).durable = c ∧ (fs.inode j).pending = []
def manifestOk (fs : Fs) (allowed : List Manifest) : Option InodeId → Prop
  | none => False
  | some i => (fs.inode i).pending = [] ∧
      ∃ m, m ∈ allowed ∧ (fs.inode i).durable = [Piece.full m.chunk m.size] ∧
        ∀ nc ∈ m.files, settledFile fs nc.1 nc.2
def PublishInv (fs : Fs) (allowed : List Manifest) : Prop :=
  ∀ v ∈ fs.hist "MANIFEST", manifestOk fs allowed v

theorem inodeCrash_of_no_pending {ino : Inode} {c : Content} (h : ino.pending = [])
    (hc : InodeCrash ino c) : c = ino.durable := by
  obtain ⟨j, hj, hc⟩ := hc
  rw [h] at hj hc
  have : j = 0 := by simpa using hj
  subst this
  rcases hc with hc | ⟨p, k, hp, _, _⟩
  · simpa using hc
  · simp at hp

theorem image_of_settled {fs : Fs} {img : Image} {n : Name} {c : Content}
    (hs : settledFile fs n c) (hi : CrashImage fs img) : img n = some c := by
  obtain ⟨j, hh, hd, hp⟩ := hs
  obtain ⟨v, hv, hm⟩ := hi n
  rw [hh] at hv
  have : v = some j := by simpa using hv
  subst this
  obtain ⟨c', hc', himg⟩ := hm
  have := inodeCrash_of_no_pending hp hc'
  rw [himg, this, hd]

theorem inv_crash_atomic {fs : Fs} {allowed : List Manifest} {reg : Nat → Option Manifest}
    {img : Image}
    (hreg : ∀ m ∈ allowed, reg m.chunk = some m)
    (hinv : PublishInv fs allowed) (hi : CrashImage fs img) :
    ∃ m ∈ allowed, recover reg img = some m.contents := by
  obtain ⟨v, hv, hm⟩ := hi "MANIFEST"
  have hok := hinv v hv
  cases v with
  | none => exact absurd hok (by simp [manifestOk])
  | some i =>
    obtain ⟨hp, m, hmem, hd, hfiles⟩ := hok
    obtain ⟨c, hc, himg⟩ := hm
    have hc' := inodeCrash_of_no_pending hp hc
    refine ⟨m, hmem, ?_⟩
    have hall : m.files.all (fun nc => decide (img nc.1 = some nc.2)) = true := by
      rw [List.all_eq_true]
      intro nc hnc
      simp only [decide_eq_true_eq]
      exact image_of_settled (hfiles nc hnc) hi
    unfold recover
    rw [himg, hc', hd]
    simp [Piece.full, hreg m hmem, hall]
end SL.Fs
