/-!
# Core/Handles — abstract contents state shared by several writer handles

Import-free, executable.  This is the state `σ` the lock model of C05 runs over and the
"committed state" C06's readers are compared with.  It mirrors what the code in
`searchlite-core/src/api/writer.rs` does at the level the properties speak about:

* `committed` — id ↦ stored version of the live documents (what a fresh reader sees);
* `wal` — the shared log `wal.log`: every `add_document`/`delete_documents` of *any* handle
  appends to it, `commit` (marker + `truncate`) and `rollback` (`truncate`) of *any* handle
  empty it;
* `queues[h]` — `IndexWriter.pending_ops` of handle `h`: initialised by `IndexWriter::new`
  from the uncommitted log records (`Wal::last_pending_ops`), extended by the handle's own
  operations, folded into `committed` by `commit` (last add per id wins, delete removes),
  cleared by `commit`/`rollback`;
* `snaps[h]` — the manifest snapshot a handle takes at the start of `commit` and publishes
  from (this is what makes an unlocked interleaving lose updates);
* `results` — the result of every call in execution order (`add_document` returns the number
  of queued adds minus one; an invalid document is rejected before anything is logged).

Segments, tombstones and the cached live map are *not* modelled here (C04's mechanism model);
`Index::compact` does not change any component of this state.
-/
namespace SL.Handles

inductive Op (ι δ : Type) where
  | add (id : ι) (doc : δ)
  | del (id : ι)
deriving DecidableEq, Repr

abbrev Map (ι δ : Type) := List (ι × δ)

section
variable {ι δ : Type} [DecidableEq ι]

def erase (m : Map ι δ) (id : ι) : Map ι δ := m.filter (fun p => !(p.1 == id))

def lookup (m : Map ι δ) (id : ι) : Option δ :=
  match m with
  | [] => none
  | p :: r => if p.1 == id then some p.2 else lookup r id

def upsert (m : Map ι δ) (id : ι) (d : δ) : Map ι δ := (id, d) :: erase m id

def applyOp (m : Map ι δ) : Op ι δ → Map ι δ
  | .add id d => upsert m id d
  | .del id => erase m id

def applyOps (m : Map ι δ) (ops : List (Op ι δ)) : Map ι δ := ops.foldl applyOp m

/-- the last operation on `id` in a queue -/
def lastOp (id : ι) : List (Op ι δ) → Option (Op ι δ)
  | [] => none
  | op :: r =>
    match lastOp id r with
    | some o => some o
    | none =>
      match op with
      | .add i d => if i == id then some (.add i d) else none
      | .del i => if i == id then some (.del i) else none

def isAdd : Op ι δ → Bool
  | .add _ _ => true
  | .del _ => false

end

inductive Res where
  | ok
  | count (n : Nat)
  | err
deriving DecidableEq, Repr

inductive Call (ι δ : Type) where
  | new (h : Nat)
  | add (h : Nat) (valid : Bool) (id : ι) (doc : δ)
  | delete (h : Nat) (ids : List ι)
  | commit (h : Nat)
  | rollback (h : Nat)
  | compact
deriving Repr

structure St (ι δ : Type) where
  committed : Map ι δ
  wal       : List (Op ι δ)
  queues    : List (List (Op ι δ))
  results   : List Res
  /-- `manifest_snapshot` of the handle that is inside `commit` (handle ↦ copy of `committed`) -/
  snaps     : List (Nat × Map ι δ) := []
deriving Repr

section
variable {ι δ : Type} [DecidableEq ι]

def St.queue (s : St ι δ) (h : Nat) : List (Op ι δ) := s.queues.getD h []

def St.log (s : St ι δ) (r : Res) : St ι δ := { s with results := s.results ++ [r] }

def getSnap (snaps : List (Nat × Map ι δ)) (h : Nat) : Map ι δ :=
  match snaps with
  | [] => []
  | p :: r => if p.1 = h then p.2 else getSnap r h

def setSnap (snaps : List (Nat × Map ι δ)) (h : Nat) (m : Map ι δ) : List (Nat × Map ι δ) :=
  (h, m) :: snaps.filter (fun p => !(p.1 == h))

/-- `commit`, step 1: `manifest_snapshot = inner.manifest.read().clone()` (nothing queued:
`commit` returns before taking it) -/
def snapshot (h : Nat) (s : St ι δ) : St ι δ :=
  if (s.queue h).isEmpty then s else { s with snaps := setSnap s.snaps h s.committed }

/-- `commit`, step 2: fold the queue into **the snapshot** and publish the result (new segment +
tombstones + manifest store + in-memory swap) -/
def publish (h : Nat) (s : St ι δ) : St ι δ :=
  if (s.queue h).isEmpty then s
  else { s with committed := applyOps (getSnap s.snaps h) (s.queue h) }

/-- `commit`, step 3: commit marker + log truncation, `pending_ops.clear()` -/
def settle (h : Nat) (s : St ι δ) : St ι δ :=
  if (s.queue h).isEmpty then s.log .ok
  else ({ s with wal := [], queues := s.queues.set h [] } : St ι δ).log .ok

/-- one call, executed atomically -/
def exec (s : St ι δ) : Call ι δ → St ι δ
  | .new h => ({ s with queues := s.queues.set h s.wal } : St ι δ).log .ok
  | .add h valid id d =>
    if valid then
      let q := s.queue h ++ [.add id d]
      ({ s with wal := s.wal ++ [.add id d], queues := s.queues.set h q } : St ι δ).log
        (.count ((q.filter isAdd).length - 1))
    else s.log .err
  | .delete h ids =>
    let ops : List (Op ι δ) := ids.map .del
    ({ s with wal := s.wal ++ ops, queues := s.queues.set h (s.queue h ++ ops) } : St ι δ).log .ok
  | .commit h => settle h (publish h (snapshot h s))
  | .rollback h => ({ s with wal := [], queues := s.queues.set h [] } : St ι δ).log .ok
  | .compact => s.log .ok

/-- the steps a call performs inside the lock (commit has three) -/
def stepsOf : Call ι δ → List (St ι δ → St ι δ)
  | .commit h => [snapshot h, publish h, settle h]
  | c => [fun s => exec s c]

/-- serial execution -/
def runSerial (s : St ι δ) (cs : List (Call ι δ)) : St ι δ := cs.foldl exec s

def init (committed : Map ι δ) (handles : Nat) : St ι δ :=
  { committed := committed, wal := [], queues := List.replicate handles [], results := [], snaps := [] }

/-- keys of a map are pairwise distinct (one copy of each id) -/
def distinctKeys : Map ι δ → Bool
  | [] => true
  | p :: r => (lookup r p.1).isNone && distinctKeys r

end
end SL.Handles
