/-!
# Core/Highlight — model of `highlight_fragments` / `make_snippet`
(`searchlite-core/src/index/highlight.rs`) and of the two callers in
`api/reader.rs::materialize_hit`.  Import-free, executable.

Text is UTF-8 **bytes**.  The regex engine is a parameter (DESIGN §3.2):

* `find off`     — result of `re.find_at(text, off)` as a byte span `(start, end)`;
* `rematch frag` — the spans `re.replace_all(&fragment, …)` visits inside the fragment
                   (leftmost, non-overlapping, in order).

What is modelled is everything the code does around those two calls:

```
for _ in 0..number_of_fragments {
  if let Some(m) = re.find_at(text, offset) {
    let start = m.start().saturating_sub(fragment_size / 2);
    let end = usize::min(text.len(), start.saturating_add(fragment_size));
    let fragment = text.get(start..end).unwrap_or("").to_string();      // <- byte slicing
    let highlighted = re.replace_all(&fragment, |c| format!("{pre}{}{post}", &c[0]));
    out.push(highlighted); offset = m.end();
  } else { break; }
}
```
-/
namespace SL.Highlight

abbrev Bytes := List UInt8
abbrev Span := Nat × Nat

/-- UTF-8 continuation byte `10xxxxxx` (Rust: `(b as i8) < -0x40`) -/
def isCont (b : UInt8) : Bool := 128 ≤ b.toNat && b.toNat < 192

/-- `str::is_char_boundary` -/
def isBoundary (t : Bytes) (i : Nat) : Bool :=
  if i = 0 then true
  else match t[i]? with
    | none => i == t.length
    | some b => !isCont b

/-- `str::get(s..e)`: `None` unless `s ≤ e` and both ends are char boundaries
(which implies `e ≤ len`) -/
def getSlice (t : Bytes) (s e : Nat) : Option Bytes :=
  if s ≤ e && isBoundary t s && isBoundary t e then some ((t.drop s).take (e - s)) else none

/-- the fragment window around a match starting at byte `mstart` -/
def window (mstart size len : Nat) : Span :=
  let s := mstart - size / 2
  (s, min len (s + size))

/-- the finding's signature predicate, negated: both window ends are char boundaries -/
def windowOnBoundary (t : Bytes) (mstart size : Nat) : Bool :=
  let w := window mstart size t.length
  isBoundary t w.1 && isBoundary t w.2

/-- the code as it is: `text.get(start..end).unwrap_or("")` -/
def sliceCode (t : Bytes) (mstart size : Nat) : Bytes :=
  let w := window mstart size t.length
  (getSlice t w.1 w.2).getD []

/-- first char boundary at or after `i` (fuel = distance to the end of the text) -/
def snapUp (t : Bytes) : Nat → Nat → Nat
  | 0, i => i
  | f + 1, i => if isBoundary t i then i else snapUp t f (i + 1)

/-- last char boundary at or before `i` -/
def snapDown (t : Bytes) : Nat → Nat
  | 0 => 0
  | i + 1 => if isBoundary t (i + 1) then i + 1 else snapDown t i

/-- the planned repair: move the window start up and the window end down to the nearest
char boundary, then slice (`get` can no longer fail) -/
def sliceSnap (t : Bytes) (mstart size : Nat) : Bytes :=
  let w := window mstart size t.length
  let s := snapUp t (t.length - w.1) w.1
  let e := snapDown t w.2
  (getSlice t s e).getD []

/-- output of `replace_all` before the tags are substituted -/
inductive Piece where
  | raw (b : Bytes)
  | pre
  | post
deriving Repr, DecidableEq

/-- `Regex::replace_all` over the spans it visits: copy the gap, emit the wrapped match,
continue after the match; finally copy the tail -/
def tagGo (frag : Bytes) : Nat → List Span → List Piece
  | last, [] => [.raw (frag.drop last)]
  | last, (s, e) :: r =>
    .raw ((frag.drop last).take (s - last)) :: .pre :: .raw ((frag.drop s).take (e - s)) :: .post ::
      tagGo frag e r

def tagPieces (frag : Bytes) (spans : List Span) : List Piece := tagGo frag 0 spans

/-- substitute the tags -/
def render (pre post : Bytes) : List Piece → Bytes
  | [] => []
  | .raw b :: r => b ++ render pre post r
  | .pre :: r => pre ++ render pre post r
  | .post :: r => post ++ render pre post r

/-- the fragment with the tags removed = rendering with empty tags -/
def untag (p : List Piece) : Bytes := render [] [] p

/-- spans as a regex iterator yields them inside a haystack of length `n`:
in order, non-overlapping, non-empty, in range -/
def spansOk (n : Nat) : Nat → List Span → Bool
  | _, [] => true
  | last, (s, e) :: r => last ≤ s && s < e && e ≤ n && spansOk n e r

/-- the loop of `highlight_fragments`, parameterised by the slicing function -/
def fragsLoop (slice : Bytes → Nat → Nat → Bytes) (t : Bytes) (find : Nat → Option Span)
    (rematch : Bytes → List Span) (size : Nat) : Nat → Nat → List (List Piece)
  | 0, _ => []
  | k + 1, off =>
    match find off with
    | none => []
    | some m =>
      let f := slice t m.1 size
      tagPieces f (rematch f) :: fragsLoop slice t find rematch size k m.2

/-- the matches the loop visits (for evaluating per-match hypotheses on a concrete run) -/
def visited (find : Nat → Option Span) : Nat → Nat → List Span
  | 0, _ => []
  | k + 1, off =>
    match find off with
    | none => []
    | some m => m :: visited find k m.2

/-- `highlight_fragments`; `hasPattern = false` stands for "no term and no phrase, or every
pattern empty, or the regex does not compile" -/
def highlightFragments (slice : Bytes → Nat → Nat → Bytes) (t : Bytes) (hasPattern : Bool)
    (find : Nat → Option Span) (rematch : Bytes → List Span) (size nfrag : Nat) :
    List (List Piece) :=
  if t.isEmpty || !hasPattern then [] else fragsLoop slice t find rematch size nfrag 0

/-- `make_snippet`: one fragment of size 120 (tags `**` are substituted by `render`) -/
def makeSnippet (slice : Bytes → Nat → Nat → Bytes) (t : Bytes) (hasPattern : Bool)
    (find : Nat → Option Span) (rematch : Bytes → List Span) : Option (List Piece) :=
  (highlightFragments slice t hasPattern find rematch 120 1).getLast?

/-- `materialize_hit`: a field appears in `Hit.highlights` only with a non-empty list -/
def fieldHighlights (slice : Bytes → Nat → Nat → Bytes) (t : Bytes) (hasPattern : Bool)
    (find : Nat → Option Span) (rematch : Bytes → List Span) (size nfrag : Nat) :
    Option (List (List Piece)) :=
  let fr := highlightFragments slice t hasPattern find rematch size nfrag
  if fr.isEmpty then none else some fr

end SL.Highlight
