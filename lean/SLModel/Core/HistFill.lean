/-!
# Core/HistFill — the bucket fill between the bounds of `histogram` / `date_histogram`
(`searchlite-core/src/query/aggs/mod.rs`: `HistogramCollector::finish`,
`DateHistogramCollector::finish`, `add_interval`; `api/reader.rs`:
`validate_date_histogram_config`).  Import-free, executable.  Machine integers are `Int`s
with explicit `i64` limits; the float arithmetic that produces the two ends and the step is
outside the model (the ends are arbitrary `i64` values: `as i64` saturates).

```
// numeric histogram                                  // date histogram, fixed step (ms)
let mut bucket_id = bucket_key(min);                  let mut current = start;
let end = bucket_key(max);                            while current <= end {
while bucket_id <= end {                                insert(current);
  insert(bucket_id);                                    current = match current.checked_add(step) {
  if bucket_id == end { break; }   // (R1)               Some(next) => next, None => break };
  bucket_id += 1;                  // overflow check   }
}                                                     // (R2) validation: step_ms >= 1
```
(R1) and (R2) are the two guards of the repair; `legacy…` are the loops without them.
-/
namespace SL.HistFill

def i64Max : Int := 9223372036854775807
def i64Min : Int := -9223372036854775808

def inI64 (x : Int) : Bool := i64Min ≤ x && x ≤ i64Max

/-- outcome of a fill loop -/
inductive Out where
  /-- the loop ended; the bucket keys it inserted, in order -/
  | done (keys : List Int)
  /-- `attempt to add with overflow` (debug) -/
  | overflow (keys : List Int)
deriving Repr, DecidableEq

/-- numeric fill WITH the `== end` break.  `fuel` bounds the iterations; `none` = fuel used up. -/
def fill : Nat → Int → Int → List Int → Option Out
  | 0, _, _, _ => none
  | n + 1, cur, stop, acc =>
    if cur ≤ stop then
      if cur = stop then some (.done (acc ++ [cur]))
      else if cur = i64Max then some (.overflow (acc ++ [cur]))
      else fill n (cur + 1) stop (acc ++ [cur])
    else some (.done acc)

/-- numeric fill as it was: no break, `bucket_id += 1` after every insertion -/
def legacyFill : Nat → Int → Int → List Int → Option Out
  | 0, _, _, _ => none
  | n + 1, cur, stop, acc =>
    if cur ≤ stop then
      if cur = i64Max then some (.overflow (acc ++ [cur]))
      else legacyFill n (cur + 1) stop (acc ++ [cur])
    else some (.done acc)

/-- the keys `start, start+1, …` (`len` of them) -/
def keysFrom : Int → Nat → List Int
  | _, 0 => []
  | s, n + 1 => s :: keysFrom (s + 1) n

/-- (R2) `((seconds * 1000.0) as i64) >= 1`: the truncated step in milliseconds -/
def dateStepOk (stepMs : Int) : Bool := 1 ≤ stepMs

/-- how a date fill ended -/
inductive DateOut where
  /-- `current` went past `end` after this many insertions -/
  | past (inserted : Nat)
  /-- `checked_add` returned `None` after this many insertions -/
  | addOverflow (inserted : Nat)
deriving Repr, DecidableEq

/-- date fill with a fixed step: `while current <= end { insert; current = checked_add(step)? }` -/
def dateFill (step : Int) : Nat → Int → Int → Nat → Option DateOut
  | 0, _, _, _ => none
  | n + 1, cur, stop, k =>
    if cur ≤ stop then
      if cur + step > i64Max ∨ cur + step < i64Min then some (.addOverflow (k + 1))
      else dateFill step n (cur + step) stop (k + 1)
    else some (.past k)

/-! ### `bucket_start` of the date histogram (fixed step)

```
// since d7457e1                                         // before
let bucket = (value.checked_sub(offset)? as f64          let bucket = ((value - offset) as f64
              / step as f64).ceil() as i64;                            / step as f64).ceil() as i64;
bucket.checked_mul(step)?.checked_add(offset)            Some(bucket.saturating_mul(step) + offset)
```
The float step (`as f64`, division, `ceil`, saturating `as i64`) is the parameter `q`; its
result is clamped to the `i64` range like the cast does. -/

def clamp (x : Int) : Int := if x < i64Min then i64Min else if x > i64Max then i64Max else x

def checked (x : Int) : Option Int := if inI64 x then some x else none

/-- `bucket_start(value, offset, Fixed(step))` as it is now: `none` = the value has no bucket -/
def bucketStart (q : Int → Int → Int) (value offset step : Int) : Option Int :=
  match checked (value - offset) with
  | none => none
  | some d =>
    match checked (clamp (q d step) * step) with
    | none => none
    | some p => checked (p + offset)

/-- outcome of the original `bucket_start` -/
inductive LegacyStart where
  | key (k : Int)
  | subOverflow      -- `value - offset`: attempt to subtract with overflow
  | addOverflow      -- `… + offset`: attempt to add with overflow
deriving Repr, DecidableEq

/-- the original: unchecked subtraction, saturating product, unchecked addition -/
def legacyBucketStart (q : Int → Int → Int) (value offset step : Int) : LegacyStart :=
  if !inI64 (value - offset) then .subOverflow
  else
    let p := clamp (clamp (q (value - offset) step) * step)
    if !inI64 (p + offset) then .addOverflow else .key (p + offset)

/-- exact ceiling division (what the float step computes up to rounding), for the witnesses -/
def ceilDiv (d step : Int) : Int := if step ≤ 0 then 0 else (d + step - 1) / step

/-- the fill of `DateHistogramCollector::finish`: only when both bounds have a bucket; the ends
are ordered first; `none` = no fill at all -/
def dateFinish (q : Int → Int → Int) (step offset lo hi : Int) (fuel : Nat) : Option (Option DateOut) :=
  match bucketStart q lo offset step, bucketStart q hi offset step with
  | some a, some b => some (dateFill step fuel (min a b) (max a b) 0)
  | _, _ => none

end SL.HistFill
