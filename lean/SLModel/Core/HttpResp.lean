/-!
# Core/HttpResp — model of the HTTP service's request → (status, body shape) mapping
(`searchlite-http/src/lib.rs`: `router`, `map_413`, `handle_middleware_error`, `parse_json`,
`HttpError::into_response`, `require_index`, the eleven handlers).  Import-free, executable.

The model is a *decision ladder*: every handler is written as the sequence of checks the
code performs, in the code's order, over a record of abstract facts about the request and
the server (`Facts`).  axum / hyper / tower are outside the model; what they contribute is
represented by facts (`declaredOversize`, `Payload.rejected`, `stall`, routing result).

Layer order in `router` (outermost first): `map_413` · `HandleErrorLayer` · `TimeoutLayer` ·
`ConcurrencyLimitLayer` · `RequestBodyLimitLayer` · route / method router / fallback.

`respond` is the code as it exists after three repairs in /repo:
378f311 (the response middleware rewrites the router's own 404 / 405 into the error body),
771419c (`parse_json` keeps the extractor's 413 and `/add` maps the body stream's "length limit
exceeded" error to `413 body_too_large`) and c4eccfe (`/delete` runs its library calls inside
`spawn_blocking`, join error ↦ `500 delete_join`).  `respondLegacy` keeps the service before
these commits (empty 404/405 bodies, 400 for streamed oversize, no response on a `/delete`
panic) as documentation of the original defects.
-/
namespace SL.Http

inductive Endpoint
  | healthz | init | add | bulk | delete | commit | refresh | compact | search | inspect | stats
deriving Repr, DecidableEq

/-- result of routing the request line -/
inductive Route
  | hit (e : Endpoint)          -- registered path with its registered method
  | wrongMethod (e : Endpoint)  -- registered path, another method (axum's method router: 405)
  | unknownPath                 -- axum's default fallback: 404
deriving Repr, DecidableEq

/-- why axum's `Json<T>` extractor rejected the body (with the status axum itself would use:
415, 400, 422, 413/400) — `parse_json` discards that status -/
inductive Rejection
  | missingJsonContentType   -- natively 415
  | syntaxError              -- natively 400
  | dataError                -- natively 422
  | lengthLimit              -- natively 413: streamed body grew past the limit while buffering
  | bufferError              -- natively 400: body stream failed (truncated chunk stream, …)
deriving Repr, DecidableEq

/-- what the `Json<T>` extractor sees -/
inductive Payload
  | ok
  | rejected (r : Rejection)
  | stall            -- the client never completes the body: the timeout layer fires
deriving Repr, DecidableEq

/-- `/add` reads the body line by line; the *first* event that ends the loop -/
inductive AddBody
  | docs             -- ≥ 1 document, all lines are JSON objects
  | empty            -- no document at all (`queued: 0` without touching the writer)
  | badLine          -- a line is not JSON or not an object
  | limitErr         -- the stream fails with "length limit exceeded" (body over the limit while streaming)
  | readErr          -- the stream fails otherwise (invalid UTF-8, truncated)
  | stall            -- the client never completes the body: the timeout layer fires
deriving Repr, DecidableEq

/-- `AppState::require_index` -/
inductive IdxState
  | ready            -- loaded, or manifest on disk and `Index::open` succeeds
  | missing          -- no manifest on disk
  | corrupt          -- manifest on disk but `Index::open` fails
deriving Repr, DecidableEq

/-- outcome of the library work of the handler (writer/reader/commit/compact/create) -/
inductive Core
  | ok | err | panic
deriving Repr, DecidableEq

/-- abstract facts about one request and the server state it meets; each handler looks only
at the facts its code path reaches -/
structure Facts where
  /-- `Content-Length` exceeds `max_body_bytes` (`RequestBodyLimitLayer` answers at once) -/
  declaredOversize : Bool
  /-- `Json<T>` extractor (init, bulk, delete, search) -/
  payload : Payload
  /-- `/add` body loop -/
  addBody : AddBody
  /-- handler-specific validation after parsing: `limit == 0`; `docs` empty or holding a
  non-object; `ids` empty or holding an empty / padded / control-character id -/
  inputBad : Bool
  /-- `manifest_exists()` as seen by `/init` -/
  manifestExists : Bool
  idx : IdxState
  /-- `index.writer()` fails -/
  writerErr : Bool
  core : Core
deriving Repr, DecidableEq

inductive Shape
  | okJson           -- the documented JSON body of the endpoint
  | errorJson        -- `{"error":{"type":…,"reason":…}}`
  | empty            -- no body at all
  | noResponse       -- the connection ends without a response
deriving Repr, DecidableEq

/-- `HttpError.kind` -/
inductive Kind
  | none
  | bodyTooLarge | timeout | invalidRequest | invalidLimit | indexMissing | openIndex
  | indexExists | initJoin | initFailed | readBody | invalidDocument | writerOpen
  | addFailed | addJoin | missingOrInvalidInput | deleteFailed
  | commitJoin | commitFailed | refreshJoin | refreshFailed | compactJoin | compactFailed
  | searchJoin | searchFailed
  | notFound | methodNotAllowed | deleteJoin
deriving Repr, DecidableEq

structure Resp where
  status : Nat
  shape : Shape
  kind : Kind
deriving Repr, DecidableEq

def okResp : Resp := ⟨200, .okJson, .none⟩
def errResp (status : Nat) (k : Kind) : Resp := ⟨status, .errorJson, k⟩
/-- `handle_middleware_error` for `tower::timeout::error::Elapsed` -/
def timeoutResp : Resp := errResp 504 .timeout

/-- `parse_json(payload)?` as the first step of a handler: the extractor's 413 (body over the
limit while buffering) is kept, every other rejection becomes `400 invalid_request` -/
def jsonExtract (f : Facts) (k : Resp) : Resp :=
  match f.payload with
  | .stall => timeoutResp
  | .rejected .lengthLimit => errResp 413 .bodyTooLarge
  | .rejected _ => errResp 400 .invalidRequest
  | .ok => k

/-- `state.require_index().await?` -/
def requireIndex (f : Facts) (k : Resp) : Resp :=
  match f.idx with
  | .ready => k
  | .missing => errResp 404 .indexMissing
  | .corrupt => errResp 500 .openIndex

/-- `spawn_blocking(work).await.map_err(join)? .map_err(fail)?` -/
def blocking (f : Facts) (join : Kind) (failStatus : Nat) (fail : Kind) : Resp :=
  match f.core with
  | .panic => errResp 500 join
  | .err => errResp failStatus fail
  | .ok => okResp

/-- the writer part shared by `/add` and `/bulk` (inside `spawn_blocking`): `index.writer()`,
then `add_documents` -/
def ingest (f : Facts) : Resp :=
  match f.core with
  | .panic => errResp 500 .addJoin
  | .err => if f.writerErr then errResp 500 .writerOpen else errResp 400 .addFailed
  | .ok => if f.writerErr then errResp 500 .writerOpen else okResp

/-- `/delete` after validation: `index.writer()`, `delete_documents`, inside `spawn_blocking`
like the other write handlers (c4eccfe) -/
def deleteWork (f : Facts) : Resp :=
  match f.core with
  | .panic => errResp 500 .deleteJoin
  | .err => if f.writerErr then errResp 500 .writerOpen else errResp 400 .deleteFailed
  | .ok => if f.writerErr then errResp 500 .writerOpen else okResp

/-- `/add` once the index is there: the NDJSON loop, then the writer -/
def addWork (f : Facts) : Resp :=
  match f.addBody with
  | .stall => timeoutResp
  | .limitErr => errResp 413 .bodyTooLarge
  | .readErr => errResp 400 .readBody
  | .badLine => errResp 400 .invalidDocument
  | .empty => okResp
  | .docs => ingest f

def handler (e : Endpoint) (f : Facts) : Resp :=
  match e with
  | .healthz => okResp
  | .init =>
    jsonExtract f <|
      if f.manifestExists then errResp 409 .indexExists
      else blocking f .initJoin 400 .initFailed
  | .add => requireIndex f (addWork f)
  | .bulk =>
    jsonExtract f <|
      if f.inputBad then errResp 400 .missingOrInvalidInput
      else requireIndex f (ingest f)
  | .delete =>
    jsonExtract f <|
      if f.inputBad then errResp 400 .missingOrInvalidInput
      else requireIndex f (deleteWork f)
  | .commit => requireIndex f (blocking f .commitJoin 500 .commitFailed)
  | .refresh => requireIndex f (blocking f .refreshJoin 500 .refreshFailed)
  | .compact => requireIndex f (blocking f .compactJoin 500 .compactFailed)
  | .search =>
    jsonExtract f <|
      if f.inputBad then errResp 400 .invalidLimit
      else requireIndex f (blocking f .searchJoin 400 .searchFailed)
  | .inspect => requireIndex f okResp
  | .stats => requireIndex f okResp

/-- the whole service: body-limit layer, then routing, then the handler; the router's own
answers for unknown paths and wrong methods are rewritten by `map_413` into the error body -/
def respond (r : Route) (f : Facts) : Resp :=
  if f.declaredOversize then errResp 413 .bodyTooLarge
  else match r with
    | .unknownPath => errResp 404 .notFound
    | .wrongMethod _ => errResp 405 .methodNotAllowed
    | .hit e => handler e f

/-! ### the service before the repairs (documentation of the original defects) -/

/-- before 771419c: every extractor rejection, the 413 included, became `400 invalid_request` -/
def jsonExtractLegacy (f : Facts) (k : Resp) : Resp :=
  match f.payload with
  | .stall => timeoutResp
  | .rejected _ => errResp 400 .invalidRequest
  | .ok => k

/-- before c4eccfe: not inside `spawn_blocking`; a panic unwound the connection task -/
def deleteWorkLegacy (f : Facts) : Resp :=
  match f.core with
  | .panic => ⟨0, .noResponse, .none⟩
  | .err => if f.writerErr then errResp 500 .writerOpen else errResp 400 .deleteFailed
  | .ok => if f.writerErr then errResp 500 .writerOpen else okResp

/-- before 771419c: "length limit exceeded" was reported like any other read error -/
def addWorkLegacy (f : Facts) : Resp :=
  match f.addBody with
  | .stall => timeoutResp
  | .limitErr => errResp 400 .readBody
  | .readErr => errResp 400 .readBody
  | .badLine => errResp 400 .invalidDocument
  | .empty => okResp
  | .docs => ingest f

def handlerLegacy (e : Endpoint) (f : Facts) : Resp :=
  match e with
  | .healthz => okResp
  | .init =>
    jsonExtractLegacy f <|
      if f.manifestExists then errResp 409 .indexExists
      else blocking f .initJoin 400 .initFailed
  | .add => requireIndex f (addWorkLegacy f)
  | .bulk =>
    jsonExtractLegacy f <|
      if f.inputBad then errResp 400 .missingOrInvalidInput
      else requireIndex f (ingest f)
  | .delete =>
    jsonExtractLegacy f <|
      if f.inputBad then errResp 400 .missingOrInvalidInput
      else requireIndex f (deleteWorkLegacy f)
  | .commit => requireIndex f (blocking f .commitJoin 500 .commitFailed)
  | .refresh => requireIndex f (blocking f .refreshJoin 500 .refreshFailed)
  | .compact => requireIndex f (blocking f .compactJoin 500 .compactFailed)
  | .search =>
    jsonExtractLegacy f <|
      if f.inputBad then errResp 400 .invalidLimit
      else requireIndex f (blocking f .searchJoin 400 .searchFailed)
  | .inspect => requireIndex f okResp
  | .stats => requireIndex f okResp

/-- the service before 378f311 / 771419c / c4eccfe -/
def respondLegacy (r : Route) (f : Facts) : Resp :=
  if f.declaredOversize then errResp 413 .bodyTooLarge
  else match r with
    | .unknownPath => ⟨404, .empty, .none⟩
    | .wrongMethod _ => ⟨405, .empty, .none⟩
    | .hit e => handlerLegacy e f

/-- the property's shape predicate on one response -/
def wellFormed (x : Resp) : Bool :=
  if x.status / 100 == 2 then x.shape == .okJson
  else x.shape == .errorJson && x.kind != .none && 100 ≤ x.status && x.status < 600

end SL.Http
