import SLModel.Core.Contents
/-!
# Core/HttpSched — handler threads of the HTTP service interleaved step by step

`Core/HttpWrites` treats every request as one atomic block.  That is justified by the service-wide
`AppState.writer_lock` **provided every handler takes it before it creates its writer**
(`searchlite-http/src/lib.rs`: `let _guard = writer_lock.blocking_lock(); let mut writer =
index.writer()?;`): the writer's queue is a snapshot of the log's pending operations
(`IndexWriter::new`), `commit` folds that snapshot, writes the marker and truncates the **whole**
log.  Here the handlers are small programs and a scheduler picks the thread that moves next.

* acknowledged write (`/add`, `/bulk`, `/delete` with operations `ops`):
  `lock; append ops; unlock (= answer 200 queued)`
* `/commit`, `lockFirst = true` (the code as it exists): `lock; snapshot; apply; unlock`
* `/commit`, `lockFirst = false` (snapshot taken before the lock — the two lines swapped):
  `snapshot; lock; apply; unlock`

`apply` = committed := fold of the **snapshot**, log := [] (truncation does not look at the
snapshot).  A `lock` step of a thread while another one holds the lock, and any step of a finished
thread, leave the state unchanged (the thread waits).  `hist` is a ghost record of the jobs in the
order of their effect step (`append` / `apply`).
-/
namespace SL.HttpSched
open SL.Contents

inductive Job (ι δ : Type) where
  | write (ops : List (Op ι δ))
  | commit
deriving Repr

structure Th (ι δ : Type) where
  job : Job ι δ
  pc : Nat
  snap : List (Op ι δ)

structure St (ι δ : Type) where
  committed : List (ι × δ)
  log : List (Op ι δ)
  lock : Option Nat
  th : Nat → Th ι δ
  hist : List (Job ι δ)

def upd {α : Type} (f : Nat → α) (t : Nat) (v : α) : Nat → α := fun u => if u = t then v else f u

def stepWrite {ι δ : Type} (s : St ι δ) (t : Nat) (x : Th ι δ) (ops : List (Op ι δ)) : St ι δ :=
  match x.pc with
  | 0 => if s.lock.isNone then { s with lock := some t, th := upd s.th t { x with pc := 1 } } else s
  | 1 => { s with log := s.log ++ ops, hist := s.hist ++ [.write ops], th := upd s.th t { x with pc := 2 } }
  | 2 => { s with lock := none, th := upd s.th t { x with pc := 3 } }
  | _ => s

/-- `/commit` with the lock taken first -/
def stepCommitL {ι δ : Type} [DecidableEq ι] (proj : δ → δ) (s : St ι δ) (t : Nat) (x : Th ι δ) :
    St ι δ :=
  match x.pc with
  | 0 => if s.lock.isNone then { s with lock := some t, th := upd s.th t { x with pc := 1 } } else s
  | 1 => { s with th := upd s.th t { x with pc := 2, snap := s.log } }
  | 2 => { s with committed := x.snap.foldl (Spec.apply proj) s.committed, log := [],
                  hist := s.hist ++ [.commit], th := upd s.th t { x with pc := 3 } }
  | 3 => { s with lock := none, th := upd s.th t { x with pc := 4 } }
  | _ => s

/-- `/commit` with the snapshot taken before the lock -/
def stepCommitS {ι δ : Type} [DecidableEq ι] (proj : δ → δ) (s : St ι δ) (t : Nat) (x : Th ι δ) :
    St ι δ :=
  match x.pc with
  | 0 => { s with th := upd s.th t { x with pc := 1, snap := s.log } }
  | 1 => if s.lock.isNone then { s with lock := some t, th := upd s.th t { x with pc := 2 } } else s
  | 2 => { s with committed := x.snap.foldl (Spec.apply proj) s.committed, log := [],
                  hist := s.hist ++ [.commit], th := upd s.th t { x with pc := 3 } }
  | 3 => { s with lock := none, th := upd s.th t { x with pc := 4 } }
  | _ => s

/-- thread `t` moves -/
def step {ι δ : Type} [DecidableEq ι] (lockFirst : Bool) (proj : δ → δ) (s : St ι δ) (t : Nat) :
    St ι δ :=
  match (s.th t).job with
  | .write ops => stepWrite s t (s.th t) ops
  | .commit => if lockFirst then stepCommitL proj s t (s.th t) else stepCommitS proj s t (s.th t)

def run {ι δ : Type} [DecidableEq ι] (lockFirst : Bool) (proj : δ → δ) (s : St ι δ)
    (sched : List Nat) : St ι δ :=
  sched.foldl (step lockFirst proj) s

/-- all handlers at their first instruction, nothing committed, nothing pending -/
def start {ι δ : Type} (jobs : Nat → Job ι δ) : St ι δ :=
  { committed := [], log := [], lock := none, th := fun t => ⟨jobs t, 0, []⟩, hist := [] }

/-- the atomic (one request at a time) semantics of a job list: (committed, pending) -/
def serial {ι δ : Type} [DecidableEq ι] (proj : δ → δ) :
    List (Job ι δ) → List (ι × δ) × List (Op ι δ) → List (ι × δ) × List (Op ι δ)
  | [], f => f
  | .write ops :: js, f => serial proj js (f.1, f.2 ++ ops)
  | .commit :: js, f => serial proj js (f.2.foldl (Spec.apply proj) f.1, [])

/-- has the write of thread `t` been acknowledged (its handler returned)? -/
def ackedWrite {ι δ : Type} (s : St ι δ) (t : Nat) : Bool :=
  match (s.th t).job with
  | .write _ => (s.th t).pc == 3
  | .commit => false

end SL.HttpSched
