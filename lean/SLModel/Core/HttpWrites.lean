import SLModel.Core.Contents
import SLModel.Core.Doc
import SLModel.Core.Frontend
/-!
# Core/HttpWrites — the write path of the HTTP service as calls on the library writer

Executable; imports other `Core` files only.  Mirrors `searchlite-http/src/lib.rs` as it exists:

* every write request (`/add`, `/bulk`, `/delete`, `/commit`) takes the server-wide
  `writer_lock`, creates a **new** `IndexWriter` (`index.writer()`; its queue starts with the
  pending operations replayed from the log, `api/writer.rs` `IndexWriter::new`), performs its
  library calls and drops the writer before the response is sent;
* `/add` (`add_ndjson`) parses *all* lines first (a line that is not a JSON object ⇒ 400 before
  any library call; blank lines skipped; no document at all ⇒ `200 {"queued":0}` without a
  writer); `/bulk` (`bulk_ingest`) parses the body, rejects an empty `docs` array and non-object
  elements before any library call;
* both then call `writer.add_documents(&docs)` (`api/writer.rs`): **every** document is validated
  first (`validate_document`, `doc_id_from_document`); if one is rejected nothing is appended and
  the handler answers 400 `add_failed`; otherwise one record per document is appended, in order.
  (Should an append fail, the call truncates the log back to its length at the start of the call
  and drops its own queue entries — `rollbackOwn` below; not reachable without storage faults,
  which are C03's subject, so `denote` never emits it.)
* `/delete` (`delete_documents`) rejects an empty `ids` array and validates **all** ids
  (`validate_ids`) before the writer is created, then `writer.delete_documents(&ids)`;
* `/commit` = new writer, `commit()`; `/compact` = `index.compact()`; `/refresh` and `/search` only
  open a reader.

`repaired = true` is the code as it exists (since /repo commit 69e89dd).  `repaired = false` is
the **legacy** handler kept as documentation of the original defect: `add_document` per document
and, on the first `Err`, `writer.rollback()` — which clears the handle's queue and truncates the
**whole** log (`IndexWriter::rollback`: `pending_ops.clear(); wal.truncate()`), including
operations queued and acknowledged by earlier requests.  The harness passes one constant.

States are those of `Core/Contents` (spec state `Spec.St`: committed map + shared log + handles;
mechanism state `St`: segments, tombstones, cached live maps).  The service always uses the
filesystem backend, i.e. the append-only `Log.fs`.
-/
namespace SL.HttpWrites
open SL.Contents

/-- what the library decides about the inputs of a request -/
structure Rules (ι δ : Type) where
  /-- `add_document` accepts `d` and queues it under this id; `none` = `Err`
  (`validate_document` / `doc_id_from_document`) -/
  idOf : δ → Option ι
  /-- `validate_ids` accepts the id -/
  idOk : ι → Bool

/-- one HTTP request, as far as the write path is concerned -/
inductive Req (ι δ : Type) where
  /-- `POST /add`: the body's non-blank lines all parsed into objects `docs` -/
  | add (docs : List δ)
  /-- `POST /bulk`: the body parsed into `{"docs":[…]}` with object elements -/
  | bulk (docs : List δ)
  /-- `POST /delete`: the body parsed into `{"ids":[…]}` -/
  | delete (ids : List ι)
  /-- a write request whose body does not parse (rejected by the extractor / line parser) -/
  | malformed
  | commit | refresh | compact | search
deriving Repr

def Req.isCommit {ι δ : Type} : Req ι δ → Bool
  | .commit => true
  | _ => false

/-- library calls plus the batch-local undo of `add_documents` -/
inductive HCall (ι δ : Type) where
  | lib (c : Call ι δ)
  /-- the error branch of `add_documents`: drop the last `k` records of the log — the ones this
  call appended (`truncate_to(length at the start of the call)`; the log is append-only and the
  request holds `writer_lock`) — and the last `k` entries of the handle's queue -/
  | rollbackOwn (h k : Nat)
deriving Repr

/-- operations `add_document` queues for the documents before the first rejected one, and whether
one was rejected -/
def firstOps {ι δ : Type} (ru : Rules ι δ) : List δ → List (Op ι δ) × Bool
  | [] => ([], false)
  | d :: ds =>
    match ru.idOf d with
    | none => ([], true)
    | some i => (.add i d :: (firstOps ru ds).1, (firstOps ru ds).2)

def opCall {ι δ : Type} (h : Nat) : Op ι δ → Call ι δ
  | .add i d => .add h i d 1
  | .del i => .del h i 1

/-- `/add` with at least one document, `/bulk` with a non-empty array.  Code as it exists
(`add_documents`): validation of the whole batch first, appends only when every document passed.
Legacy: appends up to the first rejected document, then `rollback()` of the whole log. -/
def ingest {ι δ : Type} (repaired : Bool) (ru : Rules ι δ) (h : Nat) (docs : List δ) :
    List (HCall ι δ) :=
  let r := firstOps ru docs
  if repaired then
    [.lib (.newWriter h)] ++ (if r.2 then [] else r.1.map (fun op => .lib (opCall h op))) ++
      [.lib (.dropWriter h)]
  else
    [.lib (.newWriter h)] ++ r.1.map (fun op => .lib (opCall h op)) ++
      (if r.2 then [.lib (.rollback h)] else []) ++ [.lib (.dropWriter h)]

/-- the library calls a request performs, in order, through writer handle `h` -/
def denote {ι δ : Type} (repaired : Bool) (ru : Rules ι δ) (h : Nat) : Req ι δ → List (HCall ι δ)
  | .add docs => if docs.isEmpty then [] else ingest repaired ru h docs
  | .bulk docs => if docs.isEmpty then [] else ingest repaired ru h docs
  | .delete ids =>
    if ids.isEmpty || !ids.all ru.idOk then []
    else [.lib (.newWriter h)] ++ ids.map (fun i => .lib (.del h i 1)) ++ [.lib (.dropWriter h)]
  | .malformed => []
  | .commit => [.lib (.newWriter h), .lib (.commit h), .lib (.dropWriter h)]
  | .refresh => []
  | .compact => [.lib .compact]
  | .search => []

/-- the operations an **acknowledged** write request queued (`200 {"queued":n}`); a rejected
request and a non-write request have none -/
def ackedOps {ι δ : Type} (ru : Rules ι δ) : Req ι δ → List (Op ι δ)
  | .add docs => if (firstOps ru docs).2 then [] else (firstOps ru docs).1
  | .bulk docs => if docs.isEmpty || (firstOps ru docs).2 then [] else (firstOps ru docs).1
  | .delete ids => if ids.isEmpty || !ids.all ru.idOk then [] else ids.map .del
  | _ => []

/-- is the request rejected by the library (`add_documents` returns `Err`, 400 `add_failed`; the
legacy handler reached `writer.rollback()` here)? -/
def rollsBack {ι δ : Type} (ru : Rules ι δ) : Req ι δ → Bool
  | .add docs => (firstOps ru docs).2
  | .bulk docs => (firstOps ru docs).2
  | _ => false

inductive Resp where
  /-- `200 {"queued": n}` -/
  | queued (n : Nat)
  /-- 4xx with the error body -/
  | rejected
  /-- 200 of `/commit`, `/refresh`, `/compact`, `/search` -/
  | done
  /-- 500 (`/compact` refused or failed) -/
  | serverError
deriving DecidableEq, Repr

/-- response class of a request that is not `/compact` -/
def resp {ι δ : Type} (ru : Rules ι δ) : Req ι δ → Resp
  | .add docs => if (firstOps ru docs).2 then .rejected else .queued docs.length
  | .bulk docs => if docs.isEmpty || (firstOps ru docs).2 then .rejected else .queued docs.length
  | .delete ids => if ids.isEmpty || !ids.all ru.idOk then .rejected else .queued ids.length
  | .malformed => .rejected
  | _ => .done

/-! ## execution on the states of `Core/Contents` -/

/-- `Wal::truncate_to(len − k records)` on the append-only file.  The in-memory backend is not
used by the service (left unchanged). -/
def dropLast {ι δ : Type} (l : Log ι δ) (k : Nat) : Log ι δ :=
  match l with
  | .fs ops => .fs (ops.take (ops.length - k))
  | .mem cells => .mem cells

def specStep {ι δ : Type} [DecidableEq ι] (proj : δ → δ) (s : Spec.St ι δ) :
    HCall ι δ → Spec.St ι δ
  | .lib c => Spec.step proj s c
  | .rollbackOwn h k =>
    match alGet s.handles h with
    | none => s
    | some hd =>
      { s with log := dropLast s.log k,
               handles := alSet s.handles h
                 { queue := hd.queue.take (hd.queue.length - k), pos := hd.pos } }

def mechStep {ι δ : Type} [DecidableEq ι] (cfg : Cfg δ) (s : St ι δ) : HCall ι δ → St ι δ
  | .lib c => (step cfg s c).1
  | .rollbackOwn h k =>
    match alGet s.handles h with
    | none => s
    | some hd =>
      { s with log := dropLast s.log k,
               handles := alSet s.handles h
                 { hd with queue := hd.queue.take (hd.queue.length - k) } }

/-- one request.  The writer handle is dropped before the request returns, so one handle name
serves all requests. -/
def specServe {ι δ : Type} [DecidableEq ι] (repaired : Bool) (ru : Rules ι δ) (proj : δ → δ)
    (s : Spec.St ι δ) (r : Req ι δ) : Spec.St ι δ :=
  (denote repaired ru 0 r).foldl (specStep proj) s

def mechServe {ι δ : Type} [DecidableEq ι] (repaired : Bool) (ru : Rules ι δ) (cfg : Cfg δ)
    (s : St ι δ) (r : Req ι δ) : St ι δ :=
  (denote repaired ru 0 r).foldl (mechStep cfg) s

/-- a request sequence against a freshly initialised index (`POST /init`) -/
def specRun {ι δ : Type} [DecidableEq ι] (repaired : Bool) (ru : Rules ι δ) (proj : δ → δ)
    (rs : List (Req ι δ)) : Spec.St ι δ :=
  rs.foldl (specServe repaired ru proj) (Spec.init false)

def mechRun {ι δ : Type} [DecidableEq ι] (repaired : Bool) (ru : Rules ι δ) (cfg : Cfg δ)
    (rs : List (Req ι δ)) : St ι δ :=
  rs.foldl (mechServe repaired ru cfg) (init false)

/-- response class in state `s` (only `/compact` depends on the state) -/
def respAt {ι δ : Type} (ru : Rules ι δ) (cfg : Cfg δ) (s : St ι δ) : Req ι δ → Resp
  | .compact => match (compact cfg s).2 with | .ok => .done | _ => .serverError
  | r => resp ru r

/-- every state after a request, with the response (driver) -/
def mechTrace {ι δ : Type} [DecidableEq ι] (repaired : Bool) (ru : Rules ι δ) (cfg : Cfg δ)
    (s : St ι δ) : List (Req ι δ) → List (Resp × St ι δ)
  | [] => []
  | r :: rs =>
    let s' := mechServe repaired ru cfg s r
    (respAt ru cfg s r, s') :: mechTrace repaired ru cfg s' rs

/-! ## the reference semantics the property speaks about: committed map and pending operations -/

structure Flat (ι δ : Type) where
  committed : List (ι × δ)
  pending : List (Op ι δ)
deriving Repr

/-- what one request does to (committed, pending).  Legacy handler: a request that reached
`rollback` emptied `pending`; the code as it exists leaves it alone. -/
def flatStep {ι δ : Type} [DecidableEq ι] (repaired : Bool) (ru : Rules ι δ) (proj : δ → δ)
    (f : Flat ι δ) (r : Req ι δ) : Flat ι δ :=
  if r.isCommit then { committed := f.pending.foldl (Spec.apply proj) f.committed, pending := [] }
  else if rollsBack ru r && !repaired then { f with pending := [] }
  else { f with pending := f.pending ++ ackedOps ru r }

def flatRun {ι δ : Type} [DecidableEq ι] (repaired : Bool) (ru : Rules ι δ) (proj : δ → δ)
    (rs : List (Req ι δ)) : Flat ι δ :=
  rs.foldl (flatStep repaired ru proj) { committed := [], pending := [] }

/-! ## the library's decisions for JSON documents and string ids (driver instance) -/

open SL.Doc in
/-- the per-field loop of `Schema::validate_document`: a nested field is validated by
`NestedField::validate` (not modelled here: the generator's schemas are flat; see C15), a
declared flat field by `validate_field_value`, the id field is skipped, any other name is
rejected (`unknown field`) -/
def fieldsValid (s : Schema String) : JO String → Bool
  | .nil => true
  | .cons k v t =>
    (match s.findNested k with
     | some _ => true
     | none =>
       match s.findFlat k with
       | some l => flatOk l v
       | none => k == s.idField) && fieldsValid s t

def blank (s : String) : Bool := s.toList.all SL.Frontend.isWs

open SL.Doc in
/-- `add_document`: `validate_document` then `doc_id_from_document` -/
def addId (s : Schema String) (d : J String) : Option String :=
  match d with
  | .obj kv =>
    match docId s d with
    | some i => if blank i then none else if fieldsValid s kv then some i else none
    | none => none
  | _ => none

/-- Rust `char::is_control` (general category Cc) -/
def isControl (c : Char) : Bool :=
  let n := c.toNat
  n < 32 || (127 ≤ n && n < 160)

/-- `validate_ids` for one id: not blank, no leading/trailing white space, no control character -/
def deleteIdOk (i : String) : Bool :=
  let cs := i.toList
  !cs.all SL.Frontend.isWs && SL.Frontend.trim cs == cs && !cs.any isControl

def jsonRules (s : SL.Doc.Schema String) : Rules String (SL.Doc.J String) :=
  { idOf := addId s, idOk := deleteIdOk }

end SL.HttpWrites
