/-!
# Core/Idb — model of the browser persistence layer of `searchlite-wasm/src/wasm.rs`

Import-free, executable.  Four layers, bottom up:

1. **Queue** (`St`, `step`): `PendingWrites::{schedule, schedule_delete, flush}`, the
   `persist_queue` loop, one IndexedDB read-write transaction per `persist_file` /
   `delete_file`.  A transaction has two browser events: `succ` (its request's `success`
   event — this is what `request_future(..).await` waits for) and `complete` (the
   transaction commits — only now its write is durable).  The adversary picks which
   runnable task is polled (`run`) and which browser event comes next.
2. **Files** (`Fs`, `fsStep`): `JsStorage::{write_all, atomic_write, open_write, open_append,
   remove}` and `JsFile::{write, flush, sync_all, set_len, seek, drop}` — when they call
   `schedule` and with which snapshot.
3. **Program** (`PSt`, `pstep`): a page runs a list of blocks (one per `init`/`commit`
   call); an instruction is a `schedule` call or "take the pending receivers and await
   them" (`StorageBackend::flush`).
4. **Commits and recovery** (`Commit`, `recover`): which stored images reopen, and to what.

Paths are numbers, file contents are lists of numbers (the driver interns real paths and
bytes).  `seq` of a version is the id of the `schedule` call (= receiver id) that supplied it.
-/
namespace SL.Idb

abbrev Path := Nat
abbrev Data := List Nat

/-! ## association lists keyed by numbers -/

def aget {β : Type} (k : Nat) : List (Nat × β) → Option β
  | [] => none
  | (k', v) :: r => if k' = k then some v else aget k r

def aset {β : Type} (k : Nat) (v : β) : List (Nat × β) → List (Nat × β)
  | [] => [(k, v)]
  | (k', v') :: r => if k' = k then (k, v) :: r else (k', v') :: aset k v r

def adel {β : Type} (k : Nat) : List (Nat × β) → List (Nat × β)
  | [] => []
  | (k', v') :: r => if k' = k then adel k r else (k', v') :: adel k r

/-! ## 1. the persistence queue -/

/-- a snapshot of a file handed to `schedule`, tagged with the id of that call -/
structure Ver where
  data : Data
  seq : Nat
deriving DecidableEq, Repr

/-- `PendingEntry` -/
structure Entry where
  pending : Option Ver
  waiters : List Nat
  inflight : Bool
deriving DecidableEq, Repr

inductive Op where
  | put (p : Path) (v : Ver)
  | del (p : Path)
deriving DecidableEq, Repr

def Op.path : Op → Path
  | .put p _ => p
  | .del p => p

/-- an IndexedDB transaction that has not completed yet -/
structure Tx where
  id : Nat
  op : Op
  /-- the `success` event of its request was dispatched -/
  succeeded : Bool
deriving DecidableEq, Repr

/-- a task spawned with `spawn_local` (finished tasks are removed) -/
inductive Task where
  /-- `persist_queue` at the top of its loop (spawned or resumed): runnable -/
  | top (p : Path)
  /-- `persist_queue` awaiting `persist_file`, holding the waiters it took -/
  | wait (p : Path) (tx : Nat) (ws : List Nat)
  /-- `persist_file` returned: runnable, will notify `ws` and loop -/
  | woken (p : Path) (ws : List Nat)
  /-- the delete task before its first poll: runnable -/
  | dtop (p : Path)
  | dwait (p : Path) (tx : Nat)
  | dwoken (p : Path)
deriving DecidableEq, Repr

def Task.runnable : Task → Bool
  | .top _ => true
  | .woken _ _ => true
  | .dtop _ => true
  | .dwoken _ => true
  | _ => false

structure St where
  /-- which browser event resumes `persist_file`: `false` = the request's `success` (the code
  as it exists), `true` = the transaction's completion (the repaired protocol) -/
  awaitComplete : Bool := false
  /-- `PendingWrites.queue` -/
  queue : List (Path × Entry) := []
  /-- `PendingWrites.pending`: receivers not yet taken by a `flush` -/
  rxs : List Nat := []
  /-- receivers taken by the i-th `flush` call -/
  flushes : List (List Nat) := []
  tasks : List (Nat × Task) := []
  /-- incomplete transactions in creation order -/
  txs : List Tx := []
  /-- the durable object store -/
  store : List (Path × Ver) := []
  /-- completed transactions in completion order (ghost) -/
  done : List Op := []
  /-- receivers whose sender sent `Ok(())` -/
  resolved : List Nat := []
  /-- receivers whose sender was dropped (`schedule_delete` removed the entry) -/
  dropped : List Nat := []
  /-- all `schedule` calls so far (ghost); the receiver id of a call is its index -/
  hist : List (Path × Data) := []
  nextTask : Nat := 0
  nextTx : Nat := 0
deriving Repr

inductive Label where
  | sched (p : Path) (d : Data)
  | schedDel (p : Path)
  | flushTake
  | run (t : Nat)
  | succ (tx : Nat)
  | complete (tx : Nat)
deriving DecidableEq, Repr

/-- `PendingWrites::schedule` -/
def doSched (σ : St) (p : Path) (d : Data) : St :=
  let r := σ.hist.length
  let e := (aget p σ.queue).getD ⟨none, [], false⟩
  let e' : Entry := ⟨some ⟨d, r⟩, e.waiters ++ [r], true⟩
  let σ1 := { σ with hist := σ.hist ++ [(p, d)], rxs := σ.rxs ++ [r], queue := aset p e' σ.queue }
  if e.inflight then σ1
  else { σ1 with tasks := σ1.tasks ++ [(σ.nextTask, Task.top p)], nextTask := σ.nextTask + 1 }

/-- `PendingWrites::schedule_delete`: the entry goes away (its senders are dropped), a delete
task is spawned -/
def doSchedDel (σ : St) (p : Path) : St :=
  let ws := match aget p σ.queue with
    | some e => e.waiters
    | none => []
  { σ with queue := adel p σ.queue, dropped := σ.dropped ++ ws,
           tasks := σ.tasks ++ [(σ.nextTask, Task.dtop p)], nextTask := σ.nextTask + 1 }

/-- one pass of `persist_queue` from the top of its loop up to its next await or its return -/
def loopTop (σ : St) (tid : Nat) (p : Path) : St :=
  match aget p σ.queue with
  | none => { σ with tasks := adel tid σ.tasks }
  | some e =>
    match e.pending with
    | none =>
      let q := if e.waiters.isEmpty then adel p σ.queue
               else aset p { e with inflight := false } σ.queue
      { σ with queue := q, tasks := adel tid σ.tasks }
    | some v =>
      { σ with queue := aset p { e with pending := none, waiters := [] } σ.queue,
               txs := σ.txs ++ [⟨σ.nextTx, Op.put p v, false⟩], nextTx := σ.nextTx + 1,
               tasks := aset tid (Task.wait p σ.nextTx e.waiters) σ.tasks }

def doRun (σ : St) (tid : Nat) : Option St :=
  match aget tid σ.tasks with
  | some (Task.top p) => some (loopTop σ tid p)
  | some (Task.woken p ws) => some (loopTop { σ with resolved := σ.resolved ++ ws } tid p)
  | some (Task.dtop p) =>
    some { σ with txs := σ.txs ++ [⟨σ.nextTx, Op.del p, false⟩], nextTx := σ.nextTx + 1,
                  tasks := aset tid (Task.dwait p σ.nextTx) σ.tasks }
  | some (Task.dwoken _) => some { σ with tasks := adel tid σ.tasks }
  | _ => none

def wakeTask (tx : Nat) : Task → Task
  | .wait p t ws => if t = tx then .woken p ws else .wait p t ws
  | .dwait p t => if t = tx then .dwoken p else .dwait p t
  | t => t

def wake (tx : Nat) (ts : List (Nat × Task)) : List (Nat × Task) :=
  ts.map (fun it => (it.1, wakeTask tx it.2))

def findTx (t : Nat) : List Tx → Option Tx
  | [] => none
  | x :: r => if x.id = t then some x else findTx t r

/-- an older incomplete transaction writes the same key (writers of one key keep their
creation order — the only ordering the adversary has to respect) -/
def earlierSamePath (txs : List Tx) (x : Tx) : Bool :=
  txs.any (fun u => decide (u.id < x.id) && decide (u.op.path = x.op.path))

def markSucc (t : Nat) (txs : List Tx) : List Tx :=
  txs.map (fun u => if u.id = t then { u with succeeded := true } else u)

def dropTx (t : Nat) (txs : List Tx) : List Tx :=
  txs.filter (fun u => !decide (u.id = t))

def applyOp (s : List (Path × Ver)) : Op → List (Path × Ver)
  | .put p v => aset p v s
  | .del p => adel p s

def doSucc (σ : St) (t : Nat) : Option St :=
  match findTx t σ.txs with
  | none => none
  | some x =>
    if x.succeeded || earlierSamePath σ.txs x then none
    else some { σ with txs := markSucc t σ.txs,
                       tasks := if σ.awaitComplete then σ.tasks else wake t σ.tasks }

def doComplete (σ : St) (t : Nat) : Option St :=
  match findTx t σ.txs with
  | none => none
  | some x =>
    if !x.succeeded || earlierSamePath σ.txs x then none
    else some { σ with txs := dropTx t σ.txs, store := applyOp σ.store x.op,
                       done := σ.done ++ [x.op],
                       tasks := if σ.awaitComplete then wake t σ.tasks else σ.tasks }

def step (σ : St) : Label → Option St
  | .sched p d => some (doSched σ p d)
  | .schedDel p => some (doSchedDel σ p)
  | .flushTake => some { σ with flushes := σ.flushes ++ [σ.rxs], rxs := [] }
  | .run t => doRun σ t
  | .succ t => doSucc σ t
  | .complete t => doComplete σ t

def exec (σ : St) : List Label → Option St
  | [] => some σ
  | l :: ls => match step σ l with
    | none => none
    | some σ' => exec σ' ls

/-- has the i-th `flush()` future finished: every receiver it took got a value or lost its
sender -/
def flushDone (σ : St) (f : Nat) : Bool :=
  match σ.flushes[f]? with
  | some rs => rs.all (fun r => σ.resolved.contains r || σ.dropped.contains r)
  | none => false

/-- … and with `Ok(())` -/
def flushOk (σ : St) (f : Nat) : Bool :=
  match σ.flushes[f]? with
  | some rs => rs.all (fun r => σ.resolved.contains r)
  | none => false

def runnableTasks (σ : St) : List Nat :=
  (σ.tasks.filter (fun it => it.2.runnable)).map (·.1)

/-! ## 2. `JsStorage` / `JsFile` -/

structure Handle where
  path : Path
  buf : Nat
  pos : Nat
  dirty : Bool
deriving DecidableEq, Repr

structure Fs where
  /-- `JsStorage.files`: path ↦ shared buffer -/
  files : List (Path × Nat) := []
  bufs : List (Nat × Data) := []
  handles : List (Nat × Handle) := []
  nextBuf : Nat := 0
deriving Repr

inductive FsOp where
  | writeAll (p : Path) (d : Data)     -- `write_all` and `atomic_write`
  | openWrite (h : Nat) (p : Path)
  | openAppend (h : Nat) (p : Path)
  | write (h : Nat) (d : Data)
  | flush (h : Nat)
  | syncAll (h : Nat)
  | setLen (h : Nat) (n : Nat)
  | seek (h : Nat) (n : Nat)
  | drop (h : Nat)
  | remove (p : Path)
deriving DecidableEq, Repr

/-- `JsStorage::entry`: the buffer of `p`, created empty when missing -/
def fsEntry (fs : Fs) (p : Path) : Fs × Nat :=
  match aget p fs.files with
  | some b => (fs, b)
  | none => ({ fs with files := aset p fs.nextBuf fs.files, bufs := aset fs.nextBuf [] fs.bufs,
                       nextBuf := fs.nextBuf + 1 }, fs.nextBuf)

def bufOf (fs : Fs) (b : Nat) : Data := (aget b fs.bufs).getD []

def resize (d : Data) (n : Nat) : Data :=
  if n ≤ d.length then d.take n else d ++ List.replicate (n - d.length) 0

/-- `JsFile::write`: overwrite at `pos`, zero-filling a gap -/
def writeAt (d : Data) (pos : Nat) (w : Data) : Data :=
  let d' := if d.length < pos + w.length then resize d (pos + w.length) else d
  d'.take pos ++ w ++ d'.drop (pos + w.length)

/-- the `schedule` call of `flush` / `sync_all` / `drop` on a dirty handle -/
def schedIfDirty (fs : Fs) (h : Handle) : List Label :=
  if h.dirty then [Label.sched h.path (bufOf fs h.buf)] else []

def fsStep (fs : Fs) : FsOp → Option (Fs × List Label)
  | .writeAll p d =>
    let (fs1, b) := fsEntry fs p
    some ({ fs1 with bufs := aset b d fs1.bufs }, [Label.sched p d])
  | .openWrite h p =>
    match aget h fs.handles with
    | some _ => none
    | none =>
      let (fs1, b) := fsEntry fs p
      some ({ fs1 with bufs := aset b [] fs1.bufs, handles := aset h ⟨p, b, 0, true⟩ fs1.handles }, [])
  | .openAppend h p =>
    match aget h fs.handles with
    | some _ => none
    | none =>
      let (fs1, b) := fsEntry fs p
      some ({ fs1 with handles := aset h ⟨p, b, (bufOf fs1 b).length, false⟩ fs1.handles }, [])
  | .write h d =>
    match aget h fs.handles with
    | none => none
    | some hd =>
      if d.isEmpty then some (fs, [])
      else
        some ({ fs with bufs := aset hd.buf (writeAt (bufOf fs hd.buf) hd.pos d) fs.bufs,
                        handles := aset h { hd with pos := hd.pos + d.length, dirty := true } fs.handles }, [])
  | .flush h =>
    match aget h fs.handles with
    | none => none
    | some hd => some ({ fs with handles := aset h { hd with dirty := false } fs.handles }, schedIfDirty fs hd)
  | .syncAll h =>
    match aget h fs.handles with
    | none => none
    | some hd => some ({ fs with handles := aset h { hd with dirty := false } fs.handles }, schedIfDirty fs hd)
  | .setLen h n =>
    match aget h fs.handles with
    | none => none
    | some hd =>
      some ({ fs with bufs := aset hd.buf (resize (bufOf fs hd.buf) n) fs.bufs,
                      handles := aset h { hd with pos := min hd.pos n, dirty := true } fs.handles }, [])
  | .seek h n =>
    match aget h fs.handles with
    | none => none
    | some hd => some ({ fs with handles := aset h { hd with pos := n } fs.handles }, [])
  | .drop h =>
    match aget h fs.handles with
    | none => none
    | some hd => some ({ fs with handles := adel h fs.handles }, schedIfDirty fs hd)
  | .remove p => some ({ fs with files := adel p fs.files }, [Label.schedDel p])

/-- `read_to_end` -/
def fsRead (fs : Fs) (p : Path) : Option Data :=
  match aget p fs.files with
  | some b => some (bufOf fs b)
  | none => none

/-- storage and queue together: one item of a storage-level script -/
inductive SysLabel where
  | fs (op : FsOp)
  | q (l : Label)
  | skip
deriving DecidableEq, Repr

structure Sys where
  fs : Fs := {}
  q : St := {}
deriving Repr

def sysStep (s : Sys) : SysLabel → Option Sys
  | .skip => some s
  | .q l => match step s.q l with
    | some q' => some { s with q := q' }
    | none => none
  | .fs op => match fsStep s.fs op with
    | none => none
    | some (fs', ls) => match exec s.q ls with
      | some q' => some ⟨fs', q'⟩
      | none => none

/-! ## 3. the page's program -/

/-- a stage: `schedule` calls, then `flush().await` over the receivers pending at that moment -/
abbrev Stage := List (Path × Data)

structure PSt where
  q : St := {}
  /-- `schedule` calls left in the running stage -/
  cur : Stage := []
  /-- a stage is running: its remaining calls and its flush are still to come -/
  inStage : Bool := false
  /-- stages of the running block after the current one (one block = one `init`/`commit` call) -/
  stages : List Stage := []
  /-- blocks not begun -/
  rest : List (List Stage) := []
  /-- the flush the program is blocked on -/
  waiting : Option Nat := none
  /-- number of blocks whose call has begun -/
  started : Nat := 0
  /-- number of blocks whose promise resolved -/
  resolvedBlocks : Nat := 0
deriving Repr

inductive PLabel where
  /-- the program makes one move -/
  | prog
  /-- the adversary: `run`, `succ` or `complete` -/
  | adv (l : Label)
deriving DecidableEq, Repr

def Label.isAdv : Label → Bool
  | .run _ => true
  | .succ _ => true
  | .complete _ => true
  | _ => false

def progStep (s : PSt) : Option PSt :=
  match s.waiting with
  | some f =>
    if flushDone s.q f then
      match s.stages with
      | st :: ss => some { s with waiting := none, cur := st, stages := ss, inStage := true }
      | [] => some { s with waiting := none, resolvedBlocks := s.resolvedBlocks + 1 }
    else none
  | none =>
    if s.inStage then
      match s.cur with
      | pd :: is => some { s with q := doSched s.q pd.1 pd.2, cur := is }
      | [] =>
        some { s with q := { s.q with flushes := s.q.flushes ++ [s.q.rxs], rxs := [] },
                      waiting := some s.q.flushes.length, inStage := false }
    else
      match s.rest with
      | [] => none
      | [] :: bs =>
        some { s with rest := bs, started := s.started + 1, resolvedBlocks := s.resolvedBlocks + 1 }
      | (st :: ss) :: bs =>
        some { s with cur := st, stages := ss, inStage := true, rest := bs, started := s.started + 1 }

def pstep (s : PSt) : PLabel → Option PSt
  | .prog => progStep s
  | .adv l =>
    if l.isAdv then
      match step s.q l with
      | some q' => some { s with q := q' }
      | none => none
    else none

def pexec (s : PSt) : List PLabel → Option PSt
  | [] => some s
  | l :: ls => match pstep s l with
    | none => none
    | some s' => pexec s' ls

/-! ## 4. commits and recovery -/

def manifestPath : Path := 0
def walPath : Path := 1

/-- what one `commit()` call hands to the persistence queue (block 0 is `init`: no files) -/
structure Commit where
  /-- log snapshots scheduled by `add_documents` before the call (never awaited on their own) -/
  pre : List Data := []
  /-- the files of the new segment, in the order they are scheduled -/
  files : List (Path × Data) := []
  manifest : Data
  /-- log snapshots scheduled after the manifest (commit marker, truncation) -/
  post : List Data := []
deriving DecidableEq, Repr

/-- the code as it exists: log, segment files, manifest, log — then one `flush` -/
def blockOf (c : Commit) : List Stage :=
  [c.pre.map (fun d => (walPath, d)) ++ c.files ++ [(manifestPath, c.manifest)] ++
    c.post.map (fun d => (walPath, d))]

/-- the repaired protocol: the files a manifest names are awaited before the manifest is
scheduled -/
def blockRepaired (c : Commit) : List Stage :=
  [c.pre.map (fun d => (walPath, d)) ++ c.files,
   (manifestPath, c.manifest) :: c.post.map (fun d => (walPath, d))]

def initP (cs : List Commit) (repaired : Bool) : PSt :=
  { q := { awaitComplete := repaired },
    rest := cs.map (if repaired then blockRepaired else blockOf) }

inductive Rec where
  /-- no manifest stored: `init` creates an empty index -/
  | fresh
  /-- the index opens with the contents of commit `k` -/
  | commit (k : Nat)
  /-- a manifest is stored but the index does not open -/
  | broken
deriving DecidableEq, Repr

def filesPresent (store : List (Path × Ver)) (fs : List (Path × Data)) : Bool :=
  fs.all (fun f => match aget f.1 store with
    | some v => decide (v.data = f.2)
    | none => false)

def findManifest (d : Data) : List Commit → Option Nat
  | [] => none
  | c :: cs => if c.manifest = d then some 0 else (findManifest d cs).map (· + 1)

/-- what `Searchlite::init` + a search find in a stored image: the manifest decides the
commit, every file named by it (the segments of all commits up to it) must be there -/
def recover (cs : List Commit) (store : List (Path × Ver)) : Rec :=
  match aget manifestPath store with
  | none => Rec.fresh
  | some v =>
    match findManifest v.data cs with
    | none => Rec.broken
    | some k =>
      if (cs.take (k + 1)).all (fun c => filesPresent store c.files) then Rec.commit k else Rec.broken

/-- replay of a completion log -/
def replay (done : List Op) : List (Path × Ver) := done.foldl applyOp []

/-- the monitored ordering hypothesis: in the completion log, a manifest completes only
after every file of its own and of all earlier commits (and segment files keep the contents
their commit gave them, nothing named by a commit is deleted) -/
def orderedFrom (cs : List Commit) : List (Path × Ver) → List Op → Bool
  | _, [] => true
  | s, o :: os =>
    let ok := match o with
      | .put p v =>
        if p = manifestPath then
          match findManifest v.data cs with
          | some k => (cs.take (k + 1)).all (fun c => filesPresent s c.files)
          | none => false
        else
          -- a segment file is only ever written with the contents its commit gave it
          cs.all (fun c => c.files.all (fun f => decide (f.1 ≠ p) || decide (f.2 = v.data)))
      | .del p => cs.all (fun c => c.files.all (fun f => decide (f.1 ≠ p))) && decide (p ≠ manifestPath)
    ok && orderedFrom cs (applyOp s o) os

def ordered (cs : List Commit) (done : List Op) : Bool := orderedFrom cs [] done

end SL.Idb
