import SLModel.Core.Wal
/-!
# Core/Integrity — what protects each index file against silent corruption
(`index/segment.rs::verify_checksums`, `index/terms.rs`, `index/manifest.rs`, `index/wal.rs`).

* The five files of a segment (`terms`, `postings`, `docstore`, `fast`, `meta`) carry a CRC-32 in
  the manifest's `checksums` map; `SegmentReader::open` recomputes each one that has an entry
  and then runs the file parsers.
* The manifest itself is JSON.  Repaired code: it carries a `checksum` member computed over the
  canonical serialisation of everything else; a manifest without the member (written by an
  older version) is accepted as it is.
* The write-ahead log is covered by `Core/Wal` (per-record checksum, intact-prefix recovery).
-/
namespace SL.Integrity
open SL.Wal

/-- one file of a segment as the reader sees it -/
structure FileView where
  name : String
  content : Option Bytes        -- `none`: the file is missing
deriving Repr

/-- `verify_checksums` + parsers for the files listed in `names`: every file must exist, match
its manifest checksum when the manifest has one for it, and be accepted by its parser -/
def openSegment (crc : Bytes → Bytes) (sums : String → Option Bytes) (parse : String → Bytes → Bool)
    (files : List FileView) : Bool :=
  files.all fun f =>
    match f.content with
    | none => false
    | some b =>
      (match sums f.name with
       | some c => crc b == c
       | none => true) && parse f.name b

/-- two byte strings that differ in exactly one position -/
def DiffOne (a b : Bytes) : Prop :=
  ∃ pre x y suf, x ≠ y ∧ a = pre ++ x :: suf ∧ b = pre ++ y :: suf

/-- the checksum detects every single-byte change (true of CRC-32: a burst of ≤ 32 bits) -/
def CrcDetects1 (crc : Bytes → Bytes) : Prop := ∀ a b, DiffOne a b → crc a ≠ crc b

/-- manifest file: body (everything but the checksum member, canonical bytes) and the optional
checksum member; `none` models JSON that does not parse -/
structure ManifestFile where
  body : Bytes
  sum : Option Bytes
deriving Repr

/-- repaired `Manifest::load`: verify the checksum member when present -/
def manifestLoad (crc : Bytes → Bytes) (parsed : Option ManifestFile) : Option Bytes :=
  match parsed with
  | none => none
  | some m =>
    match m.sum with
    | none => some m.body
    | some c => if crc m.body = c then some m.body else none

/-- original `Manifest::load`: whatever parses is used -/
def manifestLoadLegacy (parsed : Option ManifestFile) : Option Bytes := parsed.map (·.body)

end SL.Integrity
