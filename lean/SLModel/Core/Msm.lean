/-!
# Core/Msm — `resolve_minimum_should_match` (`searchlite-core/src/query/planner.rs`).
Import-free, executable.  The percentage arrives as the UTF-8 bytes of the JSON string.

```
if term_count == 0 { return Ok(None) }
let base = And ⇒ term_count | Or ⇒ 1;   no spec ⇒ Some(base)
Value(v)        ⇒ v.min(term_count)
Percentage(pct) ⇒ !pct.ends_with('%') ⇒ Err
                  &pct[..pct.len() - 1]            // (S) byte slice of a &str
                  .parse::<f32>() fails ⇒ Err;  !(0.0..=100.0).contains(&p) ⇒ Err
                  ((p / 100.0) * term_count as f32).ceil() as usize
Ok(Some(required.min(term_count)))
```

The `f32` parse is the parameter `parse` (bytes ↦ a percentage, or `none`); a percentage is
any type with a range test and the ceiling product (`PctOps`).  `decimal` is the concrete
instance for plain decimals `digits[.digits]`, computed exactly over the naturals.
-/
namespace SL.Msm

/-- UTF-8 continuation byte -/
def isCont (b : Nat) : Bool := 128 ≤ b && b < 192

/-- `str::is_char_boundary(i)` on the bytes of a `&str` -/
def isBoundary (bs : List Nat) (i : Nat) : Bool :=
  i == 0 || i == bs.length ||
    (match bs[i]? with
     | some b => !isCont b
     | none => false)

/-- `pct.ends_with('%')` -/
def endsWithPct (bs : List Nat) : Bool := bs.getLast? == some 37

/-- the slice (S): `none` models the panic of slicing a `&str` off a char boundary -/
def slicePct (bs : List Nat) : Option (List Nat) :=
  if isBoundary bs (bs.length - 1) then some (bs.take (bs.length - 1)) else none

inductive Spec where
  | value (v : Nat)
  | pct (bytes : List Nat)
deriving Repr, DecidableEq

/-- operations on a parsed percentage -/
structure PctOps (P : Type) where
  /-- `(0.0..=100.0).contains(&p)` -/
  inRange : P → Bool
  /-- `((p / 100.0) * n as f32).ceil() as usize` -/
  ceilOf : P → Nat → Nat

inductive Res where
  | ok (required : Option Nat)
  | err
  | panic
deriving Repr, DecidableEq

/-- `resolve_minimum_should_match(spec, term_count, op)`; `opAnd` = operator `and` -/
def resolve {P : Type} (ops : PctOps P) (parse : List Nat → Option P)
    (spec : Option Spec) (termCount : Nat) (opAnd : Bool) : Res :=
  if termCount == 0 then .ok none
  else
    match spec with
    | none => .ok (some (if opAnd then termCount else 1))
    | some (.value v) => .ok (some (min (min v termCount) termCount))
    | some (.pct bs) =>
      if !endsWithPct bs then .err
      else
        match slicePct bs with
        | none => .panic
        | some body =>
          match parse body with
          | none => .err
          | some p => if ops.inRange p then .ok (some (min (ops.ceilOf p termCount) termCount)) else .err

/-- an exact decimal `num / den` -/
structure Dec where
  num : Nat
  den : Nat
deriving Repr, DecidableEq

def digitsVal : List Nat → Option Nat
  | [] => some 0
  | ds => ds.foldl (fun acc d => match acc with
      | none => none
      | some a => if 48 ≤ d ∧ d ≤ 57 then some (a * 10 + (d - 48)) else none) (some 0)

def splitDot : List Nat → List Nat × Option (List Nat)
  | [] => ([], none)
  | c :: cs =>
    if c == 46 then ([], some cs)
    else
      let (a, b) := splitDot cs
      (c :: a, b)

/-- plain decimals `digits`, `digits.digits`, `digits.`, `.digits` (at least one digit) -/
def parseDec (bs : List Nat) : Option Dec :=
  let (ip, fp) := splitDot bs
  let frac := fp.getD []
  if ip.length + frac.length == 0 then none
  else
    match digitsVal ip, digitsVal frac with
    | some i, some f => some ⟨i * 10 ^ frac.length + f, 10 ^ frac.length⟩
    | _, _ => none

def ceilDiv (a b : Nat) : Nat := (a + b - 1) / b

/-- exact arithmetic on decimals: `p ≤ 100`, `⌈p · n / 100⌉` -/
def decimal : PctOps Dec where
  inRange := fun p => p.num ≤ 100 * p.den
  ceilOf := fun p n => ceilDiv (p.num * n) (100 * p.den)

end SL.Msm
