/-!
# Core/Paths — how segment file paths recorded in the manifest are resolved
(`index/directory.rs::segment_paths`, `index/manifest.rs`, users in `index/segment.rs`,
`index/mod.rs::cleanup_segments`, `api/writer.rs::load_live_docs`).

A path is a list of components.  The manifest records, for every segment file, the path it
was written at (`root ++ [name]`).  `resolve` is the repaired reading rule (re-anchor the file
name at the root the index is opened at); `resolveLegacy` is the original rule (use the
recorded path verbatim).
-/
namespace SL.Paths

abbrev Path := List String

def resolve (root : Path) (stored : Path) : Path :=
  match stored.getLast? with
  | some name => root ++ [name]
  | none => root

def resolveLegacy (_root : Path) (stored : Path) : Path := stored

/-- a directory tree as a partial map from paths to contents -/
abbrev Files (β : Type) := Path → Option β

/-- reading the files of a manifest (list of recorded paths) at `root` -/
def readAll {β : Type} (res : Path → Path → Path) (root : Path) (files : Files β) (manifest : List Path) :
    List (Option β) :=
  manifest.map fun p => files (res root p)

/-- the paths an operation touches when it reads or deletes the files of a manifest -/
def touched (res : Path → Path → Path) (root : Path) (manifest : List Path) : List Path :=
  manifest.map (res root)

end SL.Paths
