/-!
# Core/PlanLeaf — score-leaf allocation of the query planner and the per-segment
`term_weights` loop (`searchlite-core/src/query/planner.rs`: `QueryPlanBuilder::build_node`,
`build_query_plan`; `api/reader.rs`: `expand_term_groups`, `expand_term_for_group`, the
`term_weights` loop of `search_segment` (keyed by (key, leaf) since 458e503; the original
loop with its `debug_assert_eq!` is kept as `legacyTermWeights`); `query/wand.rs`: the
`assert!(term.leaf < buf.len())` of `brute_force` / `wand_loop`).  Import-free, executable.

Only what decides *leaf indices* is modelled: which nodes allocate a leaf, which leaf a term
group / field slot carries, which `(term key, leaf)` pairs reach `search_segment`.  Boosts,
matchers, phrases and the planner's error paths (`validate_boost`, …) are left out: a plan
that fails to build never reaches the assertions.  Atoms (`κ`: field names and terms, `K`:
term keys) are type parameters; the analysis + dictionary expansion of one (field, term,
expansion kind) into term keys is the parameter `keysOf`.
-/
namespace SL.PlanLeaf

/-- `MultiMatchType` -/
inductive MM where
  | best | most | cross
deriving Repr, DecidableEq

/-- `TermExpansion` (kind only) -/
inductive Exp where
  | exact | pre | wildcard | regex
deriving Repr, DecidableEq

/-- a parsed query-string term: optional explicit field, term text -/
structure QTerm (κ : Type) where
  field : Option κ
  term : κ
deriving Repr, DecidableEq

/-- `QueryNode`, reduced to what drives leaf allocation.  Query strings arrive parsed
(`parse_query` is a public function of the repository; the harness calls it). -/
inductive Q (κ : Type) where
  | matchAll
  | queryString (terms nots : List (QTerm κ)) (fields : Option (List κ))
  | multiMatch (kind : MM) (terms nots : List κ) (fields : List κ)
  | term (exp : Exp) (field value : κ)
  | phrase
  | bool (must should mustNot : List (Q κ))
  | disMax (qs : List (Q κ))
  | constantScore
  | rankFeature
  | functionScore (q : Q κ)
  | scriptScore (q : Q κ)
deriving Repr

/-- `FieldSpecInternal` (field, per-field leaf) -/
structure Slot (κ : Type) where
  field : κ
  leaf : Option Nat
deriving Repr, DecidableEq

/-- `TermGroupSpec` -/
structure Group (κ : Type) where
  fields : List (Slot κ)
  term : κ
  exp : Exp
  score : Bool
  leaf : Option Nat
deriving Repr, DecidableEq

/-- `ScoreExpr` -/
inductive SE where
  | leaf (n : Nat)
  | sum (cs : List SE)
  | disMax (cs : List SE)
deriving Repr

mutual
/-- every leaf index mentioned by a score expression -/
def SE.leaves : SE → List Nat
  | .leaf n => [n]
  | .sum cs => SE.leavesL cs
  | .disMax cs => SE.leavesL cs
def SE.leavesL : List SE → List Nat
  | [] => []
  | c :: cs => c.leaves ++ SE.leavesL cs
end

/-- `ScoreExpr::max_leaf` -/
def SE.maxLeaf (e : SE) : Option Nat :=
  match e.leaves with
  | [] => none
  | l => some (l.foldl max 0)

/-- builder state: `next_leaf_idx`, `term_groups` (in push order) -/
structure St (κ : Type) where
  next : Nat
  groups : List (Group κ)
deriving Repr

def St.empty {κ : Type} : St κ := ⟨0, []⟩

/-- `score.then(|| self.alloc_leaf())` -/
def allocIf {κ : Type} (score : Bool) (st : St κ) : St κ × Option Nat :=
  if score then (⟨st.next + 1, st.groups⟩, some st.next) else (st, none)

def push {κ : Type} (st : St κ) (g : Group κ) : St κ := ⟨st.next, st.groups ++ [g]⟩

/-- none / the single element / the combination — how every composite node folds its parts -/
def fold1 (mk : List SE → SE) : List SE → Option SE
  | [] => none
  | [e] => some e
  | es => some (mk es)

/-- field slots of one query-string term: its explicit field, else the base fields -/
def termFields {κ : Type} (base : List (Slot κ)) (t : QTerm κ) : List (Slot κ) :=
  match t.field with
  | some f => [⟨f, none⟩]
  | none => base

/-- query-string terms: one leaf and one group per term -/
def qsTerms {κ : Type} (base : List (Slot κ)) (score : Bool) :
    List (QTerm κ) → St κ → St κ × List SE
  | [], st => (st, [])
  | t :: ts, st =>
    let (st1, leaf) := allocIf score st
    let st2 := push st1 ⟨termFields base t, t.term, .exact, score, leaf⟩
    let (st3, es) := qsTerms base score ts st2
    (st3, (match leaf with | some l => [SE.leaf l] | none => []) ++ es)

/-- negated query-string terms: unscored groups without leaf -/
def qsNots {κ : Type} (base : List (Slot κ)) : List (QTerm κ) → St κ → St κ
  | [], st => st
  | t :: ts, st =>
    qsNots base ts (push st ⟨termFields base t, t.term, .exact, false, none⟩)

/-- best_fields: one leaf per listed field, allocated whatever `score` says -/
def bestSlots {κ : Type} : List κ → St κ → St κ × List (Slot κ)
  | [], st => (st, [])
  | f :: fs, st =>
    let (st', slots) := bestSlots fs ⟨st.next + 1, st.groups⟩
    (st', ⟨f, some st.next⟩ :: slots)

def pushTerms {κ : Type} (slots : List (Slot κ)) (score : Bool) (leaf : Option Nat) :
    List κ → St κ → St κ
  | [], st => st
  | t :: ts, st => pushTerms slots score leaf ts (push st ⟨slots, t, .exact, score, leaf⟩)

mutual
/-- `build_node(node, score, _)`: new state and the node's score expression -/
def build {κ : Type} (dflt : List κ) (score : Bool) : Q κ → St κ → St κ × Option SE
  | .matchAll, st => (st, none)
  | .queryString terms nots fields, st =>
    let base : List (Slot κ) := ((fields.getD dflt).map fun f => ⟨f, none⟩)
    let (st1, es) := qsTerms base score terms st
    let st2 := qsNots base nots st1
    (st2, fold1 .sum es)
  | .multiMatch .best terms nots fields, st =>
    let (st1, slots) := bestSlots fields st
    let es := slots.filterMap fun s => s.leaf.map SE.leaf
    let st2 := pushTerms slots score none terms st1
    let st3 := pushTerms slots false none nots st2
    (st3, if es.isEmpty then none else some (.disMax es))
  | .multiMatch _ terms nots fields, st =>
    let (st1, leaf) := allocIf score st
    let slots : List (Slot κ) := fields.map fun f => ⟨f, leaf⟩
    let st2 := pushTerms slots score leaf terms st1
    let st3 := pushTerms slots false none nots st2
    (st3, leaf.map SE.leaf)
  | .term exp field value, st =>
    let (st1, leaf) := allocIf score st
    (push st1 ⟨[⟨field, none⟩], value, exp, score, leaf⟩, leaf.map SE.leaf)
  | .phrase, st => (st, none)
  | .bool must should mustNot, st =>
    let (st1, e1) := buildList dflt score must st
    let (st2, e2) := buildList dflt score should st1
    let (st3, e3) := buildList dflt false mustNot st2
    (st3, fold1 .sum (e1 ++ e2 ++ e3))
  | .disMax qs, st =>
    let (st1, es) := buildList dflt score qs st
    (st1, fold1 .disMax es)
  | .constantScore, st => (st, none)
  | .rankFeature, st => (st, none)
  | .functionScore q, st => build dflt score q st
  | .scriptScore q, st => build dflt score q st
def buildList {κ : Type} (dflt : List κ) (score : Bool) : List (Q κ) → St κ → St κ × List SE
  | [], st => (st, [])
  | q :: qs, st =>
    let (st1, e) := build dflt score q st
    let (st2, es) := buildList dflt score qs st1
    (st2, (match e with | some x => [x] | none => []) ++ es)
end

/-- `QueryPlan` (leaf part): groups, scorer, `ScorePlan.leaf_count` -/
structure Plan (κ : Type) where
  groups : List (Group κ)
  scorer : Option SE
  /-- `builder.leaf_count().max(max_leaf + 1)`; only meaningful when `scorer` is `some` -/
  leafCount : Nat
deriving Repr

/-- `build_query_plan` -/
def plan {κ : Type} (dflt : List κ) (q : Q κ) : Plan κ :=
  let r := build dflt true q St.empty
  let lc := match r.2 with
    | some x => (match x.maxLeaf with | some m => max r.1.next (m + 1) | none => r.1.next)
    | none => r.1.next
  ⟨r.1.groups, r.2, lc⟩

/-- leaf a field slot of a group scores into: `field.leaf.or(group.leaf)` -/
def targetLeaf {κ : Type} (g : Group κ) (s : Slot κ) : Option Nat := s.leaf.orElse fun _ => g.leaf

/-- the `(key, leaf)` pairs of `QualifiedTerm`s one group contributes (`expand_term_groups` +
`expand_term_for_group`): nothing unless the group scores and the slot has a leaf -/
def groupQuals {κ K : Type} (keysOf : κ → κ → Exp → List K) (g : Group κ) : List (K × Nat) :=
  if g.score then
    g.fields.flatMap fun s =>
      match targetLeaf g s with
      | none => []
      | some l => (keysOf s.field g.term g.exp).map fun k => (k, l)
  else []

def qualified {κ K : Type} (keysOf : κ → κ → Exp → List K) (groups : List (Group κ)) : List (K × Nat) :=
  groups.flatMap (groupQuals keysOf)

/-- all leaves a group can hand to a scored term -/
def groupLeaves {κ : Type} (g : Group κ) : List Nat :=
  g.fields.filterMap (targetLeaf g)

def lookup {K : Type} [DecidableEq K] (k : K) : List (K × Nat) → Option Nat
  | [] => none
  | (k', l) :: r => if k' = k then some l else lookup k r

/-- the ORIGINAL `term_weights` loop of `search_segment` (before /repo commit 458e503):
`entry(key).or_insert(.., leaf)` followed by `debug_assert_eq!(entry.leaf, term.leaf)`.
`none` = the assertion fails (panic with debug assertions on).  Kept as the mechanism model of
the original defect. -/
def legacyTermWeights {K : Type} [DecidableEq K] : List (K × Nat) → List (K × Nat) → Option (List (K × Nat))
  | m, [] => some m
  | m, (k, l) :: r =>
    match lookup k m with
    | none => legacyTermWeights (m ++ [(k, l)]) r
    | some l' => if l' = l then legacyTermWeights m r else none

/-- the `term_weights` loop as it is now: the map is keyed by `(term key, leaf)`, there is no
assertion; the result lists the `(key, leaf)` of the `ScoredTerm`s (first-occurrence order;
the code's order is the hash map's) -/
def termWeights {K : Type} [DecidableEq K] : List (K × Nat) → List (K × Nat) → List (K × Nat)
  | m, [] => m
  | m, q :: r => if m.contains q then termWeights m r else termWeights (m ++ [q]) r

/-- one term key ↦ one leaf -/
def functional {K : Type} [DecidableEq K] (qts : List (K × Nat)) : Bool :=
  qts.all fun a => qts.all fun b => if a.1 = b.1 then a.2 == b.2 else true

/-- the `assert!` of `brute_force` / `wand_loop`: every scored term's leaf indexes the
`leaf_count`-sized buffer (checked only when a `ScorePlan` exists) -/
def leavesInRange {K : Type} (scorer : Option SE) (leafCount : Nat) (qts : List (K × Nat)) : Bool :=
  match scorer with
  | none => true
  | some _ => qts.all fun q => q.2 < leafCount

/-- scoring slots of the plan: (leaf, term keys) of every (group, field) that scores -/
def slots {κ K : Type} (keysOf : κ → κ → Exp → List K) (groups : List (Group κ)) : List (Nat × List K) :=
  groups.flatMap fun g =>
    if g.score then
      g.fields.filterMap fun s => (targetLeaf g s).map fun l => (l, keysOf s.field g.term g.exp)
    else []

/-- no term key is produced by two scoring slots that carry different leaves -/
def slotsDisjoint {K : Type} [DecidableEq K] (sl : List (Nat × List K)) : Bool :=
  sl.all fun a => sl.all fun b => a.1 == b.1 || a.2.all fun k => !b.2.contains k

/-- what the assertions of the scoring path do on one segment for a request (`qts` non-empty
⇒ the loop runs).  `inconsistentLeaf` can only come out of the legacy loop. -/
inductive Verdict where
  | fine
  | inconsistentLeaf
  | leafOutOfRange
deriving Repr, DecidableEq

/-- the original code: the `debug_assert_eq!` of the loop, then the `assert!` of wand -/
def legacySegmentVerdict {κ K : Type} [DecidableEq K] (keysOf : κ → κ → Exp → List K) (p : Plan κ) : Verdict :=
  let qts := qualified keysOf p.groups
  match legacyTermWeights [] qts with
  | none => .inconsistentLeaf
  | some _ => if leavesInRange p.scorer p.leafCount qts then .fine else .leafOutOfRange

/-- the code as it is now: only the `assert!` of `brute_force` / `wand_loop` is left, checked
on the scored terms the loop produces -/
def segmentVerdict {κ K : Type} [DecidableEq K] (keysOf : κ → κ → Exp → List K) (p : Plan κ) : Verdict :=
  let scored := termWeights [] (qualified keysOf p.groups)
  if leavesInRange p.scorer p.leafCount scored then .fine else .leafOutOfRange

end SL.PlanLeaf
