/-!
# Core/Post — model of what `IndexReader::search` does *after* matching and scoring
(`searchlite-core/src/api/reader.rs`: `search`, `push_ranked`, `rescore_hits`,
`combine_rescore_scores`, `collapse_hits`, `resort_hits`, `collapse_value`; the `accept`
closures of `search_segment`/`scan_segment`; `query/sort.rs`: `SortKey::cmp`,
`SortKeyPart::cmp`).  Import-free, executable.

Matching, filtering and scoring are *inputs* (DESIGN §3.2): the model receives the list of
matching live documents, each with its initial score, its fast-field sort values, its collapse
value and the outcome of the rescore query on it.  Everything after that is modelled:

* the sort key comparator (parts by plan order, `Missing` last, then segment, then document);
* which hits are **fetched** before post-processing — the mechanism of the code, not the full
  ranking: per-segment top `k` on the score fast path, a shared heap of `k` otherwise, *every*
  accepted document when `explain` is set and the sort is not the score fast path
  (`k = max(limit, candidate_size, rescore.window_size) + 1`; `legacySearch` is the code before
  /repo 089be57, whose `k` ignored the rescore window);
* the score mode: scores are always computed (since /repo 8218789, a5f1a65; `legacyScoreSearch`
  keeps the old rule: only under a score sort, custom scoring or explain, else every hit carries 0);
* the cursor test of the `accept` step (hits and `total_hits` only see documents after the cursor;
  since /repo 5e540f6 the aggregation collectors are fed *before* it — `legacyAggSearch` keeps the
  old order);
* `rescore_hits` (window, combination per mode, `None` = removed, re-sort of the surviving window
  hits; `legacyRescore` = before /repo 87dca91: re-sort of the first `window_size` of what is left);
* explanation bookkeeping (`final_score`);
* `collapse_hits` (group order = first occurrence, representative = key-least, inner hits);
* truncation to `limit` and the look-ahead that decides `next_cursor`;
* aggregations as functions of the *collected* documents (a terms count over the collapse
  value and a value count, enough to observe which documents were collected).

`Spec.*` is the same pipeline over the full ranking — what the property statements talk about.
-/
namespace SL.Post

/-! ## scores -/

/-- the operations of the score type the model needs (`f32` in the code: `total_cmp`, `+`, `*`) -/
structure ScoreOps (S : Type) where
  lt  : S → S → Bool
  add : S → S → S
  mul : S → S → S
  /-- the score every hit carries when scores are not computed (`ScoreMode::MatchOnly`) -/
  zero : S

def ScoreOps.max {S : Type} (o : ScoreOps S) (a b : S) : S := if o.lt a b then b else a
def ScoreOps.min {S : Type} (o : ScoreOps S) (a b : S) : S := if o.lt b a then b else a

/-- integer scores: used by the `decide` witnesses -/
def intOps : ScoreOps Int := ⟨fun a b => decide (a < b), (· + ·), (· * ·), 0⟩

/-- `RescoreMode` -/
inductive Mode where
  | total | multiply | sum | max | min
deriving DecidableEq, Repr

/-- `combine_rescore_scores` -/
def combine {S : Type} (o : ScoreOps S) : Mode → S → S → S
  | .total, a, r => o.add a r
  | .sum, a, r => o.add a r
  | .multiply, a, r => o.mul a r
  | .max, a, r => o.max a r
  | .min, a, r => o.min a r

/-! ## hits -/

/-- what the rescore query does with one document (`rescore_hits`, inner loop) -/
inductive Resc (S : Type) where
  /-- `query_eval.matches` is false: the hit keeps its score -/
  | noMatch
  /-- `evaluate_compiled_score` returned `None` (`function_score.min_score`): the hit is removed -/
  | rejected
  /-- the rescore query's score -/
  | val (s : S)
deriving DecidableEq, Repr

/-- the part of `HitExplanation` this model tracks -/
structure Expl (S : Type) where
  /-- `(rescore_score, combined_score)` -/
  resc : Option (S × S)
  final : S
deriving DecidableEq, Repr

structure Hit (S : Type) where
  /-- `segment_ord` -/
  seg : Nat
  /-- document number; `(seg, doc)` identifies a hit and is the last tie-break of every key -/
  doc : Nat
  score : S
  /-- fast-field sort values by field index; `none` = `SortValue::Missing` -/
  flds : List (Option Int)
  /-- `collapse_value`: `none` = the document has no value in the collapse field -/
  grp : Option Nat
  resc : Resc S
  expl : Option (Expl S)
deriving DecidableEq, Repr

/-- identity of a hit -/
def Hit.id {S : Type} (h : Hit S) : Nat × Nat := (h.seg, h.doc)

/-! ## sort keys (`query/sort.rs`) -/

inductive SortField where
  | score
  | fld (i : Nat)
deriving DecidableEq, Repr

structure SortSpec where
  field : SortField
  desc : Bool
deriving DecidableEq, Repr

abbrev Plan := List SortSpec

/-- `SortPlan::uses_score` -/
def usesScore (p : Plan) : Bool := p.any fun sp => sp.field == .score

/-- `score_fast_path`: `is_score_only() && primary_order() == Desc` -/
def isFast (p : Plan) : Bool := p == [⟨.score, true⟩]

def flip (desc : Bool) (o : Ordering) : Ordering :=
  if desc then (match o with | .lt => .gt | .gt => .lt | .eq => .eq) else o

/-- `compare_f32` -/
def cmpS {S : Type} (o : ScoreOps S) (desc : Bool) (a b : S) : Ordering :=
  flip desc (if o.lt a b then .lt else if o.lt b a then .gt else .eq)

/-- `compare_ord` on integers (keyword ranks, i64 values, f64 total-order keys) -/
def cmpI (desc : Bool) (a b : Int) : Ordering :=
  flip desc (if a < b then .lt else if b < a then .gt else .eq)

/-- `SortKeyPart::cmp` for a fast-field part: `Missing` is last whatever the order -/
def cmpOpt (desc : Bool) : Option Int → Option Int → Ordering
  | none, none => .eq
  | none, some _ => .gt
  | some _, none => .lt
  | some a, some b => cmpI desc a b

def partCmp {S : Type} (o : ScoreOps S) (sp : SortSpec) (a b : Hit S) : Ordering :=
  match sp.field with
  | .score => cmpS o sp.desc a.score b.score
  | .fld i => cmpOpt sp.desc (a.flds.getD i none) (b.flds.getD i none)

def cmpN (a b : Nat) : Ordering := if a < b then .lt else if b < a then .gt else .eq

/-- `SortKey::cmp`: the parts in plan order, then segment, then document -/
def planCmp {S : Type} (o : ScoreOps S) : Plan → Hit S → Hit S → Ordering
  | [], a, b => (match cmpN a.seg b.seg with | .eq => cmpN a.doc b.doc | r => r)
  | sp :: r, a, b => (match partCmp o sp a b with | .eq => planCmp o r a b | x => x)

/-- "`a`'s key is smaller than `b`'s" -/
def klt {S : Type} (o : ScoreOps S) (p : Plan) (a b : Hit S) : Bool :=
  planCmp o p a b == .lt

/-! ## sorting (structural, so that `decide` reduces it) -/

section Sorting
variable {α : Type}

def ins (lt : α → α → Bool) (x : α) : List α → List α
  | [] => [x]
  | y :: ys => if lt x y then x :: y :: ys else y :: ins lt x ys

def isort (lt : α → α → Bool) : List α → List α
  | [] => []
  | x :: xs => ins lt x (isort lt xs)

/-- first occurrences, in order (`order` in `collapse_hits`) -/
def dedup : List Nat → List Nat
  | [] => []
  | x :: xs => x :: (dedup xs).filter (fun y => y != x)

end Sorting

/-! ## fetching (which hits reach post-processing) -/

section Pipeline
variable {S : Type}

/-- `push_ranked`/`push_top_k` with limit `k`, then sorted: the `k` key-least -/
def topK (lt : Hit S → Hit S → Bool) (k : Nat) (l : List (Hit S)) : List (Hit S) :=
  (isort lt l).take k

/-- the hits that exist after the segment loop and `hits.sort_by(key)`:
* score fast path: each segment ranks its own `k` best (`rank_limit = top_k`);
* otherwise without `explain`: one heap of `k` shared by all segments (`collect_hits`);
* otherwise with `explain`: `rank_limit = seg.live_docs()` — every accepted document. -/
def fetch (lt : Hit S → Hit S → Bool) (fast explain : Bool) (k nseg : Nat) (l : List (Hit S)) :
    List (Hit S) :=
  if fast then
    isort lt ((List.range nseg).flatMap fun s => topK lt k (l.filter fun h => h.seg == s))
  else if explain then isort lt l
  else topK lt k l

/-! ## rescoring (`rescore_hits`) -/

def applyResc (o : ScoreOps S) (mode : Mode) (explain : Bool) (h : Hit S) : Option (Hit S) :=
  match h.resc with
  | .noMatch => some h
  | .rejected => none
  | .val r =>
    let c := combine o mode h.score r
    some { h with score := c, expl := if explain then some ⟨some (r, c), c⟩ else h.expl }

/-- the code (since /repo 87dca91): the window is `min w len`; rejected hits are removed from the
vector; then the leading `window − |removed|` hits — exactly the surviving window hits — are
sorted -/
def rescore (o : ScoreOps S) (lt : Hit S → Hit S → Bool) (mode : Mode) (explain : Bool) (w : Nat)
    (hits : List (Hit S)) : List (Hit S) :=
  if min w hits.length = 0 then hits
  else
    let win := (hits.take w).filterMap (applyResc o mode explain)
    let kept := win ++ hits.drop w
    isort lt (kept.take win.length) ++ kept.drop win.length

/-- the code before /repo 87dca91: after the removals the first `min w len'` of **what is left**
were sorted — that prefix reached into hits that were never rescored -/
def legacyRescore (o : ScoreOps S) (lt : Hit S → Hit S → Bool) (mode : Mode) (explain : Bool) (w : Nat)
    (hits : List (Hit S)) : List (Hit S) :=
  if min w hits.length = 0 then hits
  else
    let kept := (hits.take w).filterMap (applyResc o mode explain) ++ hits.drop w
    isort lt (kept.take w) ++ kept.drop w

/-- the statement's reading: the window is rescored, filtered and sorted; the rest follows -/
def rescoreSpec (o : ScoreOps S) (lt : Hit S → Hit S → Bool) (mode : Mode) (explain : Bool) (w : Nat)
    (hits : List (Hit S)) : List (Hit S) :=
  isort lt ((hits.take w).filterMap (applyResc o mode explain)) ++ hits.drop w

/-! ## explanation bookkeeping -/

/-- the `if req.explain` loop after rescoring -/
def setFinal (h : Hit S) : Hit S :=
  { h with expl := some (match h.expl with
      | some e => { e with final := h.score }
      | none => ⟨none, h.score⟩) }

/-! ## collapse (`collapse_hits`) -/

/-- `inner_hits`: from, size -/
structure InnerCfg where
  from_ : Nat
  size : Option Nat
deriving DecidableEq, Repr

def innerOf (ilt : Hit S → Hit S → Bool) (cfg : Option InnerCfg) (same : Bool) (rest : List (Hit S)) :
    List (Hit S) :=
  match cfg with
  | none => []
  | some c =>
    let l := if same then rest else isort ilt rest
    let l := l.drop c.from_
    match c.size with
    | none => l
    | some n => l.take n

/-- members of group `g`, in list order -/
def members (g : Nat) (hits : List (Hit S)) : List (Hit S) := hits.filter fun h => h.grp == some g

/-- `lt`: main sort, `ilt`: inner sort, `same`: the two plans have the same hash -/
def collapse (lt ilt : Hit S → Hit S → Bool) (cfg : Option InnerCfg) (same : Bool) (hits : List (Hit S)) :
    List (Hit S × List (Hit S)) :=
  (dedup (hits.filterMap (·.grp))).filterMap fun g =>
    match isort lt (members g hits) with
    | [] => none
    | top :: rest => some (top, innerOf ilt cfg same rest)

/-! ## aggregations: functions of the collected documents -/

def countOf (g : Nat) (l : List (Hit S)) : Nat := (members g l).length

/-- terms aggregation over the collapse field: `(value, doc_count)`, by value -/
def aggTerms (l : List (Hit S)) : List (Nat × Nat) :=
  (isort (fun a b => decide (a < b)) (dedup (l.filterMap (·.grp)))).map fun g => (g, countOf g l)

/-- value count over sort field `i` -/
def aggCount (i : Nat) (l : List (Hit S)) : Nat := (l.filter fun h => (h.flds.getD i none).isSome).length

/-! ## the request and the response -/

structure RescoreReq where
  window : Nat
  mode : Mode
deriving DecidableEq, Repr

structure CollapseReq where
  /-- inner plan, from, size -/
  inner : Option (Plan × InnerCfg)
deriving DecidableEq, Repr

structure Req (S : Type) where
  plan : Plan
  limit : Nat
  cand : Option Nat
  returnHits : Bool
  explain : Bool
  profile : Bool
  /-- `needs_score_hook`: the query has custom scoring (function_score, constant_score, …) -/
  hook : Bool
  nseg : Nat
  /-- key of the last hit of the previous page, hits returned so far -/
  cursor : Option (Hit S × Nat)
  rescore : Option RescoreReq
  collapse : Option CollapseReq
  /-- field counted by the value-count aggregation -/
  aggField : Nat

structure Resp (S : Type) where
  hits : List (Hit S × List (Hit S))
  total : Nat
  totalGroups : Option Nat
  /-- the hit whose key goes into `next_cursor` -/
  next : Option (Hit S)
  aggTerms : List (Nat × Nat)
  aggCount : Nat
  profile : Bool

def maxCandidate : Nat := 20000

/-- `rescore.window_size` (0 without rescore) -/
def windowOf (r : Req S) : Nat :=
  match r.rescore with
  | none => 0
  | some rr => rr.window

/-- `top_k` = `base_candidate + 1`, `base_candidate = max(candidate_size or limit, limit,
rescore.window_size).min(MAX_CANDIDATE_SIZE)` (since /repo 089be57 the rescore window is part of
the maximum) -/
def topKOf (r : Req S) : Nat :=
  if r.returnHits then (min (max (max (r.cand.getD r.limit) r.limit) (windowOf r)) maxCandidate) + 1 else 0

/-- `top_k` before /repo 089be57: the rescore window did not count -/
def topKOfLegacy (r : Req S) : Nat :=
  if r.returnHits then (min (max (r.cand.getD r.limit) r.limit) maxCandidate) + 1 else 0

/-- the `accept` closure's cursor test: keys `≤` the cursor are skipped -/
def afterCursor (lt : Hit S → Hit S → Bool) (c : Option (Hit S × Nat)) (l : List (Hit S)) : List (Hit S) :=
  match c with
  | none => l
  | some (k, _) => l.filter fun h => lt k h

def returned (c : Option (Hit S × Nat)) : Nat :=
  match c with
  | none => 0
  | some (_, n) => n

/-- rescoring step; `resc` is the rescoring function (mechanism `rescore o` or `rescoreSpec o`) -/
def rescored (o : ScoreOps S) (r : Req S)
    (resc : (Hit S → Hit S → Bool) → Mode → Bool → Nat → List (Hit S) → List (Hit S))
    (ranked : List (Hit S)) : List (Hit S) :=
  match r.rescore with
  | none => ranked
  | some rr => resc (klt o r.plan) rr.mode r.explain rr.window ranked

/-- the `if req.explain` loop -/
def explained (r : Req S) (l : List (Hit S)) : List (Hit S) :=
  if r.explain then l.map setFinal else l

/-- collapse step (or every hit on its own, without inner hits) -/
def grouped (o : ScoreOps S) (r : Req S) (l : List (Hit S)) : List (Hit S × List (Hit S)) :=
  match r.collapse with
  | none => l.map fun h => (h, [])
  | some c =>
    match c.inner with
    | none => collapse (klt o r.plan) (klt o r.plan) none true l
    | some (ip, cfg) => collapse (klt o r.plan) (klt o ip) (some cfg) (ip == r.plan) l

/-- what is returned of the grouped hits: the page, `total_groups`, the hit behind `next_cursor` -/
def page (r : Req S) (gs : List (Hit S × List (Hit S))) :
    List (Hit S × List (Hit S)) × Option Nat × Option (Hit S) :=
  (gs.take r.limit,
   (match r.collapse with | none => none | some _ => some gs.length),
   if gs.length > r.limit then (gs.take r.limit).getLast?.map (·.1) else none)

/-- everything after `hits.sort_by(key)`: rescoring, explanations, collapse, truncation -/
def post (o : ScoreOps S) (r : Req S)
    (resc : (Hit S → Hit S → Bool) → Mode → Bool → Nat → List (Hit S) → List (Hit S))
    (ranked : List (Hit S)) : List (Hit S × List (Hit S)) × Option Nat × Option (Hit S) :=
  page r (grouped o r (explained r (rescored o r resc ranked)))

/-- `score_mode` in `search_segment` / `default_score` in `scan_segment` **before** /repo 8218789
and a5f1a65: scores were computed only when the sort uses `_score`, the query has custom scoring,
or `explain` is set; otherwise every accepted document carried the score 0 -/
def scoresComputedLegacy (r : Req S) : Bool := usesScore r.plan || r.hook || r.explain

/-- the current rule (`search_segment`, /repo 8218789): `ScoreMode::Score` whenever
`uses_score || needs_score_hook || explain || return_hits || agg_collector.is_some()`; `search`
attaches a collector (the aggregations or the no-op one) whenever `return_hits` is false, and
`scan_segment`'s default score no longer depends on the sort (a5f1a65).  So scores are always
computed (`scoresComputed_true` in `Lemmas/Post`). -/
def scoresComputed (r : Req S) : Bool :=
  usesScore r.plan || r.hook || r.explain || r.returnHits || !r.returnHits

def seen (o : ScoreOps S) (r : Req S) (h : Hit S) : Hit S :=
  if scoresComputed r then h else { h with score := o.zero }

/-- the code; `matched` carries the true scores -/
def search (o : ScoreOps S) (r : Req S) (matched0 : List (Hit S)) : Resp S :=
  let lt := klt o r.plan
  let matched := matched0.map (seen o r)
  let after := afterCursor lt r.cursor matched
  let p :=
    if r.returnHits then
      post o r (rescore o) (fetch lt (isFast r.plan) r.explain (topKOf r) r.nseg after)
    else ([], none, none)
  { hits := p.1, total := after.length + returned r.cursor, totalGroups := p.2.1, next := p.2.2,
    aggTerms := aggTerms matched, aggCount := aggCount r.aggField matched, profile := r.profile }

/-- the code before /repo 5e540f6: the collectors were fed *after* the cursor test of the same
`accept` step, so on a cursor page they only saw the documents after the cursor; kept for the
`legacy_…` witness -/
def legacyAggSearch (o : ScoreOps S) (r : Req S) (matched0 : List (Hit S)) : Resp S :=
  let lt := klt o r.plan
  let matched := matched0.map (seen o r)
  let after := afterCursor lt r.cursor matched
  let p :=
    if r.returnHits then
      post o r (rescore o) (fetch lt (isFast r.plan) r.explain (topKOf r) r.nseg after)
    else ([], none, none)
  { hits := p.1, total := after.length + returned r.cursor, totalGroups := p.2.1, next := p.2.2,
    aggTerms := aggTerms after, aggCount := aggCount r.aggField after, profile := r.profile }

/-- the hit as the code before /repo 8218789 / a5f1a65 saw it -/
def seenLegacy (o : ScoreOps S) (r : Req S) (h : Hit S) : Hit S :=
  if scoresComputedLegacy r then h else { h with score := o.zero }

/-- the code before /repo 8218789 / a5f1a65 (scores only under a score sort, custom scoring or
explain); kept for the `legacy_…` witnesses that document the repaired defect -/
def legacyScoreSearch (o : ScoreOps S) (r : Req S) (matched0 : List (Hit S)) : Resp S :=
  let lt := klt o r.plan
  let matched := matched0.map (seenLegacy o r)
  let after := afterCursor lt r.cursor matched
  let p :=
    if r.returnHits then
      post o r (rescore o) (fetch lt (isFast r.plan) r.explain (topKOf r) r.nseg after)
    else ([], none, none)
  { hits := p.1, total := after.length + returned r.cursor, totalGroups := p.2.1, next := p.2.2,
    aggTerms := aggTerms after, aggCount := aggCount r.aggField after, profile := r.profile }

/-- the code before /repo 089be57 (fetch depth without the rescore window); kept for the
`legacy_…` witnesses that document the repaired defect -/
def legacySearch (o : ScoreOps S) (r : Req S) (matched0 : List (Hit S)) : Resp S :=
  let lt := klt o r.plan
  let matched := matched0.map (seen o r)
  let after := afterCursor lt r.cursor matched
  let p :=
    if r.returnHits then
      post o r (rescore o) (fetch lt (isFast r.plan) r.explain (topKOfLegacy r) r.nseg after)
    else ([], none, none)
  { hits := p.1, total := after.length + returned r.cursor, totalGroups := p.2.1, next := p.2.2,
    aggTerms := aggTerms after, aggCount := aggCount r.aggField after, profile := r.profile }

namespace Spec

/-- the statements' reading: post-processing sees the full ranking after the cursor,
aggregations see every matching document -/
def search (o : ScoreOps S) (r : Req S) (matched : List (Hit S)) : Resp S :=
  let lt := klt o r.plan
  let after := afterCursor lt r.cursor matched
  let p :=
    if r.returnHits then post o r (rescoreSpec o) (isort lt after) else ([], none, none)
  { hits := p.1, total := after.length + returned r.cursor, totalGroups := p.2.1, next := p.2.2,
    aggTerms := aggTerms matched, aggCount := aggCount r.aggField matched, profile := r.profile }

end Spec

/-- a response without `explanation`s and `profile` -/
def stripHit (h : Hit S) : Hit S := { h with expl := none }

def strip (r : Resp S) : Resp S :=
  { r with hits := r.hits.map (fun p => (stripHit p.1, p.2.map stripHit)),
           next := r.next.map stripHit, profile := false }

end Pipeline

end SL.Post
