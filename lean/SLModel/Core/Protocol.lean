/-!
# Core/Protocol — the commit protocol of `IndexWriter::commit` (`api/writer.rs`) as labelled
storage steps with its error branch, executed under injected storage faults.

Every step may fail *before* its effect (nothing happened) or *after* it (the effect took place
but the call reported an error).  What is tracked is exactly what the property talks about:
which contents the process serves (`memC`), which contents the manifest on disk holds (`diskC`),
whether that manifest refers to the new segment files and whether those exist, what the log
holds, whether the handle still has its queue, and what the call returned.

`repaired = true` is the code after the two repairs (a failed log truncation after publication
no longer fails the commit; new segment files are only cleaned up when the manifest restore
succeeded); `repaired = false` is the original control flow.
-/
namespace SL.Protocol

inductive Phase where
  | before | after
deriving DecidableEq, Repr

/-- storage steps in program order; the second group is the error branch -/
inductive Step where
  | walSync | writeSegment
  | storeTmp | storePreSync | storeRename | storeDirSync
  | appendMarker | syncMarker
  | truncSetLen | truncSync
  | errTruncSetLen | errTruncSync
  | restoreTmp | restorePreSync | restoreRename | restoreDirSync
  | cleanup
deriving DecidableEq, Repr

structure Fault where
  step : Step
  phase : Phase
deriving DecidableEq, Repr

/-- which committed contents: before the commit or its complete result -/
inductive C where
  | pre | post
deriving DecidableEq, Repr

structure St where
  memC : C
  diskC : C
  diskRefsNew : Bool
  newFiles : Bool
  walOps : Bool
  walMarker : Bool
  queue : Bool
  ret : Option Bool
deriving DecidableEq, Repr

/-- state in which `commit` is called with a non-empty queue -/
def init : St := ⟨.pre, .pre, false, false, true, false, true, none⟩

/-- one step under the fault set: new state and whether the step reported failure -/
def attempt (fs : List Fault) (s : Step) (effect : St → St) (st : St) : St × Bool :=
  if fs.contains ⟨s, .before⟩ then (st, true)
  else
    let st' := effect st
    if fs.contains ⟨s, .after⟩ then (st', true) else (st', false)

/-- run steps until the first failure -/
def runSteps (fs : List Fault) : List (Step × (St → St)) → St → St × Bool
  | [], st => (st, false)
  | (s, e) :: rest, st =>
    let r := attempt fs s e st
    if r.2 then (r.1, true) else runSteps fs rest r.1

def storeSteps (to : C) (refsNew : Bool) (a b c d : Step) : List (Step × (St → St)) :=
  [(a, id), (b, id), (c, fun st => { st with diskC := to, diskRefsNew := refsNew }), (d, id)]

/-- `IndexWriter::commit` -/
def commit (fs : List Fault) (repaired : Bool) (st0 : St) : St :=
  -- self.wal.sync()?
  let r1 := attempt fs .walSync id st0
  if r1.2 then { r1.1 with ret := some false } else
  -- writer.write_segment(..)?   (a failure leaves orphan files; nothing refers to them)
  let r2 := attempt fs .writeSegment (fun st => { st with newFiles := true }) r1.1
  if r2.2 then { r2.1 with ret := some false } else
  -- the fallible block: store the new manifest, append and sync the commit marker
  let blk := runSteps fs
    (storeSteps .post true .storeTmp .storePreSync .storeRename .storeDirSync ++
      [(.appendMarker, fun st => { st with walMarker := true }), (.syncMarker, id)]) r2.1
  if blk.2 then
    -- error branch: failures of truncate_to / restore are logged, not returned
    let e1 := runSteps fs [(.errTruncSetLen, fun st => { st with walMarker := false }), (.errTruncSync, id)] blk.1
    let e2 := runSteps fs (storeSteps .pre false .restoreTmp .restorePreSync .restoreRename .restoreDirSync) e1.1
    let st3 :=
      if repaired && e2.2 then e2.1      -- repaired: keep the new files when the restore failed
      else (attempt fs .cleanup (fun st => { st with newFiles := false }) e2.1).1
    { st3 with ret := some false }
  else
    -- publish in memory
    let pub := { blk.1 with memC := .post }
    -- self.wal.truncate()
    let t := runSteps fs [(.truncSetLen, fun st => { st with walOps := false, walMarker := false }), (.truncSync, id)] pub
    if t.2 && !repaired then { t.1 with ret := some false }     -- original: `?` returns the error
    else { t.1 with queue := false, ret := some true }

/-- the property for one call under faults -/
def good (st : St) : Bool :=
  match st.ret with
  | some true =>
    st.memC == .post && st.diskC == .post && (!st.diskRefsNew || st.newFiles) &&
      (!st.walOps || st.walMarker) && !st.queue
  | some false =>
    st.memC == .pre && st.diskC == .pre && (!st.diskRefsNew || st.newFiles) &&
      st.queue && st.walOps && !st.walMarker
  | none => false

/-- the on-disk manifest never refers to missing files -/
def openable (st : St) : Bool := !st.diskRefsNew || st.newFiles

/-- after an error, retrying the call without faults must succeed with the crash-free result -/
def retryGood (st : St) : Bool :=
  match st.ret with
  | some false => good (commit [] true { st with ret := none, newFiles := false })
  | _ => true

end SL.Protocol
