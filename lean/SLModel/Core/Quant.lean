import SLModel.Core.Bm25
import SLModel.Core.TopK
/-!
# Core/Quant — from the `Float` scoring layer to the `Nat` selection layer

`q x = ⌊x·2³²⌋` (0 for `x ≤ 0` or NaN) is monotone; bounds get `+1` so that
`Σ contributions ≤ Σ bounds` over the reals survives the rounding down of each summand.
`mkSegIn` is what `search_segment` hands to `execute_top_k…`: the scored terms with their
postings, the per-term and per-block bounds, and for each candidate the accepted final score.
-/
namespace SL.Quant
open SL.Bm25 SL.TK

def q (x : Float) : Nat := if x > 0.0 then (x * 4294967296.0).floor.toUInt64.toNat else 0

/-- maximal tf and last document of each block of `bs` postings (`build_block_meta`) -/
def blocks (bs : Nat) : List (Nat × Nat) → Nat → Nat → Nat → List (Nat × Nat)
  | [], n, mx, last => if n == 0 then [] else [(mx, last)]
  | p :: ps, n, mx, _ =>
    let mx' := max mx p.2
    if n + 1 == bs then (mx', p.1) :: blocks bs ps 0 0 0
    else blocks bs ps (n + 1) mx' p.1

def mkTerm (pr : Params) (seg : Seg) (bs : Nat) (t : TermF) : Term :=
  let bl := blocks bs t.posts 0 0 0
  { posts := t.posts.map fun (d, tf) => (d, q (t.contrib pr seg d tf))
    ub := q (t.ub pr) + 1
    bs := bs
    blockUb := bl.map fun (mx, _) => q (t.blockUb pr mx) + 1
    blockMaxDoc := bl.map (·.2) }

/-- candidate → accepted final score as `Float` (kept for reporting) -/
def finF (pr : Params) (seg : Seg) (p : Plan) (ts : List TermF) : List (Nat × Option Float) :=
  (candidates ts).map fun d =>
    (d, if accepts seg p d then finalScore pr seg p ts d else none)

structure SegOut where
  inp  : SegIn
  fl   : List (Nat × Option Float)
  neg  : Bool            -- some accepted final score is negative (outside the `Nat` layer)

/-- `search_segment` up to the call of `execute_top_k_with_stats_and_mode_internal`;
`bs` = `bmw_block_size.unwrap_or(128).max(1)` -/
def mkSegIn (pr : Params) (p : Plan) (bs : Nat) (dflt : Float) (seg : Seg) : SegOut :=
  if (qualified p).isEmpty then
    let sc := scanScores seg p dflt
    let fl := sc.map fun (d, s) => (d, some s)
    { inp := { terms := [], fin := sc.map fun (d, s) => (d, some (q s)), scan := true, hook := p.tree.custom }
      fl := fl, neg := sc.any fun (_, s) => s < 0.0 }
  else
    let ts := segTerms seg p
    let fl := finF pr seg p ts
    { inp := { terms := ts.map (mkTerm pr seg bs), fin := fl.map fun (d, o) => (d, o.map q), hook := p.tree.custom }
      fl := fl
      neg := fl.any fun (_, o) => match o with | some s => s < 0.0 | none => false }

end SL.Quant
