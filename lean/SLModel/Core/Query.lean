/-!
# Core/Query — query matching (C07)

Executable, import-free model of

* `searchlite-core/src/api/query.rs`      (`parse_query`, `parse_terms`)
* `searchlite-core/src/query/planner.rs`  (`build_query_plan`: query tree → matcher + term groups)
* `searchlite-core/src/api/reader.rs`     (`expand_term_groups`, `expand_prefix/wildcard/regex`,
  `expand_term_fuzzy`, `bounded_levenshtein`, `build_term_doc_lists`, `build_phrase_runtimes`,
  `QueryEvaluator::matches_node`, `search_segment` / `scan_segment` candidate generation)
* `searchlite-core/src/query/phrase.rs`   (`matches_phrase`)
* `searchlite-core/src/index/segment.rs`  (position offsets of multi-valued text fields, keyword
  terms lower-cased)

and of the documented boolean semantics (`Spec.matchesQ`).

Strings are lists of Unicode scalar values (`Str = List Nat`), so that everything reduces in the
kernel (`decide`) and the driver converts `String ⇄ Str` at the boundary.  Analyzers, the
pattern normaliser and the regex engine are *parameters* (`Ctx`): the harness calls the real
ones and ships their answers (DESIGN §3.2).
-/
namespace SL.Query

abbrev Str := List Nat

/-! ## small list utilities (own definitions: structural, kernel-reducible) -/

/-- order-preserving removal of later duplicates (`HashSet::insert`-guarded pushes) -/
def dedup {α : Type} [DecidableEq α] : List α → List α
  | [] => []
  | x :: xs => x :: (dedup xs).filter (fun y => !decide (y = x))

/-- first binding of a key in an association list -/
def assoc {β : Type} (k : Str) : List (Str × β) → Option β
  | [] => none
  | (k', v) :: r => if k' = k then some v else assoc k r

/-- byte-wise (= scalar-value-wise) lexicographic order of Rust `String`s -/
def ltStr : Str → Str → Bool
  | [], [] => false
  | [], _ :: _ => true
  | _ :: _, [] => false
  | a :: as, b :: bs => if a < b then true else if b < a then false else ltStr as bs

/-- insertion into a sorted duplicate-free list -/
def insertS (x : Str) : List Str → List Str
  | [] => [x]
  | y :: ys => if x = y then y :: ys else if ltStr x y then x :: y :: ys else y :: insertS x ys

/-- sorted duplicate-free list of the members (term dictionary order) -/
def sortS (l : List Str) : List Str := l.foldr insertS []

def insertN (x : Nat) : List Nat → List Nat
  | [] => [x]
  | y :: ys => if x = y then y :: ys else if x < y then x :: y :: ys else y :: insertN x ys

/-- `sort_unstable` + `dedup` of positions -/
def sortN (l : List Nat) : List Nat := l.foldr insertN []

/-- `to_ascii_lowercase` -/
def lowerC (c : Nat) : Nat := if 65 ≤ c ∧ c ≤ 90 then c + 32 else c
def lower (s : Str) : Str := s.map lowerC

def isPrefix : Str → Str → Bool
  | [], _ => true
  | _ :: _, [] => false
  | a :: as, b :: bs => a == b && isPrefix as bs

/-! ## analyzed documents, segments -/

/-- one analyzer token: text and position *within its value* (`Token { text, position }`) -/
structure Tok where
  text : Str
  pos  : Nat
deriving DecidableEq, Repr

inductive Kind | text | keyword | other
deriving DecidableEq, Repr

/-- a document after analysis: per text field the token streams of its values (index analyzer),
keyword values as written, i64 values (for filters) -/
structure ADoc where
  id   : Str
  text : List (Str × List (List Tok))
  kw   : List (Str × List Str)
  i64  : List (Str × List Int)
deriving Repr

/-- a segment: documents in ordinal order and the tombstoned ordinals (`deleted_docs`) -/
structure Seg where
  docs    : List ADoc
  deleted : List Nat
deriving Repr

def maxPos (v : List Tok) : Nat := v.foldl (fun m t => max m t.pos) 0

/-- `write_segment_stream`: the position offset advances by `max position + 1` per value, by 1
for a value without tokens -/
def flattenVals : Nat → List (List Tok) → List (Str × Nat)
  | _, [] => []
  | off, v :: vs =>
    v.map (fun t => (t.text, off + t.pos)) ++
      flattenVals (off + (match v with | [] => 1 | _ :: _ => maxPos v + 1)) vs

/-- (term, absolute position) pairs indexed for text field `f` -/
def textPostings (d : ADoc) (f : Str) : List (Str × Nat) :=
  match assoc f d.text with
  | some vs => flattenVals 0 vs
  | none => []

def kwRaw (d : ADoc) (f : Str) : List Str := (assoc f d.kw).getD []

/-- keyword terms indexed for `f` (lower-cased, one posting per distinct term) -/
def kwTerms (d : ADoc) (f : Str) : List Str := dedup ((kwRaw d f).map lower)

/-- all terms of field `f` under which the document is listed -/
def docTerms (d : ADoc) (f : Str) : List Str := (textPostings d f).map (·.1) ++ kwTerms d f

/-- the document is in the posting list of key `f:t` -/
def hasKey (d : ADoc) (f t : Str) : Bool := (docTerms d f).contains t

/-- positions stored with the document's entry in the posting list of `f:t`
(keyword postings carry none) -/
def rawPositions (d : ADoc) (f t : Str) : List Nat :=
  ((textPostings d f).filter (fun p => p.1 == t)).map (·.2)

/-- term dictionary of one field of a segment, in iteration order of `terms_with_prefix` -/
def segTerms (s : Seg) (f : Str) : List Str := sortS (s.docs.flatMap (fun d => docTerms d f))

/-- posting list (ordinals) of key `f:t` in a segment; tombstoned documents stay listed -/
def postings (s : Seg) (f t : Str) : List Nat :=
  (List.range s.docs.length).filter (fun o =>
    match s.docs[o]? with
    | some d => hasKey d f t
    | none => false)

/-! ## filters (flat subset; C08 owns the filter semantics) -/

inductive Flt
  | kwEq (f v : Str)
  | kwIn (f : Str) (vs : List Str)
  | i64Range (f : Str) (lo hi : Int)
  | and (l : List Flt)
  | or (l : List Flt)
  | not (x : Flt)
deriving Repr

mutual
def Flt.passes (d : ADoc) : Flt → Bool
  | .kwEq f v => (kwRaw d f).any (fun x => lower x == lower v)
  | .kwIn f vs => (kwRaw d f).any (fun x => vs.any (fun v => lower x == lower v))
  | .i64Range f lo hi => ((assoc f d.i64).getD []).any (fun x => decide (lo ≤ x) && decide (x ≤ hi))
  | .and l => Flt.passesAll d l
  | .or l => Flt.passesAny d l
  | .not x => !(Flt.passes d x)
def Flt.passesAll (d : ADoc) : List Flt → Bool
  | [] => true
  | x :: xs => Flt.passes d x && Flt.passesAll d xs
def Flt.passesAny (d : ADoc) : List Flt → Bool
  | [] => false
  | x :: xs => Flt.passes d x || Flt.passesAny d xs
end

/-! ## query AST (the repository's `QueryNode`, boosts dropped) -/

inductive MM | best | most | cross
deriving DecidableEq, Repr

/-- `minimum_should_match` of `multi_match`: a count or an integral percentage -/
inductive Msm
  | count (n : Nat)
  | pct (p : Nat)
deriving DecidableEq, Repr

/-- one `function_score` function as far as matching is concerned: `weight` with an optional
filter (other function kinds are not modelled) -/
structure WFn where
  weight : Int
  filter : Option Flt
deriving Repr

/-- `score_mode` of `function_score` (`avg` is not modelled) -/
inductive SMode | sum | multiply | max | min
deriving DecidableEq, Repr

inductive Q
  | matchAll
  | term (f v : Str)
  | pfx (f v : Str) (cap : Nat)
  | wildcard (f v : Str) (cap : Nat)
  | regex (f v : Str) (cap : Nat)
  | phrase (f : Option Str) (terms : List Str) (slop : Nat)
  | queryString (q : Str) (fields : Option (List Str))
  | multiMatch (q : Str) (fields : List Str) (ty : MM) (opAnd : Bool) (msm : Option Msm)
  | disMax (qs : List Q)
  | bool (must should mustNot : List Q) (filter : List Flt) (msm : Option Nat)
  | constantScore (f : Flt)
  /-- `function_score` with `boost_mode: replace` and `weight` functions (at least one without a
  filter): the combined score is a function of the document's filter values only -/
  | functionScore (q : Q) (fns : List WFn) (mode : SMode) (maxBoost minScore : Option Int)
  /-- `script_score` with script `_score` (`guard = none`) or `_score + 1 / (field - k)` -/
  | scriptScore (q : Q) (guard : Option (Str × Int))
  | rankFeature (f : Str)
deriving Repr

/-! ## query-string parser (`api/query.rs`) -/

/-- `char::is_whitespace` -/
def isWs (c : Nat) : Bool :=
  (9 ≤ c && c ≤ 13) || c == 32 || c == 0x85 || c == 0xA0 || c == 0x1680 ||
  (0x2000 ≤ c && c ≤ 0x200A) || c == 0x2028 || c == 0x2029 || c == 0x202F || c == 0x205F ||
  c == 0x3000

/-- `char::is_alphanumeric() || '_'` for ASCII, Latin-1 and Latin Extended-A/B (U+0000–U+02C1);
letters beyond that range are not recognised by the model (the generators stay below) -/
def isFieldChar (c : Nat) : Bool :=
  (48 ≤ c && c ≤ 57) || (65 ≤ c && c ≤ 90) || (97 ≤ c && c ≤ 122) || c == 95 ||
  c == 0xAA || c == 0xB2 || c == 0xB3 || c == 0xB5 || c == 0xB9 || c == 0xBA ||
  (0xBC ≤ c && c ≤ 0xBE) || (0xC0 ≤ c && c ≤ 0xD6) || (0xD8 ≤ c && c ≤ 0xF6) ||
  (0xF8 ≤ c && c ≤ 0x2C1)

/-- split at every occurrence of `sep` (always at least one piece) -/
def splitOn (sep : Nat) : Str → List Str
  | [] => [[]]
  | c :: cs =>
    match splitOn sep cs with
    | [] => [[]]          -- unreachable
    | p :: ps => if c = sep then [] :: p :: ps else (c :: p) :: ps

/-- `split_whitespace` -/
def words : Str → List Str
  | [] => []
  | c :: cs =>
    if isWs c then words cs
    else
      match cs with
      | [] => [[c]]
      | c' :: _ =>
        if isWs c' then [c] :: words cs
        else
          match words cs with
          | [] => [[c]]       -- unreachable
          | w :: ws => (c :: w) :: ws

/-- split at the first `sep`: `(before, some after)` or `(all, none)` -/
def splitFirst (sep : Nat) : Str → Str × Option Str
  | [] => ([], none)
  | c :: cs =>
    if c = sep then ([], some cs)
    else
      let (a, b) := splitFirst sep cs
      (c :: a, b)

def dropDashes : Str → Str
  | [] => []
  | c :: cs => if c = 45 then dropDashes cs else c :: cs

structure QTerm where
  field : Option Str
  term  : Str
deriving DecidableEq, Repr

structure QPhrase where
  field : Option Str
  terms : List Str
deriving DecidableEq, Repr

structure Parsed where
  terms    : List QTerm
  phrases  : List QPhrase
  notTerms : List QTerm
deriving DecidableEq, Repr

/-- `parse_terms`: whitespace-separated tokens, leading `-` negates, first `:` splits a field -/
def parseTerms (seg : Str) : List QTerm × List QTerm :=
  (words seg).foldr (fun raw acc =>
    let isNot := match raw with | 45 :: _ => true | _ => false
    let token := dropDashes raw
    let qt : QTerm := match splitFirst 58 token with
      | (f, some rest) => ⟨some f, rest⟩
      | (t, none) => ⟨none, t⟩
    if isNot then (acc.1, qt :: acc.2) else (qt :: acc.1, acc.2)) ([], [])

/-- body of a quoted phrase: optional `field:` prefix (field characters only), then words -/
def parsePhrase (body : Str) : Option QPhrase :=
  let (field, rest) : Option Str × Str := match splitFirst 58 body with
    | (f, some r) => if f.all isFieldChar then (some f, r) else (none, body)
    | (_, none) => (none, body)
  match words rest with
  | [] => none
  | ws => some ⟨field, ws⟩

/-- pieces between double quotes: even pieces are term text, odd pieces are phrases when the
closing quote exists; an unclosed quote drops the rest -/
def parsePieces : List Str → Parsed
  | [] => ⟨[], [], []⟩
  | [a] => ⟨(parseTerms a).1, [], (parseTerms a).2⟩
  | a :: b :: rest =>
    if rest.isEmpty then ⟨(parseTerms a).1, [], (parseTerms a).2⟩ else
    let r := parsePieces rest
    ⟨(parseTerms a).1 ++ r.terms,
     (match parsePhrase b with | some p => [p] | none => []) ++ r.phrases,
     (parseTerms a).2 ++ r.notTerms⟩

def parseQuery (input : Str) : Parsed := parsePieces (splitOn 34 input)

/-! ## context: schema facts, analyzers, request options (parameters of the model) -/

/-- request-level `fuzzy` options -/
structure Fuzzy where
  maxEdits      : Nat
  prefixLength  : Nat
  maxExpansions : Nat
  minLength     : Nat
deriving DecidableEq, Repr

structure Ctx where
  /-- `schema.field_kind` -/
  kind          : Str → Kind
  /-- `search_analyzer(field).analyze(text)` -/
  searchAn      : Str → Str → List Tok
  /-- `search_analyzer(field).normalize_pattern(text)` -/
  normPat       : Str → Str → Str
  /-- `req.fields` or all text fields -/
  defaultFields : List Str
  fuzzy         : Option Fuzzy
  /-- the regex engine: does the anchored pattern match the whole term? -/
  rx            : Str → Str → Bool

/-! ## term groups and their expansion -/

inductive Expansion
  | exact
  | pfx (cap : Nat)
  | wildcard (cap : Nat)
  | regex (cap : Nat)
deriving DecidableEq, Repr

/-- `TermGroupSpec` without boosts and leaf numbers: a group is scored iff `score` -/
structure Group where
  fields : List Str
  term   : Str
  exp    : Expansion
  score  : Bool
deriving DecidableEq, Repr

/-- `PhraseSpec` -/
structure PhraseSpec where
  fields : List Str
  terms  : List Str
  slop   : Nat
deriving DecidableEq, Repr

/-- search-side tokens of an exact group on one field -/
def exactTokens (c : Ctx) (f v : Str) : List Str :=
  match c.kind f with
  | .text => dedup ((c.searchAn f v).map (·.text))
  | .keyword => [lower v]
  | .other => []

/-- `analyze_pattern_tokens` (text) / lower-casing (keyword) -/
def patternTokens (c : Ctx) (f v : Str) : List Str :=
  match c.kind f with
  | .text =>
    match (c.searchAn f v).map (·.text) with
    | [t] => [t]
    | _ => [c.normPat f v]
  | .keyword => [lower v]
  | .other => []

/-- glob match of `build_wildcard_regex`: `*` any string, `?` one character -/
def anySuffix (k : Str → Bool) : Str → Bool
  | [] => k []
  | t :: ts => k (t :: ts) || anySuffix k ts

def wildMatch : Str → Str → Bool
  | [], t => t.isEmpty
  | p :: ps, t =>
    if p = 42 then anySuffix (wildMatch ps) t
    else
      match t with
      | [] => false
      | ch :: cs => (p == 63 || p == ch) && wildMatch ps cs

/-- `regex_literal_prefix` before repository commit eccd200 (kept for the `legacy_` witness):
literal characters up to the first metacharacter or class escape;
a leading `^` is skipped, `\\x` contributes `x` -/
def rxPrefixLegacyGo : Bool → Bool → Str → Str
  | _, _, [] => []
  | escaped, empty, ch :: cs =>
    if escaped then
      if ch = 100 ∨ ch = 68 ∨ ch = 119 ∨ ch = 87 ∨ ch = 115 ∨ ch = 83 ∨ ch = 98 ∨ ch = 66 ∨ ch = 112 ∨ ch = 80
      then []
      else ch :: rxPrefixLegacyGo false false cs
    else if ch = 92 then rxPrefixLegacyGo true empty cs
    else if ch = 94 ∧ empty then rxPrefixLegacyGo false empty cs
    else if ch = 46 ∨ ch = 42 ∨ ch = 43 ∨ ch = 63 ∨ ch = 40 ∨ ch = 41 ∨ ch = 91 ∨ ch = 93 ∨ ch = 123 ∨
        ch = 125 ∨ ch = 124 ∨ ch = 36 ∨ (ch = 94 ∧ false) then []
    else ch :: rxPrefixLegacyGo false false cs

def rxPrefixLegacy (pat : Str) : Str := rxPrefixLegacyGo false true pat

/-- `regex_has_top_level_alternation`: an unescaped `|` outside every group and character class -/
def rxTopAlt : Bool → Nat → Bool → Str → Bool
  | _, _, _, [] => false
  | escaped, depth, cls, ch :: cs =>
    if escaped then rxTopAlt false depth cls cs
    else if ch = 92 then rxTopAlt true depth cls cs
    else if ch = 91 ∧ cls = false then rxTopAlt false depth true cs
    else if ch = 93 ∧ cls = true then rxTopAlt false depth false cs
    else if ch = 40 ∧ cls = false then rxTopAlt false (depth + 1) cls cs
    else if ch = 41 ∧ cls = false then rxTopAlt false (depth - 1) cls cs
    else if ch = 124 ∧ cls = false ∧ depth = 0 then true
    else rxTopAlt false depth cls cs

/-- the scan of `regex_literal_prefix` (`acc` = prefix so far, reversed): literal characters up
to the first metacharacter or class escape; a leading `^` is skipped, `\\x` contributes `x`; a
quantifier `*`, `?`, `{` makes the literal before it optional, so that literal is removed again -/
def rxPrefixAcc : Bool → Str → Str → Str
  | _, acc, [] => acc.reverse
  | escaped, acc, ch :: cs =>
    if escaped then
      if ch = 100 ∨ ch = 68 ∨ ch = 119 ∨ ch = 87 ∨ ch = 115 ∨ ch = 83 ∨ ch = 98 ∨ ch = 66 ∨ ch = 112 ∨ ch = 80
      then acc.reverse
      else rxPrefixAcc false (ch :: acc) cs
    else if ch = 92 then rxPrefixAcc true acc cs
    else if ch = 94 ∧ acc = [] then rxPrefixAcc false acc cs
    else if ch = 42 ∨ ch = 63 ∨ ch = 123 then acc.tail.reverse
    else if ch = 46 ∨ ch = 43 ∨ ch = 40 ∨ ch = 41 ∨ ch = 91 ∨ ch = 93 ∨ ch = 125 ∨ ch = 124 ∨ ch = 36
    then acc.reverse
    else rxPrefixAcc false (ch :: acc) cs

/-- `regex_literal_prefix` (repository commit eccd200): no literal prefix for a pattern with a
top-level alternation -/
def rxPrefix (pat : Str) : Str :=
  if rxTopAlt false 0 false pat then [] else rxPrefixAcc false [] pat

/-- `wildcard_literal_prefix` -/
def wildPrefix : Str → Str
  | [] => []
  | c :: cs => if c = 42 ∨ c = 63 then [] else c :: wildPrefix cs

/-- candidate test of one expansion kind on a dictionary term (`tok` is the analysed pattern) -/
def expMatches (c : Ctx) (e : Expansion) (tok t : Str) : Bool :=
  match e with
  | .exact => t == tok
  | .pfx _ => isPrefix tok t
  | .wildcard _ => isPrefix (wildPrefix tok) t && wildMatch tok t
  | .regex _ => isPrefix (rxPrefix tok) t && c.rx tok t

/-- candidate test of a pattern group on one dictionary term, as the documented semantics reads
it (no literal-prefix shortcut) -/
def patMatches (c : Ctx) (e : Expansion) (tok t : Str) : Bool :=
  match e with
  | .exact => t == tok
  | .pfx _ => isPrefix tok t
  | .wildcard _ => wildMatch tok t
  | .regex _ => c.rx tok t

def Expansion.cap : Expansion → Nat
  | .exact => 0
  | .pfx n => n
  | .wildcard n => n
  | .regex n => n

/-- `expand_prefix` / `expand_wildcard` / `expand_regex`: per segment, walk the dictionary in
order, skip the empty term and non-matching terms and keys already produced by an earlier
segment, stop after `cap` new keys of this segment -/
def expandDict (c : Ctx) (segs : List Seg) (f : Str) (e : Expansion) (tok : Str) : List Str :=
  if e.cap = 0 then [] else
  segs.foldl (fun seen s =>
    seen ++ (((segTerms s f).filter (fun t => !t.isEmpty && expMatches c e tok t && !seen.contains t)).take e.cap)) []

/-- `bounded_levenshtein`: row-by-row DP with the early exit when a whole row exceeds
`maxEdits` -/
def levRow (ca : Nat) (b : Str) (prev : List Nat) (first : Nat) : List Nat :=
  -- prev = previous row (length |b|+1); returns the current row
  let rec go : Str → List Nat → Nat → List Nat
    | cb :: bs, pj :: pj1 :: ps, left =>
      let cost := if ca = cb then 0 else 1
      let val := min (min (pj1 + 1) (left + 1)) (pj + cost)
      val :: go bs (pj1 :: ps) val
    | _, _, _ => []
  first :: go b prev first

def levRows : Str → Str → List Nat → Nat → Nat → Option (List Nat)
  | [], _, prev, _, _ => some prev
  | ca :: as, b, prev, i, k =>
    let cur := levRow ca b prev (i + 1)
    if cur.foldl min (i + 1) > k then none else levRows as b cur (i + 1) k

def boundedLev (a b : Str) (k : Nat) : Option Nat :=
  let la := a.length
  let lb := b.length
  if (if la ≤ lb then lb - la else la - lb) > k then none
  else if la = 0 then (if lb ≤ k then some lb else none)
  else if lb = 0 then (if la ≤ k then some la else none)
  else
    match levRows a b (List.range (lb + 1)) 0 k with
    | none => none
    | some row =>
      match row.getLast? with
      | some d => if d ≤ k then some d else none
      | none => none

/-- one dictionary term is a fuzzy candidate of token `tok`: non-empty, shares the first
`prefix_length` characters, differs from `tok`, and `bounded_levenshtein` reports a non-zero
distance within `min(max_edits, 2)` -/
def fuzzyCond (fz : Fuzzy) (tok t : Str) : Bool :=
  !t.isEmpty && isPrefix (tok.take (min fz.prefixLength tok.length)) t && t != tok &&
    (match boundedLev tok t (min fz.maxEdits 2) with | some dist => dist != 0 | none => false)

/-- fuzzy candidates of one token over all segments, before the `max_expansions` cut -/
def fuzzyCands (segs : List Seg) (f tok : Str) (fz : Fuzzy) : List Str :=
  segs.foldl (fun seen s =>
    seen ++ (segTerms s f).filter (fun t => fuzzyCond fz tok t && !seen.contains t)) []

/-- `expand_term_fuzzy` for one token: the exact key first, then dictionary terms sharing the
first `prefix_length` characters within `max_edits`, at most `max_expansions` over all segments -/
def expandFuzzy (segs : List Seg) (f tok : Str) (fz : Fuzzy) : List Str :=
  if tok.length < fz.minLength ∨ fz.maxExpansions = 0 then [tok]
  else tok :: (fuzzyCands segs f tok fz).take fz.maxExpansions

/-- match keys of a group on one field (`expand_term_for_group`) -/
def expandField (c : Ctx) (segs : List Seg) (g : Group) (f : Str) : List Str :=
  match g.exp with
  | .exact =>
    let toks := exactTokens c f g.term
    if g.score then
      match c.fuzzy with
      | some fz => if min fz.maxEdits 2 = 0 then toks else dedup (toks.flatMap (fun t => expandFuzzy segs f t fz))
      | none => toks
    else toks
  | e => dedup ((patternTokens c f g.term).flatMap (fun t => expandDict c segs f e t))

/-- `TermMatchGroup.keys` as (field, term) pairs -/
def expandGroup (c : Ctx) (segs : List Seg) (g : Group) : List (Str × Str) :=
  dedup (g.fields.flatMap (fun f => (expandField c segs g f).map (fun t => (f, t))))

/-! ## matcher tree (`QueryMatcher`) and planner -/

inductive Matcher
  | matchAll
  | term (g : Group)
  | phrase (p : PhraseSpec)
  | queryString (terms : List Group) (phrases : List PhraseSpec) (nots : List Group) (msm : Option Nat)
  | disMax (ms : List Matcher)
  | bool (must should mustNot : List Matcher) (filter : List Flt) (msm : Option Nat)
deriving Repr

/-- `resolve_minimum_should_match` (integral percentages: `ceil(p/100 * n)`) -/
def resolveMsm (msm : Option Msm) (n : Nat) (opAnd : Bool) : Option Nat :=
  if n = 0 then none else
  match msm with
  | none => some (if opAnd then n else 1)
  | some (.count v) => some (min (min v n) n)
  | some (.pct p) => some (min ((p * n + 99) / 100) n)

def baseFields (c : Ctx) (fields : Option (List Str)) : List Str :=
  match fields with
  | some fs => fs
  | none => c.defaultFields

/-- fields of one query-string term: its own `field:` prefix or the base fields -/
def termGroup (base : List Str) (sc : Bool) (t : QTerm) : Group :=
  ⟨(match t.field with | some f => [f] | none => base), t.term, .exact, sc⟩

def phraseSpecOf (base : List Str) (ph : QPhrase) : PhraseSpec :=
  ⟨(match ph.field with | some f => [f] | none => base), ph.terms, 0⟩

/-- `multi_match` ignores `field:` prefixes: every term and phrase runs over the node's fields -/
def mmGroup (fields : List Str) (sc : Bool) (t : QTerm) : Group := ⟨fields, t.term, .exact, sc⟩
def mmPhrase (fields : List Str) (ph : QPhrase) : PhraseSpec := ⟨fields, ph.terms, 0⟩

def phraseNodeSpec (c : Ctx) (f : Option Str) (ts : List Str) (slop : Nat) : PhraseSpec :=
  ⟨(match f with | some f => [f] | none => c.defaultFields), ts, slop⟩

mutual
/-- `QueryPlanBuilder::build_node`, matcher component; `sc` = the `score` flag -/
def plan (c : Ctx) (sc : Bool) : Q → Matcher
  | .matchAll => .matchAll
  | .term f v => .term ⟨[f], v, .exact, sc⟩
  | .pfx f v cap => .term ⟨[f], v, .pfx cap, sc⟩
  | .wildcard f v cap => .term ⟨[f], v, .wildcard cap, sc⟩
  | .regex f v cap => .term ⟨[f], v, .regex cap, sc⟩
  | .phrase f ts slop => .phrase (phraseNodeSpec c f ts slop)
  | .queryString q fields =>
    let p := parseQuery q
    let base := baseFields c fields
    .queryString (p.terms.map (termGroup base sc)) (p.phrases.map (phraseSpecOf base))
      (p.notTerms.map (termGroup base false)) none
  | .multiMatch q fields _ty opAnd msm =>
    let p := parseQuery q
    .queryString (p.terms.map (mmGroup fields sc)) (p.phrases.map (mmPhrase fields))
      (p.notTerms.map (mmGroup fields false)) (resolveMsm msm p.terms.length opAnd)
  | .disMax qs => .disMax (planList c sc qs)
  | .bool must should mustNot filter msm =>
    .bool (planList c sc must) (planList c sc should) (planList c false mustNot) filter msm
  | .constantScore f => .bool [] [] [] [f] none
  | .functionScore q _ _ _ _ => plan c sc q
  | .scriptScore q _ => plan c sc q
  | .rankFeature _ => .matchAll
def planList (c : Ctx) (sc : Bool) : List Q → List Matcher
  | [] => []
  | q :: qs => plan c sc q :: planList c sc qs
end

mutual
/-- all term groups of a matcher, in planner order -/
def Matcher.groups : Matcher → List Group
  | .matchAll => []
  | .term g => [g]
  | .phrase _ => []
  | .queryString ts _ ns _ => ts ++ ns
  | .disMax ms => Matcher.groupsList ms
  | .bool a b c _ _ => Matcher.groupsList a ++ Matcher.groupsList b ++ Matcher.groupsList c
def Matcher.groupsList : List Matcher → List Group
  | [] => []
  | m :: ms => m.groups ++ Matcher.groupsList ms
end

/-- keys of the `qualified_terms` (scored groups only) -/
def qualified (c : Ctx) (segs : List Seg) (m : Matcher) : List (Str × Str) :=
  (m.groups.filter (·.score)).flatMap (expandGroup c segs)

/-! ## phrase matching -/

/-- inner loop of `matches_phrase::search` over the (sorted) positions of one term -/
def phScan (k : Nat → Nat → Bool) (prev rem : Nat) : List Nat → Bool
  | [] => false
  | p :: more =>
    if p ≤ prev then phScan k prev rem more
    else if p - (prev + 1) > rem then false
    else k p (rem - (p - (prev + 1))) || phScan k prev rem more

/-- `matches_phrase::search(positions, idx, prev, remaining)` on the remaining terms -/
def phSearch : List (List Nat) → Nat → Nat → Bool
  | [], _, _ => true
  | ps :: rest, prev, rem => phScan (fun p r => phSearch rest p r) prev rem ps

/-- `matches_phrase` once every term has an entry for the document -/
def phMatch (slots : List (List Nat)) (slop : Nat) : Bool :=
  match slots with
  | [] => true
  | first :: rest =>
    if slots.any (·.isEmpty) then false
    else if rest.isEmpty then true
    else first.any (fun start => phSearch rest start slop)

/-- `expand_phrase_fields` for one field: alternatives per query position -/
def phraseSlots (c : Ctx) (f : Str) (terms : List Str) : Option (List (List Str)) :=
  -- `terms.join(" ")`
  let body : Str := match terms with
    | [] => []
    | t :: ts => t ++ ts.flatMap (fun x => 32 :: x)
  match c.kind f with
  | .text =>
    let toks := c.searchAn f body
    if toks.isEmpty then none else
    let n := maxPos toks + 1
    some ((List.range n).map (fun i => dedup ((toks.filter (fun t => t.pos == i)).map (·.text))))
  | .keyword => if body.isEmpty then none else some [[lower body]]
  | .other => none

/-- one (phrase, field) variant evaluated on a document of segment `s` -/
def phraseVariant (s : Seg) (o : Nat) (f : Str) (slots : List (List Str)) (slop : Nat) : Bool :=
  -- `build_phrase_runtimes`: a position none of whose alternatives is in the dictionary drops the variant
  if slots.any (fun alts => alts.all (fun t => !(segTerms s f).contains t)) then false else
  match s.docs[o]? with
  | none => false
  | some d =>
    -- `merge_postings_lists`: entry present iff some alternative lists the document
    if slots.any (fun alts => !alts.any (fun t => (postings s f t).contains o)) then false
    else phMatch (slots.map (fun alts => sortN (alts.flatMap (fun t => rawPositions d f t)))) slop

def phraseMatches (c : Ctx) (s : Seg) (o : Nat) (p : PhraseSpec) : Bool :=
  p.fields.any (fun f =>
    match phraseSlots c f p.terms with
    | some slots => phraseVariant s o f slots p.slop
    | none => false)

/-! ## `QueryEvaluator::matches_node` -/

/-- `term_group_matches`: some key of the group lists the ordinal -/
def groupMatches (c : Ctx) (segs : List Seg) (s : Seg) (o : Nat) (g : Group) : Bool :=
  (expandGroup c segs g).any (fun k => (postings s k.1 k.2).contains o)

def defaultMinShould (nShould nMust nFilter : Nat) : Nat :=
  if nShould = 0 then 0 else if nMust = 0 ∧ nFilter = 0 then 1 else 0

def docPasses (s : Seg) (o : Nat) (fs : List Flt) : Bool :=
  match s.docs[o]? with
  | some d => Flt.passesAll d fs
  | none => false

mutual
def evalM (c : Ctx) (segs : List Seg) (s : Seg) (o : Nat) : Matcher → Bool
  | .matchAll => true
  | .term g => groupMatches c segs s o g
  | .phrase p => phraseMatches c s o p
  | .queryString ts ps ns msm =>
    if ts.isEmpty && ps.isEmpty && ns.isEmpty then false
    else if ns.any (groupMatches c segs s o) then false
    else if !(ps.all (phraseMatches c s o)) then false
    else if ts.isEmpty then true
    else decide ((ts.filter (groupMatches c segs s o)).length ≥ msm.getD 1)
  | .disMax ms => evalAny c segs s o ms
  | .bool must should mustNot filter msm =>
    evalAll c segs s o must && !(evalAny c segs s o mustNot) && docPasses s o filter &&
      decide (evalCount c segs s o should ≥ msm.getD (defaultMinShould should.length must.length filter.length))
def evalAll (c : Ctx) (segs : List Seg) (s : Seg) (o : Nat) : List Matcher → Bool
  | [] => true
  | m :: ms => evalM c segs s o m && evalAll c segs s o ms
def evalAny (c : Ctx) (segs : List Seg) (s : Seg) (o : Nat) : List Matcher → Bool
  | [] => false
  | m :: ms => evalM c segs s o m || evalAny c segs s o ms
def evalCount (c : Ctx) (segs : List Seg) (s : Seg) (o : Nat) : List Matcher → Nat
  | [] => 0
  | m :: ms => (if evalM c segs s o m then 1 else 0) + evalCount c segs s o ms
end

/-! ## score tree (`ScoreNode`) as far as it decides whether a hit is dropped -/

inductive SNode
  | empty
  | expr
  | constant
  | rank
  | sum (cs : List SNode)
  | disMax (cs : List SNode)
  | fnScore (m : Matcher) (base : SNode) (fns : List WFn) (mode : SMode) (maxBoost minScore : Option Int)
  | script (m : Matcher) (base : SNode) (guard : Option (Str × Int))
deriving Repr

/-- `[] → Empty`, `[n] → n`, otherwise the combining node -/
def collapse (mk : List SNode → SNode) : List SNode → SNode
  | [] => .empty
  | [n] => n
  | ns => mk ns

/-- `if !matches!(score_node, ScoreNode::Empty) { score_nodes.push(score_node) }` -/
def SNode.nonEmpty (n : SNode) : List SNode :=
  match n with
  | .empty => []
  | n => [n]

mutual
/-- third component of `build_node` -/
def scoreTree (c : Ctx) (sc : Bool) : Q → SNode
  | .matchAll => .empty
  | .term _ _ => if sc then .expr else .empty
  | .pfx _ _ _ => if sc then .expr else .empty
  | .wildcard _ _ _ => if sc then .expr else .empty
  | .regex _ _ _ => if sc then .expr else .empty
  | .phrase _ _ _ => .empty
  | .queryString q _ => if sc && !(parseQuery q).terms.isEmpty then .expr else .empty
  | .multiMatch _ fields ty _ _ =>
    match ty with
    | .best => if fields.isEmpty then .empty else .expr
    | _ => if sc then .expr else .empty
  | .disMax qs => collapse .disMax (scoreNodes c sc qs)
  | .bool must should mustNot _ _ =>
    collapse .sum (scoreNodes c sc must ++ scoreNodes c sc should ++ scoreNodes c false mustNot)
  | .constantScore _ => .constant
  | .functionScore q fns mode maxB minS => .fnScore (plan c sc q) (scoreTree c sc q) fns mode maxB minS
  | .scriptScore q guard => .script (plan c sc q) (scoreTree c sc q) guard
  | .rankFeature _ => .rank
/-- the non-`Empty` score nodes of the children -/
def scoreNodes (c : Ctx) (sc : Bool) : List Q → List SNode
  | [] => []
  | q :: qs => (scoreTree c sc q).nonEmpty ++ scoreNodes c sc qs
end

/-- `combine_function_scores` over the weights of the functions whose filter passes (`none`: no
function applies — the combined score is then the base score, which the model does not know) -/
def combineWeights (d : ADoc) (fns : List WFn) (mode : SMode) : Option Int :=
  match fns.filterMap (fun w => match w.filter with
      | some f => if Flt.passes d f then some w.weight else none
      | none => some w.weight) with
  | [] => none
  | v :: vs =>
    some (match mode with
      | .sum => vs.foldl (· + ·) v
      | .multiply => vs.foldl (· * ·) v
      | .max => vs.foldl max v
      | .min => vs.foldl min v)

/-- `combined < min_score` for `boost_mode: replace` (after `max_boost`) -/
def fnBelow (d : ADoc) (fns : List WFn) (mode : SMode) (maxBoost minScore : Option Int) : Bool :=
  match minScore, combineWeights d fns mode with
  | some ms, some v => decide ((match maxBoost with | some mb => min v mb | none => v) < ms)
  | _, _ => false

/-- the script `_score + 1 / (field - k)` divides by zero (missing value = 0) -/
def guardHit (d : ADoc) (guard : Option (Str × Int)) : Bool :=
  match guard with
  | none => false
  | some (f, k) => (((assoc f d.i64).getD []).headD 0) == k

mutual
/-- `evaluate_compiled_score(..) = None`: the hit is dropped -/
def dropped (c : Ctx) (segs : List Seg) (s : Seg) (o : Nat) (d : ADoc) : SNode → Bool
  | .empty => false
  | .expr => false
  | .constant => false
  | .rank => false
  | .sum cs => !cs.isEmpty && droppedAll c segs s o d cs
  | .disMax cs => !cs.isEmpty && droppedAll c segs s o d cs
  | .fnScore m base fns mode maxB minS =>
    evalM c segs s o m && (dropped c segs s o d base || fnBelow d fns mode maxB minS)
  | .script m base guard =>
    evalM c segs s o m && (dropped c segs s o d base || guardHit d guard)
def droppedAll (c : Ctx) (segs : List Seg) (s : Seg) (o : Nat) (d : ADoc) : List SNode → Bool
  | [] => true
  | n :: ns => dropped c segs s o d n && droppedAll c segs s o d ns
end

/-! ## `search_segment` / `scan_segment`: candidates, accept -/

def accept (c : Ctx) (segs : List Seg) (m : Matcher) (sn : SNode) (root : Option Flt) (s : Seg) (o : Nat) : Bool :=
  !(s.deleted.contains o) && evalM c segs s o m &&
    (match root with | some f => docPasses s o [f] | none => true) &&
    (match s.docs[o]? with | some d => !(dropped c segs s o d sn) | none => false)

/-- ordinals visited in one segment: all of them when the request has no scored term at all,
otherwise the union of the posting lists of the scored terms -/
def candidates (quals : List (Str × Str)) (s : Seg) : List Nat :=
  if quals.isEmpty then List.range s.docs.length
  else dedup (quals.flatMap (fun k => postings s k.1 k.2))

def searchSeg (c : Ctx) (segs : List Seg) (m : Matcher) (sn : SNode) (root : Option Flt) (s : Seg) : List Nat :=
  (candidates (qualified c segs m) s).filter (accept c segs m sn root s)

/-- one segment of a request -/
def searchSegQ (c : Ctx) (segs : List Seg) (q : Q) (root : Option Flt) (s : Seg) : List Nat :=
  searchSeg c segs (plan c true q) (scoreTree c true q) root s

/-- ordinals returned per segment (limit ≥ number of matches, `execution: bm25`) -/
def searchOrds (c : Ctx) (segs : List Seg) (q : Q) (root : Option Flt) : List (List Nat) :=
  segs.map (searchSegQ c segs q root)

/-- ids of the hits -/
def search (c : Ctx) (segs : List Seg) (q : Q) (root : Option Flt) : List Str :=
  segs.flatMap (fun s =>
    (searchSegQ c segs q root s).filterMap (fun o => (s.docs[o]?).map (·.id)))

mutual
/-- all phrase specs of a matcher -/
def Matcher.phraseSpecs : Matcher → List PhraseSpec
  | .matchAll => []
  | .term _ => []
  | .phrase p => [p]
  | .queryString _ ps _ _ => ps
  | .disMax ms => Matcher.phraseSpecsList ms
  | .bool a b c _ _ => Matcher.phraseSpecsList a ++ Matcher.phraseSpecsList b ++ Matcher.phraseSpecsList c
def Matcher.phraseSpecsList : List Matcher → List PhraseSpec
  | [] => []
  | m :: ms => m.phraseSpecs ++ Matcher.phraseSpecsList ms
end

/-- the document is listed under some scored term of the request -/
def hasQualified (quals : List (Str × Str)) (s : Seg) (o : Nat) : Bool :=
  quals.any (fun k => (postings s k.1 k.2).contains o)

/-! ## the documented semantics, evaluated on one analysed document -/

namespace Spec

/-- all ways to pick one position per slot -/
def choices : List (List Nat) → List (List Nat)
  | [] => [[]]
  | ps :: rest => ps.flatMap (fun p => (choices rest).map (fun r => p :: r))

def increasing : List Nat → Bool
  | [] => true
  | [_] => true
  | a :: b :: r => decide (a < b) && increasing (b :: r)

/-- sum of the gaps `q(i+1) - q(i) - 1` -/
def totalGap : List Nat → Nat
  | [] => 0
  | [_] => 0
  | a :: b :: r => (b - (a + 1)) + totalGap (b :: r)

/-- a phrase occurs with slop `n`: strictly increasing positions, one per query position, whose
gaps add up to at most `n` -/
def phraseOccurs (slots : List (List Nat)) (slop : Nat) : Bool :=
  (choices slots).any (fun qs => increasing qs && decide (totalGap qs ≤ slop))

/-- phrase on one field of a document -/
def phraseField (c : Ctx) (d : ADoc) (f : Str) (terms : List Str) (slop : Nat) : Bool :=
  match phraseSlots c f terms with
  | none => false
  | some slots =>
    -- keyword postings carry no positions: a phrase never matches a keyword field
    slots.all (fun alts => !(alts.flatMap (fun t => rawPositions d f t)).isEmpty) &&
      phraseOccurs (slots.map (fun alts => alts.flatMap (fun t => rawPositions d f t))) slop

def phrase (c : Ctx) (d : ADoc) (p : PhraseSpec) : Bool :=
  p.fields.any (fun f => phraseField c d f p.terms p.slop)

/-- Levenshtein distance by the textbook (Wagner–Fischer) recurrence on prefixes
`d(i,0) = i`, `d(0,j) = j`,
`d(i,j) = min (d(i-1,j) + 1) (d(i,j-1) + 1) (d(i-1,j-1) + [aᵢ ≠ bⱼ])`.
A prefix is represented by the reversed list of its characters (head = its last character);
`levAux x (levP a)` is `levP (x :: a)` (inner recursion on the second word, so that the
definition is structural). -/
def levAux (x : Nat) (la : Str → Nat) : Str → Nat
  | [] => la [] + 1
  | y :: b => min (min (la (y :: b) + 1) (levAux x la b + 1)) (la b + (if x = y then 0 else 1))

def levP : Str → Str → Nat
  | [], b => b.length
  | x :: a, b => levAux x (levP a) b

def lev (a b : Str) : Nat := levP a.reverse b.reverse

/-- fuzzy acceptance of dictionary term `t` for search token `tok` -/
def fuzzyOk (fz : Fuzzy) (tok t : Str) : Bool :=
  decide (fz.minLength ≤ tok.length) && fz.maxExpansions != 0 && !t.isEmpty &&
    isPrefix (tok.take (min fz.prefixLength tok.length)) t && decide (lev tok t ≤ min fz.maxEdits 2)

/-- does term `t` of the document satisfy group `g` on field `f`? -/
def termOk (c : Ctx) (g : Group) (f t : Str) : Bool :=
  match g.exp with
  | .exact =>
    (exactTokens c f g.term).any (fun tok =>
      t == tok ||
        (g.score && (match c.fuzzy with
          | some fz => min fz.maxEdits 2 != 0 && fuzzyOk fz tok t
          | none => false)))
  | e => !t.isEmpty && (patternTokens c f g.term).any (fun tok => patMatches c e tok t)

/-- a term group matches a document: some field has a term satisfying it -/
def group (c : Ctx) (d : ADoc) (g : Group) : Bool :=
  g.fields.any (fun f => (docTerms d f).any (termOk c g f))

mutual
/-- documented boolean semantics of a query on one document; `sc`: the clause contributes to
scoring (false below `must_not`), which only matters for request-level fuzzy matching; `hd`
(honour drops) = `true` is the documented reading, `hd = false` ignores `min_score` / valueless
scripts (that is what the matcher tree alone implements) -/
def matchesQ (c : Ctx) (hd : Bool) (d : ADoc) (sc : Bool) : Q → Bool
  | .matchAll => true
  | .term f v => group c d ⟨[f], v, .exact, sc⟩
  | .pfx f v cap => group c d ⟨[f], v, .pfx cap, sc⟩
  | .wildcard f v cap => group c d ⟨[f], v, .wildcard cap, sc⟩
  | .regex f v cap => group c d ⟨[f], v, .regex cap, sc⟩
  | .phrase f ts slop => phrase c d (phraseNodeSpec c f ts slop)
  | .queryString q fields =>
    let p := parseQuery q
    let base := baseFields c fields
    -- every quoted phrase is required, no negated term may occur, and (when there are plain
    -- terms) at least one of them occurs
    !(p.terms.isEmpty && p.phrases.isEmpty && p.notTerms.isEmpty) &&
    p.notTerms.all (fun t => !group c d (termGroup base false t)) &&
    p.phrases.all (fun ph => phrase c d (phraseSpecOf base ph)) &&
    (p.terms.isEmpty || p.terms.any (fun t => group c d (termGroup base sc t)))
  | .multiMatch q fields _ty opAnd msm =>
    let p := parseQuery q
    !(p.terms.isEmpty && p.phrases.isEmpty && p.notTerms.isEmpty) &&
    p.notTerms.all (fun t => !group c d (mmGroup fields false t)) &&
    p.phrases.all (fun ph => phrase c d (mmPhrase fields ph)) &&
    (p.terms.isEmpty ||
      decide ((resolveMsm msm p.terms.length opAnd).getD 1 ≤
        (p.terms.filter (fun t => group c d (mmGroup fields sc t))).length))
  | .disMax qs => matchesAny c hd d sc qs
  | .bool must should mustNot filter msm =>
    matchesAll c hd d sc must && !(matchesAny c hd d false mustNot) && Flt.passesAll d filter &&
      decide (msm.getD (defaultMinShould should.length must.length filter.length) ≤ matchesCount c hd d sc should)
  | .constantScore f => Flt.passes d f
  -- a function_score clause is satisfied by the documents its query selects whose combined
  -- score reaches `min_score`; a script_score clause by those for which the script has a value
  | .functionScore q fns mode maxB minS => matchesQ c hd d sc q && !(hd && fnBelow d fns mode maxB minS)
  | .scriptScore q guard => matchesQ c hd d sc q && !(hd && guardHit d guard)
  | .rankFeature _ => true
def matchesAll (c : Ctx) (hd : Bool) (d : ADoc) (sc : Bool) : List Q → Bool
  | [] => true
  | q :: qs => matchesQ c hd d sc q && matchesAll c hd d sc qs
def matchesAny (c : Ctx) (hd : Bool) (d : ADoc) (sc : Bool) : List Q → Bool
  | [] => false
  | q :: qs => matchesQ c hd d sc q || matchesAny c hd d sc qs
def matchesCount (c : Ctx) (hd : Bool) (d : ADoc) (sc : Bool) : List Q → Nat
  | [] => 0
  | q :: qs => (if matchesQ c hd d sc q then 1 else 0) + matchesCount c hd d sc qs
end

/-- the documents a search must return: live, matching, passing the root filter -/
def wanted (c : Ctx) (q : Q) (root : Option Flt) (s : Seg) (o : Nat) : Bool :=
  match s.docs[o]? with
  | none => false
  | some d =>
    !(s.deleted.contains o) && matchesQ c true d true q &&
      (match root with | some f => Flt.passes d f | none => true)

def searchOrds (c : Ctx) (segs : List Seg) (q : Q) (root : Option Flt) : List (List Nat) :=
  segs.map (fun s => (List.range s.docs.length).filter (wanted c q root s))

end Spec

/-! ## decidable side conditions of the refinement theorem (also reported by the driver) -/

/-- the group stays below its expansion caps: per segment at most `max_expansions` dictionary
terms match a prefix/wildcard/regex pattern; all fuzzy candidates of a token fit into the
request's `fuzzy.max_expansions` -/
def belowCaps (c : Ctx) (segs : List Seg) (g : Group) : Bool :=
  match g.exp with
  | .exact =>
    match c.fuzzy with
    | some fz =>
      !g.score || min fz.maxEdits 2 == 0 ||
        g.fields.all (fun f => (exactTokens c f g.term).all (fun tok =>
          decide (tok.length < fz.minLength) || fz.maxExpansions == 0 ||
            decide ((fuzzyCands segs f tok fz).length ≤ fz.maxExpansions)))
    | none => true
  | e =>
    g.fields.all (fun f => (patternTokens c f g.term).all (fun tok => segs.all (fun s =>
      decide (((segTerms s f).filter (fun t => !t.isEmpty && expMatches c e tok t)).length ≤ e.cap))))

/-- the literal-prefix shortcut of a regex group loses no dictionary term: every term the
pattern matches starts with `regex_literal_prefix(pattern)` -/
def rxPrefixOk (c : Ctx) (segs : List Seg) (g : Group) : Bool :=
  match g.exp with
  | .regex _ =>
    g.fields.all (fun f => (patternTokens c f g.term).all (fun tok => segs.all (fun s =>
      (segTerms s f).all (fun t => !(c.rx tok t) || isPrefix (rxPrefix tok) t))))
  | _ => true

/-- the document carries a term that some regex group of the request matches but whose
literal-prefix scan skips (signature predicate of the finding `regex.literal-prefix`) -/
def rxPrefixMiss (c : Ctx) (m : Matcher) (d : ADoc) : Bool :=
  m.groups.any (fun g =>
    match g.exp with
    | .regex _ =>
      g.fields.any (fun f => (patternTokens c f g.term).any (fun tok =>
        (docTerms d f).any (fun t => !t.isEmpty && c.rx tok t && !isPrefix (rxPrefix tok) t)))
    | _ => false)



/-- on every dictionary term of every segment the expansion of the group agrees with the
documented reading of the group (`Spec.termOk`) — true unconditionally for exact groups without
fuzzy options, and for prefix/wildcard/regex/fuzzy groups below their expansion caps -/
def groupComplete (c : Ctx) (segs : List Seg) (g : Group) : Bool :=
  g.fields.all (fun f => segs.all (fun s => (segTerms s f).all (fun t =>
    (expandField c segs g f).contains t == Spec.termOk c g f t)))

def expansionsComplete (c : Ctx) (segs : List Seg) (q : Q) : Bool :=
  (plan c true q).groups.all (groupComplete c segs)


mutual
/-- syntactic sufficient condition for `coveredByScoredTerms`: every document satisfying the
query necessarily contains one of its scored terms -/
def forces (sc : Bool) : Q → Bool
  | .matchAll => false
  | .term _ _ => sc
  | .pfx _ _ _ => sc
  | .wildcard _ _ _ => sc
  | .regex _ _ _ => sc
  | .phrase _ _ _ => false
  | .queryString q _ => sc && !(parseQuery q).terms.isEmpty
  | .multiMatch q _ _ opAnd msm =>
    sc && (match resolveMsm msm (parseQuery q).terms.length opAnd with
      | some k => decide (1 ≤ k)
      | none => false)
  | .disMax qs => forcesAll sc qs
  | .bool must should _ filter msm =>
    forcesAny sc must ||
      (decide (1 ≤ msm.getD (defaultMinShould should.length must.length filter.length)) && forcesAll sc should)
  | .constantScore _ => false
  | .functionScore q _ _ _ _ => forces sc q
  | .scriptScore q _ => forces sc q
  | .rankFeature _ => false
def forcesAll (sc : Bool) : List Q → Bool
  | [] => true
  | q :: qs => forces sc q && forcesAll sc qs
def forcesAny (sc : Bool) : List Q → Bool
  | [] => false
  | q :: qs => forces sc q || forcesAny sc qs
end

mutual
/-- no function_score / script_score clause anywhere -/
def Q.plain : Q → Bool
  | .disMax qs => Q.plainAll qs
  | .bool must should mustNot _ _ => Q.plainAll must && Q.plainAll should && Q.plainAll mustNot
  | .functionScore _ _ _ _ _ => false
  | .scriptScore _ _ => false
  | _ => true
def Q.plainAll : List Q → Bool
  | [] => true
  | q :: qs => q.plain && Q.plainAll qs
end

/-- function_score / script_score clauses occur only as a chain at the root of the request -/
def Q.rootChain : Q → Bool
  | .functionScore q _ _ _ _ => q.rootChain
  | .scriptScore q _ => q.rootChain
  | q => q.plain

mutual
/-- some function_score / script_score clause selects the document (matcher only) and excludes it
by `min_score` / a valueless script -/
def customDropHit (c : Ctx) (d : ADoc) (sc : Bool) : Q → Bool
  | .disMax qs => customDropHitAny c d sc qs
  | .bool must should mustNot _ _ =>
    customDropHitAny c d sc must || customDropHitAny c d sc should || customDropHitAny c d false mustNot
  | .functionScore q fns mode maxB minS =>
    customDropHit c d sc q || (Spec.matchesQ c false d sc q && fnBelow d fns mode maxB minS)
  | .scriptScore q guard => customDropHit c d sc q || (Spec.matchesQ c false d sc q && guardHit d guard)
  | _ => false
def customDropHitAny (c : Ctx) (d : ADoc) (sc : Bool) : List Q → Bool
  | [] => false
  | q :: qs => customDropHit c d sc q || customDropHitAny c d sc qs
end

/-- every wanted document is visited: the request has no scored term at all (full scan), or the
document is listed under one of the scored terms -/
def coveredByScoredTerms (c : Ctx) (segs : List Seg) (q : Q) (root : Option Flt) : Bool :=
  let quals := qualified c segs (plan c true q)
  quals.isEmpty || segs.all (fun s => (List.range s.docs.length).all (fun o =>
    !(Spec.wanted c q root s o) || hasQualified quals s o))

end SL.Query
