/-!
# Core/RescoreDrop — how `IndexReader::rescore_hits` removes the window hits its rescore query
gives no score to (`searchlite-core/src/api/reader.rs`).  Import-free, executable.

```
let mut to_remove: Vec<usize> = Vec::new();          // indices into `hits`, pushed segment by
for (segment_ord, docs) in per_segment.into_iter() { // segment — `per_segment` is a HashMap,
  …  None => { to_remove.push(hit_idx); continue; }  // so the order is arbitrary
}
to_remove.sort_unstable();  to_remove.dedup();
for idx in to_remove.into_iter().rev() { hits.remove(idx); }   // Vec::remove panics if idx >= len
```
-/
namespace SL.RescoreDrop

/-- `Vec::remove(idx)`; `none` = the panic on an index out of range -/
def removeAt {α : Type} : List α → Nat → Option (List α)
  | [], _ => none
  | _ :: t, 0 => some t
  | h :: t, i + 1 => (removeAt t i).map (h :: ·)

/-- remove the indices one after the other, in the order given -/
def removeSeq {α : Type} : List α → List Nat → Option (List α)
  | l, [] => some l
  | l, i :: is =>
    match removeAt l i with
    | none => none
    | some l' => removeSeq l' is

/-- insertion into a strictly descending list (drops a value already present) -/
def insDesc (x : Nat) : List Nat → List Nat
  | [] => [x]
  | y :: ys => if y < x then x :: y :: ys else if x = y then y :: ys else y :: insDesc x ys

/-- `sort_unstable(); dedup(); … .rev()`: strictly descending -/
def sortDescDedup (l : List Nat) : List Nat := l.foldr insDesc []

/-- the code: sort, dedup, remove back to front -/
def dropRejected {α : Type} (hits : List α) (toRemove : List Nat) : Option (List α) :=
  removeSeq hits (sortDescDedup toRemove)

/-- a variant without the sort: remove in reverse collection order (what a "the indices are
already ascending" shortcut would do) -/
def dropUnsorted {α : Type} (hits : List α) (toRemove : List Nat) : Option (List α) :=
  removeSeq hits toRemove.reverse

/-- specification: the hits whose index (counted from `off`) was not rejected, in order -/
def keepFrom {α : Type} (rm : List Nat) : Nat → List α → List α
  | _, [] => []
  | off, h :: t => if rm.contains off then keepFrom rm (off + 1) t else h :: keepFrom rm (off + 1) t

def keepSpec {α : Type} (hits : List α) (rm : List Nat) : List α := keepFrom rm 0 hits

end SL.RescoreDrop
