/-!
# Core/Sched — traces of the instrumented points (hooks H2) and the lock monitor

Import-free, executable.  The harness records, per index, one totally ordered list of events
`(thread, kind, name)`; every writer entry point of `searchlite-core` (`IndexWriter::{new,
add_document, delete_documents, commit, rollback}`, `Index::compact`) reports `enter` directly
after `writer_lock.lock()` and `exit` while the guard is still held (`verif::Section`), the
pause points inside `commit`/`compact` report `at` (here: `inside`), the reader's pause points
(`reader.after_manifest_copy`, `reader.before_segment_open`) and the harness' own call
boundaries report `free` (they may legitimately fall inside another thread's section).

* `sectionsDisjoint` — the monitored hypothesis of C05: no `enter`/`exit`/`inside` event of a
  thread lies inside the section of another thread, sections are properly bracketed, nobody
  holds the lock at the end.
* `enterOrder` — the serial order: the calls in the order of their `enter` events (the `k`-th
  `enter` of thread `t` is the `k`-th call of `t`'s program).
* `fits` — every `enter` finds a call left in its thread's program and all programs are used up.
-/
namespace SL.Sched

inductive Kind where
  | enter | exit | inside | free
deriving DecidableEq, Repr

structure Event (ν : Type) where
  thread : Nat
  kind   : Kind
  name   : ν
deriving DecidableEq, Repr

variable {ν α : Type}

/-- scan with the current lock holder -/
def disjointFrom : Option Nat → List (Event ν) → Bool
  | h, [] => h.isNone
  | h, e :: tr =>
    match e.kind with
    | .enter  => h.isNone && disjointFrom (some e.thread) tr
    | .exit   => (h == some e.thread) && disjointFrom none tr
    | .inside => (h == some e.thread) && disjointFrom h tr
    | .free   => disjointFrom h tr

/-- the C05 monitor -/
def sectionsDisjoint (tr : List (Event ν)) : Bool := disjointFrom none tr

/-- every `enter` of thread `t` consumes the next call of `t`'s program; at the end all
programs are used up -/
def fits : List (List α) → List (Event ν) → Bool
  | progs, [] => progs.all List.isEmpty
  | progs, e :: tr =>
    match e.kind with
    | .enter =>
      match progs[e.thread]? with
      | some (_ :: rest) => fits (progs.set e.thread rest) tr
      | _ => false
    | _ => fits progs tr

/-- the calls in the order of their `enter` events -/
def enterOrder : List (List α) → List (Event ν) → List α
  | _, [] => []
  | progs, e :: tr =>
    match e.kind with
    | .enter =>
      match progs[e.thread]? with
      | some (c :: rest) => c :: enterOrder (progs.set e.thread rest) tr
      | _ => enterOrder progs tr
    | _ => enterOrder progs tr

/-- index of the first pair of overlapping sections (diagnostics for the harness):
position of the first event that breaks `disjointFrom` -/
def firstBreak : Option Nat → Nat → List (Event ν) → Option Nat
  | h, i, [] => if h.isNone then none else some i
  | h, i, e :: tr =>
    match e.kind with
    | .enter  => if h.isNone then firstBreak (some e.thread) (i + 1) tr else some i
    | .exit   => if h == some e.thread then firstBreak none (i + 1) tr else some i
    | .inside => if h == some e.thread then firstBreak h (i + 1) tr else some i
    | .free   => firstBreak h (i + 1) tr

end SL.Sched
