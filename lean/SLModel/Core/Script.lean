/-!
# Core/Script — `script_score` expressions (`searchlite-core/src/query/script.rs`):
`tokenize`, `read_number_literal`, `shunting_yard`, `compile_script`, `CompiledScript::evaluate`.
Import-free, executable.  Characters are Unicode scalar values as `Nat`s.

Number literals keep their text (`neg`, digits-and-dot characters); turning the text into an
`f64` is `str::parse::<f64>`, which cannot fail on `[0-9.]+` with at least one digit and at
most one dot — the two conditions `read_number_literal` checks itself.  Arithmetic is a
parameter (`Arith`): the evaluator's control flow, which is what can or cannot panic, does
not depend on it.
-/
namespace SL.Script

inductive Op where
  | add | sub | mul | div | neg
deriving Repr, DecidableEq

/-- `Op::precedence` -/
def Op.prec : Op → Nat
  | .add => 1 | .sub => 1 | .mul => 2 | .div => 2 | .neg => 3

/-- `Op::is_right_associative` -/
def Op.rightAssoc : Op → Bool
  | .neg => true
  | _ => false

inductive Tok where
  | num (neg : Bool) (lit : List Nat)
  | ident (name : List Nat)
  | lp
  | rp
  | op (o : Op)
deriving Repr, DecidableEq

def isDigit (c : Nat) : Bool := 48 ≤ c && c ≤ 57
def isAlpha (c : Nat) : Bool := (65 ≤ c && c ≤ 90) || (97 ≤ c && c ≤ 122)
def isIdentStart (c : Nat) : Bool := isAlpha c || c == 95
def isIdentCont (c : Nat) : Bool := isAlpha c || isDigit c || c == 95
/-- the four characters `tokenize` skips -/
def isSpace (c : Nat) : Bool := c == 32 || c == 9 || c == 13 || c == 10

/-- `char::is_whitespace` (Unicode `White_Space`), used by `script.trim()` -/
def isUniWs (c : Nat) : Bool :=
  (9 ≤ c && c ≤ 13) || c == 32 || c == 133 || c == 160 || c == 5760 ||
  (8192 ≤ c && c ≤ 8202) || c == 8232 || c == 8233 || c == 8239 || c == 8287 || c == 12288

/-- UTF-8 length of a scalar value -/
def utf8Len (c : Nat) : Nat := if c < 128 then 1 else if c < 2048 then 2 else if c < 65536 then 3 else 4

def maxScriptLength : Nat := 512
def maxScriptTokens : Nat := 128

/-- the loop of `read_number_literal` after the first character (`acc`: literal so far,
reversed; `dots`: dots seen): literal text and remaining input, or `none` when a second dot
arrives -/
def takeNum : List Nat → Nat → List Nat → Option (List Nat × List Nat)
  | [], _, acc => some (acc.reverse, [])
  | c :: cs, dots, acc =>
    if isDigit c then takeNum cs dots (c :: acc)
    else if c == 46 then
      if dots + 1 > 1 then none else takeNum cs (dots + 1) (c :: acc)
    else some (acc.reverse, c :: cs)

/-- `read_number_literal(first, chars)`: literal text and remaining input; `none` = bail
(second dot, or no digit at all) -/
def readNumber (first : Nat) (rest : List Nat) : Option (List Nat × List Nat) :=
  let dots := if first == 46 then 1 else 0
  match takeNum rest dots [first] with
  | none => none
  | some (lit, rest') => if lit.any isDigit then some (lit, rest') else none

/-- the identifier loop: characters while `is_ident_continue` -/
def takeIdent : List Nat → List Nat → List Nat × List Nat
  | [], acc => (acc.reverse, [])
  | c :: cs, acc => if isIdentCont c then takeIdent cs (c :: acc) else (acc.reverse, c :: cs)

/-- `tokenize`; `fuel` bounds the number of loop iterations (each consumes a character) -/
def tokenizeGo : Nat → List Nat → Bool → List Tok → Option (List Tok)
  | 0, _, _, _ => none
  | _ + 1, [], _, acc => some acc.reverse
  | fuel + 1, c :: cs, expect, acc =>
    if isSpace c then tokenizeGo fuel cs expect acc
    else if c == 40 then tokenizeGo fuel cs true (.lp :: acc)
    else if c == 41 then tokenizeGo fuel cs false (.rp :: acc)
    else if c == 43 then tokenizeGo fuel cs true (.op .add :: acc)
    else if c == 45 then
      if expect then
        match cs with
        | d :: ds =>
          if isDigit d || d == 46 then
            match readNumber d ds with
            | none => none
            | some (lit, rest) => tokenizeGo fuel rest false (.num true lit :: acc)
          else tokenizeGo fuel cs true (.op .neg :: acc)
        | [] => tokenizeGo fuel cs true (.op .neg :: acc)
      else tokenizeGo fuel cs true (.op .sub :: acc)
    else if c == 42 then tokenizeGo fuel cs true (.op .mul :: acc)
    else if c == 47 then tokenizeGo fuel cs true (.op .div :: acc)
    else if isDigit c || c == 46 then
      match readNumber c cs with
      | none => none
      | some (lit, rest) => tokenizeGo fuel rest false (.num false lit :: acc)
    else if isIdentStart c then
      let (name, rest) := takeIdent (c :: cs) []
      tokenizeGo fuel rest false (.ident name :: acc)
    else none

/-- `tokenize(input)`: `none` = the function bails (unsupported character, bad literal) -/
def tokenize (input : List Nat) : Option (List Tok) := tokenizeGo (input.length + 1) input true []

/-- the `while let Some(Token::Op(top)) = ops.last()` loop for an incoming operator -/
def popOps (o : Op) : List Tok → List Tok → List Tok × List Tok
  | .op top :: ops, out =>
    if top.prec > o.prec || (top.prec == o.prec && !o.rightAssoc) then popOps o ops (.op top :: out)
    else (.op top :: ops, out)
  | ops, out => (ops, out)

/-- `)`: pop to the output until `(`; `none` = no `(` on the stack -/
def popToParen : List Tok → List Tok → Option (List Tok × List Tok)
  | [], _ => none
  | .lp :: ops, out => some (ops, out)
  | .op o :: ops, out => popToParen ops (.op o :: out)
  | _ :: ops, out => popToParen ops out

/-- the final `while let Some(tok) = ops.pop()` -/
def flushOps : List Tok → List Tok → Option (List Tok)
  | [], out => some out
  | .op o :: ops, out => flushOps ops (.op o :: out)
  | .lp :: _, _ => none
  | .rp :: _, _ => none
  | _ :: ops, out => flushOps ops out

/-- `shunting_yard`; `ops` has its top at the head, `out` is reversed -/
def shuntGo : List Tok → List Tok → List Tok → Option (List Tok)
  | [], ops, out => (flushOps ops out).map List.reverse
  | .num n l :: ts, ops, out => shuntGo ts ops (.num n l :: out)
  | .ident s :: ts, ops, out => shuntGo ts ops (.ident s :: out)
  | .op o :: ts, ops, out =>
    let (ops', out') := popOps o ops out
    shuntGo ts (.op o :: ops') out'
  | .lp :: ts, ops, out => shuntGo ts (.lp :: ops) out
  | .rp :: ts, ops, out =>
    match popToParen ops out with
    | none => none
    | some (ops', out') => shuntGo ts ops' out'

def shuntingYard (toks : List Tok) : Option (List Tok) := shuntGo toks [] []

inductive Instr where
  | pushConst (neg : Bool) (lit : List Nat)
  | pushParam (idx : Nat)
  | pushField (idx : Nat)
  | pushScore
  | add | sub | mul | div | neg
deriving Repr, DecidableEq

structure Compiled where
  instrs : List Instr
  fields : List (List Nat)
  nParams : Nat
deriving Repr, DecidableEq

def indexOf (x : List Nat) : List (List Nat) → Nat → Option Nat
  | [], _ => none
  | y :: ys, i => if y = x then some i else indexOf x ys (i + 1)

def scoreName : List Nat := [95, 115, 99, 111, 114, 101]   -- "_score"

/-- the instruction loop of `compile_script` over the RPN tokens.  `params`: parameter names
in `BTreeMap` order; `numericFast`: the names `ensure_numeric_fast` accepts. -/
def emit (params numericFast : List (List Nat)) : List Tok → List (List Nat) → List Instr →
    Option (List Instr × List (List Nat))
  | [], fields, acc => some (acc.reverse, fields)
  | .num n l :: ts, fields, acc => emit params numericFast ts fields (.pushConst n l :: acc)
  | .ident name :: ts, fields, acc =>
    if name = scoreName then emit params numericFast ts fields (.pushScore :: acc)
    else
      match indexOf name params 0 with
      | some i => emit params numericFast ts fields (.pushParam i :: acc)
      | none =>
        if numericFast.contains name then
          match indexOf name fields 0 with
          | some i => emit params numericFast ts fields (.pushField i :: acc)
          | none => emit params numericFast ts (fields ++ [name]) (.pushField fields.length :: acc)
        else none
  | .op o :: ts, fields, acc =>
    let i := match o with
      | .add => Instr.add | .sub => .sub | .mul => .mul | .div => .div | .neg => .neg
    emit params numericFast ts fields (i :: acc)
  | _ :: ts, fields, acc => emit params numericFast ts fields acc

/-- `compile_script(script, params, schema)`; `none` = `Err` (all error branches; the
finiteness test on parameter values is left to the caller: JSON cannot carry non-finite
numbers) -/
def compile (script : List Nat) (params numericFast : List (List Nat)) : Option Compiled :=
  if script.all isUniWs then none
  else if (script.map utf8Len).sum > maxScriptLength then none
  else
    match tokenize script with
    | none => none
    | some toks =>
      if toks.length > maxScriptTokens then none
      else
        match shuntingYard toks with
        | none => none
        | some rpn =>
          match emit params numericFast rpn [] [] with
          | none => none
          | some (instrs, fields) => some ⟨instrs, fields, params.length⟩

/-- arithmetic of the evaluator: each operation returns `none` where the code returns
`None` (non-finite result, division by zero) -/
structure Arith (V : Type) where
  add : V → V → Option V
  sub : V → V → Option V
  mul : V → V → Option V
  div : V → V → Option V
  neg : V → Option V
  /-- final `value.is_finite()` -/
  finite : V → Bool

/-- what the operand instructions read -/
structure Env (V : Type) where
  const : Bool → List Nat → V
  params : List V
  /-- value of field `i` for the document (`unwrap_or(0.0)` included) -/
  field : Nat → V
  nFields : Nat
  score : V

/-- result of `evaluate`: `none`/`some` as in the code, `panic` for the `stack.pop().unwrap()`
at the end if it were reached with an empty stack -/
inductive Res (V : Type) where
  | none
  | some (v : V)
  | panic
deriving Repr

def Res.isPanic {V : Type} : Res V → Bool
  | .panic => true
  | _ => false

def Res.toOption {V : Type} : Res V → Option V
  | .some v => Option.some v
  | _ => Option.none

def binop {V : Type} (f : V → V → Option V) (stack : List V) : Option (List V) :=
  match stack with
  | b :: a :: rest => (f a b).map (· :: rest)
  | _ => Option.none

/-- one instruction; `none` = the function returns `None` (`?` on an empty stack, index out
of range, non-finite) -/
def step {V : Type} (ar : Arith V) (env : Env V) (stack : List V) : Instr → Option (List V)
  | .pushConst n l => some (env.const n l :: stack)
  | .pushParam i => (env.params[i]?).map (· :: stack)
  | .pushField i => if i < env.nFields then some (env.field i :: stack) else Option.none
  | .pushScore => some (env.score :: stack)
  | .add => binop ar.add stack
  | .sub => binop ar.sub stack
  | .mul => binop ar.mul stack
  | .div => binop ar.div stack
  | .neg =>
    match stack with
    | a :: rest => (ar.neg a).map (· :: rest)
    | [] => Option.none

def run {V : Type} (ar : Arith V) (env : Env V) : List Instr → List V → Option (List V)
  | [], stack => some stack
  | i :: is, stack =>
    match step ar env stack i with
    | Option.none => Option.none
    | some s => run ar env is s

/-- `CompiledScript::evaluate` -/
def eval {V : Type} (ar : Arith V) (env : Env V) (instrs : List Instr) : Res V :=
  match run ar env instrs [] with
  | Option.none => .none
  | some stack =>
    if stack.length ≠ 1 then .none
    else
      match stack with
      | [] => .panic          -- `stack.pop().unwrap()` on an empty stack
      | v :: _ => if ar.finite v then .some v else .none

/-- static stack effect of an instruction list from a given depth; `none` = underflow -/
def depth : List Instr → Nat → Option Nat
  | [], d => some d
  | i :: is, d =>
    match i with
    | .pushConst _ _ | .pushParam _ | .pushField _ | .pushScore => depth is (d + 1)
    | .add | .sub | .mul | .div => if d < 2 then none else depth is (d - 1)
    | .neg => if d < 1 then none else depth is d

/-- static stack effect of RPN *tokens* (before `emit`) -/
def tdepth : List Tok → Nat → Option Nat
  | [], d => some d
  | .num _ _ :: ts, d => tdepth ts (d + 1)
  | .ident _ :: ts, d => tdepth ts (d + 1)
  | .op .neg :: ts, d => if d < 1 then none else tdepth ts d
  | .op _ :: ts, d => if d < 2 then none else tdepth ts (d - 1)
  | _ :: ts, d => tdepth ts d

/-- syntactic well-formedness of an infix token list: operands and binary operators
alternate, unary minus and `(` only where an operand may start, `)` only after an operand
and only when a `(` is open, everything closed at the end.  `expect` = an operand may start
here, `opn` = currently open parentheses. -/
def wf : List Tok → Bool → Nat → Bool
  | [], expect, opn => !expect && opn == 0
  | .num _ _ :: ts, expect, opn => expect && wf ts false opn
  | .ident _ :: ts, expect, opn => expect && wf ts false opn
  | .op .neg :: ts, expect, opn => expect && wf ts true opn
  | .op _ :: ts, expect, opn => !expect && wf ts true opn
  | .lp :: ts, expect, opn => expect && wf ts true (opn + 1)
  | .rp :: ts, expect, opn => !expect && opn > 0 && wf ts false (opn - 1)

end SL.Script
