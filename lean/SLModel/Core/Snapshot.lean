/-!
# Core/Snapshot — a reader opening against concurrent commits and compactions

Import-free, executable.  Mirrors, at the granularity of the instrumented points,

* `IndexReader::open` (`searchlite-core/src/api/reader.rs`): copy the in-memory manifest under
  the read lock (`rd`, first time), then open the segment files of the *copy* one after the
  other (`rd`, following times).  **Repaired protocol** (commit fefbd27): the manifest read guard
  is kept until the last segment of the copy is open, so no `publish` (which needs the manifest
  write guard) can fall between the copy and the last open — `legalFrom` below.  **Original
  protocol**: the guard was released right after the copy (any interleaving was possible;
  `compact_breaks_open` in `Props/C06` is the negative witness).  A segment reader keeps file handles / buffers:
  what it read at open time stays readable after an unlink ("open handles survive unlink") —
  in the model the content is captured at open time.
* `IndexWriter::commit`: write a new segment file (`create`), swap the manifest (`publish`);
  it never removes files of the manifest it replaces.
* `Index::compact`: write the merged segment (`create`), swap the manifest to `[new]`
  (`publish`), then `cleanup_segments` removes every file of the old manifest (`unlink`).

Names `κ` are segment ids, `μ` is what the manifest stores next to a name (the tombstone list),
`γ` is the immutable content of a segment file.
-/
namespace SL.Snap

structure World (κ μ γ : Type) where
  dir      : List (κ × γ)
  manifest : List (κ × μ)
deriving Repr

inductive Act (κ μ γ : Type) where
  | create (n : κ) (c : γ)
  | publish (m : List (κ × μ))
  | unlink (n : κ)
deriving Repr

inductive Step (κ μ γ : Type) where
  | env (a : Act κ μ γ)
  | rd
deriving Repr

structure Reader (κ μ γ : Type) where
  copied : List (κ × μ)
  todo   : List (κ × μ)
  opened : List (κ × μ × γ)
  failed : Bool
deriving Repr

section
variable {κ μ γ : Type} [DecidableEq κ]

def lookup (d : List (κ × γ)) (n : κ) : Option γ :=
  match d with
  | [] => none
  | p :: r => if p.1 = n then some p.2 else lookup r n

def remove (d : List (κ × γ)) (n : κ) : List (κ × γ) := d.filter (fun p => !(decide (p.1 = n)))

def act (w : World κ μ γ) : Act κ μ γ → World κ μ γ
  | .create n c => { w with dir := (n, c) :: remove w.dir n }
  | .publish m => { w with manifest := m }
  | .unlink n => { w with dir := remove w.dir n }

/-- `copyManifest` -/
def copy (w : World κ μ γ) : Reader κ μ γ :=
  { copied := w.manifest, todo := w.manifest, opened := [], failed := false }

/-- open the next segment of the copy; a missing file fails the whole open -/
def openNext (w : World κ μ γ) (r : Reader κ μ γ) : Reader κ μ γ :=
  if r.failed then r else
  match r.todo with
  | [] => r
  | (n, m) :: rest =>
    match lookup w.dir n with
    | some c => { r with todo := rest, opened := r.opened ++ [(n, m, c)] }
    | none => { r with todo := [], failed := true }

def step (s : World κ μ γ × Option (Reader κ μ γ)) : Step κ μ γ → World κ μ γ × Option (Reader κ μ γ)
  | .env a => (act s.1 a, s.2)
  | .rd =>
    match s.2 with
    | none => (s.1, some (copy s.1))
    | some r => (s.1, some (openNext s.1 r))

def run (s : World κ μ γ × Option (Reader κ μ γ)) (ss : List (Step κ μ γ)) :
    World κ μ γ × Option (Reader κ μ γ) := ss.foldl step s

/-- open whatever is still to be opened, in the current world -/
def finish (w : World κ μ γ) (r : Reader κ μ γ) : Reader κ μ γ :=
  (List.replicate r.todo.length ()).foldl (fun r _ => openNext w r) r

/-- what a manifest denotes in a directory: every segment with its content (`none` if a file is
missing) -/
def snapshot (d : List (κ × γ)) : List (κ × μ) → Option (List (κ × μ × γ))
  | [] => some []
  | (n, m) :: rest =>
    match lookup d n, snapshot d rest with
    | some c, some l => some ((n, m, c) :: l)
    | _, _ => none

def names (m : List (κ × μ)) : List κ := m.map (·.1)

/-- the monitored hypothesis of C06: between the manifest copy and the last segment open no
file named by the copy is unlinked or overwritten -/
def protectedAct (copied : List κ) : Act κ μ γ → Bool
  | .create n _ => !(copied.contains n)
  | .publish _ => true
  | .unlink n => !(copied.contains n)

/-- `k` = number of segment opens still to come; once all are done nothing is constrained -/
def windowProtected (copied : List κ) : Nat → List (Step κ μ γ) → Bool
  | 0, _ => true
  | _, [] => true
  | k + 1, .rd :: ss => windowProtected copied k ss
  | k + 1, .env a :: ss => protectedAct copied a && windowProtected copied (k + 1) ss

/-- the monitor on a whole schedule: the window starts at the reader's first `rd` (the copy);
before it nothing is constrained.  `m` is the manifest in force. -/
def openWindowProtected (m : List (κ × μ)) : List (Step κ μ γ) → Bool
  | [] => true
  | .rd :: ss => windowProtected (names m) m.length ss
  | .env (.publish m') :: ss => openWindowProtected m' ss
  | .env (.create _ _) :: ss => openWindowProtected m ss
  | .env (.unlink _) :: ss => openWindowProtected m ss

/-- a manifest is closed in a directory: every file it names exists -/
def closed (w : World κ μ γ) : Bool := (snapshot w.dir w.manifest).isSome

/-- **Schedules of the repaired protocol** (and of the writers' file discipline), from world `w`
with reader state `r` (`none`: no copy yet; `some k`: copy done, `k` opens to come — the
manifest read guard is held while `k > 0`):
* `publish` needs the manifest write guard: impossible while the reader holds the read guard;
  it publishes only manifests whose files exist (commit and compaction write the segment first);
* `create` writes a new segment under a name the manifest in force does not use;
* `unlink` (compaction cleanup, commit error path) only removes files the manifest in force
  does not name. -/
def legalFrom (w : World κ μ γ) : Option Nat → List (Step κ μ γ) → Bool
  | _, [] => true
  | none, .rd :: ss => legalFrom w (some w.manifest.length) ss
  | some 0, .rd :: ss => legalFrom w (some 0) ss
  | some (k + 1), .rd :: ss => legalFrom w (some k) ss
  | r, .env (.publish m) :: ss =>
    (match r with | some (_ + 1) => false | _ => true) &&
    closed { w with manifest := m } && legalFrom (act w (.publish m)) r ss
  | r, .env (.create n c) :: ss =>
    !((names w.manifest).contains n) && legalFrom (act w (.create n c)) r ss
  | r, .env (.unlink n) :: ss =>
    !((names w.manifest).contains n) && legalFrom (act w (.unlink n)) r ss

/-- the writer programs of the code, as action lists (new segment `n` with content `c`) -/
def commitActs (newManifest : List (κ × μ)) (n : κ) (c : γ) : List (Act κ μ γ) :=
  [.create n c, .publish newManifest]

def compactActs (old : List (κ × μ)) (n : κ) (m : μ) (c : γ) : List (Act κ μ γ) :=
  [.create n c, .publish [(n, m)]] ++ (names old).map .unlink

end
end SL.Snap
