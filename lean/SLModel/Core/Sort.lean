/-!
# Core/Sort — sort keys, comparator and result selection of C10 (import-free, executable)

Mirrors `searchlite-core/src/query/sort.rs` (`SortPlan::from_request`, `build_key`,
`ResolvedSortField::value`, `pick_numeric`, `SortKeyPart::cmp`, `SortKey::cmp`) and the part of
`api/reader.rs search` that selects the hits: `push_ranked` into one heap of capacity
`limit + 1` for field sorts, per-segment top-`(limit+1)` + merge for the default score sort,
then `hits.sort_by(key)` and `truncate(limit)`.

Values: `i64` as `Int`; `f64` and the `f32` score as their rank under `total_cmp` (an `Int`
computed by the driver from the bit pattern), strings as UTF-8 byte lists (Rust `str` order is
bytewise).  The selection machinery is generic in the element type and the comparison, so that
the theorems can be proved once for any strict total order (`Lemmas/BTop`) and the driver runs
the same definitions on `Key`/`Key.lt`.
-/
namespace SL.Sort

/-! ## values, parts, keys -/

inductive Val
  | score (r : Int)
  | i64 (v : Int)
  | f64 (r : Int)
  | str (s : List Nat)
  | missing
deriving Repr, DecidableEq, Inhabited

/-- `SortKeyPart` -/
structure Part where
  desc : Bool
  val  : Val
deriving Repr, DecidableEq, Inhabited

/-- `SortKey` -/
structure Key where
  parts : List Part
  seg   : Nat
  doc   : Nat
deriving Repr, DecidableEq, Inhabited

/-- `compare_ord`/`compare_f32`/`compare_f64`: reverse for `Desc` -/
def dir (desc : Bool) (o : Ordering) : Ordering := if desc then o.swap else o

def cmpInt (a b : Int) : Ordering := if a < b then .lt else if a = b then .eq else .gt
def cmpNat (a b : Nat) : Ordering := if a < b then .lt else if a = b then .eq else .gt

/-- bytewise lexicographic order (`str::cmp`) -/
def lexCmp : List Nat → List Nat → Ordering
  | [], [] => .eq
  | [], _ :: _ => .lt
  | _ :: _, [] => .gt
  | a :: as, b :: bs => match cmpNat a b with
    | .eq => lexCmp as bs
    | o => o

/-- `SortKeyPart::cmp`: `Missing` is greater than everything whatever the direction; values of
different variants compare `Equal` -/
def Part.cmp (a b : Part) : Ordering :=
  match a.val, b.val with
  | .missing, .missing => .eq
  | .missing, _ => .gt
  | _, .missing => .lt
  | .score x, .score y => dir a.desc (cmpInt x y)
  | .i64 x, .i64 y => dir a.desc (cmpInt x y)
  | .f64 x, .f64 y => dir a.desc (cmpInt x y)
  | .str x, .str y => dir a.desc (lexCmp x y)
  | _, _ => .eq

/-- the `zip` loop of `SortKey::cmp` -/
def cmpParts : List Part → List Part → Ordering
  | a :: as, b :: bs => match a.cmp b with
    | .eq => cmpParts as bs
    | o => o
  | _, _ => .eq

/-- `SortKey::cmp`: parts, then segment ordinal, then document ordinal -/
def Key.cmp (a b : Key) : Ordering :=
  match cmpParts a.parts b.parts with
  | .eq => (match cmpNat a.seg b.seg with
    | .eq => cmpNat a.doc b.doc
    | o => o)
  | o => o

def Key.lt (a b : Key) : Bool := a.cmp b == .lt

/-! ## plan and key building -/

inductive Field
  | score
  | kw (name : String)
  | i64 (name : String)
  | f64 (name : String)
deriving Repr, DecidableEq, Inhabited

/-- `ResolvedSortField`: the selector is `Min` for `Asc`, `Max` for `Desc` -/
structure Spec where
  field : Field
  desc  : Bool
deriving Repr, DecidableEq, Inhabited

abbrev Plan := List Spec

/-- `SortPlan::from_request`: no spec = `_score`; default order `Desc` for `_score`, `Asc` else -/
def mkPlan (specs : List (Field × Option Bool)) : Plan :=
  let specs := if specs.isEmpty then [(Field.score, none)] else specs
  specs.map fun (f, o) =>
    { field := f
      desc := match o with
        | some d => d
        | none => (match f with | .score => true | _ => false) }

def Plan.isScoreOnly (p : Plan) : Bool :=
  match p with
  | [s] => (match s.field with | .score => true | _ => false)
  | _ => false

/-- `score_fast_path` -/
def Plan.fast (p : Plan) : Bool :=
  p.isScoreOnly && (match p.head? with | some s => s.desc | none => false)

def Plan.usesScore (p : Plan) : Bool := p.any fun s => match s.field with | .score => true | _ => false

/-- fast-field values of one document as the comparator sees them -/
structure DocVals where
  kw  : List (String × List (List Nat))
  i64 : List (String × List Int)
  f64 : List (String × List Int)
deriving Repr, Inhabited

def minInt : List Int → Option Int
  | [] => none
  | x :: xs => match minInt xs with
    | none => some x
    | some m => some (if m < x then m else x)

def maxInt : List Int → Option Int
  | [] => none
  | x :: xs => match maxInt xs with
    | none => some x
    | some m => some (if x < m then m else x)

def minStr : List (List Nat) → Option (List Nat)
  | [] => none
  | x :: xs => match minStr xs with
    | none => some x
    | some m => some (if lexCmp m x == .lt then m else x)

def maxStr : List (List Nat) → Option (List Nat)
  | [] => none
  | x :: xs => match maxStr xs with
    | none => some x
    | some m => some (if lexCmp x m == .lt then m else x)

/-- `pick_numeric`: minimum for ascending, maximum for descending, `Missing` when empty -/
def pickInt (desc : Bool) (vs : List Int) : Option Int := if desc then maxInt vs else minInt vs
def pickStr (desc : Bool) (vs : List (List Nat)) : Option (List Nat) :=
  if desc then maxStr vs else minStr vs

def lookupL {α : Type} (k : String) (l : List (String × List α)) : List α :=
  match l.lookup k with
  | some v => v
  | none => []

/-- `ResolvedSortField::value` -/
def Spec.value (sp : Spec) (dv : DocVals) (scoreRank : Int) : Val :=
  match sp.field with
  | .score => .score scoreRank
  | .kw f => (match pickStr sp.desc (lookupL f dv.kw) with | some s => .str s | none => .missing)
  | .i64 f => (match pickInt sp.desc (lookupL f dv.i64) with | some v => .i64 v | none => .missing)
  | .f64 f => (match pickInt sp.desc (lookupL f dv.f64) with | some v => .f64 v | none => .missing)

/-- `SortPlan::build_key` -/
def buildKey (p : Plan) (dv : DocVals) (scoreRank : Int) (seg doc : Nat) : Key :=
  { parts := p.map fun sp => { desc := sp.desc, val := sp.value dv scoreRank }, seg := seg, doc := doc }

/-- a value fits the column of a spec (or is `Missing`) -/
def kindOk : Field → Val → Bool
  | _, .missing => true
  | .score, .score _ => true
  | .kw _, .str _ => true
  | .i64 _, .i64 _ => true
  | .f64 _, .f64 _ => true
  | _, _ => false

/-- the parts of a key have the shape dictated by the plan -/
def shapedParts : Plan → List Part → Bool
  | [], [] => true
  | sp :: sps, p :: ps => (p.desc == sp.desc) && kindOk sp.field p.val && shapedParts sps ps
  | _, _ => false

def Key.shaped (pl : Plan) (k : Key) : Bool := shapedParts pl k.parts

/-! ## generic selection machinery -/

section generic
variable {α : Type} (lt : α → α → Bool)

def ins (x : α) : List α → List α
  | [] => [x]
  | y :: ys => if lt x y then x :: y :: ys else y :: ins x ys

def isort : List α → List α
  | [] => []
  | x :: xs => ins lt x (isort xs)

/-- `push_ranked` on a heap kept as the sorted list of its elements (best first, worst last) -/
def pushRanked (K : Nat) (H : List α) (x : α) : List α :=
  if K = 0 then H
  else if H.length < K then ins lt x H
  else match H.getLast? with
    | some w => if lt x w then ins lt x H.dropLast else H
    | none => H

def pushAll (K : Nat) : List α → List α → List α
  | H, [] => H
  | H, x :: xs => pushAll K (pushRanked lt K H x) xs

/-- field sorts: one heap of capacity `K = limit + 1` over all segments, then
`hits.sort_by(key); truncate(limit)` -/
def heapSearch (K limit : Nat) (segs : List (List α)) : List α :=
  (isort lt (pushAll lt K [] segs.flatten)).take limit

/-- default score sort: the `K` best of every segment, merged, sorted, truncated -/
def fastSearch (K limit : Nat) (segs : List (List α)) : List α :=
  (isort lt (segs.map fun s => (isort lt s).take K).flatten).take limit

/-- what the property asks for: the `limit`-prefix of all matches in comparator order -/
def specSearch (limit : Nat) (segs : List (List α)) : List α := (isort lt segs.flatten).take limit

end generic

/-- `IndexReader::search` hit selection for a plan -/
def search (pl : Plan) (limit : Nat) (segs : List (List Key)) : List Key :=
  if pl.fast then fastSearch Key.lt (limit + 1) limit segs
  else heapSearch Key.lt (limit + 1) limit segs

end SL.Sort
