/-!
# Core/Suggest — model of completion suggestions
(`searchlite-core/src/api/reader.rs`: `completion_suggest`, `collect_completion_candidates`,
`bounded_levenshtein`, `distance_weight`, `char_prefix`).  Import-free, executable.

* A term is a list of characters `List κ` (`κ = Char` in the driver, `Nat` in `decide`
  witnesses).  `completion_inputs` (the analyzer) is outside the model: the *analyzed* prefix
  is an input (DESIGN §3.2).
* A segment's term dictionary restricted to the field is a list `(term, df)` in key order;
  `df` is the length of the postings list (`seg.postings(key).len()`).
* Scores are exact: `distance_weight(d) = 1/(d+1)` with `d ≤ 2`, so every score is a multiple
  of 1/6; the model carries `6·score` as a `Nat` (`weight6`).  The code accumulates in `f32`.
* `u64::saturating_add` on `doc_freq` is modelled as `+` on `Nat`.
-/
namespace SL.Suggest

/-! ## edit distance -/
section Lev
variable {κ : Type} [DecidableEq κ]

def cost (x y : κ) : Nat := if x = y then 0 else 1

/-- one step of the textbook recurrence: distances from `x :: a` given `f = lev a`,
`la = |x :: a|` -/
def levCons (x : κ) (f : List κ → Nat) (la : Nat) : List κ → Nat
  | [] => la
  | y :: b => min (min (f (y :: b) + 1) (levCons x f la b + 1)) (f b + cost x y)

/-- Levenshtein distance by the textbook recurrence (see `levH_nil`, `levH_cons_nil`,
`levH_cons_cons` in `Props/C22`):
`lev [] b = |b|`, `lev a [] = |a|`,
`lev (x::a) (y::b) = min (lev a (y::b) + 1) (lev (x::a) b + 1) (lev a b + [x ≠ y])`. -/
def levH : List κ → List κ → Nat
  | [], b => b.length
  | x :: a, b => levCons x (levH a) (a.length + 1) b

/-- The distance the row-by-row DP computes: Wagner–Fischer fills `D[i][j]` = distance of the
first `i` characters of `a` and the first `j` of `b`, i.e. the recurrence above read from the
right-hand end of both strings.  `lev_eq_levH` (Lemmas/SuggestLev) proves `lev a b = levH a b`. -/
def lev (a b : List κ) : Nat := levH a.reverse b.reverse

/-- `(s ..= s+n).collect()` -/
def upTo : Nat → Nat → List Nat
  | s, 0 => [s]
  | s, n + 1 => s :: upTo (s + 1) n

/-- inner loop of `bounded_levenshtein`: `cj = curr[j]`, second argument `prev[j..]`,
third `b[j..]`; yields `curr[j+1..]` -/
def rowGo (ca : κ) : Nat → List Nat → List κ → List Nat
  | cj, pj :: pj1 :: ps, cb :: bs =>
    let v := min (min (pj1 + 1) (cj + 1)) (pj + cost ca cb)
    v :: rowGo ca v (pj1 :: ps) bs
  | _, _, _ => []

/-- `curr` for character `ca` at index `i` of `a` -/
def nextRow (ca : κ) (i : Nat) (prev : List Nat) (b : List κ) : List Nat :=
  (i + 1) :: rowGo ca (i + 1) prev b

/-- `row_min` -/
def rowMin : List Nat → Nat
  | [] => 0
  | x :: r => r.foldl min x

/-- outer loop with the early exit `if row_min > max_edits { return None }` -/
def dpLoop (k : Nat) (b : List κ) : Nat → List Nat → List κ → Option (List Nat)
  | _, prev, [] => some prev
  | i, prev, ca :: as =>
    let curr := nextRow ca i prev b
    if k < rowMin curr then none else dpLoop k b (i + 1) curr as

def absDiff (x y : Nat) : Nat := if x ≤ y then y - x else x - y

/-- `bounded_levenshtein(a, b, max_edits)` -/
def boundedLev (a b : List κ) (k : Nat) : Option Nat :=
  if k < absDiff a.length b.length then none
  else if a.length = 0 then (if b.length ≤ k then some b.length else none)
  else if b.length = 0 then (if a.length ≤ k then some a.length else none)
  else
    match dpLoop k b 0 (upTo 0 b.length) a with
    | none => none
    | some prev =>
      let d := prev.getLastD 0
      if d ≤ k then some d else none

end Lev

/-! ## candidates -/

structure FuzzyOpts where
  maxEdits : Nat
  prefixLength : Nat
  maxExpansions : Nat
  minLength : Nat
deriving Repr, DecidableEq

/-- one suggestion; `score6 = 6 · score` -/
structure Cand (κ : Type) where
  term : List κ
  df : Nat
  score6 : Nat
deriving Repr, DecidableEq

abbrev Dict (κ : Type) := List (List κ × Nat)

def DEFAULT_SUGGEST_SCAN : Nat := 64
def MAX_SUGGEST_CANDIDATES : Nat := 256

/-- `6 · distance_weight(d)`; exact for `d ≤ 2` -/
def weight6 (d : Nat) : Nat := 6 / (d + 1)

/-- `size.saturating_mul(5).clamp(64, 256)` -/
def prefixCap (size : Nat) : Nat :=
  max DEFAULT_SUGGEST_SCAN (min (size * 5) MAX_SUGGEST_CANDIDATES)

/-- `fuzzy.max_expansions.min(256).max(size)` -/
def fuzzyCap (o : FuzzyOpts) (size : Nat) : Nat :=
  max (min o.maxExpansions MAX_SUGGEST_CANDIDATES) size

section Scan
variable {α β : Type}

/-- LEGACY (before /repo commit e9ca503): the scan of one segment's keys with the shared counter
`expanded_total`: `break` at the top when the cap is reached, `continue` when the key does not
qualify, `break` right after the key that reaches the cap.  Returns the counter and the
accepted contributions in order.  One unit of the cap per (segment, term). -/
def legacy_scanSeg (q : α → Option β) (cap : Nat) : Nat → List α → Nat × List β
  | n, [] => (n, [])
  | n, e :: es =>
    if cap ≤ n then (n, [])
    else match q e with
      | none => legacy_scanSeg q cap n es
      | some c =>
        if cap ≤ n + 1 then (n + 1, [c])
        else
          let r := legacy_scanSeg q cap (n + 1) es
          (r.1, c :: r.2)

/-- LEGACY: the loop over segments (`if expanded_total >= cap { break }` after each segment) -/
def legacy_scanSegs (q : α → Option β) (cap : Nat) : Nat → List (List α) → List β
  | _, [] => []
  | n, seg :: rest =>
    let r := legacy_scanSeg q cap n seg
    if cap ≤ r.1 then r.2 else r.2 ++ legacy_scanSegs q cap r.1 rest

end Scan

section Collect
variable {κ : Type} [DecidableEq κ]

/-- contribution `(term, df, 6·score increment)` of a dictionary entry in prefix mode:
key starts with `field:prefix`, term non-empty, `df ≠ 0`; `score += df` -/
def qPrefix (input : List κ) (e : List κ × Nat) : Option (List κ × Nat × Nat) :=
  if input.isPrefixOf e.1 && !e.1.isEmpty && e.2 != 0 then some (e.1, e.2, 6 * e.2) else none

/-- contribution in fuzzy mode: key starts with `field:char_prefix(term, prefix_len)`, term
non-empty, length difference and bounded edit distance within `max_edits`, `df ≠ 0`;
`score += distance_weight(d) · df` -/
def qFuzzy (input : List κ) (pfx : List κ) (maxEdits : Nat) (e : List κ × Nat) :
    Option (List κ × Nat × Nat) :=
  if pfx.isPrefixOf e.1 && !e.1.isEmpty && absDiff e.1.length input.length ≤ maxEdits then
    match boundedLev input e.1 maxEdits with
    | none => none
    | some d => if e.2 != 0 then some (e.1, e.2, weight6 d * e.2) else none
  else none

/-- `out.entry(term).or_default(); doc_freq += df; score += inc` on an association list
(first-insertion order; the order is irrelevant after sorting) -/
def upsert (t : List κ) (df sc : Nat) : List (Cand κ) → List (Cand κ)
  | [] => [⟨t, df, sc⟩]
  | c :: cs => if c.term = t then ⟨t, c.df + df, c.score6 + sc⟩ :: cs else c :: upsert t df sc cs

def mergeAll (cs : List (List κ × Nat × Nat)) : List (Cand κ) :=
  cs.foldl (fun acc c => upsert c.1 c.2.1 c.2.2 acc) []

/-- `out.contains_key(term)` -/
def hasTerm (acc : List (Cand κ)) (t : List κ) : Bool := acc.any (fun c => c.term == t)

/-- The scan of one segment's keys (since /repo commit e9ca503): every key is visited; a key
whose term is not yet in `out` is skipped once `out.len() >= cap`; terms already in `out` keep
accumulating.  No `break`.  (The cap test sits before the qualification tests in the code; a
key that fails them is skipped either way.) -/
def scanSeg (q : List κ × Nat → Option (List κ × Nat × Nat)) (cap : Nat) :
    List (Cand κ) → List (List κ × Nat) → List (Cand κ)
  | out, [] => out
  | out, e :: es =>
    if cap ≤ out.length && !hasTerm out e.1 then scanSeg q cap out es
    else match q e with
      | none => scanSeg q cap out es
      | some c => scanSeg q cap (upsert c.1 c.2.1 c.2.2 out) es

/-- the loop over segments, `out` shared -/
def scanSegs (q : List κ × Nat → Option (List κ × Nat × Nat)) (cap : Nat) :
    List (Cand κ) → List (List (List κ × Nat)) → List (Cand κ)
  | out, [] => out
  | out, seg :: rest => scanSegs q cap (scanSeg q cap out seg) rest

/-- the request's per-entry test, cap, and the option-driven early returns, shared by the
current and the legacy collector -/
def collectWith (scan : (List κ × Nat → Option (List κ × Nat × Nat)) → Nat → List (Cand κ))
    (input : List κ) (size : Nat) (fz : Option FuzzyOpts) : List (Cand κ) :=
  match fz with
  | none => scan (qPrefix input) (prefixCap size)
  | some o =>
    if input.length < o.minLength || o.maxExpansions == 0 then []
    else
      let maxEdits := min o.maxEdits 2
      if maxEdits == 0 then []
      else
        let pfx := input.take (min o.prefixLength input.length)
        scan (qFuzzy input pfx maxEdits) (fuzzyCap o size)

/-- `collect_completion_candidates` -/
def collect (segs : List (Dict κ)) (input : List κ) (size : Nat) (fz : Option FuzzyOpts) :
    List (Cand κ) :=
  collectWith (fun q cap => scanSegs q cap [] segs) input size fz

/-- LEGACY `collect_completion_candidates` (before e9ca503): the cap counts (segment, term)
pairs -/
def legacy_collect (segs : List (Dict κ)) (input : List κ) (size : Nat) (fz : Option FuzzyOpts) :
    List (Cand κ) :=
  collectWith (fun q cap => mergeAll (legacy_scanSegs q cap 0 segs)) input size fz

/-- the comparator of `options.sort_by`: score descending, then text ascending.  Texts of
distinct options are distinct (`suggest_terms_nodup`), so the comparator is total on what it
sorts; the last key (`df`) only makes it a total order on *all* records and never decides
(`before_eq_codeBefore`). -/
def codeBefore (ltT : List κ → List κ → Bool) (a b : Cand κ) : Bool :=
  decide (b.score6 < a.score6) || (a.score6 == b.score6 && ltT a.term b.term)

def before (ltT : List κ → List κ → Bool) (a b : Cand κ) : Bool :=
  decide (b.score6 < a.score6) ||
    (a.score6 == b.score6 && (ltT a.term b.term || (a.term == b.term && decide (a.df < b.df))))

end Collect

section Sorting
variable {α : Type}

/-- structural insertion sort (same definition as `SL.ISort`, repeated here because `Core`
files import nothing; `Props/C22` proves them equal) -/
def insBy (lt : α → α → Bool) (x : α) : List α → List α
  | [] => [x]
  | y :: ys => if lt x y then x :: y :: ys else y :: insBy lt x ys

def sortBy (lt : α → α → Bool) : List α → List α
  | [] => []
  | x :: xs => insBy lt x (sortBy lt xs)

end Sorting

/-- `completion_suggest` after `completion_inputs` (exactly one analyzed input):
collect, sort, truncate -/
def suggest {κ : Type} [DecidableEq κ] (ltT : List κ → List κ → Bool) (segs : List (Dict κ))
    (input : List κ) (size : Nat) (fz : Option FuzzyOpts) : List (Cand κ) :=
  if size = 0 then [] else (sortBy (before ltT) (collect segs input size fz)).take size


/-- LEGACY `completion_suggest` (before /repo commit e9ca503) -/
def legacy_suggest {κ : Type} [DecidableEq κ] (ltT : List κ → List κ → Bool) (segs : List (Dict κ))
    (input : List κ) (size : Nat) (fz : Option FuzzyOpts) : List (Cand κ) :=
  if size = 0 then [] else (sortBy (before ltT) (legacy_collect segs input size fz)).take size

end SL.Suggest
