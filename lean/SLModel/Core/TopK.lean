/-!
# Core/TopK — top-k selection layer of C09 (import-free, executable, `Nat` scores)

Models `searchlite-core/src/query/wand.rs` for ranked, collector-free execution (the score
fast path of `IndexReader::search`: `rank_limit = limit + 1`, no aggregation collector):

* `brute`        — `brute_force` + `push_top_k` + `finalize_heap`: the `k` best accepted
                   candidates, score descending, document ascending;
* `loop`/`step`  — `wand_loop`: cursors ordered by current document, pivot selection
                   (`acc += bound; acc >= threshold`), the `pivot_doc == smallest_doc` branch
                   (score, advance, conditional `push_top_k`), the skip branch
                   (`skip_to_block` + `advance_to`); `blk = true` is the block-max variant whose
                   bound is `block_upper_bound()` = maximum of the block the *cursor* is in;
* `runDocsO`/`wandRule` — the same algorithm as a per-document decision rule ("fully score `d`
                   iff the bounds of the terms containing `d` reach the threshold").

Scores, contributions and bounds are `Nat`s: the driver obtains them from the `Float` numbers
of `Core/Bm25` through the monotone quantisation `⌊x·2³²⌋` (bounds: `+1`, so that a bound that
is mathematically ≥ a score stays ≥ after quantisation).  All theorems of `Props/C09` are about
exactly these definitions.
-/
namespace SL.TK

abbrev Hit := Nat × Nat          -- (score, doc)

/-- `RankedDoc` order used by `push_top_k`/`finalize_heap`: higher score first, then smaller doc -/
def better (a b : Hit) : Bool := decide (a.1 > b.1) || (decide (a.1 = b.1) && decide (a.2 < b.2))

def ins (x : Hit) : List Hit → List Hit
  | [] => [x]
  | y :: ys => if better x y then x :: y :: ys else y :: ins x ys

def sortHits : List Hit → List Hit
  | [] => []
  | x :: xs => ins x (sortHits xs)

/-- exhaustive top-k -/
def best (k : Nat) (L : List Hit) : List Hit := (sortHits L).take k

/-- `heap_threshold`: score of the k-th hit when the heap is full, else 0 -/
def theta (k : Nat) (H : List Hit) : Nat :=
  if H.length ≥ k then (match H.getLast? with | some h => h.1 | none => 0) else 0

/-- `if heap.len() < k || final_score > heap_threshold { push_top_k(..) }` on a heap kept as the
sorted list of its elements -/
def offer (k : Nat) (H : List Hit) (x : Hit) : List Hit :=
  if H.length < k ∨ x.1 > theta k H then (ins x H).take k else H

/-! ## decision-rule form -/

/-- visit documents in increasing order; a document may be skipped by `skip`, is ignored when it
has no accepted score (`sc d = none`: deleted, not matching, dropped by the score hook), and is
offered to the heap otherwise -/
def runDocsO (k : Nat) (sc : Nat → Option Nat) (skip : List Hit → Nat → Bool) :
    List Hit → List Nat → List Hit
  | H, [] => H
  | H, d :: ds =>
    if skip H d then runDocsO k sc skip H ds
    else match sc d with
      | none => runDocsO k sc skip H ds
      | some s => runDocsO k sc skip (offer k H (s, d)) ds

/-- WAND as a rule: skip `d` iff `bound d < threshold` -/
def wandRule (k : Nat) (sc : Nat → Option Nat) (bound : Nat → Nat) (D : List Nat) : List Hit :=
  runDocsO k sc (fun H d => decide (bound d < theta k H)) [] D

/-! ## terms and cursors -/

/-- one scored term of a segment after quantisation -/
structure Term where
  posts       : List (Nat × Nat)   -- (doc, contribution), docs strictly increasing
  ub          : Nat                -- `TermState::upper_bound`
  bs          : Nat                -- block size (≥ 1)
  blockUb     : List Nat           -- `block_upper_bound` of block 0, 1, …
  blockMaxDoc : List Nat           -- last document of block 0, 1, …
deriving Repr, DecidableEq, Inhabited

def Term.has (t : Term) (d : Nat) : Bool := t.posts.any (fun p => p.1 == d)

/-- `Σ` of the term bounds over the terms containing `d` -/
def ubsum (ts : List Term) (d : Nat) : Nat :=
  match ts with
  | [] => 0
  | t :: r => (if t.has d then t.ub else 0) + ubsum r d

/-- index of the posting of `d` in `t` (`none` if absent) -/
def Term.indexOf (t : Term) (d : Nat) : Option Nat :=
  let rec go : List (Nat × Nat) → Nat → Option Nat
    | [], _ => none
    | p :: ps, i => if p.1 == d then some i else go ps (i + 1)
  go t.posts 0

/-- bound of the block that *contains* `d` (the repaired block-max bound) -/
def Term.blockBoundOf (t : Term) (d : Nat) : Nat :=
  match t.indexOf d with
  | some i => t.blockUb.getD (i / t.bs) 0
  | none => 0

def blockSum (ts : List Term) (d : Nat) : Nat :=
  match ts with
  | [] => 0
  | t :: r => t.blockBoundOf d + blockSum r d

/-- `TermState`: the term, the cursor index, the postings from the cursor on -/
structure Cur where
  t    : Term
  idx  : Nat
  rest : List (Nat × Nat)
deriving Repr, DecidableEq, Inhabited

def Cur.init (t : Term) : Cur := ⟨t, 0, t.posts⟩
def Cur.done (c : Cur) : Bool := c.rest.isEmpty
/-- `doc_id()` (only used on cursors that are not done) -/
def Cur.doc (c : Cur) : Nat := match c.rest with | p :: _ => p.1 | [] => 0
/-- `advance()` -/
def Cur.advance (c : Cur) : Cur := { c with idx := c.idx + 1, rest := c.rest.tail }
/-- net effect of `advance_to(target)`: first posting at or after the cursor with `doc ≥ target`
(the galloping + `partition_point` search of the code computes exactly this position) -/
def Cur.advanceTo (c : Cur) (target : Nat) : Cur :=
  let r := c.rest.dropWhile (fun p => p.1 < target)
  { c with idx := c.idx + (c.rest.length - r.length), rest := r }
/-- `skip_to_block(target)`: jump to the start of the first block whose last document is
`≥ target`, if that is ahead of the cursor -/
def Cur.skipToBlock (c : Cur) (target : Nat) : Cur :=
  let bi := (c.t.blockMaxDoc.takeWhile (fun d => d < target)).length
  let start := bi * c.t.bs
  if start > c.idx then
    let ni := min start c.t.posts.length
    { c with idx := ni, rest := c.t.posts.drop ni }
  else c

/-- the bound a cursor contributes to pivot selection -/
def Cur.bound (blk : Bool) (c : Cur) : Nat :=
  if blk then c.t.blockUb.getD (c.idx / c.t.bs) 0 else c.t.ub

def insCur (c : Cur) : List Cur → List Cur
  | [] => [c]
  | y :: ys => if c.doc < y.doc then c :: y :: ys else y :: insCur c ys

/-- the term queue in pop order (smallest current document first) -/
def sortCurs : List Cur → List Cur
  | [] => []
  | c :: cs => insCur c (sortCurs cs)

/-- pivot selection: index of the first cursor (in queue order) at which the accumulated bound
reaches the threshold -/
def findPivot (blk : Bool) (θ : Nat) : Nat → List Cur → Option Nat
  | _, [] => none
  | acc, c :: cs =>
    if acc + c.bound blk ≥ θ then some 0
    else (findPivot blk θ (acc + c.bound blk) cs).map (· + 1)

structure St where
  cs : List Cur          -- cursors that are not done
  H  : List Hit          -- the heap as a sorted list
deriving Repr, DecidableEq, Inhabited

def notDone (c : Cur) : Bool := !c.done

/-- one iteration of the `loop { … }` of `wand_loop`; `none` = `break`.

The queue order (`sortCurs`) is used for pivot selection only.  The code then moves
`pending[..p_idx]`, the cursors popped before the pivot; those are all cursors with
`doc < pivot_doc` plus possibly some with `doc = pivot_doc`, on which `skip_to_block` and
`advance_to` do nothing — so "every cursor with `doc < pivot_doc`" is the same update and does
not depend on the (unspecified) heap order among equal documents. -/
def step (k : Nat) (blk : Bool) (sc : Nat → Option Nat) (s : St) : Option St :=
  match sortCurs s.cs with
  | [] => none
  | c0 :: rest =>
    let q := c0 :: rest
    let θ := theta k s.H
    match findPivot blk θ 0 q with
    | none => none
    | some p =>
      let pd := (q.getD p c0).doc
      let sd := c0.doc
      if pd == sd then
        let cs' := s.cs.map fun c => if c.doc == sd then c.advance else c
        let H' := match sc sd with
          | some v => offer k s.H (v, sd)
          | none => s.H
        some ⟨cs'.filter notDone, H'⟩
      else
        let cs' := s.cs.map fun c =>
          if c.doc < pd then (if blk then c.skipToBlock pd else c).advanceTo pd else c
        some ⟨cs'.filter notDone, s.H⟩

def loop (k : Nat) (blk : Bool) (sc : Nat → Option Nat) : Nat → St → List Hit
  | 0, s => s.H
  | n + 1, s =>
    match step k blk sc s with
    | none => s.H
    | some s' => loop k blk sc n s'

def sumLens : List Term → Nat
  | [] => 0
  | t :: ts => t.posts.length + sumLens ts

def initSt (ts : List Term) : St := ⟨(ts.map Cur.init).filter notDone, []⟩

/-- `wand_loop` on a segment (`fuel` = number of postings + 1: every iteration consumes one) -/
def wandLoop (k : Nat) (blk : Bool) (sc : Nat → Option Nat) (ts : List Term) : List Hit :=
  loop k blk sc (sumLens ts + 1) (initSt ts)

/-! ## one segment, all strategies -/

/-- quantised input of one segment: the scored terms and, for every candidate document
(increasing), its accepted final score -/
structure SegIn where
  terms : List Term
  fin   : List (Nat × Option Nat)
  /-- the query has no scored term at all: `scan_segment` ranks every live matching document,
  whatever the execution strategy -/
  scan  : Bool := false
deriving Repr, DecidableEq, Inhabited

def SegIn.sc (s : SegIn) (d : Nat) : Option Nat :=
  match s.fin.lookup d with
  | some o => o
  | none => none

def SegIn.docs (s : SegIn) : List Nat := s.fin.map (·.1)

def SegIn.hits (s : SegIn) : List Hit := s.fin.filterMap fun (d, o) => o.map fun v => (v, d)

/-- `brute_force` -/
def brute (k : Nat) (s : SegIn) : List Hit := best k s.hits

inductive Strategy | bm25 | wand | bmw
deriving Repr, DecidableEq, Inhabited

def runSeg (st : Strategy) (k : Nat) (s : SegIn) : List Hit :=
  if s.scan then brute k s else
  match st with
  | .bm25 => brute k s
  | .wand => wandLoop k false s.sc s.terms
  | .bmw => wandLoop k true s.sc s.terms

/-! ## where the bounds come from -/

/-- contribution of term `t` to document `d` (0 when absent) -/
def Term.contrib (t : Term) (d : Nat) : Nat :=
  match t.posts.find? (fun p => p.1 == d) with
  | some p => p.2
  | none => 0

/-- plain BM25 score of a document: the sum over the terms (`score_sum` in `wand_loop`) -/
def sumContrib (ts : List Term) (d : Nat) : Nat :=
  match ts with
  | [] => 0
  | t :: r => t.contrib d + sumContrib r d

/-- every posting is dominated by the bound of its term (`upper_bound_tf` of the maximal tf and
the minimal length dominates `score_tf` of any posting) -/
def validBounds (ts : List Term) : Bool := ts.all fun t => t.posts.all fun p => decide (p.2 ≤ t.ub)

/-- strictly increasing -/
def incr : List Nat → Bool
  | [] => true
  | [_] => true
  | a :: b :: r => decide (a < b) && incr (b :: r)

/-- well-formedness of a segment input: candidates strictly increasing, postings strictly
increasing by document, and the candidates are exactly the documents of the postings -/
def SegIn.wf (s : SegIn) : Bool :=
  incr s.docs && s.terms.all (fun t => incr (t.posts.map (·.1))) &&
    s.docs.all (fun d => s.terms.any (·.has d)) &&
    s.terms.all (fun t => t.posts.all (fun p => s.docs.contains p.1))

/-- the hypothesis of the pruning theorems, as an executable check on concrete data -/
def boundsOk (s : SegIn) : Bool :=
  s.fin.all fun (d, o) => match o with
    | some v => decide (v ≤ ubsum s.terms d)
    | none => true

/-- same for the repaired block-max bound (block that contains the document) -/
def blockBoundsOk (s : SegIn) : Bool :=
  s.fin.all fun (d, o) => match o with
    | some v => decide (v ≤ blockSum s.terms d)
    | none => true

/-! ## merging segments (`hits.sort_by(key); truncate(limit)` with the score key) -/

/-- documents of segment `i` are renumbered `i·2³² + doc` (`DocId = u32`), so that the key order
"score desc, segment asc, doc asc" is `better` again -/
def segBase : Nat := 4294967296

def globalise (i : Nat) (hs : List Hit) : List Hit := hs.map fun h => (h.1, i * segBase + h.2)

def mergeSegs : Nat → List (List Hit) → List Hit
  | _, [] => []
  | i, hs :: rest => globalise i hs ++ mergeSegs (i + 1) rest

/-- the whole ranked search: per-segment top-`k` by strategy, merge, best `limit` -/
def search (st : Strategy) (k limit : Nat) (segs : List SegIn) : List Hit :=
  best limit (mergeSegs 0 (segs.map (runSeg st k)))

/-! ## knife-edge detector (not part of any theorem)

`f32` vs `Float` rounding can flip a comparison `acc ≥ θ` or `score > θ` only when both sides are
within a few ulps.  The driver reports whether any comparison of a run was that close (but not
equal up to the quantisation slack), so that the harness does not count a numerically undecided
case as a disagreement. -/

def close (slack a b : Nat) : Bool :=
  let d := if a ≥ b then a - b else b - a
  decide (d > slack) && decide (d * 100000 ≤ b)

def pivotKnife (blk : Bool) (slack θ : Nat) : Nat → List Cur → Bool
  | _, [] => false
  | acc, c :: cs =>
    let a := acc + c.bound blk
    if a ≥ θ then close slack a θ else close slack a θ || pivotKnife blk slack θ a cs

def stepKnife (k : Nat) (blk : Bool) (sc : Nat → Option Nat) (slack : Nat) (s : St) : Bool :=
  match sortCurs s.cs with
  | [] => false
  | c0 :: rest =>
    let q := c0 :: rest
    let θ := theta k s.H
    (θ > 0 && pivotKnife blk slack θ 0 q) ||
      (match findPivot blk θ 0 q with
       | some p =>
         if (q.getD p c0).doc == c0.doc then
           match sc c0.doc with
           | some v => θ > 0 && close 0 v θ
           | none => false
         else false
       | none => false)

def loopKnife (k : Nat) (blk : Bool) (sc : Nat → Option Nat) (slack : Nat) : Nat → St → Bool
  | 0, _ => false
  | n + 1, s =>
    stepKnife k blk sc slack s ||
      (match step k blk sc s with
       | none => false
       | some s' => loopKnife k blk sc slack n s')

def knife (k : Nat) (blk : Bool) (s : SegIn) : Bool :=
  loopKnife k blk s.sc (2 * s.terms.length + 2) (sumLens s.terms + 1) (initSt s.terms)

end SL.TK
