/-!
# Core/TopK — top-k selection layer of C09 (import-free, executable, `Nat` scores)

Models `searchlite-core/src/query/wand.rs` for ranked, collector-free execution (the score
fast path of `IndexReader::search`: `rank_limit = limit + 1`, no aggregation collector):

* `brute`        — `brute_force` + `push_top_k` + `finalize_heap`: the `k` best accepted
                   candidates, score descending, document ascending;
* `loop`/`step`  — `wand_loop`: cursors ordered by current document, pivot selection
                   (`acc += bound; acc >= threshold`), the `pivot_doc == smallest_doc` branch
                   (score, advance, conditional `push_top_k`), the skip branch
                   (`skip_to_block` + `advance_to`); pivot selection uses the term-wide bounds;
                   `blk = true` (bmw) additionally drops a candidate when the block maxima of the
                   cursors standing on it cannot reach the threshold; `hook = true` (a score hook
                   is installed) switches pruning off; `legacy…` = the loop before /repo efe566e
                   and 355106c (block bound of the cursor's block in pivot selection, pruning
                   under hooks);
* `runDocsO`/`wandRule` — the same algorithm as a per-document decision rule ("fully score `d`
                   iff the bounds of the terms containing `d` reach the threshold").

Scores, contributions and bounds are `Nat`s: the driver obtains them from the `Float` numbers
of `Core/Bm25` through the monotone quantisation `⌊x·2³²⌋` (bounds: `+1`, so that a bound that
is mathematically ≥ a score stays ≥ after quantisation).  All theorems of `Props/C09` are about
exactly these definitions.
-/
namespace SL.TK

abbrev Hit := Nat × Nat          -- (score, doc)

/-- `RankedDoc` order used by `push_top_k`/`finalize_heap`: higher score first, then smaller doc -/
def better (a b : Hit) : Bool := decide (a.1 > b.1) || (decide (a.1 = b.1) && decide (a.2 < b.2))

def ins (x : Hit) : List Hit → List Hit
  | [] => [x]
  | y :: ys => if better x y then x :: y :: ys else y :: ins x ys

def sortHits : List Hit → List Hit
  | [] => []
  | x :: xs => ins x (sortHits xs)

/-- exhaustive top-k -/
def best (k : Nat) (L : List Hit) : List Hit := (sortHits L).take k

/-- `heap_threshold`: score of the k-th hit when the heap is full, else 0 -/
def theta (k : Nat) (H : List Hit) : Nat :=
  if H.length ≥ k then (match H.getLast? with | some h => h.1 | none => 0) else 0

/-- `if heap.len() < k || final_score > heap_threshold { push_top_k(..) }` on a heap kept as the
sorted list of its elements -/
def offer (k : Nat) (H : List Hit) (x : Hit) : List Hit :=
  if H.length < k ∨ x.1 > theta k H then (ins x H).take k else H

/-! ## decision-rule form -/

/-- visit documents in increasing order; a document may be skipped by `skip`, is ignored when it
has no accepted score (`sc d = none`: deleted, not matching, dropped by the score hook), and is
offered to the heap otherwise -/
def runDocsO (k : Nat) (sc : Nat → Option Nat) (skip : List Hit → Nat → Bool) :
    List Hit → List Nat → List Hit
  | H, [] => H
  | H, d :: ds =>
    if skip H d then runDocsO k sc skip H ds
    else match sc d with
      | none => runDocsO k sc skip H ds
      | some s => runDocsO k sc skip (offer k H (s, d)) ds

/-- WAND as a rule: skip `d` iff `bound d < threshold` -/
def wandRule (k : Nat) (sc : Nat → Option Nat) (bound : Nat → Nat) (D : List Nat) : List Hit :=
  runDocsO k sc (fun H d => decide (bound d < theta k H)) [] D

/-! ## terms and cursors -/

/-- one scored term of a segment after quantisation -/
structure Term where
  posts       : List (Nat × Nat)   -- (doc, contribution), docs strictly increasing
  ub          : Nat                -- `TermState::upper_bound`
  bs          : Nat                -- block size (≥ 1)
  blockUb     : List Nat           -- `block_upper_bound` of block 0, 1, …
  blockMaxDoc : List Nat           -- last document of block 0, 1, …
deriving Repr, DecidableEq, Inhabited

def Term.has (t : Term) (d : Nat) : Bool := t.posts.any (fun p => p.1 == d)

/-- `Σ` of the term bounds over the terms containing `d` -/
def ubsum (ts : List Term) (d : Nat) : Nat :=
  match ts with
  | [] => 0
  | t :: r => (if t.has d then t.ub else 0) + ubsum r d

/-- index of the posting of `d` in `t` (`none` if absent) -/
def Term.indexOf (t : Term) (d : Nat) : Option Nat :=
  let rec go : List (Nat × Nat) → Nat → Option Nat
    | [], _ => none
    | p :: ps, i => if p.1 == d then some i else go ps (i + 1)
  go t.posts 0

/-- bound of the block that *contains* `d` (the repaired block-max bound) -/
def Term.blockBoundOf (t : Term) (d : Nat) : Nat :=
  match t.indexOf d with
  | some i => t.blockUb.getD (i / t.bs) 0
  | none => 0

def blockSum (ts : List Term) (d : Nat) : Nat :=
  match ts with
  | [] => 0
  | t :: r => t.blockBoundOf d + blockSum r d

/-- `TermState`: the term, the cursor index, the postings from the cursor on -/
structure Cur where
  t    : Term
  idx  : Nat
  rest : List (Nat × Nat)
deriving Repr, DecidableEq, Inhabited

def Cur.init (t : Term) : Cur := ⟨t, 0, t.posts⟩
def Cur.done (c : Cur) : Bool := c.rest.isEmpty
/-- `doc_id()` (only used on cursors that are not done) -/
def Cur.doc (c : Cur) : Nat := match c.rest with | p :: _ => p.1 | [] => 0
/-- `advance()` -/
def Cur.advance (c : Cur) : Cur := { c with idx := c.idx + 1, rest := c.rest.tail }
/-- net effect of `advance_to(target)`: first posting at or after the cursor with `doc ≥ target`
(the galloping + `partition_point` search of the code computes exactly this position) -/
def Cur.advanceTo (c : Cur) (target : Nat) : Cur :=
  let r := c.rest.dropWhile (fun p => p.1 < target)
  { c with idx := c.idx + (c.rest.length - r.length), rest := r }
/-- `skip_to_block(target)`: jump to the start of the first block whose last document is
`≥ target`, if that is ahead of the cursor -/
def Cur.skipToBlock (c : Cur) (target : Nat) : Cur :=
  let bi := (c.t.blockMaxDoc.takeWhile (fun d => d < target)).length
  let start := bi * c.t.bs
  if start > c.idx then
    let ni := min start c.t.posts.length
    { c with idx := ni, rest := c.t.posts.drop ni }
  else c

/-- the bound a cursor contributes to pivot selection -/
def Cur.bound (blk : Bool) (c : Cur) : Nat :=
  if blk then c.t.blockUb.getD (c.idx / c.t.bs) 0 else c.t.ub

def insCur (c : Cur) : List Cur → List Cur
  | [] => [c]
  | y :: ys => if c.doc < y.doc then c :: y :: ys else y :: insCur c ys

/-- the term queue in pop order (smallest current document first) -/
def sortCurs : List Cur → List Cur
  | [] => []
  | c :: cs => insCur c (sortCurs cs)

structure St where
  cs : List Cur          -- cursors that are not done
  H  : List Hit          -- the heap as a sorted list
deriving Repr, DecidableEq, Inhabited

def notDone (c : Cur) : Bool := !c.done

/-- pivot selection: index of the first cursor (in queue order) at which the accumulated
**term-wide** bound reaches the threshold (since /repo 355106c for `wand` and `bmw` alike) -/
def findPivot (θ : Nat) : Nat → List Cur → Option Nat
  | _, [] => none
  | acc, c :: cs =>
    if acc + c.t.ub ≥ θ then some 0
    else (findPivot θ (acc + c.t.ub) cs).map (· + 1)

/-- `pivot_threshold`: the heap threshold, or "−∞" (every comparison `acc ≥ …` succeeds, here 0)
when a score hook rewrites the final score (since /repo efe566e) -/
def pivotTheta (k : Nat) (hook : Bool) (H : List Hit) : Nat := if hook then 0 else theta k H

/-- `block_acc`: sum of `block_upper_bound()` over the cursors standing on document `d` -/
def blockAcc (cs : List Cur) (d : Nat) : Nat :=
  match cs with
  | [] => 0
  | c :: r => (if c.doc == d then c.bound true else 0) + blockAcc r d

/-- one iteration of the `loop { … }` of `wand_loop`; `none` = `break`.

The queue order (`sortCurs`) is used for pivot selection only.  In the skip branch the code moves
`pending[..p_idx]`, the cursors popped before the pivot; those are all cursors with
`doc < pivot_doc` plus possibly some with `doc = pivot_doc`, on which `skip_to_block` and
`advance_to` do nothing — so "every cursor with `doc < pivot_doc`" is the same update.  In the
candidate branch `pending` holds exactly the cursors standing on the candidate; with `blk` the
candidate is dropped without scoring when their block maxima cannot reach the threshold. -/
def step (k : Nat) (blk hook : Bool) (sc : Nat → Option Nat) (s : St) : Option St :=
  match sortCurs s.cs with
  | [] => none
  | c0 :: rest =>
    let q := c0 :: rest
    let pθ := pivotTheta k hook s.H
    match findPivot pθ 0 q with
    | none => none
    | some p =>
      let pd := (q.getD p c0).doc
      let sd := c0.doc
      if pd == sd then
        let cs' := (s.cs.map fun c => if c.doc == sd then c.advance else c).filter notDone
        if blk && decide (blockAcc s.cs sd < pθ) then some ⟨cs', s.H⟩
        else
          let H' := match sc sd with
            | some v => offer k s.H (v, sd)
            | none => s.H
          some ⟨cs', H'⟩
      else
        let cs' := s.cs.map fun c =>
          if c.doc < pd then (if blk then c.skipToBlock pd else c).advanceTo pd else c
        some ⟨cs'.filter notDone, s.H⟩

def loop (k : Nat) (blk hook : Bool) (sc : Nat → Option Nat) : Nat → St → List Hit
  | 0, s => s.H
  | n + 1, s =>
    match step k blk hook sc s with
    | none => s.H
    | some s' => loop k blk hook sc n s'

/-- the repaired loop as a per-document decision rule: a candidate is skipped iff the term-wide
bounds of the terms containing it stay below the pivot threshold, or (bmw) the maxima of the
blocks that contain it do -/
def pruneSkip (k : Nat) (blk hook : Bool) (ub bb : Nat → Nat) (H : List Hit) (d : Nat) : Bool :=
  decide (ub d < pivotTheta k hook H) || (blk && decide (bb d < pivotTheta k hook H))

def pruneRule (k : Nat) (blk hook : Bool) (sc : Nat → Option Nat) (ub bb : Nat → Nat)
    (D : List Nat) : List Hit :=
  runDocsO k sc (pruneSkip k blk hook ub bb) [] D

/-! ### the loop before the repairs (legacy) -/

/-- legacy pivot selection (before /repo 355106c): with `blk` the bound of a cursor was the
maximum of the block the cursor is in -/
def legacyFindPivot (blk : Bool) (θ : Nat) : Nat → List Cur → Option Nat
  | _, [] => none
  | acc, c :: cs =>
    if acc + c.bound blk ≥ θ then some 0
    else (legacyFindPivot blk θ (acc + c.bound blk) cs).map (· + 1)

/-- one iteration of `wand_loop` as it was before /repo efe566e and 355106c (kept for the
kernel-checked witnesses of the two repaired defects); `none` = `break`.

The queue order (`sortCurs`) is used for pivot selection only.  The code then moves
`pending[..p_idx]`, the cursors popped before the pivot; those are all cursors with
`doc < pivot_doc` plus possibly some with `doc = pivot_doc`, on which `skip_to_block` and
`advance_to` do nothing — so "every cursor with `doc < pivot_doc`" is the same update and does
not depend on the (unspecified) heap order among equal documents. -/
def legacyStep (k : Nat) (blk : Bool) (sc : Nat → Option Nat) (s : St) : Option St :=
  match sortCurs s.cs with
  | [] => none
  | c0 :: rest =>
    let q := c0 :: rest
    let θ := theta k s.H
    match legacyFindPivot blk θ 0 q with
    | none => none
    | some p =>
      let pd := (q.getD p c0).doc
      let sd := c0.doc
      if pd == sd then
        let cs' := s.cs.map fun c => if c.doc == sd then c.advance else c
        let H' := match sc sd with
          | some v => offer k s.H (v, sd)
          | none => s.H
        some ⟨cs'.filter notDone, H'⟩
      else
        let cs' := s.cs.map fun c =>
          if c.doc < pd then (if blk then c.skipToBlock pd else c).advanceTo pd else c
        some ⟨cs'.filter notDone, s.H⟩

def legacyLoop (k : Nat) (blk : Bool) (sc : Nat → Option Nat) : Nat → St → List Hit
  | 0, s => s.H
  | n + 1, s =>
    match legacyStep k blk sc s with
    | none => s.H
    | some s' => legacyLoop k blk sc n s'

def sumLens : List Term → Nat
  | [] => 0
  | t :: ts => t.posts.length + sumLens ts

def initSt (ts : List Term) : St := ⟨(ts.map Cur.init).filter notDone, []⟩

/-- `wand_loop` on a segment (`fuel` = number of postings + 1: every iteration consumes one) -/
def wandLoop (k : Nat) (blk hook : Bool) (sc : Nat → Option Nat) (ts : List Term) : List Hit :=
  loop k blk hook sc (sumLens ts + 1) (initSt ts)

def legacyWandLoop (k : Nat) (blk : Bool) (sc : Nat → Option Nat) (ts : List Term) : List Hit :=
  legacyLoop k blk sc (sumLens ts + 1) (initSt ts)

/-! ## one segment, all strategies -/

/-- quantised input of one segment: the scored terms and, for every candidate document
(increasing), its accepted final score -/
structure SegIn where
  terms : List Term
  fin   : List (Nat × Option Nat)
  /-- the query has no scored term at all: `scan_segment` ranks every live matching document,
  whatever the execution strategy -/
  scan  : Bool := false
  /-- a score hook is installed (`score_adjust.is_some()`): function_score / script_score /
  rank_feature somewhere in the score tree -/
  hook  : Bool := false
deriving Repr, DecidableEq, Inhabited

def SegIn.sc (s : SegIn) (d : Nat) : Option Nat :=
  match s.fin.lookup d with
  | some o => o
  | none => none

def SegIn.docs (s : SegIn) : List Nat := s.fin.map (·.1)

def SegIn.hits (s : SegIn) : List Hit := s.fin.filterMap fun (d, o) => o.map fun v => (v, d)

/-- `brute_force` -/
def brute (k : Nat) (s : SegIn) : List Hit := best k s.hits

inductive Strategy | bm25 | wand | bmw
deriving Repr, DecidableEq, Inhabited

def runSeg (st : Strategy) (k : Nat) (s : SegIn) : List Hit :=
  if s.scan then brute k s else
  match st with
  | .bm25 => brute k s
  | .wand => wandLoop k false s.hook s.sc s.terms
  | .bmw => wandLoop k true s.hook s.sc s.terms

/-- the strategies before /repo efe566e and 355106c -/
def legacyRunSeg (st : Strategy) (k : Nat) (s : SegIn) : List Hit :=
  if s.scan then brute k s else
  match st with
  | .bm25 => brute k s
  | .wand => legacyWandLoop k false s.sc s.terms
  | .bmw => legacyWandLoop k true s.sc s.terms

/-! ## where the bounds come from -/

/-- contribution of term `t` to document `d` (0 when absent) -/
def Term.contrib (t : Term) (d : Nat) : Nat :=
  match t.posts.find? (fun p => p.1 == d) with
  | some p => p.2
  | none => 0

/-- plain BM25 score of a document: the sum over the terms (`score_sum` in `wand_loop`) -/
def sumContrib (ts : List Term) (d : Nat) : Nat :=
  match ts with
  | [] => 0
  | t :: r => t.contrib d + sumContrib r d

/-- every posting is dominated by the bound of its term (`upper_bound_tf` of the maximal tf and
the minimal length dominates `score_tf` of any posting) -/
def validBounds (ts : List Term) : Bool := ts.all fun t => t.posts.all fun p => decide (p.2 ≤ t.ub)

/-- strictly increasing -/
def incr : List Nat → Bool
  | [] => true
  | [_] => true
  | a :: b :: r => decide (a < b) && incr (b :: r)

/-- well-formedness of a segment input: candidates strictly increasing, postings strictly
increasing by document, and the candidates are exactly the documents of the postings -/
def SegIn.wf (s : SegIn) : Bool :=
  incr s.docs && s.terms.all (fun t => incr (t.posts.map (·.1))) &&
    s.docs.all (fun d => s.terms.any (·.has d)) &&
    s.terms.all (fun t => t.posts.all (fun p => s.docs.contains p.1))

/-- the block metadata of a term are usable: positive block size, and the recorded last document
of block `i / bs` dominates posting `i` (what `skip_to_block` relies on) -/
def blocksOkFrom (t : Term) : Nat → List (Nat × Nat) → Bool
  | _, [] => true
  | i, p :: ps => decide (p.1 ≤ t.blockMaxDoc.getD (i / t.bs) 0) && blocksOkFrom t (i + 1) ps

def Term.blocksOk (t : Term) : Bool := decide (0 < t.bs) && blocksOkFrom t 0 t.posts

/-- the hypothesis of the pruning theorems, as an executable check on concrete data -/
def boundsOk (s : SegIn) : Bool :=
  s.fin.all fun (d, o) => match o with
    | some v => decide (v ≤ ubsum s.terms d)
    | none => true

/-- same for the repaired block-max bound (block that contains the document) -/
def blockBoundsOk (s : SegIn) : Bool :=
  s.fin.all fun (d, o) => match o with
    | some v => decide (v ≤ blockSum s.terms d)
    | none => true

/-- every posting is dominated by the recorded maximum of its own block (what the block check of
`bmw` needs: the block bound of a cursor standing on a document is at least that cursor's
contribution to the document) -/
def validBlocksFrom (t : Term) : Nat → List (Nat × Nat) → Bool
  | _, [] => true
  | i, p :: ps => decide (p.2 ≤ t.blockUb.getD (i / t.bs) 0) && validBlocksFrom t (i + 1) ps

def validBlockBounds (ts : List Term) : Bool := ts.all fun t => validBlocksFrom t 0 t.posts

/-- the decidable premises of the pruning theorem for one segment and one strategy: either the
segment is ranked by `scan_segment`, or it is well formed, (bmw) its block metadata are usable,
and — unless a score hook switches pruning off — the bounds dominate the accepted scores -/
def segOk (st : Strategy) (s : SegIn) : Bool :=
  s.scan ||
    (s.wf && (st != .bmw || s.terms.all Term.blocksOk) &&
      (s.hook || (boundsOk s && (st != .bmw || blockBoundsOk s))))

/-! ## merging segments (`hits.sort_by(key); truncate(limit)` with the score key) -/

/-- documents of segment `i` are renumbered `i·2³² + doc` (`DocId = u32`), so that the key order
"score desc, segment asc, doc asc" is `better` again -/
def segBase : Nat := 4294967296

def globalise (i : Nat) (hs : List Hit) : List Hit := hs.map fun h => (h.1, i * segBase + h.2)

def mergeSegs : Nat → List (List Hit) → List Hit
  | _, [] => []
  | i, hs :: rest => globalise i hs ++ mergeSegs (i + 1) rest

/-- the whole ranked search: per-segment top-`k` by strategy, merge, best `limit` -/
def search (st : Strategy) (k limit : Nat) (segs : List SegIn) : List Hit :=
  best limit (mergeSegs 0 (segs.map (runSeg st k)))

def legacySearch (st : Strategy) (k limit : Nat) (segs : List SegIn) : List Hit :=
  best limit (mergeSegs 0 (segs.map (legacyRunSeg st k)))

end SL.TK
