/-!
# Core/Vector — model of vector and hybrid search (cargo feature `vectors`)

Mirrors, as the code exists:
* `searchlite-core/src/vectors/mod.rs`  — `normalize_in_place`, `metric_similarity`,
  `l2_distance`, `blend_scores`
* `searchlite-core/src/vectors/hnsw.rs` — the single-layer graph: `add_vector`, `prune_list`,
  `search_internal` (the bound `worst_score` is re-read per neighbour since `9cbe548`; the
  earlier once-per-candidate read is kept as `legacySearch`),
  `search`
* `searchlite-core/src/index/segment.rs` — `collect_vector_value` (normalisation at ingest for
  cosine fields), the per-segment store and graph construction in doc-id order
* `searchlite-core/src/api/reader.rs` — `build_vector_plan` (+ `collect_vectors`),
  `collect_vector_maps` (fetch loop of `520bc94`; the earlier single fetch is `legacySegCands`),
  `compute_hybrid_score`, `search_vector_only`, `merge_vector_hits`,
  the `MAX_VECTOR_*` caps.

Import-free and executable.  Scalars are abstract (`Scalar S`): the driver instantiates `S`
with `Float32` (same operations, same order as the Rust code, so results are bit-comparable),
the theorems quantify over every instance or use `Rat`.  Filters, the text matcher and BM25
scores are *inputs* (booleans / optional scores per document): they belong to C07/C08/C10.
-/
namespace SL.Vec

/-- the scalar operations the code uses on `f32` -/
class Scalar (S : Type) where
  zero : S
  /-- `-0.0`: the start value of `Iterator::sum::<f32>()` -/
  nzero : S
  one : S
  add : S → S → S
  sub : S → S → S
  mul : S → S → S
  div : S → S → S
  neg : S → S
  sqrt : S → S
  /-- `a < b` (false when either side is NaN) -/
  lt : S → S → Bool
  /-- `a <= b` -/
  le : S → S → Bool
  /-- `a.total_cmp(&b) == Less` -/
  tlt : S → S → Bool
  isNan : S → Bool
  isFinite : S → Bool
  /-- `f32::MIN` -/
  fmin : S
  /-- `n as f32` -/
  ofNat : Nat → S

open Scalar

section
variable {S : Type} [Scalar S]

/-! ## similarity (`vectors/mod.rs`) -/

/-- `a.iter().zip(b).map(|(x, y)| x * y).sum::<f32>()` -/
def dotFrom (acc : S) : List S → List S → S
  | x :: xs, y :: ys => dotFrom (add acc (mul x y)) xs ys
  | _, _ => acc

def dot (a b : List S) : S := dotFrom nzero a b

/-- `vec.iter().map(|v| v * v).sum::<f32>()` -/
def normSq (a : List S) : S := dot a a

/-- `normalize_in_place` -/
def normalize (a : List S) : List S :=
  let n := sqrt (normSq a)
  if lt zero n then a.map (fun v => div v n) else a

/-- `l2_distance`: `sum += (x - y) * (x - y)` from `0.0`, then `sqrt` -/
def l2SqFrom (acc : S) : List S → List S → S
  | x :: xs, y :: ys => l2SqFrom (add acc (mul (sub x y) (sub x y))) xs ys
  | _, _ => acc

def l2Distance (a b : List S) : S := sqrt (l2SqFrom zero a b)

inductive Metric where
  | cosine
  | l2
deriving DecidableEq, Repr

/-- `metric_similarity`: cosine assumes both sides normalised (dot product, NaN ↦ 0);
L2 is the negated distance -/
def metricSim (m : Metric) (a b : List S) : S :=
  match m with
  | .cosine => let d := dot a b; if isNan d then zero else d
  | .l2 => neg (l2Distance a b)

/-- what ingest (`collect_vector_value`) and the planner do to a raw vector of a field -/
def prep (m : Metric) (v : List S) : List S :=
  match m with
  | .cosine => normalize v
  | .l2 => v

/-- `blend_scores(bm25, vector_score, alpha, true)` -/
def blend (bm25 vec alpha : S) : S := add (mul alpha bm25) (mul (sub one alpha) vec)

/-- `missing_vector_score` -/
def missingScore (m : Metric) : S :=
  match m with
  | .cosine => neg one
  | .l2 => fmin

/-! ## generic list helpers (structural, so that `decide` can run them) -/

/-- insertion into a list sorted by `lt` (stable: goes after equal elements) -/
def ins {α : Type} (lt : α → α → Bool) (x : α) : List α → List α
  | [] => [x]
  | y :: ys => if lt x y then x :: y :: ys else y :: ins lt x ys

def isort {α : Type} (lt : α → α → Bool) : List α → List α
  | [] => []
  | x :: xs => ins lt x (isort lt xs)

/-- remove a maximal element (the last one among equals does not matter: orders are total
on the elements that occur) -/
def popMax {α : Type} (lt : α → α → Bool) : List α → Option (α × List α)
  | [] => none
  | x :: xs =>
    match popMax lt xs with
    | none => some (x, [])
    | some (y, rest) => if lt x y then some (y, x :: rest) else some (x, xs)

/-! ## the flat HNSW graph (`vectors/hnsw.rs`) -/

structure Scored (S : Type) where
  id : Nat
  score : S
deriving Repr

/-- `Ord for Scored`: `score.total_cmp` then `id` -/
def Scored.lt (a b : Scored S) : Bool :=
  if tlt a.score b.score then true
  else if tlt b.score a.score then false
  else a.id < b.id

/-- `b.cmp(a)`: descending -/
def Scored.gt (a b : Scored S) : Bool := Scored.lt b a

/-- per-document vectors of one field in one segment (`VectorStore`), already prepared -/
abbrev Store (S : Type) := List (Option (List S))

def vecAt (st : Store S) (id : Nat) : Option (List S) :=
  match st[id]? with
  | some (some v) => some v
  | _ => none

/-- `VectorStore::present` -/
def present (st : Store S) : Nat := (st.filter Option.isSome).length

structure Graph where
  m : Nat
  efc : Nat
  entry : Option Nat
  nbrs : List (List Nat)
deriving Repr, DecidableEq

/-- `HnswIndex::new` -/
def Graph.new (cap m efc : Nat) : Graph :=
  { m := max m 1, efc := max efc 1, entry := none, nbrs := List.replicate cap [] }

def Graph.nbrsOf (g : Graph) (id : Nat) : List Nat := g.nbrs.getD id []

/-- `similarity`: missing vector ↦ `f32::MIN` -/
def simOr (mt : Metric) (st : Store S) (q : List S) (id : Nat) : S :=
  match vecAt st id with
  | some v => metricSim mt q v
  | none => fmin

/-- `similarity_opt` -/
def simOpt (mt : Metric) (st : Store S) (q : List S) (id : Nat) : Option S :=
  (vecAt st id).map (metricSim mt q)

/-- `similarity_between` -/
def simBetween (mt : Metric) (st : Store S) (a b : Nat) : S :=
  match vecAt st a, vecAt st b with
  | some va, some vb => metricSim mt va vb
  | _, _ => fmin

structure SState (S : Type) where
  visited : List Nat
  cands : List (Scored S)
  results : List (Scored S)

/-- `results.peek()`: the worst kept result -/
def worstOf (rs : List (Scored S)) : Option (Scored S × List (Scored S)) := popMax Scored.gt rs

/-- `results.peek().map(|s| s.0.score).unwrap_or(f32::MIN)` -/
def worstScore (rs : List (Scored S)) : S :=
  match worstOf rs with
  | some (w, _) => w.score
  | none => fmin

/-- body of the `for &neighbor in …` loop; the bound `worst_score` is re-read for every
neighbour (`fix: HNSW search compares each neighbour with the current result bound`) -/
def visitNbr (mt : Metric) (st : Store S) (q : List S) (ef : Nat)
    (s : SState S) (nb : Nat) : SState S :=
  if s.visited.contains nb then s
  else
    let s := { s with visited := nb :: s.visited }
    match simOpt mt st q nb with
    | none => s
    | some sc =>
      if s.results.length < ef || lt (worstScore s.results) sc then
        let rs := (⟨nb, sc⟩ : Scored S) :: s.results
        let rs := if rs.length > ef then (match worstOf rs with | some (_, r) => r | none => rs) else rs
        { s with cands := ⟨nb, sc⟩ :: s.cands, results := rs }
      else s

/-- the `while let Some(best) = candidates.pop()` loop; every node enters `cands` at most
once, so `fuel = number of nodes + 1` iterations suffice -/
def searchLoop (mt : Metric) (st : Store S) (g : Graph) (q : List S) (ef : Nat) :
    Nat → SState S → List (Scored S)
  | 0, s => s.results
  | fuel + 1, s =>
    match popMax Scored.lt s.cands with
    | none => s.results
    | some (best, rest) =>
      if lt best.score (worstScore s.results) && s.results.length ≥ ef then s.results
      else
        searchLoop mt st g q ef fuel
          ((g.nbrsOf best.id).foldl (visitNbr mt st q ef) { s with cands := rest })

/-- `search_internal` -/
def searchInternal (mt : Metric) (st : Store S) (g : Graph) (q : List S) (ef : Nat) :
    List (Scored S) :=
  match g.entry with
  | none => []
  | some e =>
    let sc := simOr mt st q e
    searchLoop mt st g q ef (g.nbrs.length + 2)
      { visited := [e], cands := [⟨e, sc⟩], results := [⟨e, sc⟩] }

/-- `HnswIndex::search` -/
def search (mt : Metric) (st : Store S) (g : Graph) (q : List S) (k efSearch : Nat) :
    List (Scored S) :=
  if k = 0 then []
  else
    let ef := max (max efSearch k) 1
    (isort Scored.gt (searchInternal mt st g q ef)).take k

/-! ### legacy search (before `9cbe548`): `worst_score` read once per popped candidate -/

def legacyVisitNbr (mt : Metric) (st : Store S) (q : List S) (ef : Nat) (worst : S)
    (s : SState S) (nb : Nat) : SState S :=
  if s.visited.contains nb then s
  else
    let s := { s with visited := nb :: s.visited }
    match simOpt mt st q nb with
    | none => s
    | some sc =>
      if s.results.length < ef || lt worst sc then
        let rs := (⟨nb, sc⟩ : Scored S) :: s.results
        let rs := if rs.length > ef then (match worstOf rs with | some (_, r) => r | none => rs) else rs
        { s with cands := ⟨nb, sc⟩ :: s.cands, results := rs }
      else s

def legacySearchLoop (mt : Metric) (st : Store S) (g : Graph) (q : List S) (ef : Nat) :
    Nat → SState S → List (Scored S)
  | 0, s => s.results
  | fuel + 1, s =>
    match popMax Scored.lt s.cands with
    | none => s.results
    | some (best, rest) =>
      let worst := worstScore s.results
      if lt best.score worst && s.results.length ≥ ef then s.results
      else
        legacySearchLoop mt st g q ef fuel
          ((g.nbrsOf best.id).foldl (legacyVisitNbr mt st q ef worst) { s with cands := rest })

def legacySearch (mt : Metric) (st : Store S) (g : Graph) (q : List S) (k efSearch : Nat) :
    List (Scored S) :=
  if k = 0 then []
  else
    let ef := max (max efSearch k) 1
    let found := match g.entry with
      | none => []
      | some e =>
        let sc := simOr mt st q e
        legacySearchLoop mt st g q ef (g.nbrs.length + 2)
          { visited := [e], cands := [⟨e, sc⟩], results := [⟨e, sc⟩] }
    (isort Scored.gt found).take k

/-- order used by `prune_list`: similarity to `target` descending, then id ascending -/
def pruneLt (mt : Metric) (st : Store S) (target : Nat) (a b : Nat) : Bool :=
  let sa := simBetween mt st target a
  let sb := simBetween mt st target b
  if tlt sb sa then true
  else if tlt sa sb then false
  else a < b

/-- `prune_list` -/
def pruneList (mt : Metric) (st : Store S) (m : Nat) (target : Nat) (l : List Nat) : List Nat :=
  (isort (pruneLt mt st target) l).take m

def Graph.setNbrs (g : Graph) (id : Nat) (l : List Nat) : Graph :=
  { g with nbrs := g.nbrs.set id l }

/-- the `for &n in neighbor_ids` back-link loop -/
def backlink (mt : Metric) (st : Store S) (id : Nat) (g : Graph) (n : Nat) : Graph :=
  let owned := g.nbrsOf n
  if owned.contains id then g
  else g.setNbrs n (pruneList mt st g.m n (owned ++ [id]))

/-- `add_vector`, neighbour selection: beam search from the entry point with
`ef = max(ef_construction, 2m)`, the new node itself removed, best `m` kept -/
def selectNeighbors (mt : Metric) (st : Store S) (g : Graph) (id : Nat) (v : List S) : List Nat :=
  let ef := max g.efc (g.m * 2)
  let cands := (searchInternal mt st g v ef).filter (fun c => c.id != id)
  ((isort Scored.gt cands).take g.m).map (·.id)

/-- `add_vector`, linking: the new node's list, then the back-links -/
def linkNew (mt : Metric) (st : Store S) (g : Graph) (id : Nat) (nids : List Nat) : Graph :=
  nids.foldl (backlink mt st id) (g.setNbrs id nids)

/-- `add_vector`, last block: an entry point without neighbours is tied to the new node -/
def fixEntry (mt : Metric) (st : Store S) (g : Graph) (entry id : Nat) : Graph :=
  if (g.nbrsOf entry).isEmpty && id != entry then
    let g := g.setNbrs entry (pruneList mt st g.m entry (g.nbrsOf entry ++ [id]))
    g.setNbrs id (pruneList mt st g.m id (g.nbrsOf id ++ [entry]))
  else g

/-- `add_vector` -/
def addVector (mt : Metric) (st : Store S) (g : Graph) (id : Nat) : Graph :=
  match vecAt st id with
  | none => g
  | some v =>
    match g.entry with
    | none => { g with entry := some id }
    | some entry => fixEntry mt st (linkNew mt st g id (selectNeighbors mt st g id v)) entry id

/-- segment build: `for doc_id in 0..total_docs { if vector(doc_id).is_some() { add_vector } }` -/
def buildGraph (mt : Metric) (st : Store S) (m efc : Nat) : Graph :=
  (List.range st.length).foldl (addVector mt st) (Graph.new st.length m efc)

/-! ## request planning (`build_vector_plan`) -/

def MAX_VECTOR_CLAUSES : Nat := 8
def MAX_VECTOR_K : Nat := 1024
def MAX_VECTOR_CANDIDATE_SIZE : Nat := 10000
def MAX_VECTOR_EF_SEARCH : Nat := 65536
def MAX_GLOBAL_CANDIDATES : Nat := 20000
def DEFAULT_EF_SEARCH : Nat := 40

variable {κ : Type} [DecidableEq κ]

structure VField (κ : Type) where
  name : κ
  dim : Nat
  metric : Metric
  m : Nat
  efc : Nat
deriving Repr

/-- `VectorQuery` -/
structure VQuery (κ S : Type) where
  field : κ
  vector : List S
  k : Option Nat
  alpha : Option S
  efSearch : Option Nat
  candidateSize : Option Nat
  boost : Option S

/-- the part of the query tree `collect_vectors` looks at -/
inductive QNode (κ S : Type) where
  | vector (q : VQuery κ S)
  | bool (must should mustNot : List (QNode κ S)) (hasFilter : Bool)
  | disMax (qs : List (QNode κ S))
  /-- `function_score` / `script_score` around a query -/
  | wrap (q : QNode κ S)
  /-- every other node (text leaves, rank_feature, …) -/
  | other

def QNode.isVector : QNode κ S → Bool
  | .vector _ => true
  | _ => false

mutual
/-- `collect_vectors`: vector clauses in traversal order, and `has_non_vector` -/
def collectVectors : QNode κ S → List (VQuery κ S) × Bool
  | .vector q => ([q], false)
  | .bool must should mustNot hasFilter =>
    let a := collectChildren must
    let b := collectChildren should
    let c := collectChildren mustNot
    (a.1 ++ b.1 ++ c.1, hasFilter || a.2 || b.2 || c.2)
  | .disMax qs => collectChildren qs
  | .wrap q => ((collectVectors q).1, true)
  | .other => ([], true)
/-- children of `bool`/`dis_max`: a child that is not itself a vector node sets the flag -/
def collectChildren : List (QNode κ S) → List (VQuery κ S) × Bool
  | [] => ([], false)
  | q :: qs =>
    let a := collectVectors q
    let b := collectChildren qs
    (a.1 ++ b.1, a.2 || !q.isVector || b.2)
end

structure Req (κ S : Type) where
  /-- `None` = the query is a plain string (`Query::String`) -/
  query : Option (QNode κ S)
  /-- top-level `vector_query` (the legacy tuple is `{field, vector, alpha}`) -/
  vectorQuery : Option (VQuery κ S)
  limit : Nat
  candidateSize : Option Nat

structure Clause (κ S : Type) where
  field : κ
  vector : List S
  k : Nat
  alpha : S
  efSearch : Nat
  candidateSize : Nat
  boost : S
  metric : Metric
  /-- graph parameters of the field (from the schema) -/
  m : Nat
  efc : Nat

structure Plan (κ S : Type) where
  clauses : List (Clause κ S)
  candidateSize : Nat
  vectorOnly : Bool

inductive PlanErr where
  | both | tooMany | unknownField | dim | alpha | boost
deriving DecidableEq, Repr

def findField (schema : List (VField κ)) (f : κ) : Option (VField κ) :=
  schema.find? (fun vf => vf.name = f)

/-- one iteration of `for vector_query in vectors.drain(..)`; `none` = `continue` -/
def planClause (schema : List (VField κ)) (limit : Nat) (vectorOnly : Bool) (vq : VQuery κ S) :
    Except PlanErr (Option (Clause κ S)) :=
  match findField schema vq.field with
  | none => .error .unknownField
  | some vf =>
    if vq.vector.length ≠ vf.dim then .error .dim
    else
      let qv := prep vf.metric vq.vector
      let alpha := vq.alpha.getD (div one (add one one))
      if !(le zero alpha && le alpha one) || !isFinite alpha then .error .alpha
      else if vectorOnly && qv.isEmpty then .ok none
      else
        let defaultK := if limit = 0 then vq.k.getD 10 else vq.k.getD limit
        let k := min (max defaultK 1) MAX_VECTOR_K
        let cs := vq.candidateSize.getD (max (max k limit) 10 * 2)
        let cs := min (max cs k) MAX_VECTOR_CANDIDATE_SIZE
        let ef := min (vq.efSearch.getD (max DEFAULT_EF_SEARCH cs)) MAX_VECTOR_EF_SEARCH
        let boost := vq.boost.getD one
        if lt boost zero || !isFinite boost then .error .boost
        else .ok (some { field := vq.field, vector := qv, k := k, alpha := alpha, efSearch := ef,
                         candidateSize := cs, boost := boost, metric := vf.metric,
                         m := vf.m, efc := vf.efc })

def planClauses (schema : List (VField κ)) (limit : Nat) (vectorOnly : Bool) :
    List (VQuery κ S) → Except PlanErr (List (Clause κ S))
  | [] => .ok []
  | vq :: rest =>
    match planClause schema limit vectorOnly vq with
    | .error e => .error e
    | .ok c =>
      match planClauses schema limit vectorOnly rest with
      | .error e => .error e
      | .ok cs => .ok (match c with | some c => c :: cs | none => cs)

/-- vector clauses of the request and `has_non_vector_nodes` (`find_vectors`) -/
def findVectors (r : Req κ S) : List (VQuery κ S) × Bool :=
  match r.query with
  | some n => collectVectors n
  | none => ([], true)

/-- `build_vector_plan` -/
def buildPlan (schema : List (VField κ)) (r : Req κ S) : Except PlanErr (Option (Plan κ S)) :=
  let fv := findVectors r
  if !fv.1.isEmpty && r.vectorQuery.isSome then .error .both
  else
    let vectors : Option (List (VQuery κ S)) :=
      if !fv.1.isEmpty then some fv.1
      else match r.vectorQuery with
        | some v => some [v]
        | none => none
    match vectors with
    | none => .ok none
    | some vectors =>
      if vectors.length > MAX_VECTOR_CLAUSES then .error .tooMany
      else
        let vectorOnly := !fv.2
        let base := min (max (r.candidateSize.getD (max r.limit 10 * 2)) r.limit) MAX_GLOBAL_CANDIDATES
        match planClauses schema r.limit vectorOnly vectors with
        | .error e => .error e
        | .ok [] => .ok none
        | .ok clauses =>
          let maxK := clauses.foldl (fun a c => max a c.k) 0
          let totalK := clauses.foldl (fun a c => a + c.k) 0
          let cs := max base maxK
          let cs := if cs + totalK > MAX_GLOBAL_CANDIDATES then max (MAX_GLOBAL_CANDIDATES - totalK) r.limit else cs
          let cs := if cs = 0 then max maxK 1 else cs
          .ok (some { clauses := clauses, candidateSize := cs, vectorOnly := vectorOnly })

/-- `IndexReader::search` drops the plan when the request is not vector-only and every
clause has `alpha >= 1` (pure BM25) -/
def effectivePlan (p : Option (Plan κ S)) : Option (Plan κ S) :=
  match p with
  | some p => if !p.vectorOnly && p.clauses.all (fun c => le one c.alpha) then none else some p
  | none => none

/-! ## segments and candidate collection (`collect_vector_maps`) -/

/-- one document of a segment, in doc-id order.  `passFilter`, `passVFilter`, `textMatch`
and `bm25` are the outcomes of the request's `filter`, `vector_filter`, text matcher and
text scorer on this document (inputs of this model). -/
structure SDoc (κ S : Type) where
  deleted : Bool
  passFilter : Bool
  passVFilter : Bool
  textMatch : Bool
  /-- score of the document in the text part of the request, when it is a text hit -/
  bm25 : Option S
  /-- raw vectors of the document as submitted (absent field = no vector) -/
  vecs : List (κ × List S)

abbrev Segment (κ S : Type) := List (SDoc κ S)

def SDoc.rawVec (d : SDoc κ S) (f : κ) : Option (List S) :=
  (d.vecs.find? (fun p => p.1 = f)).map (·.2)

/-- the segment's store for a field: vectors normalised at ingest for cosine fields -/
def storeOf (seg : Segment κ S) (f : κ) (mt : Metric) : Store S :=
  seg.map (fun d => (d.rawVec f).map (prep mt))

structure Cand (S : Type) where
  seg : Nat
  doc : Nat
  score : S
deriving Repr

/-- final order of a clause's candidates: score descending, then segment, then doc id -/
def Cand.before (a b : Cand S) : Bool :=
  if tlt b.score a.score then true
  else if tlt a.score b.score then false
  else if a.seg < b.seg then true
  else if b.seg < a.seg then false
  else a.doc < b.doc

/-- is the search result `doc` of segment `seg` kept as a candidate? -/
def keepDoc (requireText : Bool) (seg : Segment κ S) (doc : Nat) : Bool :=
  match seg[doc]? with
  | some d => !d.deleted && d.passFilter && d.passVFilter && (!requireText || d.textMatch)
  | none => false

/-- the fetch loop of `collect_vector_maps` (`520bc94`): search `searchK` neighbours, keep the
eligible ones; stop when `wanted` of them were found or the segment is exhausted, otherwise
double `searchK` (capped by the number of vectors).  `searchK` grows strictly until it reaches
`available`, so `available + 1` rounds of fuel suffice. -/
def fetchLoop (find : Nat → List (Scored S)) (keep : Scored S → Bool) (wanted available : Nat) :
    Nat → Nat → List (Scored S)
  | 0, searchK => ((find searchK).filter keep).take wanted
  | fuel + 1, searchK =>
    let cands := find searchK
    let exhausted := searchK ≥ available || cands.length < searchK
    let kept := cands.filter keep
    if kept.length ≥ wanted || exhausted then kept.take wanted
    else fetchLoop find keep wanted available fuel (min (searchK * 2) available)

/-- candidates of one clause in one segment -/
def segCands (requireText : Bool) (c : Clause κ S) (segOrd : Nat) (seg : Segment κ S) :
    List (Cand S) :=
  let st := storeOf seg c.field c.metric
  let available := present st
  if available = 0 then []
  else
    let g := buildGraph c.metric st c.m c.efc
    let wanted := min (max c.candidateSize c.k) (max available 1)
    let kept := fetchLoop (fun k => search c.metric st g c.vector k c.efSearch)
      (fun s => keepDoc requireText seg s.id) wanted available (available + 1) wanted
    kept.map (fun s => { seg := segOrd, doc := s.id, score := mul s.score c.boost })

/-- **legacy** candidates of one clause in one segment (before `520bc94` and `9cbe548`): one
search for `max(candidate_size, k)` neighbours, eligibility tested afterwards -/
def legacySegCands (requireText : Bool) (c : Clause κ S) (segOrd : Nat) (seg : Segment κ S) :
    List (Cand S) :=
  let st := storeOf seg c.field c.metric
  let available := present st
  if available = 0 then []
  else
    let g := buildGraph c.metric st c.m c.efc
    let searchK := min (max c.candidateSize c.k) (max available 1)
    let found := legacySearch c.metric st g c.vector searchK c.efSearch
    (found.filter (fun s => keepDoc requireText seg s.id)).map
      (fun s => { seg := segOrd, doc := s.id, score := mul s.score c.boost })

def enumFrom {α : Type} : Nat → List α → List (Nat × α)
  | _, [] => []
  | n, x :: xs => (n, x) :: enumFrom (n + 1) xs

/-- one clause's final candidate list (the hash map of `collect_vector_maps`, as an
association list in insertion order) -/
def clauseCands (requireText : Bool) (segs : List (Segment κ S)) (c : Clause κ S) : List (Cand S) :=
  let all := (enumFrom 0 segs).flatMap (fun p => segCands requireText c p.1 p.2)
  let sorted := isort Cand.before all
  if c.candidateSize > 0 then sorted.take c.candidateSize else sorted

def lookupCand (l : List (Cand S)) (seg doc : Nat) : Option S :=
  (l.find? (fun c => c.seg = seg && c.doc = doc)).map (·.score)

/-! ## blending (`compute_hybrid_score`) -/

structure HScore (S : Type) where
  final : S
  vectorScore : Option S
  hasVector : Bool

/-- one clause's contribution -/
def blendClause (bm25 : S) (c : Clause κ S) (raw : Option S) : S :=
  let vec := raw.getD (missingScore c.metric)
  if le one c.alpha then bm25
  else if le c.alpha zero then vec
  else blend bm25 vec c.alpha

/-- the accumulation loop of `compute_hybrid_score`: (blended_sum, vector_sum, has_vector) -/
def hybridAcc (bm25 : S) (seg doc : Nat) :
    List (Clause κ S) → List (List (Cand S)) → S × S × Bool → S × S × Bool
  | c :: cs, m :: ms, (bs, vs, hv) =>
    let raw := lookupCand m seg doc
    let vs' := match raw with | some x => add vs x | none => vs
    hybridAcc bm25 seg doc cs ms (add bs (blendClause bm25 c raw), vs', hv || raw.isSome)
  | _, _, acc => acc

def hybridScore (p : Plan κ S) (maps : List (List (Cand S))) (bm25 : S) (seg doc : Nat) : HScore S :=
  let (bs, vs, hv) := hybridAcc bm25 seg doc p.clauses maps (zero, zero, false)
  let denom : S := ofNat (max p.clauses.length 1)
  { final := div bs denom, vectorScore := if hv then some vs else none, hasVector := hv }

/-! ## result assembly (`search_vector_only`, `merge_vector_hits`) -/

structure Hit (S : Type) where
  seg : Nat
  doc : Nat
  score : S
  vectorScore : Option S
deriving Repr

/-- `SortKey` order for the default sort: score descending (`total_cmp`), segment, doc id -/
def Hit.before (a b : Hit S) : Bool :=
  if tlt b.score a.score then true
  else if tlt a.score b.score then false
  else if a.seg < b.seg then true
  else if b.seg < a.seg then false
  else a.doc < b.doc

def keyMem (keys : List (Nat × Nat)) (k : Nat × Nat) : Bool := keys.contains k

/-- distinct keys, first occurrence kept -/
def dedupKeys : List (Nat × Nat) → List (Nat × Nat)
  | [] => []
  | k :: ks => if keyMem ks k then dedupKeys ks else k :: dedupKeys ks

def candKeys (maps : List (List (Cand S))) : List (Nat × Nat) :=
  maps.flatMap (fun m => m.map (fun c => (c.seg, c.doc)))

/-- `search_vector_only` (default sort, no cursor/collapse): every key of every map is
scored with `bm25 = 0`, the best `limit` by sort key are returned -/
def searchVectorOnly (p : Plan κ S) (segs : List (Segment κ S)) (limit : Nat) : List (Hit S) :=
  let maps := p.clauses.map (clauseCands false segs)
  let keys := dedupKeys (candKeys maps)
  let hits := keys.map (fun k =>
    let h := hybridScore p maps zero k.1 k.2
    ({ seg := k.1, doc := k.2, score := h.final, vectorScore := h.vectorScore } : Hit S))
  (isort Hit.before hits).take limit

/-- text hits handed to `merge_vector_hits`: per segment the best `topK` text hits
(score descending, doc id ascending) -/
def textHits (segs : List (Segment κ S)) (topK : Nat) : List (Cand S) :=
  (enumFrom 0 segs).flatMap (fun p =>
    let hits := (enumFrom 0 p.2).filterMap (fun q =>
      match q.2.bm25 with
      | some s => some ({ seg := p.1, doc := q.1, score := s } : Cand S)
      | none => none)
    (isort Cand.before hits).take topK)

/-- hybrid path: text hits ∪ vector candidates that match the text query, blended -/
def searchHybrid (p : Plan κ S) (segs : List (Segment κ S)) (limit : Nat) : List (Hit S) :=
  let topK := max p.candidateSize limit + 1
  let th := textHits segs topK
  let maps := p.clauses.map (clauseCands true segs)
  let keys := dedupKeys (th.map (fun c => (c.seg, c.doc)) ++ candKeys maps)
  let allVectorOnly := p.clauses.all (fun c => le c.alpha zero)
  let hits := keys.filterMap (fun k =>
    let bm25 := (lookupCand th k.1 k.2).getD zero
    let h := hybridScore p maps bm25 k.1 k.2
    if allVectorOnly && !h.hasVector then none
    else some ({ seg := k.1, doc := k.2, score := h.final, vectorScore := h.vectorScore } : Hit S))
  (isort Hit.before hits).take limit

inductive Outcome (S : Type) where
  /-- plan error (the request is rejected) -/
  | error (e : PlanErr)
  /-- no vector plan applies: plain text search (not modelled here) -/
  | textOnly
  | hits (vectorOnly : Bool) (l : List (Hit S))

/-- the vector part of `IndexReader::search` -/
def searchReq (schema : List (VField κ)) (segs : List (Segment κ S)) (r : Req κ S) : Outcome S :=
  match buildPlan schema r with
  | .error e => .error e
  | .ok p =>
    match effectivePlan p with
    | none => .textOnly
    | some p =>
      if p.vectorOnly then .hits true (searchVectorOnly p segs r.limit)
      else .hits false (searchHybrid p segs r.limit)

/-! ## compaction (`Index::compact`) -/

/-- the re-ingest step of `Index::compact`: the live documents are read back from the doc
store into one new segment.  Vector fields are not stored fields, so a re-ingested document
carries no vectors. -/
def reingest (segs : List (Segment κ S)) : List (Segment κ S) :=
  [((segs.flatMap id).filter (fun d => !d.deleted)).map (fun d => { d with vecs := [] })]

/-- **legacy** (before `fix: refuse to compact an index that has vector fields`):
`ensure_compact_safe` only looked at text, keyword and numeric fields, so an index with more
than one segment was re-ingested although its schema had vector fields. -/
def legacyCompactSegs (segs : List (Segment κ S)) : List (Segment κ S) :=
  if segs.length ≤ 1 then segs else reingest segs

/-- `Index::compact` as the code exists: nothing to do for at most one segment; otherwise
`ensure_compact_safe` refuses (`none`, the index is left unchanged) when the schema has a
vector field, and the segments are re-ingested when it has none. -/
def compact (schema : List (VField κ)) (segs : List (Segment κ S)) : Option (List (Segment κ S)) :=
  if segs.length ≤ 1 then some segs
  else if schema.isEmpty then some (reingest segs)
  else none

/-- the segments a reader sees after a `compact()` call (unchanged when it was refused) -/
def afterCompact (schema : List (VField κ)) (segs : List (Segment κ S)) : List (Segment κ S) :=
  (compact schema segs).getD segs

end

end SL.Vec
