/-!
# Core/Wal — byte-level model of the write-ahead log (`searchlite-core/src/index/wal.rs`,
`util/varint.rs`) and of a log file under crashes.  Import-free, executable.

Bytes are `Nat`s (< 256 in every value the driver sees); the checksum is a parameter
`crc : Bytes → Bytes` returning the 4 little-endian bytes that `crc32fast` produces, so the
theorems hold for *any* 4-byte checksum and the driver instantiates the real CRC-32.

Record framing (`Wal::append_entry`):
`varint(payload.len) ++ [type] ++ payload ++ le32(crc32([type] ++ payload))`.
-/
namespace SL.Wal

abbrev Bytes := List Nat

/-! ## varint (`write_u64` / `read_u64`) -/

/-- `write_u64`: LEB128, low groups first; `fuel` extra bytes may follow the first one -/
def encVF : Nat → Nat → Bytes
  | 0, n => [n % 128]
  | f + 1, n => if n < 128 then [n] else (n % 128 + 128) :: encVF f (n / 128)

/-- a `u64` needs at most 10 bytes -/
def encV (n : Nat) : Bytes := encVF 9 n

/-- `read_u64` at bit offset `sh`: value and number of bytes consumed; `none` on an
unterminated varint or (repaired code) when more than 10 bytes would be needed.
`value |= part << shift` on `u64`: the bit ranges are disjoint, so `|=` is `+`, and bits
shifted beyond 64 are lost. -/
def decVAux : Nat → Bytes → Option (Nat × Nat)
  | _, [] => none
  | sh, b :: bs =>
    if 64 ≤ sh then none
    else
      let part := (b % 128) * 2 ^ sh % 2 ^ 64
      if b < 128 then some (part, 1)
      else
        match decVAux (sh + 7) bs with
        | some (v, k) => some (part + v, k + 1)
        | none => none

def decV (bs : Bytes) : Option (Nat × Nat) := decVAux 0 bs

/-! ## records -/

structure Rec where
  ty : Nat
  payload : Bytes
deriving DecidableEq, Repr

def frame (crc : Bytes → Bytes) (r : Rec) : Bytes :=
  encV r.payload.length ++ (r.ty :: r.payload ++ crc (r.ty :: r.payload))

def frameAll (crc : Bytes → Bytes) (rs : List Rec) : Bytes :=
  (rs.map (frame crc)).flatten

/-- One iteration of the loop in `Wal::replay`: the first record of `data` and the number of
bytes it occupies, or `none` where the loop `break`s (unterminated/overlong varint, nothing
after the length, record longer than the data, checksum mismatch). -/
def scanOne (crc : Bytes → Bytes) (data : Bytes) : Option (Rec × Nat) :=
  match decV data with
  | none => none
  | some (len, k) =>
    match data.drop k with
    | [] => none
    | ty :: body =>
      if body.length < len + 4 then none
      else
        let payload := body.take len
        if crc (ty :: payload) = (body.drop len).take 4 then some (⟨ty, payload⟩, k + 1 + len + 4)
        else none

/-- the replay loop with fuel: records of the valid prefix and the length of that prefix -/
def scan (crc : Bytes → Bytes) : Nat → Bytes → List Rec × Nat
  | 0, _ => ([], 0)
  | f + 1, data =>
    match scanOne crc data with
    | none => ([], 0)
    | some (r, n) =>
      let rest := scan crc f (data.drop n)
      (r :: rest.1, n + rest.2)

/-- `Wal::replay` (framing level): every record consumes at least one byte, so
`data.length` iterations suffice -/
def replay (crc : Bytes → Bytes) (data : Bytes) : List Rec × Nat := scan crc data.length data

/-! ## interpretation of records (`WalEntry`) -/

inductive WOp (ι δ : Type) where
  | add (d : δ)
  | commit
  | delete (id : ι)
deriving DecidableEq, Repr

/-- type 1 = AddDoc (JSON payload), 2 = Commit, 3 = DeleteDocId (UTF-8 payload); a record with
a valid checksum whose payload does not parse, or of unknown type, is skipped -/
def interp {ι δ : Type} (parseDoc : Bytes → Option δ) (parseId : Bytes → Option ι) (r : Rec) :
    Option (WOp ι δ) :=
  if r.ty = 1 then (parseDoc r.payload).map WOp.add
  else if r.ty = 2 then some WOp.commit
  else if r.ty = 3 then (parseId r.payload).map WOp.delete
  else none

def entries {ι δ : Type} (parseDoc : Bytes → Option δ) (parseId : Bytes → Option ι)
    (rs : List Rec) : List (WOp ι δ) :=
  rs.filterMap (interp parseDoc parseId)

/-- `Wal::last_pending_ops`: operations after the last commit marker -/
def pendingOps {ι δ : Type} (es : List (WOp ι δ)) : List (WOp ι δ) :=
  es.foldl (fun acc e => match e with
    | .commit => []
    | e => acc ++ [e]) []

/-! ## the log file under crashes (DESIGN §3.4(b) for one inode) -/

inductive FOp where
  | write (bs : Bytes)
  | setLen (n : Nat)
deriving DecidableEq, Repr

def applyF (c : Bytes) : FOp → Bytes
  | .write bs => c ++ bs
  | .setLen n => c.take n ++ List.replicate (n - c.length) 0

/-- durable bytes and the data operations issued since the last successful `sync_all` -/
structure Log where
  durable : Bytes
  pending : List FOp
deriving DecidableEq, Repr

def Log.content (l : Log) : Bytes := l.pending.foldl applyF l.durable

def Log.sync (l : Log) : Log := ⟨l.content, []⟩

def Log.push (l : Log) (op : FOp) : Log := { l with pending := l.pending ++ [op] }

/-- what may be on disk after a crash: the durable bytes, then any prefix of the unsynced
operations in issue order, with the next write torn at any byte -/
def CrashContent (l : Log) (c : Bytes) : Prop :=
  ∃ j, j ≤ l.pending.length ∧
    (c = (l.pending.take j).foldl applyF l.durable ∨
     ∃ bs k, l.pending[j]? = some (.write bs) ∧ k < bs.length ∧
       c = (l.pending.take j).foldl applyF l.durable ++ bs.take k)

/-- executable enumeration of the same set (used by the driver to produce crash images) -/
def crashContents (l : Log) : List Bytes :=
  (List.range (l.pending.length + 1)).flatMap fun j =>
    let base := (l.pending.take j).foldl applyF l.durable
    base ::
      (match l.pending[j]? with
       | some (.write bs) => (List.range bs.length).map fun k => base ++ bs.take k
       | _ => [])

/-- Opening the log for appending.  `truncateOnOpen = true` is the repaired `Wal::open`
(cut a torn tail back to the valid prefix and sync); `false` is the original behaviour
(append after whatever is there). -/
def Log.reopen (crc : Bytes → Bytes) (truncateOnOpen : Bool) (l : Log) : Log :=
  if truncateOnOpen then
    let valid := (replay crc l.content).2
    if valid < l.content.length then (l.push (.setLen valid)).sync else l
  else l

/-- the file after a crash: what survived is now durable, nothing is pending -/
def Log.crashTo (c : Bytes) : Log := ⟨c, []⟩

end SL.Wal
