import SLModel.Drv.Util
import SLModel.Core.Aggs
/-! JSON ⇄ `SL.Aggs` glue shared by `Drv/C12` and `Drv/C30` (not part of the model; no
theorem mentions these).  Aggregations arrive in the repository's own serde JSON. -/
open Lean
namespace SL.Drv.AggsJson
open SL.Drv SL.Aggs

def ratOfJsonNumber (n : JsonNumber) : Rat := (n.mantissa : Rat) / ((10 ^ n.exponent : Nat) : Rat)

def getRat (j : Json) : Except String Rat := do
  match j with
  | .num n => return ratOfJsonNumber n
  | _ => throw s!"number expected, got {j.compress}"

/-- `v.as_f64().or_else(|| v.as_str().and_then(|s| s.parse().ok()))` for the plain decimal
strings the harness generates -/
def ratOfString (s : String) : Option Rat :=
  -- plain decimals (leading zeros allowed, as `str::parse::<f64>` allows them), else JSON syntax
  let (neg, body) := if s.startsWith "-" then (true, (s.drop 1).toString) else (false, s)
  let plain : Option Rat :=
    match body.splitOn "." with
    | [i] => if i.isEmpty then none else i.toNat?.map (fun n => (n : Rat))
    | [i, f] =>
      if i.isEmpty && f.isEmpty then none else
      match (if i.isEmpty then some 0 else i.toNat?), (if f.isEmpty then some 0 else f.toNat?) with
      | some a, some b => some ((a : Rat) + (b : Rat) / ((10 ^ f.length : Nat) : Rat))
      | _, _ => none
    | _ => none
  match plain with
  | some v => some (if neg then -v else v)
  | none =>
    match Json.parse s with
    | .ok (.num n) => some (ratOfJsonNumber n)
    | _ => none

def getRatLoose (j : Json) : Option Rat :=
  match j with
  | .num n => some (ratOfJsonNumber n)
  | .str s => ratOfString s
  | _ => none

def optRat (j : Json) (k : String) : Option Rat := (getOpt j k).bind getRatLoose

def optNat (j : Json) (k : String) : Option Nat :=
  match getOpt j k with
  | some v => match v.getNat? with | .ok n => some n | .error _ => none
  | none => none

def optStr (j : Json) (k : String) : Option String :=
  match getOpt j k with
  | some (.str s) => some s
  | _ => none

def ratToJson (q : Rat) : Json := Json.str s!"{q.num}/{q.den}"

def objFields (j : Json) : List (String × Json) :=
  match j with
  | .obj kvs => kvs.toList
  | _ => []

/-- `{"id":n,"kw":{"f":["a"]},"num":{"g":[1.5]}}` -/
def parseDoc (j : Json) : Except String (Doc String String) := do
  let id := getNatD j "id" 0
  let kwj := (getOpt j "kw").getD (Json.mkObj [])
  let numj := (getOpt j "num").getD (Json.mkObj [])
  let kws ← (objFields kwj).mapM (fun (f, v) => do
    let a ← v.getArr?
    let vs ← a.toList.mapM (·.getStr?)
    return (f, vs))
  let nums ← (objFields numj).mapM (fun (f, v) => do
    let a ← v.getArr?
    let vs ← a.toList.mapM getRat
    return (f, vs))
  return { id := id
           kw := fun f => ((kws.lookup f).getD [])
           num := fun f => ((nums.lookup f).getD []) }

def parseSegs (j : Json) : Except String (List (List (Doc String String))) := do
  let a ← j.getArr?
  a.toList.mapM (fun s => do
    let ds ← s.getArr?
    ds.toList.mapM parseDoc)

/-- field kinds: `{"tag":"kw","n":"i64","x":"f64"}` -/
def fieldKind (fields : Json) (f : String) : String := getStrD fields f ""

partial def parsePred (j : Json) : Except String (Pred String String) := do
  match objFields j with
  | [("KeywordEq", b)] => return .kwEq (← getStr b "field") (← getStr b "value")
  | [("I64Range", b)] =>
    return .numRange (← getStr b "field") (← getRat (← b.getObjVal? "min")) (← getRat (← b.getObjVal? "max"))
  | [("F64Range", b)] =>
    return .numRange (← getStr b "field") (← getRat (← b.getObjVal? "min")) (← getRat (← b.getObjVal? "max"))
  | [("And", b)] =>
    let a ← b.getArr?
    let ps ← a.toList.mapM parsePred
    return ps.foldr (fun p acc => Pred.and p acc) Pred.tt
  | [("Or", b)] =>
    let a ← b.getArr?
    let ps ← a.toList.mapM parsePred
    return ps.foldr (fun p acc => Pred.or p acc) (Pred.not Pred.tt)
  | [("Not", b)] => return .not (← parsePred b)
  | _ => throw s!"unsupported filter {j.compress}"

def parseBounds (j : Json) (k : String) : Except String (Option (Rat × Rat)) := do
  match getOpt j k with
  | none => return none
  | some b => return some (← getRat (← b.getObjVal? "min"), ← getRat (← b.getObjVal? "max"))

def defaultPercents : List Rat := [1, 5, 25, 50, 75, 95, 99]

/-- `parse_interval_seconds`: leading digits/dots, then one of "", s, ms, m, h, d, w -/
def parseIntervalSeconds (spec : String) : Option Rat :=
  let cs := spec.toList
  let numPart := cs.takeWhile (fun c => c.isDigit || c == '.')
  let suffix := String.ofList (cs.dropWhile (fun c => c.isDigit || c == '.'))
  if numPart.isEmpty then none else
  match ratOfString (String.ofList numPart) with
  | none => none
  | some v =>
    match suffix with
    | "" => some v
    | "s" => some v
    | "ms" => some (v / 1000)
    | "m" => some (v * 60)
    | "h" => some (v * 3600)
    | "d" => some (v * 86400)
    | "w" => some (v * 604800)
    | _ => none

def parseCalendar (spec : String) : Option CalUnit :=
  match spec.toLower with
  | "day" => some .day | "1d" => some .day
  | "week" => some .week | "1w" => some .week
  | "month" => some .month | "1m" => some .month
  | "quarter" => some .quarter | "1q" => some .quarter
  | "year" => some .year | "1y" => some .year
  | _ => none

/-- RFC 3339 `YYYY-MM-DDTHH:MM:SS[.fff](Z|±HH:MM)` → epoch milliseconds -/
def parseRfc3339 (s : String) : Option Rat := do
  let [datePart, rest] := s.splitOn "T" | none
  let [ys, ms, ds] := datePart.splitOn "-" | none
  let y ← ys.toNat?
  let m ← ms.toNat?
  let d ← ds.toNat?
  -- zone
  let (timePart, offMin) ←
    if rest.endsWith "Z" then some ((rest.dropEnd 1).toString, (0 : Int))
    else
      match rest.splitOn "+" with
      | [t, z] =>
        match z.splitOn ":" with
        | [zh, zm] => do some (t, ((← zh.toNat?) * 60 + (← zm.toNat?) : Nat))
        | _ => none
      | _ =>
        match rest.splitOn "-" with
        | [t, z] =>
          match z.splitOn ":" with
          | [zh, zm] => do some (t, -(((← zh.toNat?) * 60 + (← zm.toNat?) : Nat) : Int))
          | _ => none
        | _ => none
  let [hs, mins, secs] := timePart.splitOn ":" | none
  let h ← hs.toNat?
  let mi ← mins.toNat?
  let sec ← ratOfString secs
  let days := daysFromCivil y m d
  let secsTotal : Rat := (days * 86400 + h * 3600 + mi * 60 : Int) + sec - (offMin * 60 : Int)
  some (secsTotal * 1000)

/-- `parse_date`: RFC 3339, else a float -/
def parseDate (s : String) : Option Rat :=
  match parseRfc3339 s with
  | some v => some v
  | none => ratOfString s

def parseDateBounds (j : Json) (k : String) : Option (Int × Int) := do
  let b ← getOpt j k
  let mn ← parseDate (← optStr b "min")
  let mx ← parseDate (← optStr b "max")
  some (truncToInt mn, truncToInt mx)

def partOfJson (j : Json) : Except String (Part String) := do
  match j with
  | .str s => return .str s
  | .num n => return .num (ratOfJsonNumber n)
  | _ => throw s!"bad key part {j.compress}"

/-- `composite_key_from_value`: `none` when the object lacks a source name or a part has the
wrong JSON type -/
def afterOfJson (srcNames : List (String × Bool)) (j : Json) : Option (List (Part String)) :=
  match j with
  | .obj _ =>
    srcNames.mapM (fun (name, isTerms) =>
      match j.getObjVal? name with
      | .ok (.str s) => if isTerms then some (Part.str s) else none
      | .ok (.num n) => if isTerms then none else some (Part.num (ratOfJsonNumber n))
      | _ => none)
  | _ => none

mutual
partial def parseAgg (fields : Json) (j : Json) : Except String (Agg String String) := do
  let ty ← getStr j "type"
  let subs ← parseSubs fields j
  match ty with
  | "stats" => return .stats (← getStr j "field") (optRat j "missing")
  | "extended_stats" => return .extStats (← getStr j "field") (optRat j "missing")
  | "value_count" => return .valueCount (← getStr j "field") (optRat j "missing")
  | "cardinality" =>
    let f ← getStr j "field"
    if fieldKind fields f == "kw" then return .cardKw f (optStr j "missing")
    else
      -- i64 column: `as_i64`; f64 column: `as_f64` or a parsable string
      let m := if fieldKind fields f == "i64" then
          (match getOpt j "missing" with
           | some (.num n) => if n.exponent == 0 then some (ratOfJsonNumber n) else none
           | _ => none)
        else optRat j "missing"
      return .cardNum f m
  | "percentiles" =>
    let ps ← match getOpt j "percents" with
      | some a => do let l ← a.getArr?; l.toList.mapM getRat
      | none => pure defaultPercents
    return .percentiles (← getStr j "field") (optRat j "missing") ps
  | "percentile_ranks" =>
    let a ← getArr j "values"
    return .ranks (← getStr j "field") (optRat j "missing") (← a.toList.mapM getRat)
  | "terms" =>
    return .bucket (.terms (← getStr j "field") (optNat j "size") ((optNat j "min_doc_count").getD 1)
      (optStr j "missing")) subs
  | "rare_terms" =>
    return .bucket (.rare (← getStr j "field") ((optNat j "max_doc_count").getD 1) (optNat j "size")) subs
  | "range" =>
    let rs ← getArr j "ranges"
    let ranges := rs.toList.map (fun r => (optRat r "from", optRat r "to"))
    return .bucket (.range (← getStr j "field") ranges (optRat j "missing")) subs
  | "date_range" =>
    -- `parse_date` on the bounds; `missing`: string → `parse_date`, number → itself
    let rs ← getArr j "ranges"
    let ranges := rs.toList.map (fun r => ((optStr r "from").bind parseDate, (optStr r "to").bind parseDate))
    let missing := match getOpt j "missing" with
      | some (.str s) => parseDate s
      | some (.num n) => some (ratOfJsonNumber n)
      | _ => none
    return .bucket (.range (← getStr j "field") ranges missing) subs
  | "histogram" =>
    let ext ← parseBounds j "extended_bounds"
    let hard ← parseBounds j "hard_bounds"
    let hasBounds := ext.isSome || hard.isSome
    let mdc := (optNat j "min_doc_count").getD (if hasBounds then 0 else 1)
    return .bucket (.hist (← getStr j "field") (← getRat (← j.getObjVal? "interval"))
      ((optRat j "offset").getD 0) mdc ext hard (optRat j "missing")) subs
  | "date_histogram" =>
    let iv : DInterval := match (optStr j "calendar_interval").bind parseCalendar with
      | some u => .calendar u
      | none =>
        let secs := ((optStr j "fixed_interval").bind parseIntervalSeconds).getD 86400
        .fixed (truncToInt (secs * 1000))
    let offset : Int := match (optStr j "offset").bind parseIntervalSeconds with
      | some sec => truncToInt (sec * 1000)
      | none => 0
    let missing : Option Int := ((optStr j "missing").bind parseDate).map truncToInt
    return .bucket (.dhist (← getStr j "field") iv offset ((optNat j "min_doc_count").getD 0)
      (parseDateBounds j "extended_bounds") (parseDateBounds j "hard_bounds") missing) subs
  | "top_hits" =>
    let sorts := getArrD j "sort"
    let sort ← sorts.toList.mapM (fun sp => do
      let f ← getStr sp "field"
      return (f, getStrD sp "order" "asc" == "desc"))
    return .topHits (← getNat j "size") (getNatD j "from" 0) sort
  | "filter" => return .bucket (.filter (← parsePred (← j.getObjVal? "filter"))) subs
  | "composite" =>
    let ss ← getArr j "sources"
    let srcs ← ss.toList.mapM (fun s => do
      let t ← getStr s "type"
      let f ← getStr s "field"
      if t == "terms" then return (CSrc.terms f, (← getStr s "name", true))
      else
        return (CSrc.hist f (← getRat (← s.getObjVal? "interval")) (fieldKind fields f == "f64"),
                (← getStr s "name", false)))
    let after := (getOpt j "after").bind (afterOfJson (srcs.map (·.2)))
    return .bucket (.composite (srcs.map (·.1)) (← getNat j "size") after) subs
  | _ => throw s!"aggregation type {ty} is not modelled"
partial def parseSubs (fields : Json) (j : Json) : Except String (Aggs String String) := do
  match getOpt j "aggs" with
  | none => return .nil
  | some o =>
    -- BTreeMap order = byte order of the names
    let kvs := (objFields o).toArray.qsort (fun a b => a.1 < b.1) |>.toList
    let as ← kvs.mapM (fun (_, v) => parseAgg fields v)
    return as.foldr (fun a acc => Aggs.cons a acc) Aggs.nil
end

def partToJson : Part String → Json
  | .str s => Json.mkObj [("s", s)]
  | .num q => Json.mkObj [("q", ratToJson q)]

def keyToJson : Key String → Json
  | .str s => Json.mkObj [("s", s)]
  | .num i => Json.mkObj [("i", Json.num (JsonNumber.fromInt i))]
  | .parts ps => Json.mkObj [("p", Json.arr (ps.map partToJson).toArray)]
  | .unit => Json.str "u"

partial def nodeToJson : Node String → Json
  | .stats s => Json.mkObj [("t", "stats"), ("count", s.count), ("min", ratToJson s.mn),
      ("max", ratToJson s.mx), ("sum", ratToJson s.sum), ("avg", ratToJson s.avg),
      ("variance", ratToJson s.variance)]
  | .count n => Json.mkObj [("t", "count"), ("n", n)]
  | .set vs => Json.mkObj [("t", "set"), ("n", vs.length)]
  | .vals vs => Json.mkObj [("t", "vals"), ("vals", Json.arr (vs.map ratToJson).toArray)]
  | .table rows => Json.mkObj [("t", "table"),
      ("rows", Json.arr (rows.map (fun r => Json.arr #[ratToJson r.1, ratToJson r.2])).toArray)]
  | .hits total hs => Json.mkObj [("t", "hits"), ("total", total),
      ("hits", Json.arr (hs.map (fun h => (h.2 : Json))).toArray)]
  | .buckets bs after => Json.mkObj [("t", "buckets"),
      ("buckets", Json.arr (bs.map (fun b => Json.mkObj [("key", keyToJson b.1), ("count", b.2.1),
        ("subs", Json.arr (b.2.2.map nodeToJson).toArray)])).toArray),
      ("after", match after with | some k => keyToJson k | none => Json.null)]

end SL.Drv.AggsJson
