import SLModel.Drv.Util
import SLModel.Core.Bm25
/-! JSON → `Core/Bm25` structures (driver glue for C09/C10; no theorem mentions these).

Case format (all random choices are made by the harness; token lists come from the *real*
analyzer of the schema):
```
{"k1":1.2,"b":0.75,"text_fields":["body","title"],
 "segments":[{"docs":[{"id":"d0","deleted":false,"text":{"body":["ta","tb"]},
                       "kw":{"tag":["x"]},"i64":{"n":[3]},"f64":{"p":[1.5]}}]}],
 "query":{…repository query JSON; `script_score` carries "rpn":[1.5,"n","_score","*","+"]…}}
```
-/
open Lean
namespace SL.Drv.BJ
open SL.Drv SL.Bm25

def num (j : Json) : Except String Float :=
  match j with
  | .num n => .ok n.toFloat
  | _ => .error s!"number expected, got {j.compress}"

def getNumD (j : Json) (k : String) (d : Float) : Float :=
  match j.getObjVal? k with
  | .ok (.num n) => n.toFloat
  | _ => d

def getNumOpt (j : Json) (k : String) : Option Float :=
  match j.getObjVal? k with
  | .ok (.num n) => some n.toFloat
  | _ => none

def objFields (j : Json) : List (String × Json) :=
  match j with
  | .obj kvs => kvs.toList
  | _ => []

def strList (j : Json) : Except String (List String) := do
  let a ← j.getArr?
  a.toList.mapM (·.getStr?)

def parseDoc (j : Json) : Except String Doc := do
  let id ← getStr j "id"
  let deleted := getBoolD j "deleted" false
  let text ← (objFields (j.getObjValD "text")).mapM fun (k, v) => do return (k, ← strList v)
  let kw ← (objFields (j.getObjValD "kw")).mapM fun (k, v) => do return (k, ← strList v)
  let i64 ← (objFields (j.getObjValD "i64")).mapM fun (k, v) => do
    let a ← v.getArr?
    return (k, ← a.toList.mapM (·.getInt?))
  let f64 ← (objFields (j.getObjValD "f64")).mapM fun (k, v) => do
    let a ← v.getArr?
    return (k, ← a.toList.mapM num)
  return { id, deleted, text, kw, i64, f64 }

def parseSegs (j : Json) : Except String (List Seg) := do
  let segs ← getArr j "segments"
  segs.toList.mapM fun s => do
    let ds ← getArr s "docs"
    ds.toList.mapM parseDoc

def parseModifier (s : String) : Except String Modifier :=
  match s with
  | "none" => .ok .none
  | "log" => .ok .log
  | "log1p" => .ok .log1p
  | "log2p" => .ok .log2p
  | "sqrt" => .ok .sqrt
  | "reciprocal" => .ok .reciprocal
  | _ => .error s!"modifier {s}"

def parseFn (j : Json) : Except String Fn := do
  match ← getStr j "type" with
  | "weight" => return .weight (getNumD j "weight" 1.0)
  | "field_value_factor" =>
    return .fvf (← getStr j "field") (getNumD j "factor" 1.0)
      (← parseModifier (getStrD j "modifier" "none")) (getNumD j "missing" 0.0)
  | t => throw s!"function {t} is outside the modelled fragment"

def parseInstr (j : Json) : Except String Instr :=
  match j with
  | .num n => .ok (.const n.toFloat)
  | .str "+" => .ok .add
  | .str "-" => .ok .sub
  | .str "*" => .ok .mul
  | .str "/" => .ok .div
  | .str "neg" => .ok .neg
  | .str "_score" => .ok .score
  | .str f => .ok (.field f)
  | _ => .error "rpn token"

def parseFieldSpecs (j : Json) : Except String (List (String × Float)) := do
  let a ← j.getArr?
  a.toList.mapM fun f =>
    match f with
    | .str s => pure (s, 1.0)
    | o => do return (← getStr o "field", getNumD o "boost" 1.0)

partial def parseQ (dflt : List String) (j : Json) : Except String Q := do
  let boost := getNumD j "boost" 1.0
  match ← getStr j "type" with
  | "match_all" => return .matchAll
  | "term" => return .term (← getStr j "field") (← getStr j "value") boost
  | "query_string" =>
    let terms := ((← getStr j "query").splitOn " ").filter (· ≠ "")
    let fields ← match getOpt j "fields" with
      | some f => parseFieldSpecs f
      | none => pure (dflt.map fun f => (f, 1.0))
    return .qstring terms (some fields) boost
  | "dis_max" =>
    let qs ← (getArrD j "queries").toList.mapM (parseQ dflt)
    return .disMax qs (getNumD j "tie_breaker" 0.0) boost
  | "bool" =>
    let must ← (getArrD j "must").toList.mapM (parseQ dflt)
    let should ← (getArrD j "should").toList.mapM (parseQ dflt)
    let mustNot ← (getArrD j "must_not").toList.mapM (parseQ dflt)
    let msm := match j.getObjVal? "minimum_should_match" with
      | .ok v => match v.getNat? with | .ok n => some n | .error _ => none
      | .error _ => none
    return .bool must should mustNot msm boost
  | "function_score" =>
    let q ← parseQ dflt (← j.getObjVal? "query")
    let fns ← (getArrD j "functions").toList.mapM parseFn
    let sm ← match getStrD j "score_mode" "sum" with
      | "sum" => pure SMode.sum | "multiply" => pure SMode.multiply | "max" => pure SMode.max
      | "min" => pure SMode.min | "avg" => pure SMode.avg | s => throw s!"score_mode {s}"
    let bm ← match getStrD j "boost_mode" "multiply" with
      | "multiply" => pure BMode.multiply | "sum" => pure BMode.sum | "replace" => pure BMode.replace
      | "max" => pure BMode.max | "min" => pure BMode.min | s => throw s!"boost_mode {s}"
    return .fnScore q fns sm bm (getNumOpt j "max_boost") (getNumOpt j "min_score") boost
  | "rank_feature" =>
    return .rank (← getStr j "field") (← parseModifier (getStrD j "modifier" "none"))
      (getNumD j "missing" 0.0) boost
  | "script_score" =>
    let q ← parseQ dflt (← j.getObjVal? "query")
    let code ← (getArrD j "rpn").toList.mapM parseInstr
    return .script q code boost
  | t => throw s!"query type {t} is outside the modelled fragment"

structure Case where
  pr    : Params
  segs  : List Seg
  plan  : Plan

def parseCase (j : Json) : Except String Case := do
  let segs ← parseSegs j
  let dflt ← strList (j.getObjValD "text_fields")
  let q ← parseQ dflt (← j.getObjVal? "query")
  return { pr := { k1 := getNumD j "k1" 1.2, b := getNumD j "b" 0.75 }, segs, plan := mkPlan q }

def fl (x : Float) : Json :=
  match JsonNumber.fromFloat? x with
  | .inr n => Json.num n
  | .inl _ => Json.null

end SL.Drv.BJ
