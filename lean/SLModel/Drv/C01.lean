import SLModel.Drv.Util
import SLModel.Core.Fs
open Lean
namespace SL.Drv.C01
open SL.Drv SL.Fs

def pieceOf (j : Json) : Except String Piece := do
  let a ← j.getArr?
  match a.toList with
  | [c, k, t] => return ⟨← c.getNat?, ← k.getNat?, ← t.getNat?⟩
  | _ => throw "piece"

def pieceJson (p : Piece) : Json := Json.arr #[p.chunk, p.kept, p.total]
def contentJson (c : Content) : Json := Json.arr (c.map pieceJson).toArray

def opOf (j : Json) : Except String FsOp := do
  let op ← getStr j "op"
  match op with
  | "create" => return .create (← getStr j "n")
  | "write" => return .write (← getStr j "n") (Piece.full (← getNat j "chunk") (← getNat j "total"))
  | "set_len" => return .setLen (← getStr j "n") (← getNat j "len")
  | "fsync" => return .fsync (← getStr j "n")
  | "rename" => return .rename (← getStr j "a") (← getStr j "b")
  | "unlink" => return .unlink (← getStr j "n")
  | "fsync_dir" => return .fsyncDir
  | _ => throw s!"fs op {op}"

def manifestOf (j : Json) : Except String Manifest := do
  let files ← (getArrD j "files").toList.mapM fun f => do
    let n ← getStr f "name"
    let ps ← (← getArr f "pieces").toList.mapM pieceOf
    return (n, ps)
  return ⟨← getNat j "chunk", ← getNat j "size", files, ← getNat j "contents"⟩

/-- why `manifestOkB` fails for one value of the MANIFEST entry (diagnosis for the replay file) -/
def explain (fs : Fs) (allowed : List Manifest) : Option InodeId → List String
  | none => ["a crash may leave no MANIFEST entry at all"]
  | some i =>
    let ino := fs.inode i
    (if ino.pending.isEmpty then [] else [s!"MANIFEST inode {i} has unsynced data"]) ++
    (match allowed.find? (fun m => decide (ino.durable = [Piece.full m.chunk m.size])) with
     | none => [s!"MANIFEST inode {i} does not hold a complete allowed manifest (allowed chunks {allowed.map (·.chunk)})"]
     | some m =>
       m.files.filterMap fun nc =>
         if settledFileB fs nc.1 nc.2 then none
         else
           let h := fs.hist nc.1
           some (s!"manifest chunk {m.chunk}: file {nc.1} not settled: entry history {repr h}" ++
             (match h.getLast?.join with
              | some j => s!", inode {j} pending {(fs.inode j).pending.length} op(s), durable ok = {decide ((fs.inode j).durable = nc.2)}"
              | none => ", no inode")))

def lookupAllowed (ms : List Manifest) (chunks : List Nat) : List Manifest :=
  chunks.filterMap fun c => ms.find? (·.chunk == c)

def handle (req : Json) : Except String Json := do
  let op ← getStr req "op"
  let ops ← (getArrD req "ops").toList.mapM opOf
  let ms ← (getArrD req "manifests").toList.mapM manifestOf
  let reg : Nat → Option Manifest := fun c => ms.find? (·.chunk == c)
  match op with
  | "trace" =>
    -- windows: [{from,to,allowed:[chunks],settled:chunk|null}] covering the states to be checked
    let wins := (getArrD req "windows").toList
    let states := (ops.foldl (fun (acc : List Fs × Fs) o => let s := run acc.2 o; (s :: acc.1, s)) ([Fs.empty], Fs.empty)).1.reverse
    let mut viol : Array Json := #[]
    let mut checked : Nat := 0
    for w in wins do
      let a := getNatD w "from" 0
      let b := getNatD w "to" 0
      let allowed := lookupAllowed ms ((← natList (← w.getObjVal? "allowed")))
      for k in List.range (b + 1 - a) do
        let k := a + k
        match states[k]? with
        | none => pure ()
        | some fs =>
          checked := checked + 1
          if !publishInvB fs allowed then
            if viol.size < 8 then
              let why := (fs.hist "MANIFEST").flatMap (fun v => if manifestOkB fs allowed v then [] else explain fs allowed v)
              viol := viol.push (Json.mkObj [("k", k), ("monitor", "PublishInv"), ("allowed", natsToJson (allowed.map (·.chunk))),
                ("why", Json.arr (why.map (fun (s : String) => Json.str s)).toArray)])
      match getOpt w "settled" with
      | some c =>
        let chunk ← c.getNat?
        match reg chunk, states[b]? with
        | some m, some fs =>
          checked := checked + 1
          if !settledB fs m then
            if viol.size < 8 then
              viol := viol.push (Json.mkObj [("k", b), ("monitor", "Settled"), ("allowed", natsToJson [chunk]),
                ("why", Json.arr (((fs.hist "MANIFEST").flatMap (explain fs [m])).map (fun (s : String) => Json.str s)).toArray),
                ("manifest_history", (repr (fs.hist "MANIFEST")).pretty)])
        | _, _ => viol := viol.push (Json.mkObj [("k", b), ("monitor", "Settled"), ("why", Json.arr #[Json.str "unregistered manifest chunk"])])
      | none => pure ()
    return Json.mkObj [("states_checked", checked), ("violations", Json.arr viol)]
  | "state" =>
    let k ← getNat req "k"
    let fs := runAll Fs.empty (ops.take k)
    let names := fs.dir.map fun e => Json.mkObj [("name", e.1), ("hist", Json.arr (e.2.map (fun v => match v with | none => Json.null | some i => (i : Json))).toArray)]
    let inodes := fs.inodes.map fun ino => Json.mkObj [("durable", contentJson ino.durable),
      ("pending", Json.arr (ino.pending.map (fun o => match o with | .write p => Json.mkObj [("write", p.total)] | .setLen n => Json.mkObj [("set_len", n)])).toArray)]
    return Json.mkObj [("names", Json.arr names.toArray), ("inodes", Json.arr inodes.toArray)]
  | "image" =>
    -- adversary choice → crash image + recovery prediction
    let k ← getNat req "k"
    let fs := runAll Fs.empty (ops.take k)
    let entryChoice := getOpt req "entries"           -- {name: index into hist}
    let entryDefault := getStrD req "entry_default" "last"
    let inodeChoice := getOpt req "inodes"            -- {"<inode id>": [j, tear|null]}
    let inodeDefault := getStrD req "inode_default" "all"
    let mut img : List (String × Option Content) := []
    let mut valid := true
    for e in fs.dir do
      let h := e.2
      let idx := match entryChoice.bind (fun c => (c.getObjVal? e.1).toOption) with
        | some j => (j.getNat?.toOption.getD 0)
        | none => if entryDefault == "first" then 0 else h.length - 1
      match h[idx]? with
      | none => valid := false
      | some none => img := (e.1, none) :: img
      | some (some i) =>
        let ino := fs.inode i
        let (j, tear) : Nat × Option Nat :=
          match inodeChoice.bind (fun c => (c.getObjVal? (toString i)).toOption) with
          | some jt => match jt.getArr?.toOption.map (·.toList) with
            | some [a, b] => (a.getNat?.toOption.getD 0, b.getNat?.toOption)
            | _ => (ino.pending.length, none)
          | none => if inodeDefault == "none" then (0, none) else (ino.pending.length, none)
        let base := applyAll ino.durable (ino.pending.take j)
        let c := match tear, ino.pending[j]? with
          | some t, some (.write p) => base ++ [{ p with kept := t }]
          | _, _ => base
        -- membership in the model's crash set (tear offsets: exactly the one requested)
        if !(inodeCrashes (fun _ => match tear with | some t => [t] | none => []) ino).contains c then valid := false
        img := (e.1, some c) :: img
    let imgFn : Image := fun n => (img.lookup n).join
    let rec? := recover reg imgFn
    return Json.mkObj [("valid_choice", valid),
      ("image", Json.mkObj (img.map fun (n, c) => (n, match c with | none => Json.null | some c => contentJson c))),
      ("recover", match rec? with | some c => (c : Json) | none => Json.null)]
  | _ => throw s!"C01: unknown op {op}"

end SL.Drv.C01
