import SLModel.Drv.Util
open Lean
namespace SL.Drv.C01

/-- stub: no model operations for C01 yet -/
def handle (_req : Json) : Except String Json := .error "C01: not implemented"

end SL.Drv.C01
