import SLModel.Drv.Util
import SLModel.Core.Wal
import SLModel.Core.Crc32
open Lean
namespace SL.Drv.C02
open SL.Drv SL.Wal

def crc : Bytes → Bytes := SL.Crc32.crcLE

def bytesOfHex (s : String) : Except String Bytes := do
  let b ← hexToBytes s
  return b.map (·.toNat)

def hexOf (b : Bytes) : String := bytesToHex (b.map (·.toUInt8))

def recOfJson (j : Json) : Except String Rec := do
  let ty ← getNat j "ty"
  let p ← bytesOfHex (← getStr j "payload")
  return ⟨ty, p⟩

def recToJson (r : Rec) : Json := Json.mkObj [("ty", r.ty), ("payload", hexOf r.payload)]

def fopOfJson (j : Json) : Except String FOp := do
  match getOpt j "write" with
  | some w => return .write (← bytesOfHex (← w.getStr?))
  | none => return .setLen (← getNat j "set_len")

/-- payload of an AddDoc record is the serde JSON of `Document`: `{"fields":{…}}`; the queue
entry carries the document id (`fields.<id_field>`, a string) -/
def parseDocId (idField : String) (payload : Bytes) : Option String :=
  match String.fromUTF8? (ByteArray.mk (payload.map (·.toUInt8)).toArray) with
  | none => none
  | some s =>
    match Json.parse s with
    | .error _ => none
    | .ok j =>
      match j.getObjVal? "fields" with
      | .error _ => none
      | .ok f =>
        match f.getObjVal? idField with
        | .ok (.str id) => some id
        | _ => some ""      -- parses as a Document; the id is checked later by the writer

def parseId (payload : Bytes) : Option String :=
  String.fromUTF8? (ByteArray.mk (payload.map (·.toUInt8)).toArray)

def wopToJson : WOp String String → Json
  | .add id => Json.mkObj [("op", "add"), ("id", id)]
  | .commit => Json.mkObj [("op", "commit")]
  | .delete id => Json.mkObj [("op", "delete"), ("id", id)]

def logOfJson (req : Json) : Except String Log := do
  let d ← bytesOfHex (← getStr req "durable")
  let ps ← (getArrD req "pending").toList.mapM fopOfJson
  return ⟨d, ps⟩

def handle (req : Json) : Except String Json := do
  let op ← getStr req "op"
  match op with
  | "frame" =>
    let rs ← (← getArr req "recs").toList.mapM recOfJson
    return Json.mkObj [("bytes", hexOf (frameAll crc rs))]
  | "replay" =>
    let data ← bytesOfHex (← getStr req "data")
    let idField := getStrD req "id_field" "_id"
    let (rs, valid) := replay crc data
    let es := entries (parseDocId idField) parseId rs
    return Json.mkObj [("recs", Json.arr (rs.map recToJson).toArray), ("valid", valid),
      ("entries", Json.arr (es.map wopToJson).toArray),
      ("pending", Json.arr ((pendingOps es).map wopToJson).toArray)]
  | "crc" =>
    let data ← bytesOfHex (← getStr req "data")
    return Json.mkObj [("crc", SL.Crc32.crc32 data)]
  | "content" =>
    let l ← logOfJson req
    return Json.mkObj [("content", hexOf l.content)]
  | "crash" =>
    -- the crash content for choice (j, k): first j pending ops applied, then k bytes of the next write
    let l ← logOfJson req
    let j ← getNat req "j"
    let base := (l.pending.take j).foldl applyF l.durable
    let c := match getOpt req "k", l.pending[j]? with
      | some kj, some (.write bs) => base ++ bs.take (kj.getNat?.toOption.getD 0)
      | _, _ => base
    let member := (crashContents l).contains c
    let re := (Log.crashTo c).reopen crc (getBoolD req "truncate_on_open" true)
    return Json.mkObj [("content", hexOf c), ("is_crash_content", member), ("reopened", hexOf re.content),
      ("n_contents", (crashContents l).length)]
  | _ => throw s!"C02: unknown op {op}"

end SL.Drv.C02
