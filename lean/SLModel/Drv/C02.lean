import SLModel.Drv.Util
open Lean
namespace SL.Drv.C02

/-- stub: no model operations for C02 yet -/
def handle (_req : Json) : Except String Json := .error "C02: not implemented"

end SL.Drv.C02
