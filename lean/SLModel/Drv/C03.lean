import SLModel.Drv.Util
open Lean
namespace SL.Drv.C03

/-- stub: no model operations for C03 yet -/
def handle (_req : Json) : Except String Json := .error "C03: not implemented"

end SL.Drv.C03
