import SLModel.Drv.Util
import SLModel.Core.Protocol
open Lean
namespace SL.Drv.C03
open SL.Drv SL.Protocol

def stepOf : String → Option Step
  | "walSync" => some .walSync | "writeSegment" => some .writeSegment
  | "storeTmp" => some .storeTmp | "storePreSync" => some .storePreSync
  | "storeRename" => some .storeRename | "storeDirSync" => some .storeDirSync
  | "appendMarker" => some .appendMarker | "syncMarker" => some .syncMarker
  | "truncSetLen" => some .truncSetLen | "truncSync" => some .truncSync
  | "errTruncSetLen" => some .errTruncSetLen | "errTruncSync" => some .errTruncSync
  | "restoreTmp" => some .restoreTmp | "restorePreSync" => some .restorePreSync
  | "restoreRename" => some .restoreRename | "restoreDirSync" => some .restoreDirSync
  | "cleanup" => some .cleanup
  | _ => none

def cStr : C → String | .pre => "pre" | .post => "post"

/-- `{"op":"commit","faults":[{"step":…,"after":bool}],"repaired":true}` → predicted observation -/
def handle (req : Json) : Except String Json := do
  let op ← getStr req "op"
  match op with
  | "commit" =>
    let fs ← (getArrD req "faults").toList.mapM fun j => do
      let s ← getStr j "step"
      match stepOf s with
      | some st => pure (⟨st, if getBoolD j "after" false then .after else .before⟩ : Fault)
      | none => throw s!"unknown step {s}"
    let st := commit fs (getBoolD req "repaired" true) init
    return Json.mkObj [("ret", match st.ret with | some true => "ok" | some false => "err" | none => "none"),
      ("mem", cStr st.memC), ("disk", cStr st.diskC), ("queue_kept", st.queue),
      ("openable", openable st), ("good", good st), ("retry_good", retryGood st)]
  | _ => throw s!"C03: unknown op {op}"

end SL.Drv.C03
