import SLModel.Drv.Util
open Lean
namespace SL.Drv.C04

/-- stub: no model operations for C04 yet -/
def handle (_req : Json) : Except String Json := .error "C04: not implemented"

end SL.Drv.C04
