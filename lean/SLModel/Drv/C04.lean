import SLModel.Drv.Doc
import SLModel.Core.Contents
open Lean
namespace SL.Drv.C04
open SL.Drv SL.Drv.DocJ SL.Doc SL.Contents

abbrev D := J String

def cfgOf (s : Schema String) : Cfg D :=
  { proj := project s, safe := compactSafe s, reingestOk := ingestOk s }

def callOf (s : Schema String) (j : Json) : Except String (Call String D) := do
  let op ← getStr j "op"
  let h := getNatD j "h" 0
  match op with
  | "new" => return .newWriter h
  | "add" =>
    let d := toJ (← j.getObjVal? "doc")
    match docId s d with
    | some i => return .add h i d (getNatD j "size" 1)
    | none => throw "add: document without string id"
  | "del" => return .del h (← getStr j "id") (getNatD j "size" 1)
  | "commit" => return .commit h
  | "rollback" => return .rollback h
  | "drop" => return .dropWriter h
  | "compact" => return .compact
  | "reopen" => return .reopen
  | _ => throw s!"unknown call {op}"

def opJson : Op String D → Json
  | .add i _ => Json.arr #[true, i]
  | .del i => Json.arr #[false, i]

def resJson : Res → Json
  | .ok => "ok" | .noHandle => "no_handle" | .refused => "refused" | .failed => "failed"

def contentsJson (c : List (String × D)) : Json :=
  Json.arr (c.map (fun p => Json.arr #[p.1, fromJ p.2])).toArray

def stateJson (st : St String D) (r : Res) (sp : Spec.St String D) : Json :=
  Json.mkObj [
    ("res", resJson r),
    ("queues", Json.arr (st.handles.map (fun p =>
        Json.arr #[(p.1 : Json), Json.arr (p.2.queue.map opJson).toArray])).toArray),
    ("spec_queues", Json.arr (sp.handles.map (fun p =>
        Json.arr #[(p.1 : Json), Json.arr (p.2.queue.map opJson).toArray])).toArray),
    ("contents", contentsJson (abs st.segs)),
    ("spec_contents", contentsJson sp.committed),
    ("segments", (st.segs.length : Nat)),
    ("tombstones", ((st.segs.map (fun s => s.deleted.length)).foldl (fun (a b : Nat) => a + b) 0 : Nat))]

def runAll (cfg : Cfg D) (st : St String D) (sp : Spec.St String D) :
    List (Call String D) → List Json
  | [] => []
  | c :: cs =>
    let r := step cfg st c
    let sp' := Spec.step cfg.proj sp c
    stateJson r.1 r.2 sp' :: runAll cfg r.1 sp' cs

/-- `{"op":"run","mem":b,"schema":…,"calls":[…]}` → `{"steps":[…]}` (state after every call, from
the mechanism model `SL.Contents.step` and the spec `SL.Contents.Spec.step`);
`{"op":"project","schema":…,"doc":…}` → `{"stored":…,"ingest_ok":b}` -/
def handle (req : Json) : Except String Json := do
  let op ← getStr req "op"
  let s := schemaOf (← req.getObjVal? "schema")
  match op with
  | "run" =>
    let mem := getBoolD req "mem" false
    let calls ← (getArrD req "calls").toList.mapM (callOf s)
    return Json.mkObj [("steps", Json.arr (runAll (cfgOf s) (init mem) (Spec.init mem) calls).toArray),
      ("safe", compactSafe s)]
  | "project" =>
    let d := toJ (← req.getObjVal? "doc")
    return Json.mkObj [("stored", fromJ (project s d)), ("ingest_ok", ingestOk s d),
      ("stored_ingest_ok", ingestOk s (project s d)), ("safe", compactSafe s)]
  | _ => throw s!"C04: unknown op {op}"

end SL.Drv.C04
