import SLModel.Drv.Util
open Lean
namespace SL.Drv.C05

/-- stub: no model operations for C05 yet -/
def handle (_req : Json) : Except String Json := .error "C05: not implemented"

end SL.Drv.C05
