import SLModel.Drv.Util
import SLModel.Core.Sched
import SLModel.Core.Handles
open Lean
namespace SL.Drv.C05
open SL.Drv SL.Sched SL.Handles

def kindOf (s : String) : Except String Kind :=
  match s with
  | "enter" => .ok .enter
  | "exit" => .ok .exit
  | "inside" => .ok .inside
  | "free" => .ok .free
  | _ => .error s!"C05: unknown event kind {s}"

/-- event = `[thread, kind, name]` -/
def eventOf (j : Json) : Except String (Event String) := do
  let a ← j.getArr?
  match a.toList with
  | [t, k, n] => return { thread := ← t.getNat?, kind := ← kindOf (← k.getStr?), name := ← n.getStr? }
  | _ => throw "C05: event must be [thread, kind, name]"

def traceOf (req : Json) : Except String (List (Event String)) := do
  (← getArr req "trace").toList.mapM eventOf

/-- call of handle `h` (= thread index) -/
def callOf (h : Nat) (j : Json) : Except String (Call String String) := do
  let op ← getStr j "op"
  match op with
  | "new" => return .new h
  | "add" => return .add h (getBoolD j "valid" true) (getStrD j "id" "") (getStrD j "body" "")
  | "delete" => do
    let ids ← (← getArr j "ids").toList.mapM (·.getStr?)
    return .delete h ids
  | "commit" => return .commit h
  | "rollback" => return .rollback h
  | "compact" => return .compact
  | _ => throw s!"C05: unknown call {op}"

def progsOf (req : Json) : Except String (List (List (Nat × Nat × Call String String))) := do
  let ps ← getArr req "progs"
  let mut out : List (List (Nat × Nat × Call String String)) := []
  let mut h := 0
  for p in ps.toList do
    let calls ← (← p.getArr?).toList.mapM (callOf h)
    out := out ++ [(List.range calls.length).zip calls |>.map (fun (k, c) => (h, k, c))]
    h := h + 1
  return out

def resJson : Res → Json
  | .ok => "ok"
  | .count n => Json.mkObj [("count", n)]
  | .err => "err"

def opJson : Op String String → Json
  | .add i d => Json.arr #["add", i, d]
  | .del i => Json.arr #["del", i]

def handle (req : Json) : Except String Json := do
  let op ← getStr req "op"
  match op with
  | "monitor" =>
    let tr ← traceOf req
    let progs ← progsOf req
    let fb : Json := match firstBreak none 0 tr with | some i => (i : Json) | none => Json.null
    return Json.mkObj [("disjoint", sectionsDisjoint tr), ("fits", fits progs tr), ("first_break", fb)]
  | "serial" =>
    -- serial execution of the programs' calls in the order of the trace's `enter` events
    let tr ← traceOf req
    let progs ← progsOf req
    let pre ← (← getArr req "prefill").toList.mapM (fun j => do
      let a ← j.getArr?
      match a.toList with
      | [i, d] => return ((← i.getStr?), (← d.getStr?))
      | _ => throw "C05: prefill entry must be [id, body]")
    let order := enterOrder progs tr
    let s0 : St String String := Handles.init pre progs.length
    let s := runSerial s0 (order.map (fun x => x.2.2))
    return Json.mkObj [
      ("disjoint", sectionsDisjoint tr), ("fits", fits progs tr),
      ("order", Json.arr (order.map (fun x => Json.arr #[(x.1 : Json), (x.2.1 : Json)])).toArray),
      ("results", Json.arr (s.results.map resJson).toArray),
      ("committed", Json.arr (s.committed.map (fun (p : String × String) => Json.arr #[(p.1 : Json), (p.2 : Json)])).toArray),
      ("distinct", distinctKeys s.committed),
      ("wal", Json.arr (s.wal.map opJson).toArray),
      ("queues", Json.arr (s.queues.map (fun q => Json.arr (q.map opJson).toArray)).toArray)]
  | _ => throw s!"C05: unknown op {op}"

end SL.Drv.C05
