import SLModel.Drv.Util
open Lean
namespace SL.Drv.C06

/-- stub: no model operations for C06 yet -/
def handle (_req : Json) : Except String Json := .error "C06: not implemented"

end SL.Drv.C06
