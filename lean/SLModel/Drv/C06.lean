import SLModel.Drv.Util
import SLModel.Core.Snapshot
open Lean
namespace SL.Drv.C06
open SL.Drv SL.Snap

/-- manifest = `[[name, mask], …]` (mask: canonical string of the tombstone list) -/
def manifestOf (j : Json) : Except String (List (String × String)) := do
  (← j.getArr?).toList.mapM (fun e => do
    let a ← e.getArr?
    match a.toList with
    | [n, m] => return ((← n.getStr?), (← m.getStr?))
    | _ => throw "C06: manifest entry must be [name, mask]")

/-- step = `["rd"] | ["create", name] | ["publish", manifest] | ["unlink", name]`;
the content of a segment file is identified with its (unique, never reused) name -/
def stepOf (j : Json) : Except String (Step String String String) := do
  let a ← j.getArr?
  match a.toList with
  | [k] => if (← k.getStr?) == "rd" then return .rd else throw "C06: bad step"
  | [k, x] =>
    match (← k.getStr?) with
    | "create" => do let n ← x.getStr?; return .env (.create n n)
    | "unlink" => return .env (.unlink (← x.getStr?))
    | "publish" => return .env (.publish (← manifestOf x))
    | s => throw s!"C06: unknown step {s}"
  | _ => throw "C06: bad step"

def entryJson (e : String × String) : Json := Json.arr #[(e.1 : Json), (e.2 : Json)]

/-- `{"op":"open","dir":[names],"manifest":[[name,mask]…],"steps":[…]}` →
monitor value, reader outcome -/
def handle (req : Json) : Except String Json := do
  let op ← getStr req "op"
  match op with
  | "open" =>
    let dir ← (← getArr req "dir").toList.mapM (·.getStr?)
    let m ← manifestOf (← req.getObjVal? "manifest")
    let steps ← (← getArr req "steps").toList.mapM stepOf
    let w : World String String String := { dir := dir.map (fun n => (n, n)), manifest := m }
    let closed := (snapshot w.dir w.manifest).isSome
    let (w', r) := run (w, none) steps
    let prot := openWindowProtected w.manifest steps
    -- schedule of the repaired protocol (hypothesis of `SL.C06.reader_open_succeeds`)
    let legal := legalFrom w none steps
    match r with
    | none =>
      return Json.mkObj [("protected", prot), ("legal", legal), ("closed0", closed), ("copied", Json.null)]
    | some r =>
      return Json.mkObj [
        ("protected", prot), ("legal", legal), ("closed0", closed),
        ("copied", Json.arr (r.copied.map entryJson).toArray),
        ("failed", r.failed), ("todo", r.todo.length),
        ("opened", Json.arr (r.opened.map (fun e => entryJson (e.1, e.2.1))).toArray),
        ("final_manifest", Json.arr (w'.manifest.map entryJson).toArray),
        ("final_dir", Json.arr (w'.dir.map (fun p => (p.1 : Json))).toArray)]
  | _ => throw s!"C06: unknown op {op}"

end SL.Drv.C06
