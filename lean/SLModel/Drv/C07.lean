import SLModel.Drv.Util
open Lean
namespace SL.Drv.C07

/-- stub: no model operations for C07 yet -/
def handle (_req : Json) : Except String Json := .error "C07: not implemented"

end SL.Drv.C07
