import SLModel.Drv.Util
import SLModel.Core.Query
open Lean
namespace SL.Drv.C07
open SL.Drv SL.Query

/-! JSON glue for C07.  Protocol (all model inputs are arrays, never objects with free keys):

* `{"op":"needs","query":Q,"default_fields":[..]}` →
  `{"pairs":[[field,text],..]}` — the (field, text) pairs whose search analysis the model needs.
* `{"op":"rxneeds", <ctx>, "query":Q}` → `{"patterns":[[field,pattern],..]}` — analysed regex
  patterns to be evaluated by the harness with the real regex engine.
* `{"op":"run", <ctx>, "segments":[..], "query":Q, "filter":F?}` → mechanism and spec results.
* `{"op":"parse","query":"…"}` → the parsed query string (for the parser correspondence).

`<ctx>` = `"kinds":[[field,"text"|"keyword"],..], "default_fields":[..],
 "analysis":[[field,text,[[tok,pos],..],norm],..], "rx":[[pattern,[term,..]],..], "fuzzy":{..}?`.
`Q`/`F` are the repository's own request JSON. -/

def toStr (s : String) : Str := s.toList.map Char.toNat
def ofStr (s : Str) : String := String.ofList (s.map Char.ofNat)

def jStr (j : Json) : Except String Str := do return toStr (← j.getStr?)
def jStrs (j : Json) : Except String (List Str) := do (← j.getArr?).toList.mapM jStr

def strJ (s : Str) : Json := Json.str (ofStr s)

def jTok (j : Json) : Except String Tok := do
  let a ← j.getArr?
  match a.toList with
  | [t, p] => return ⟨← jStr t, ← p.getNat?⟩
  | _ => throw "token: [text,pos] expected"

/-- `fields`: list of names or of `{field, boost}` objects -/
def jFieldNames (j : Json) : Except String (List Str) := do
  (← j.getArr?).toList.mapM (fun x =>
    match x with
    | .str s => pure (toStr s)
    | _ => do jStr (← x.getObjVal? "field"))

partial def jFlt (j : Json) : Except String Flt := do
  if let .ok v := j.getObjVal? "KeywordEq" then
    return .kwEq (toStr (← getStr v "field")) (toStr (← getStr v "value"))
  if let .ok v := j.getObjVal? "KeywordIn" then
    return .kwIn (toStr (← getStr v "field")) (← jStrs (← v.getObjVal? "values"))
  if let .ok v := j.getObjVal? "I64Range" then
    return .i64Range (toStr (← getStr v "field")) (← getInt v "min") (← getInt v "max")
  if let .ok v := j.getObjVal? "And" then
    return .and (← (← v.getArr?).toList.mapM jFlt)
  if let .ok v := j.getObjVal? "Or" then
    return .or (← (← v.getArr?).toList.mapM jFlt)
  if let .ok v := j.getObjVal? "Not" then
    return .not (← jFlt v)
  throw s!"unsupported filter {j.compress}"

def jFlts (j : Json) (k : String) : Except String (List Flt) := do
  match getOpt j k with
  | none => return []
  | some v => (← v.getArr?).toList.mapM jFlt

def optNat (j : Json) (k : String) : Except String (Option Nat) :=
  match getOpt j k with
  | none => pure none
  | some v => do return some (← v.getNat?)

def jMsm (j : Json) : Except String Msm :=
  match j with
  | .str s =>
    let t := s.toList
    match t.reverse with
    | '%' :: r =>
      match (String.ofList r.reverse).toNat? with
      | some p => pure (.pct p)
      | none => throw "unsupported: non-integral minimum_should_match percentage"
    | _ => throw "unsupported: minimum_should_match percentage without %"
  | _ => do return .count (← j.getNat?)

partial def jQ (j : Json) : Except String Q := do
  if let .str s := j then return .queryString (toStr s) none
  let ty ← getStr j "type"
  let subs (k : String) : Except String (List Q) :=
    match getOpt j k with
    | none => pure []
    | some v => do (← v.getArr?).toList.mapM jQ
  match ty with
  | "match_all" => return .matchAll
  | "term" => return .term (toStr (← getStr j "field")) (toStr (← getStr j "value"))
  | "prefix" => return .pfx (toStr (← getStr j "field")) (toStr (← getStr j "value")) ((← optNat j "max_expansions").getD 50)
  | "wildcard" => return .wildcard (toStr (← getStr j "field")) (toStr (← getStr j "value")) ((← optNat j "max_expansions").getD 100)
  | "regex" => return .regex (toStr (← getStr j "field")) (toStr (← getStr j "value")) ((← optNat j "max_expansions").getD 100)
  | "phrase" =>
    let f := (getOpt j "field").bind (fun v => match v with | .str s => some (toStr s) | _ => none)
    return .phrase f (← jStrs (← j.getObjVal? "terms")) ((← optNat j "slop").getD 0)
  | "query_string" =>
    let fs ← match getOpt j "fields" with
      | none => pure none
      | some v => do pure (some (← jFieldNames v))
    return .queryString (toStr (← getStr j "query")) fs
  | "multi_match" =>
    let mt := match getStrD j "match_type" "best_fields" with
      | "most_fields" => MM.most
      | "cross_fields" => MM.cross
      | _ => MM.best
    let msm ← match getOpt j "minimum_should_match" with
      | none => pure none
      | some v => do pure (some (← jMsm v))
    return .multiMatch (toStr (← getStr j "query")) (← jFieldNames (← j.getObjVal? "fields")) mt
      (getStrD j "operator" "or" == "and") msm
  | "dis_max" => return .disMax (← subs "queries")
  | "bool" =>
    return .bool (← subs "must") (← subs "should") (← subs "must_not") (← jFlts j "filter")
      (← optNat j "minimum_should_match")
  | "constant_score" => return .constantScore (← jFlt (← j.getObjVal? "filter"))
  | "rank_feature" => return .rankFeature (toStr (← getStr j "field"))
  | "function_score" =>
    if getStrD j "boost_mode" "multiply" != "replace" then throw "unsupported: function_score boost_mode other than replace"
    let mode ← match getStrD j "score_mode" "sum" with
      | "sum" => pure SMode.sum
      | "multiply" => pure SMode.multiply
      | "max" => pure SMode.max
      | "min" => pure SMode.min
      | m => throw s!"unsupported: function_score score_mode {m}"
    let fns ← (← getArr j "functions").toList.mapM (fun f => do
      if (← getStr f "type") != "weight" then throw "unsupported: function_score function other than weight"
      let w ← match (← f.getObjVal? "weight").getInt? with
        | .ok w => pure w
        | .error _ => throw "unsupported: non-integral weight"
      let flt ← match getOpt f "filter" with
        | none => pure none
        | some v => do pure (some (← jFlt v))
      pure ({ weight := w, filter := flt } : WFn))
    if !(fns.any (fun w => w.filter.isNone)) then throw "unsupported: function_score without an unfiltered function"
    let optInt (k : String) : Except String (Option Int) :=
      match getOpt j k with
      | none => pure none
      | some v => match v.getInt? with
        | .ok i => pure (some i)
        | .error _ => throw s!"unsupported: non-integral {k}"
    return .functionScore (← jQ (← j.getObjVal? "query")) fns mode (← optInt "max_boost") (← optInt "min_score")
  | "script_score" =>
    let script ← getStr j "script"
    let inner ← jQ (← j.getObjVal? "query")
    if script == "_score" then return .scriptScore inner none
    -- `_score + 1 / (FIELD - K)`
    let pre := "_score + 1 / ("
    if script.startsWith pre && script.endsWith ")" then
      let body := ((script.drop pre.length).dropRight 1).toString
      match body.splitOn " - " with
      | [f, k] =>
        match k.toInt? with
        | some kk => return .scriptScore inner (some (toStr f, kk))
        | none => throw "unsupported: script"
      | _ => throw "unsupported: script"
    else throw "unsupported: script"
  | other => throw s!"unsupported query type {other}"

def jDoc (j : Json) : Except String ADoc := do
  let text ← (getArrD j "text").toList.mapM (fun e => do
    let a ← e.getArr?
    match a.toList with
    | [f, vals] =>
      let vs ← (← vals.getArr?).toList.mapM (fun v => do (← v.getArr?).toList.mapM jTok)
      pure (← jStr f, vs)
    | _ => throw "text: [field, values] expected")
  let kw ← (getArrD j "kw").toList.mapM (fun e => do
    let a ← e.getArr?
    match a.toList with
    | [f, vals] => pure (← jStr f, ← jStrs vals)
    | _ => throw "kw: [field, values] expected")
  let i64 ← (getArrD j "i64").toList.mapM (fun e => do
    let a ← e.getArr?
    match a.toList with
    | [f, vals] => pure (← jStr f, ← (← vals.getArr?).toList.mapM (·.getInt?))
    | _ => throw "i64: [field, values] expected")
  return { id := toStr (← getStr j "id"), text := text, kw := kw, i64 := i64 }

def jSeg (j : Json) : Except String Seg := do
  let docs ← (← getArr j "docs").toList.mapM jDoc
  let del ← match getOpt j "deleted" with
    | none => pure []
    | some v => natList v
  return { docs := docs, deleted := del }

def jCtx (req : Json) : Except String Ctx := do
  let kinds ← (getArrD req "kinds").toList.mapM (fun e => do
    let a ← e.getArr?
    match a.toList with
    | [f, k] =>
      let kk ← k.getStr?
      pure (← jStr f, if kk == "text" then Kind.text else if kk == "keyword" then Kind.keyword else Kind.other)
    | _ => throw "kinds: [field, kind] expected")
  let analysis ← (getArrD req "analysis").toList.mapM (fun e => do
    let a ← e.getArr?
    match a.toList with
    | [f, t, toks, norm] =>
      pure ((← jStr f, ← jStr t), (← (← toks.getArr?).toList.mapM jTok, ← jStr norm))
    | _ => throw "analysis: [field, text, tokens, norm] expected")
  let rx ← (getArrD req "rx").toList.mapM (fun e => do
    let a ← e.getArr?
    match a.toList with
    | [p, ts] => pure (← jStr p, ← jStrs ts)
    | _ => throw "rx: [pattern, terms] expected")
  let fuzzy ← match getOpt req "fuzzy" with
    | none => pure none
    | some v => pure (some { maxEdits := getNatD v "max_edits" 1, prefixLength := getNatD v "prefix_length" 1,
                             maxExpansions := getNatD v "max_expansions" 50, minLength := getNatD v "min_length" 3 : Fuzzy })
  let look (f t : Str) : Option (List Tok × Str) :=
    (analysis.find? (fun e => e.1.1 == f && e.1.2 == t)).map (·.2)
  return {
    kind := fun f => ((kinds.find? (fun e => e.1 == f)).map (·.2)).getD Kind.other
    searchAn := fun f t => ((look f t).map (·.1)).getD []
    normPat := fun f t => ((look f t).map (·.2)).getD t
    defaultFields := ← match getOpt req "default_fields" with
      | none => pure []
      | some v => jStrs v
    fuzzy := fuzzy
    rx := fun p t => ((rx.find? (fun e => e.1 == p)).map (fun e => e.2.contains t)).getD false }

def ordsJ (l : List (List Nat)) : Json := Json.arr (l.map natsToJson).toArray

/-- (field, text) pairs to analyse with the search analyzers -/
def needs (m : Matcher) : List (Str × Str) :=
  dedup (m.groups.flatMap (fun g => g.fields.map (fun f => (f, g.term))) ++
    m.phraseSpecs.flatMap (fun p => p.fields.map (fun f =>
      (f, (match p.terms with | [] => [] | t :: ts => t ++ ts.flatMap (fun x => (32 : Nat) :: x))))))

def handle (req : Json) : Except String Json := do
  let op ← getStr req "op"
  match op with
  | "parse" =>
    let p := parseQuery (toStr (← getStr req "query"))
    let qt (t : QTerm) : Json := Json.arr #[(match t.field with | some f => strJ f | none => Json.null), strJ t.term]
    return Json.mkObj [
      ("terms", Json.arr (p.terms.map qt).toArray),
      ("not_terms", Json.arr (p.notTerms.map qt).toArray),
      ("phrases", Json.arr (p.phrases.map (fun ph =>
        Json.arr #[(match ph.field with | some f => strJ f | none => Json.null), Json.arr (ph.terms.map strJ).toArray])).toArray)]
  | "needs" =>
    let c ← jCtx req
    let q ← jQ (← req.getObjVal? "query")
    let m := plan c true q
    return Json.mkObj [("pairs", Json.arr ((needs m).map (fun p => Json.arr #[strJ p.1, strJ p.2])).toArray)]
  | "rxneeds" =>
    let c ← jCtx req
    let q ← jQ (← req.getObjVal? "query")
    let m := plan c true q
    let pats := dedup (m.groups.flatMap (fun g =>
      match g.exp with
      | .regex _ => g.fields.flatMap (fun f => (patternTokens c f g.term).map (fun t => (f, t)))
      | _ => []))
    return Json.mkObj [("patterns", Json.arr (pats.map (fun p => Json.arr #[strJ p.1, strJ p.2])).toArray)]
  | "run" =>
    let c ← jCtx req
    let q ← jQ (← req.getObjVal? "query")
    let root ← match getOpt req "filter" with
      | none => pure none
      | some v => do pure (some (← jFlt v))
    let segs ← (← getArr req "segments").toList.mapM jSeg
    let m := plan c true q
    let quals := qualified c segs m
    let mech := SL.Query.searchOrds c segs q root
    let spec := Spec.searchOrds c segs q root
    let hasq := segs.map (fun s => (List.range s.docs.length).filter (hasQualified quals s))
    return Json.mkObj [
      ("mech", ordsJ mech), ("spec", ordsJ spec), ("has_qualified", ordsJ hasq),
      ("n_qualified", (quals.length : Nat)),
      ("expansions_complete", expansionsComplete c segs q),
      ("below_caps", m.groups.all (belowCaps c segs)),
      ("root_chain", q.rootChain),
      ("custom_drop_hit", ordsJ (segs.map (fun s => (List.range s.docs.length).filter (fun o =>
        match s.docs[o]? with | some d => customDropHit c d true q | none => false)))),
      ("rx_prefix_ok", m.groups.all (rxPrefixOk c segs)),
      ("rx_prefix_miss", ordsJ (segs.map (fun s => (List.range s.docs.length).filter (fun o =>
        match s.docs[o]? with | some d => rxPrefixMiss c m d | none => false)))),
      ("covered", coveredByScoredTerms c segs q root),
      ("incomplete_groups", Json.arr (((m.groups.filter (fun g => !groupComplete c segs g)).map
        (fun g => Json.mkObj [("fields", Json.arr (g.fields.map strJ).toArray), ("term", strJ g.term), ("score", g.score)]))).toArray),
      ("ids", Json.arr ((SL.Query.search c segs q root).map strJ).toArray)]
  | _ => throw s!"C07: unknown op {op}"

end SL.Drv.C07
