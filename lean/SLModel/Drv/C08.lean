import SLModel.Drv.Util
open Lean
namespace SL.Drv.C08

/-- stub: no model operations for C08 yet -/
def handle (_req : Json) : Except String Json := .error "C08: not implemented"

end SL.Drv.C08
