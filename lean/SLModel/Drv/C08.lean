import SLModel.Drv.Util
import SLModel.Drv.Doc
import SLModel.Core.Filter
import SLModel.Core.FilterLegacy
import SLModel.Lemmas.FilterMore
open Lean
namespace SL.Drv.C08
open SL.Drv SL.Drv.DocJ SL.Doc SL.Filter

/-- `char::to_lowercase` for the letters the generators use: ASCII, Latin-1, basic Greek and
Cyrillic capitals (no special-casing rules are needed for these) -/
def lowerChar (c : Char) : Char :=
  let n := c.toNat
  if 65 ≤ n && n ≤ 90 then Char.ofNat (n + 32)
  else if 0xC0 ≤ n && n ≤ 0xDE && n != 0xD7 then Char.ofNat (n + 32)
  else if 0x391 ≤ n && n ≤ 0x3A9 && n != 0x3A2 then Char.ofNat (n + 32)
  else if 0x410 ≤ n && n ≤ 0x42F then Char.ofNat (n + 32)
  else c

/-- case folding of `case_insensitive_equals` (`eq_ignore_ascii_case` / `to_lowercase`) -/
def fold (s : String) : String := String.ofList (s.toList.map lowerChar)

def numOf (j : Json) : Except String (Int × Nat) :=
  match j with
  | .num n => .ok (n.mantissa, n.exponent)
  | _ => .error "number expected"

/-- the repository's `Filter` JSON (externally tagged enum); dotted field names are split -/
partial def filterOf (j : Json) : Except String (Filter String) := do
  match j.getObjVal? "KeywordEq" with
  | .ok b => return .leaf ((← getStr b "field").splitOn ".") (.kwEq (← getStr b "value"))
  | .error _ =>
  match j.getObjVal? "KeywordIn" with
  | .ok b =>
    let vs ← (← getArr b "values").toList.mapM (·.getStr?)
    return .leaf ((← getStr b "field").splitOn ".") (.kwIn vs)
  | .error _ =>
  match j.getObjVal? "I64Range" with
  | .ok b =>
    return .leaf ((← getStr b "field").splitOn ".") (.i64Range (← getInt b "min") (← getInt b "max"))
  | .error _ =>
  match j.getObjVal? "F64Range" with
  | .ok b =>
    let lo ← numOf (← b.getObjVal? "min")
    let hi ← numOf (← b.getObjVal? "max")
    return .leaf ((← getStr b "field").splitOn ".") (.f64Range lo hi)
  | .error _ =>
  match j.getObjVal? "Nested" with
  | .ok b => return .nested (← getStr b "path") (← filterOf (← b.getObjVal? "filter"))
  | .error _ =>
  match j.getObjVal? "And" with
  | .ok b => return .and (← (← b.getArr?).toList.mapM filterOf)
  | .error _ =>
  match j.getObjVal? "Or" with
  | .ok b => return .or (← (← b.getArr?).toList.mapM filterOf)
  | .error _ =>
  match j.getObjVal? "Not" with
  | .ok b => return .not (← filterOf b)
  | .error _ => throw s!"C08: unknown filter {j.compress}"

def objOf (j : Json) : JO String :=
  match toJ j with
  | .obj kv => kv
  | _ => .nil

/-- `{"op":"eval","schema":…,"docs":[…],"filter":…}` →
`{"col":[b…],"spec":[b…],"legacy_col":[b…],"single":[b…],"plain":b,"plain_inside":b}` — per
document: the code's evaluation over the flattened columns, the documented tree semantics, the
evaluation over the columns as written before a2fc693 and the fragment on which those were
faithful; `plain_inside` is the hypothesis of `flatten_sound` -/
def handle (req : Json) : Except String Json := do
  let op ← getStr req "op"
  match op with
  | "eval" =>
    let s := schemaOf (← req.getObjVal? "schema")
    let f ← filterOf (← req.getObjVal? "filter")
    let docs := (← getArr req "docs").toList.map objOf
    let bools (l : List Bool) : Json := Json.arr (l.map (fun (b : Bool) => (b : Json))).toArray
    return Json.mkObj [
      ("col", bools (docs.map (fun kv => Col.passes fold (flatten s kv) f))),
      ("spec", bools (docs.map (fun kv => Spec.passes fold s kv f))),
      ("legacy_col", bools (docs.map (fun kv => Col.passes fold (Legacy.flatten s kv) f))),
      ("single", bools (docs.map (fun kv => Legacy.singleCarrier s kv))),
      ("plain", f.allPlain),
      ("plain_inside", f.plainInside)]
  | _ => throw s!"C08: unknown op {op}"

end SL.Drv.C08
