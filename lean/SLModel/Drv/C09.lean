import SLModel.Drv.Util
import SLModel.Drv.Bm25Json
import SLModel.Core.Quant
open Lean
namespace SL.Drv.C09
open SL.Drv SL.Drv.BJ SL.Bm25 SL.TK SL.Quant

/-- global doc number → (segment, ordinal) → id and `Float` score -/
def render (segs : List Seg) (outs : List SegOut) (hs : List Hit) : Json :=
  Json.arr (hs.map fun (_, g) =>
    let si := g / segBase
    let d := g % segBase
    let id := match segs[si]? with
      | some seg => (match seg[d]? with | some doc => doc.id | none => "?")
      | none => "?"
    let sc : Float := match outs[si]? with
      | some o => (match o.fl.lookup d with | some (some s) => s | _ => 0.0)
      | none => 0.0
    Json.mkObj [("id", id), ("score", fl sc), ("bits", sc.toBits.toNat), ("seg", si), ("doc", d)]).toArray

/-- `{"op":"search", …case…, "limit":n, "bmw_block_size":n|null}` →
`{"bm25":[…],"wand":[…],"bmw":[…], flags…}` -/
def handle (req : Json) : Except String Json := do
  let op ← getStr req "op"
  match op with
  | "search" =>
    let c ← parseCase req
    let limit ← getNat req "limit"
    let k := limit + 1
    let bs := max 1 (getNatD req "bmw_block_size" 128)
    let outs := c.segs.map (mkSegIn c.pr c.plan bs 1.0)
    let ins := outs.map (·.inp)
    let r (st : Strategy) := render c.segs outs (search st k limit ins)
    -- monitored hypotheses / refinement, evaluated on this concrete instance
    let boundsOk := ins.all boundsOk
    let blockOk := ins.all blockBoundsOk
    let refines (blk : Bool) := ins.all fun s =>
      s.scan || wandLoop k blk s.hook s.sc s.terms ==
        pruneRule k blk s.hook s.sc (ubsum s.terms) (blockSum s.terms) s.docs
    let lr (st : Strategy) := render c.segs outs (legacySearch st k limit ins)
    let cands : Nat := (ins.map (·.fin.length)).foldl (· + ·) 0
    let maxPost : Nat := (ins.map fun s => (s.terms.map (·.posts.length)).foldl max 0).foldl max 0
    return Json.mkObj [
      ("bm25", r .bm25), ("wand", r .wand), ("bmw", r .bmw),
      ("hook", c.plan.tree.custom),
      ("scan", (qualified c.plan).isEmpty),
      ("bounds_ok", boundsOk), ("valid_bounds", ins.all fun s => validBounds s.terms), ("wf", ins.all fun s => s.scan || s.wf), ("block_bounds_ok", blockOk),
      ("refines_wand", refines false), ("refines_bmw", refines true),
      ("blocks_ok", ins.all fun s => s.terms.all Term.blocksOk),
      ("seg_ok_wand", ins.all (segOk .wand)), ("seg_ok_bmw", ins.all (segOk .bmw)),
      ("valid_block_bounds", ins.all fun s => validBlockBounds s.terms),
      ("legacy_wand", lr .wand), ("legacy_bmw", lr .bmw),
      ("negative", outs.any (·.neg)),
      ("leaf_count", c.plan.leafCount),
      ("candidates", cands),
      ("max_postings", maxPost)]
  | _ => throw s!"C09: unknown op {op}"

end SL.Drv.C09
