import SLModel.Drv.Util
open Lean
namespace SL.Drv.C09

/-- stub: no model operations for C09 yet -/
def handle (_req : Json) : Except String Json := .error "C09: not implemented"

end SL.Drv.C09
