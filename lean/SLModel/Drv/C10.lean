import SLModel.Drv.Util
open Lean
namespace SL.Drv.C10

/-- stub: no model operations for C10 yet -/
def handle (_req : Json) : Except String Json := .error "C10: not implemented"

end SL.Drv.C10
