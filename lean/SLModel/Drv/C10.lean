import SLModel.Drv.Util
import SLModel.Drv.Bm25Json
import SLModel.Core.Sort
open Lean
namespace SL.Drv.C10
open SL.Drv SL.Drv.BJ SL.Bm25 SL.Sort

/-- rank of a double under `total_cmp` -/
def rankF (x : Float) : Int :=
  let b := x.toBits.toNat
  if b < 9223372036854775808 then Int.ofNat b else -(Int.ofNat (b - 9223372036854775808)) - 1

def bytes (s : String) : List Nat := s.toUTF8.toList.map (·.toNat)

def docVals (d : Doc) : DocVals :=
  { kw := d.kw.map fun (k, vs) => (k, vs.map bytes)
    i64 := d.i64
    f64 := d.f64.map fun (k, vs) => (k, vs.map rankF) }

def parseSort (kinds : Json) (j : Json) : Except String (Field × Option Bool) := do
  let f ← getStr j "field"
  let o := match getStrD j "order" "" with
    | "asc" => some false
    | "desc" => some true
    | _ => none
  if f == "_score" then return (.score, o)
  match getStrD kinds f "" with
  | "kw" => return (.kw f, o)
  | "i64" => return (.i64 f, o)
  | "f64" => return (.f64 f, o)
  | k => throw s!"sort field {f}: unknown kind {k}"

/-- matching documents of one segment with their scores, as `search_segment`/`scan_segment`
hand them to the sort key builder -/
def segScores (pr : Params) (p : Bm25.Plan) (needScores : Bool) (dflt : Float) (seg : Seg) :
    List (Nat × Float) :=
  if (qualified p).isEmpty then scanScores seg p dflt
  else
    let ts := segTerms seg p
    if ts.isEmpty then []
    else (candidates ts).filterMap fun d =>
      if accepts seg p d then
        (if needScores then (finalScore pr seg p ts d).map fun s => (d, s) else some (d, 0.0))
      else none

/-- `{"op":"search", …case…, "sort":[{"field":…,"order":…}], "kinds":{…}, "limit":n}` -/
def handle (req : Json) : Except String Json := do
  let op ← getStr req "op"
  match op with
  | "search" =>
    let c ← parseCase req
    let limit ← getNat req "limit"
    let kinds := req.getObjValD "kinds"
    let specs ← (getArrD req "sort").toList.mapM (parseSort kinds)
    let pl := mkPlan specs
    let custom := c.plan.tree.custom
    -- `search_segment` (since /repo 8218789): `ScoreMode::Score` whenever the sort uses the score,
    -- a score hook is active, hits are returned or a collector is attached; before that commit a
    -- pure field sort ran in match-only mode and every hit carried score 0.0.
    -- `scan_segment` (since /repo a5f1a65): the default score of a term-less query is 1.0
    -- whatever the sort (before: 0.0 under a field sort).
    let returnHits := getBoolD req "return_hits" true
    let needScores := pl.usesScore || custom || returnHits
    let dflt : Float := 1.0
    let scored := c.segs.map (segScores c.pr c.plan needScores dflt)
    let keyed : List (List (Key × Float)) := (enumFrom 0 (c.segs.zip scored)).map fun (si, (seg, sc)) =>
      sc.map fun (d, s) =>
        let dv := match seg[d]? with | some doc => docVals doc | none => { kw := [], i64 := [], f64 := [] }
        (buildKey pl dv (rankF s) si d, s)
    let segKeys := keyed.map fun l => l.map (·.1)
    let res := search pl limit segKeys
    let spec := specSearch Key.lt limit segKeys
    let total : Nat := (segKeys.map (·.length)).foldl (· + ·) 0
    let resAll := search pl (total + 1) segKeys
    let render := fun (ks : List Key) => Json.arr (ks.map fun k =>
      let id := match c.segs[k.seg]? with
        | some seg => (match seg[k.doc]? with | some d => d.id | none => "?")
        | none => "?"
      let s : Float := match keyed[k.seg]? with
        | some l => (match l.find? (fun x => x.1.doc == k.doc) with | some x => x.2 | none => 0.0)
        | none => 0.0
      Json.mkObj [("id", id), ("score", fl s), ("bits", s.toBits.toNat), ("seg", k.seg), ("doc", k.doc)]).toArray
    return Json.mkObj [
      ("hits", render res), ("all", render resAll),
      ("fast", pl.fast), ("uses_score", pl.usesScore), ("hook", custom),
      ("eq_spec", decide (res = spec) && decide (resAll = specSearch Key.lt (total + 1) segKeys)),
      ("shaped", segKeys.all fun l => l.all (Key.shaped pl)),
      ("matches", total)]
  | _ => throw s!"C10: unknown op {op}"

end SL.Drv.C10
