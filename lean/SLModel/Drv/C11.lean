import SLModel.Drv.Util
open Lean
namespace SL.Drv.C11

/-- stub: no model operations for C11 yet -/
def handle (_req : Json) : Except String Json := .error "C11: not implemented"

end SL.Drv.C11
