import SLModel.Drv.Util
import SLModel.Core.Cursor
open Lean
namespace SL.Drv.C11
open SL.Drv SL.Cursor

def strBytes (s : String) : Bytes := s.toUTF8.toList
def asciiStr (b : Bytes) : String := String.ofList (b.map (fun x => Char.ofNat x.toNat))

def errName : DecErr → String
  | .length => "length" | .hex => "hex" | .version => "version" | .advance => "advance"
  | .generation => "generation" | .json => "json" | .planHash => "plan_hash" | .arity => "arity"
  | .fuel => "fuel"

def valToJson : CVal → Json
  | .score b => Json.mkObj [("t", "score"), ("v", b)]
  | .i64 v => Json.mkObj [("t", "i64"), ("v", v)]
  | .f64 b => Json.mkObj [("t", "f64"), ("v", b)]
  | .str s => Json.mkObj [("t", "str"), ("hex", bytesToHex s)]
  | .missing => Json.mkObj [("t", "missing")]

def valOfJson (j : Json) : Except String CVal := do
  let t ← getStr j "t"
  match t with
  | "score" => return .score (← getNat j "v")
  | "i64" => return .i64 (← getInt j "v")
  | "f64" => return .f64 (← getNat j "v")
  | "str" => return .str (← hexToBytes (← getStr j "hex"))
  | "missing" => return .missing
  | _ => throw s!"bad value tag {t}"

def stateToJson (c : CursorState) : Json :=
  Json.mkObj [("values", Json.arr (c.values.map valToJson).toArray), ("segment_ord", c.segmentOrd),
    ("doc_id", c.docId), ("returned", c.returned), ("generation", c.generation),
    ("plan_hash", match c.planHash with | some h => (h : Json) | none => Json.null)]

def reqOfJson (j : Json) : Except String Req := do
  let g ← getNat j "generation"
  let h ← getNat j "plan_hash"
  let l ← getNat j "plan_len"
  let f ← getBool j "score_fast"
  return { generation := g, planHash := h, planLen := l, scoreFast := f }

def planOfJson (j : Json) : Except String (List PlanField) := do
  let a ← j.getArr?
  a.toList.mapM (fun f => do
    let k ← getNat f "kind"
    let d ← getBool f "desc"
    return { kind := k, name := strBytes (getStrD f "name" ""), desc := d })

def keyOfJson (j : Json) : Except String DKey := do
  let ps ← getArr j "parts"
  let parts ← ps.toList.mapM (fun p => match p with
    | .null => pure none
    | v => do let i ← v.getInt?; pure (some i))
  let sg ← getNat j "seg"
  let dc ← getNat j "doc"
  return { parts := parts, seg := sg, doc := dc }

def keyRef (k : DKey) : Json := Json.arr #[(k.seg : Json), (k.doc : Json)]

def respToJson (r : Resp DKey) : Json :=
  Json.mkObj [("hits", Json.arr (r.hits.map keyRef).toArray),
    ("next", match r.next with
      | none => Json.null
      | some c => Json.mkObj [("seg", c.key.seg), ("doc", c.key.doc), ("returned", c.returned)]),
    ("total", r.total)]

def segOfJson (j : Json) : Except String Seg := do
  let g ← getNat j "generation"
  let d ← getNat j "docs"
  let del ← natList (← j.getObjVal? "deleted")
  return { generation := g, docs := d, deleted := del }

def segToJson (s : Seg) : Json :=
  Json.mkObj [("generation", s.generation), ("docs", s.docs), ("deleted", natsToJson s.deleted)]

def pairOfJson (j : Json) : Except String (Nat × Nat) := do
  let l ← natList j
  match l with
  | [a, b] => return (a, b)
  | _ => throw "pair expected"

def handle (req : Json) : Except String Json := do
  let op ← getStr req "op"
  match op with
  | "decode" =>
    -- {"raw": "<cursor string>", "req": {generation, plan_hash, plan_len, score_fast}}
    let raw := strBytes (← getStr req "raw")
    let r ← reqOfJson (← req.getObjVal? "req")
    match decodeCursor r raw with
    | .ok c => return Json.mkObj [("class", "ok"), ("state", stateToJson c)]
    | .error e => return Json.mkObj [("class", "error"), ("err", errName e)]
    | .unmodelled => return Json.mkObj [("class", "unmodelled")]
  | "parse" =>
    -- parse without the request's checks: {"raw", "score": bool}
    let raw := strBytes (← getStr req "raw")
    if ← getBool req "score" then
      match parseScore raw with
      | .ok c => return Json.mkObj [("class", "ok"), ("state", stateToJson
          { values := [.score c.scoreBits], segmentOrd := c.segmentOrd, docId := c.docId,
            returned := c.returned, generation := c.generation, planHash := none }), ("version", c.version)]
      | .error e => return Json.mkObj [("class", "error"), ("err", errName e)]
      | .unmodelled => return Json.mkObj [("class", "unmodelled")]
    else
      match parseSort raw with
      | .ok c => return Json.mkObj [("class", "ok"), ("state", stateToJson
          { values := c.values, segmentOrd := c.segmentOrd, docId := c.docId,
            returned := c.returned, generation := c.generation, planHash := some c.planHash }),
          ("version", c.version)]
      | .error e => return Json.mkObj [("class", "error"), ("err", errName e)]
      | .unmodelled => return Json.mkObj [("class", "unmodelled")]
  | "encode" =>
    -- {"state": {...}, "score": bool}
    let st ← req.getObjVal? "state"
    let vals ← (← getArr st "values").toList.mapM valOfJson
    if ← getBool req "score" then
      let bits ← match vals with
        | [.score b] => pure b
        | _ => throw "score cursor needs exactly one score value"
      let g ← getNat st "generation"
      let so ← getNat st "segment_ord"
      let di ← getNat st "doc_id"
      let rt ← getNat st "returned"
      let c : ScoreCursor := ⟨cursorVersion, g, bits, so, di, rt⟩
      return Json.mkObj [("cursor", asciiStr (encodeScore c))]
    else
      let g ← getNat st "generation"
      let so ← getNat st "segment_ord"
      let di ← getNat st "doc_id"
      let rt ← getNat st "returned"
      let ph ← getNat st "plan_hash"
      let c : SortCursor := ⟨sortCursorVersion, g, rt, ph, so, di, vals⟩
      return Json.mkObj [("cursor", asciiStr (encodeSort c))]
  | "plan_hash" =>
    let fs ← planOfJson (← req.getObjVal? "fields")
    return Json.mkObj [("hash", planHash fs), ("score_fast", isScoreFast fs), ("len", fs.length)]
  | "walk" =>
    -- {"dirs":[bool], "keys":[{parts,seg,doc}], "limit": n} → pages
    let dirs ← (← getArr req "dirs").toList.mapM (·.getBool?)
    let keys ← (← getArr req "keys").toList.mapM keyOfJson
    let limit ← getNat req "limit"
    match walkPages (ltKey dirs) Limits.real id keys limit (keys.length + 2) none with
    | none => return Json.mkObj [("failed", true)]
    | some ps => return Json.mkObj [("failed", false), ("pages", Json.arr (ps.map respToJson).toArray)]
  | "page" =>
    -- one request with an explicit cursor {"cursor": null | {key, returned}}
    let dirs ← (← getArr req "dirs").toList.mapM (·.getBool?)
    let keys ← (← getArr req "keys").toList.mapM keyOfJson
    let limit ← getNat req "limit"
    let cur ← match getOpt req "cursor" with
      | none => pure none
      | some c => do
        let k ← keyOfJson (← c.getObjVal? "key")
        let rt ← getNat c "returned"
        pure (some ({ key := k, returned := rt } : Cur DKey))
    match page (ltKey dirs) Limits.real keys cur limit (getNatD req "skipped" 0) with
    | .ok r => return Json.mkObj [("class", "ok"), ("resp", respToJson r)]
    | .error .stale => return Json.mkObj [("class", "error"), ("err", "stale")]
    | .error .advance => return Json.mkObj [("class", "error"), ("err", "advance")]
  | "gen" =>
    -- {"segs":[…], "ops":[{"op":"commit","dels":[[i,d]…],"adds":n}|{"op":"compact"}]}
    let segs ← (← getArr req "segs").toList.mapM segOfJson
    let ops ← getArr req "ops"
    let mut st : IndexState := { segs := segs, revision := getNatD req "revision" 0 }
    let mut out : Array Json := #[]
    for o in ops do
      let k ← getStr o "op"
      if k == "commit" then
        let dels ← (← getArr o "dels").toList.mapM pairOfJson
        let adds ← getNat o "adds"
        -- `pending` defaults to the number of queued operations the harness describes
        let pending := getNatD o "pending" (dels.length + adds)
        st := (IdxOp.commit dels adds pending).apply st
      else if k == "compact" then
        st := IdxOp.compact.apply st
      else throw s!"bad index op {k}"
      out := out.push (Json.mkObj [("generation", readerGen st), ("legacy_generation", readerGenLegacy st),
        ("segs", Json.arr (st.segs.map segToJson).toArray)])
    return Json.mkObj [("states", Json.arr out)]
  | _ => throw s!"C11: unknown op {op}"

end SL.Drv.C11
