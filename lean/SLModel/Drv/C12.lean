import SLModel.Drv.Util
open Lean
namespace SL.Drv.C12

/-- stub: no model operations for C12 yet -/
def handle (_req : Json) : Except String Json := .error "C12: not implemented"

end SL.Drv.C12
