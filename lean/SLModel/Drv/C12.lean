import SLModel.Drv.Util
import SLModel.Drv.AggsJson
import SLModel.Core.Aggs
open Lean
namespace SL.Drv.C12
open SL.Drv SL.Drv.AggsJson SL.Aggs

/-- `{"op":"run","fields":{…},"segs":[[doc…]…],"agg":{…}}` →
`{"resp": <SL.Aggs.run agg segs>, "spec": <SL.Aggs.Spec.agg agg segs.flatten>}` -/
def handle (req : Json) : Except String Json := do
  let op ← getStr req "op"
  match op with
  | "run" =>
    let fields := (getOpt req "fields").getD (Json.mkObj [])
    let segs ← parseSegs (← req.getObjVal? "segs")
    let agg ← parseAgg fields (← req.getObjVal? "agg")
    let resp := match run agg segs with
      | some n => nodeToJson n
      | none => Json.null
    let spec := nodeToJson (Spec.agg agg segs.flatten)
    return Json.mkObj [("resp", resp), ("spec", spec)]
  | _ => throw s!"C12: unknown op {op}"

end SL.Drv.C12
