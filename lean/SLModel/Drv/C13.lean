import SLModel.Drv.Util
open Lean
namespace SL.Drv.C13

/-- stub: no model operations for C13 yet -/
def handle (_req : Json) : Except String Json := .error "C13: not implemented"

end SL.Drv.C13
