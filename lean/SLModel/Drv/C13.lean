import SLModel.Drv.Post
open Lean
namespace SL.Drv.C13

/-- C13 runs the shared post-processing model (`SL.Post.search` / `SL.Post.Spec.search`),
the definitions the theorems of `Props/C13` are about; see `Drv/Post.lean` for the protocol -/
def handle (req : Json) : Except String Json := SL.Drv.Post.handle "C13" req

end SL.Drv.C13
