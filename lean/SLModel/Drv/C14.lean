import SLModel.Drv.C04
open Lean
namespace SL.Drv.C14

/-- C14 uses the same model operations as C04 (`SL.Contents.step` with `.compact`,
`SL.Doc.project`, `ingestOk`, `compactSafe`): `{"op":"run",…}` and `{"op":"project",…}`. -/
def handle (req : Json) : Except String Json := SL.Drv.C04.handle req

end SL.Drv.C14
