import SLModel.Drv.Util
open Lean
namespace SL.Drv.C14

/-- stub: no model operations for C14 yet -/
def handle (_req : Json) : Except String Json := .error "C14: not implemented"

end SL.Drv.C14
