import SLModel.Drv.Util
open Lean
namespace SL.Drv.C15

/-- stub: no model operations for C15 yet -/
def handle (_req : Json) : Except String Json := .error "C15: not implemented"

end SL.Drv.C15
