import SLModel.Drv.Util
import SLModel.Drv.Doc
import SLModel.Core.DocValidate
import SLModel.Core.DocValidateLegacy
open Lean
namespace SL.Drv.C15
open SL.Drv SL.Drv.DocJ SL.Doc

/-- `char::is_whitespace` (Unicode `White_Space`) — what `str::trim` removes -/
def isWs (c : Char) : Bool :=
  let n := c.toNat
  (9 ≤ n && n ≤ 13) || n == 32 || n == 0x85 || n == 0xA0 || n == 0x1680 ||
  (0x2000 ≤ n && n ≤ 0x200A) || n == 0x2028 || n == 0x2029 || n == 0x202F || n == 0x205F ||
  n == 0x3000

/-- `s.trim().is_empty()` -/
def blank (s : String) : Bool := s.toList.all isWs

/-- bytes of the compact JSON text of the stored projection (what `serde_json::to_vec` writes;
differences in escaping/number formatting are a few bytes and only matter at the cap itself) -/
def size (j : J String) : Nat := (fromJ j).compress.utf8ByteSize

/-- `{"$repeat": x, "times": n}` stands for the string `x` repeated `n` times (the harness expands
it the same way before it calls the real code) -/
partial def expand (j : Json) : Json :=
  match j with
  | .arr a => .arr (a.map expand)
  | .obj kv =>
    match j.getObjVal? "$repeat", j.getObjVal? "times" with
    | .ok (.str x), .ok (.num n) =>
      let t := n.mantissa.toNat
      match x.toList with
      | [c] => .str ("".pushn c t)
      | _ => .str ((List.range t).foldl (fun acc _ => acc ++ x) "")
    | _, _ => Json.mkObj (kv.foldl (fun acc k v => (k, expand v) :: acc) [])
  | x => x

/-- `{"op":"verdict","schema":…,"doc":…,"cap":n}` →
`{"add":b,"valid":b,"commit":b,"collects":b,"conforms":b,"within_cap":b,"size":n,"legacy_add":b,
"legacy_commit":b}` — `legacy_*` = the validation before the repairs (documentation only) -/
def handle (req : Json) : Except String Json := do
  let op ← getStr req "op"
  match op with
  | "verdict" =>
    let s := schemaOf (← req.getObjVal? "schema")
    let d := toJ (expand (← req.getObjVal? "doc"))
    let cap := getNatD req "cap" (32 * 1024 * 1024)
    let sz := size (project s d)
    return Json.mkObj [
      ("add", validateAdd blank size cap s d),
      ("valid", validateDoc blank s d),
      ("commit", collectOk blank size cap s d),
      ("collects", collectDoc s d),
      ("conforms", conforms blank s d),
      ("within_cap", decide (sz ≤ cap)),
      ("size", sz),
      ("legacy_add", Legacy.validateAdd blank s d),
      ("legacy_commit", Legacy.collectOk blank size cap s d)]
  | _ => throw s!"C15: unknown op {op}"

end SL.Drv.C15
