import SLModel.Drv.Util
import SLModel.Drv.Doc
import SLModel.Core.DocValidate
open Lean
namespace SL.Drv.C15
open SL.Drv SL.Drv.DocJ SL.Doc

/-- `char::is_whitespace` (Unicode `White_Space`) — what `str::trim` removes -/
def isWs (c : Char) : Bool :=
  let n := c.toNat
  (9 ≤ n && n ≤ 13) || n == 32 || n == 0x85 || n == 0xA0 || n == 0x1680 ||
  (0x2000 ≤ n && n ≤ 0x200A) || n == 0x2028 || n == 0x2029 || n == 0x202F || n == 0x205F ||
  n == 0x3000

/-- `s.trim().is_empty()` -/
def blank (s : String) : Bool := s.toList.all isWs

/-- bytes of the compact JSON text of the stored projection (what `serde_json::to_vec` writes;
differences in escaping/number formatting are a few bytes and only matter at the cap itself) -/
def size (j : J String) : Nat := (fromJ j).compress.utf8ByteSize

/-- `{"$repeat": x, "times": n}` stands for the string `x` repeated `n` times (the harness expands
it the same way before it calls the real code) -/
partial def expand (j : Json) : Json :=
  match j with
  | .arr a => .arr (a.map expand)
  | .obj kv =>
    match j.getObjVal? "$repeat", j.getObjVal? "times" with
    | .ok (.str x), .ok (.num n) =>
      let t := n.mantissa.toNat
      match x.toList with
      | [c] => .str ("".pushn c t)
      | _ => .str ((List.range t).foldl (fun acc _ => acc ++ x) "")
    | _, _ => Json.mkObj (kv.foldl (fun acc k v => (k, expand v) :: acc) [])
  | x => x

/-- `{"op":"verdict","schema":…,"doc":…,"cap":n}` →
`{"add":b,"commit":b,"conforms":b,"benign":b,"unknown_top":b,"arr_in_arr":b,"leaves_typed":b,
"size":n}` -/
def handle (req : Json) : Except String Json := do
  let op ← getStr req "op"
  match op with
  | "verdict" =>
    let s := schemaOf (← req.getObjVal? "schema")
    let d := toJ (expand (← req.getObjVal? "doc"))
    let cap := getNatD req "cap" (32 * 1024 * 1024)
    let (ut, aa, lt) := match d with
      | .obj kv => (unknownTop s kv, arrInArrTop s kv, leavesTypedTop s kv)
      | _ => (false, false, true)
    return Json.mkObj [
      ("add", validateAdd blank s d),
      ("commit", collectOk blank size cap s d),
      ("conforms", conforms blank s d),
      ("benign", benign size cap s d),
      ("unknown_top", ut),
      ("arr_in_arr", aa),
      ("leaves_typed", lt),
      ("size", size (project s d))]
  | _ => throw s!"C15: unknown op {op}"

end SL.Drv.C15
