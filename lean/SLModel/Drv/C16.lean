import SLModel.Drv.Util
import SLModel.Core.CursorBytes
import SLModel.Core.PlanLeaf
import SLModel.Core.Script
import SLModel.Core.Msm
import SLModel.Core.RescoreDrop
import SLModel.Core.HistFill
open Lean
namespace SL.Drv.C16
open SL.Drv

/-! JSON glue for C16.  Every answer is computed by the definitions the theorems of
`Props/C16` are about (`decodeScore`, `hexDecode`, `repaired…`, `legacy…`, `plan`, `segmentVerdict`,
`compile`, `eval`, `wf`, `depth`, `resolve`). -/

def strArr (j : Json) : Except String (List String) := do
  let a ← j.getArr?
  a.toList.mapM (·.getStr?)

/-! ### cursors -/
open SL.CursorBytes in
def scoreJson (o : Out ScoreCursor) : Json :=
  match o with
  | .ok c => Json.mkObj [("cls", "ok"), ("generation", c.generation), ("score_bits", c.scoreBits),
      ("segment_ord", c.segmentOrd), ("doc_id", c.docId), ("returned", c.returned)]
  | .err e => Json.mkObj [("cls", "error"), ("why", e)]
  | .panic => Json.mkObj [("cls", "panic")]

open SL.CursorBytes in
def bytesOutJson (o : Out (List Nat)) : Json :=
  match o with
  | .ok bs => Json.mkObj [("cls", "ok"), ("bytes", natsToJson bs)]
  | .err e => Json.mkObj [("cls", "error"), ("why", e)]
  | .panic => Json.mkObj [("cls", "panic")]

open SL.CursorBytes in
def cursorOp (req : Json) : Except String Json := do
  let bs ← natList (← req.getObjVal? "bytes")
  let gen := getNatD req "gen" 0
  return Json.mkObj [
    ("fast_plus", scoreJson (decodeCursorFast true bs gen)),
    ("fast_noplus", scoreJson (decodeCursorFast false bs gen)),
    ("decode_plus", scoreJson (decodeScore true bs)),
    ("decode_noplus", scoreJson (decodeScore false bs)),
    ("repaired_hex", bytesOutJson (repairedHexDecode true bs)),
    ("repaired_score", scoreJson (repairedScore true bs)),
    ("hex_plus", bytesOutJson (hexDecode true bs)),
    ("hex_noplus", bytesOutJson (hexDecode false bs)),
    ("legacy_fast", (legacyScore true bs).cls),
    ("legacy_hex", (legacyHexDecode true bs).cls),
    ("first_bad_chunk", match firstBadChunk bs with | some k => (k : Json) | none => Json.null),
    ("first_bad_digit", match firstBadDigit true bs with | some k => (k : Json) | none => Json.null)]

/-! ### planner -/
open SL.PlanLeaf

def expOf (s : String) : Exp :=
  match s with
  | "prefix" => .pre
  | "wildcard" => .wildcard
  | "regex" => .regex
  | _ => .exact

def expName : Exp → String
  | .exact => "exact" | .pre => "prefix" | .wildcard => "wildcard" | .regex => "regex"

def qterm (j : Json) : Except String (QTerm String) := do
  let a ← j.getArr?
  match a.toList with
  | [f, t] =>
    let field := match f.getStr? with | .ok s => some s | .error _ => none
    return ⟨field, ← t.getStr?⟩
  | _ => throw "qterm: expected [field|null, term]"

partial def parseQ (j : Json) : Except String (Q String) := do
  let t ← getStr j "t"
  match t with
  | "match_all" => return .matchAll
  | "qs" =>
    let terms ← (getArrD j "terms").toList.mapM qterm
    let nots ← (getArrD j "nots").toList.mapM qterm
    let fields ← match getOpt j "fields" with
      | some f => some <$> strArr f
      | none => pure none
    return .queryString terms nots fields
  | "mm" =>
    let kind := match getStrD j "kind" "best" with
      | "most" => MM.most | "cross" => MM.cross | _ => MM.best
    return .multiMatch kind (← strArr (← j.getObjVal? "terms")) (← strArr (← j.getObjVal? "nots"))
      (← strArr (← j.getObjVal? "fields"))
  | "term" => return .term (expOf (getStrD j "exp" "exact")) (← getStr j "field") (← getStr j "value")
  | "phrase" => return .phrase
  | "bool" =>
    return .bool (← (getArrD j "must").toList.mapM parseQ) (← (getArrD j "should").toList.mapM parseQ)
      (← (getArrD j "must_not").toList.mapM parseQ)
  | "dis_max" => return .disMax (← (getArrD j "queries").toList.mapM parseQ)
  | "constant" => return .constantScore
  | "rank" => return .rankFeature
  | "fs" => return .functionScore (← parseQ (← j.getObjVal? "q"))
  | "ss" => return .scriptScore (← parseQ (← j.getObjVal? "q"))
  | _ => throw s!"C16: unknown query node {t}"

/-- `keys`: `[[field, term, exp, [key, …]], …]` — the term keys the real analysis/expansion
produced for each (field, term, expansion kind) -/
def keyTable (j : Json) : Except String (List ((String × String × String) × List String)) := do
  let a ← j.getArr?
  a.toList.mapM fun row => do
    let r ← row.getArr?
    match r.toList with
    | [f, t, e, ks] => return ((← f.getStr?, ← t.getStr?, ← e.getStr?), ← strArr ks)
    | _ => throw "keys: expected [field, term, exp, [keys]]"

def planOp (req : Json) : Except String Json := do
  let dflt ← strArr (← req.getObjVal? "dflt")
  let q ← parseQ (← req.getObjVal? "q")
  let tbl ← keyTable (← req.getObjVal? "keys")
  let keysOf : String → String → Exp → List String := fun f t e =>
    match tbl.lookup (f, t, expName e) with
    | some ks => ks
    | none => []
  let p := plan dflt q
  let qts := qualified keysOf p.groups
  let vname : Verdict → String := fun v => match v with
    | .fine => "fine" | .inconsistentLeaf => "inconsistent-leaf" | .leafOutOfRange => "leaf-out-of-range"
  let verdict := vname (segmentVerdict keysOf p)
  let scored := termWeights [] qts
  -- every (field, term, exp) slot the plan asks keys for, so the harness can check its table
  let asked := p.groups.flatMap fun g => g.fields.map fun s =>
    Json.arr #[s.field, g.term, expName g.exp]
  return Json.mkObj [
    ("verdict", Json.str verdict),
    ("legacy_verdict", Json.str (vname (legacySegmentVerdict keysOf p))),
    ("scored_terms", scored.length),
    ("leaf_count", p.leafCount),
    ("has_scorer", p.scorer.isSome),
    ("groups", p.groups.length),
    ("qualified", Json.arr (qts.map fun (k, l) => Json.arr #[k, l]).toArray),
    ("functional", functional qts),
    ("slots_disjoint", slotsDisjoint (slots keysOf p.groups)),
    ("asked", Json.arr asked.toArray)]

/-! ### scripts -/
open SL.Script

def floatArith : Arith Float where
  add := fun a b => let v := a + b; if v.isFinite then some v else none
  sub := fun a b => let v := a - b; if v.isFinite then some v else none
  mul := fun a b => let v := a * b; if v.isFinite then some v else none
  div := fun a b => if b == 0.0 then none else (let v := a / b; if v.isFinite then some v else none)
  neg := fun a => let v := -a; if v.isFinite then some v else none
  finite := fun v => v.isFinite

/-- `str::parse::<f64>` on `[0-9.]+` -/
def litValue (neg : Bool) (lit : List Nat) : Float :=
  let digits := lit.filter isDigit
  let mant := digits.foldl (fun acc d => acc * 10 + (d - 48)) 0
  let fracLen := ((lit.dropWhile (· != 46)).drop 1).length
  let v := Float.ofScientific mant true fracLen
  if neg then -v else v

def floatJson (f : Float) : Json :=
  match JsonNumber.fromFloat? f with
  | .inr n => Json.num n
  | .inl s => Json.str s

def getFloat (j : Json) : Except String Float := do
  let n ← j.getNum?
  return n.toFloat

def codepoints (j : Json) : Except String (List Nat) := natList j

def scriptOp (req : Json) : Except String Json := do
  let chars ← codepoints (← req.getObjVal? "chars")
  let params ← (getArrD req "params").toList.mapM codepoints
  let pvals ← (getArrD req "param_values").toList.mapM getFloat
  let fast ← (getArrD req "fast").toList.mapM codepoints
  let fvals ← (getArrD req "fast_values").toList.mapM getFloat
  let score ← match getOpt req "score" with
    | some s => getFloat s
    | none => pure 0.0
  let toks := tokenize chars
  let wfj : Json := match toks with
    | some t => (wf t true 0 : Json)
    | none => Json.null
  match compile chars params fast with
  | none => return Json.mkObj [("cls", "error"), ("tokenized", toks.isSome), ("wf", wfj)]
  | some c =>
    let fieldVal : Nat → Float := fun i =>
      match c.fields[i]? with
      | some name =>
        (match (fast.zip fvals).lookup name with
         | some v => v
         | none => 0.0)
      | none => 0.0
    let env : Env Float := ⟨litValue, pvals, fieldVal, c.fields.length, score⟩
    let r := eval floatArith env c.instrs
    let ev : Json := match r with
      | .some v => floatJson v
      | _ => Json.null
    return Json.mkObj [
      ("cls", "ok"), ("tokenized", true), ("wf", wfj),
      ("instrs", c.instrs.length),
      ("depth", match depth c.instrs 0 with | some d => (d : Json) | none => Json.null),
      ("eval", ev), ("eval_panic", r.isPanic),
      -- exact value: IEEE-754 bits (the decimal rendering above is for reading only)
      ("eval_bits", match r with | .some v => (v.toBits.toNat : Json) | _ => Json.null),
      ("fields", Json.arr (c.fields.map natsToJson).toArray)]

/-! ### minimum_should_match -/
open SL.Msm

def msmOp (req : Json) : Except String Json := do
  let n ← getNat req "n"
  let opAnd := getBoolD req "and" false
  let spec : Option Spec ← match getOpt req "spec" with
    | none => pure none
    | some s =>
      match getOpt s "value" with
      | some v => pure (some (.value (← v.getNat?)))
      | none => pure (some (.pct (← natList (← s.getObjVal? "pct"))))
  let r := resolve decimal parseDec spec n opAnd
  return match r with
    | .ok (some k) => Json.mkObj [("cls", "ok"), ("required", k)]
    | .ok none => Json.mkObj [("cls", "ok"), ("required", Json.null)]
    | .err => Json.mkObj [("cls", "error")]
    | .panic => Json.mkObj [("cls", "panic")]

/-! ### rescore: dropping rejected window hits -/

/-- `{"op":"rescore_drop","n":<hits>,"remove":[idx…]}` → the surviving indices -/
def rescoreDropOp (req : Json) : Except String Json := do
  let n ← getNat req "n"
  let rm ← natList (← req.getObjVal? "remove")
  let hits := List.range n
  let unsorted : Json := match SL.RescoreDrop.dropUnsorted hits rm with
    | some k => natsToJson k
    | none => Json.null
  return match SL.RescoreDrop.dropRejected hits rm with
    | some k => Json.mkObj [("cls", "ok"), ("kept", natsToJson k), ("unsorted_variant", unsorted)]
    | none => Json.mkObj [("cls", "panic"), ("unsorted_variant", unsorted)]

/-! ### histogram fill -/
open SL.HistFill in
def fillOutJson (o : Option Out) : Json :=
  match o with
  | some (.done ks) => Json.mkObj [("cls", "done"), ("inserted", ks.length)]
  | some (.overflow ks) => Json.mkObj [("cls", "overflow"), ("inserted", ks.length)]
  | none => Json.mkObj [("cls", "never")]

open SL.HistFill in
/-- `{"op":"hist_fill","start":i,"stop":j}` (ends as the code computes them, at most 10^4 apart)
and `{"op":"date_fill","step":ms,"start":i,"stop":j}` -/
def histFillOp (req : Json) : Except String Json := do
  let start ← getInt req "start"
  let stop ← getInt req "stop"
  let fuel := (stop - start).toNat + 3
  return Json.mkObj [("repaired", fillOutJson (fill fuel start stop [])), ("legacy", fillOutJson (legacyFill fuel start stop []))]

open SL.HistFill in
def dateFillOp (req : Json) : Except String Json := do
  let step ← getInt req "step"
  let start ← getInt req "start"
  let stop ← getInt req "stop"
  let fuel := min ((stop - start).toNat + 3) 20000
  let out : Json := match dateFill step fuel start stop 0 with
    | some (.past k) => Json.mkObj [("cls", "past"), ("inserted", k)]
    | some (.addOverflow k) => Json.mkObj [("cls", "add-overflow"), ("inserted", k)]
    | none => Json.mkObj [("cls", "never")]
  return Json.mkObj [("step_ok", dateStepOk step), ("fill", out)]

open SL.HistFill in
/-- `{"op":"date_finish","step","offset","lo","hi","bucket_lo","bucket_hi"}`: `bucket_*` = the
float step of `bucket_start` for each bound, computed by the caller -/
def dateFinishOp (req : Json) : Except String Json := do
  let step ← getInt req "step"
  let offset ← getInt req "offset"
  let lo ← getInt req "lo"
  let hi ← getInt req "hi"
  let blo ← getInt req "bucket_lo"
  let bhi ← getInt req "bucket_hi"
  let q : Int → Int → Int := fun d _ => if d = lo - offset then blo else bhi
  let fuel : Nat := 20000
  let legacyName : LegacyStart → String := fun l => match l with
    | .key _ => "key" | .subOverflow => "sub-overflow" | .addOverflow => "add-overflow"
  let fill : Json := match dateFinish q step offset lo hi fuel with
    | none => Json.mkObj [("cls", "no-fill")]
    | some (some (.past k)) => Json.mkObj [("cls", "past"), ("inserted", k)]
    | some (some (.addOverflow k)) => Json.mkObj [("cls", "add-overflow"), ("inserted", k)]
    | some none => Json.mkObj [("cls", "never")]
  return Json.mkObj [("step_ok", dateStepOk step), ("fill", fill),
    ("legacy_lo", Json.str (legacyName (legacyBucketStart q lo offset step))),
    ("legacy_hi", Json.str (legacyName (legacyBucketStart q hi offset step)))]

def handle (req : Json) : Except String Json := do
  let op ← getStr req "op"
  match op with
  | "cursor" => cursorOp req
  | "plan" => planOp req
  | "script" => scriptOp req
  | "msm" => msmOp req
  | "rescore_drop" => rescoreDropOp req
  | "hist_fill" => histFillOp req
  | "date_fill" => dateFillOp req
  | "date_finish" => dateFinishOp req
  | _ => throw s!"C16: unknown op {op}"

end SL.Drv.C16
