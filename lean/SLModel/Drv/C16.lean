import SLModel.Drv.Util
open Lean
namespace SL.Drv.C16

/-- stub: no model operations for C16 yet -/
def handle (_req : Json) : Except String Json := .error "C16: not implemented"

end SL.Drv.C16
