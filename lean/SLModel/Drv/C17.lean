import SLModel.Drv.Util
open Lean
namespace SL.Drv.C17

/-- stub: no model operations for C17 yet -/
def handle (_req : Json) : Except String Json := .error "C17: not implemented"

end SL.Drv.C17
