import SLModel.Drv.Util
import SLModel.Core.Integrity
import SLModel.Core.Crc32
open Lean
namespace SL.Drv.C17
open SL.Drv SL.Wal SL.Integrity

def crc : Bytes → Bytes := SL.Crc32.crcLE

def bytesOfHex (s : String) : Except String Bytes := do
  let b ← hexToBytes s
  return b.map (·.toNat)

/-- `{"op":"segment","files":[{"name":…,"orig":hex,"cur":hex|null}]}` → does `openSegment` accept
the current files, given manifest checksums computed from the original ones (parsers are
assumed to accept: `parse := true`, so `true` means "the checksums do not stop it") -/
def handle (req : Json) : Except String Json := do
  let op ← getStr req "op"
  match op with
  | "segment" =>
    let fs ← getArr req "files"
    let mut views : List FileView := []
    let mut sums : List (String × Bytes) := []
    for f in fs.toList do
      let name ← getStr f "name"
      let orig ← bytesOfHex (← getStr f "orig")
      sums := (name, crc orig) :: sums
      match getOpt f "cur" with
      | none => views := ⟨name, none⟩ :: views
      | some c => views := ⟨name, some (← bytesOfHex (← c.getStr?))⟩ :: views
    let ok := openSegment crc (fun n => sums.lookup n) (fun _ _ => true) views
    return Json.mkObj [("opens", ok)]
  | _ => throw s!"C17: unknown op {op}"

end SL.Drv.C17
