import SLModel.Drv.Post
open Lean
namespace SL.Drv.C18

/-- C18 runs the shared post-processing model (`SL.Post.search` / `SL.Post.Spec.search`),
the definitions the theorems of `Props/C18` are about; see `Drv/Post.lean` for the protocol -/
def handle (req : Json) : Except String Json := SL.Drv.Post.handle "C18" req

end SL.Drv.C18
