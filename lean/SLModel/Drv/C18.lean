import SLModel.Drv.Util
open Lean
namespace SL.Drv.C18

/-- stub: no model operations for C18 yet -/
def handle (_req : Json) : Except String Json := .error "C18: not implemented"

end SL.Drv.C18
