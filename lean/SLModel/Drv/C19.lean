import SLModel.Drv.Util
open Lean
namespace SL.Drv.C19

/-- stub: no model operations for C19 yet -/
def handle (_req : Json) : Except String Json := .error "C19: not implemented"

end SL.Drv.C19
