import SLModel.Drv.Util
open Lean
namespace SL.Drv.C20

/-- stub: no model operations for C20 yet -/
def handle (_req : Json) : Except String Json := .error "C20: not implemented"

end SL.Drv.C20
