import SLModel.Drv.Util
open Lean
namespace SL.Drv.C21

/-- stub: no model operations for C21 yet -/
def handle (_req : Json) : Except String Json := .error "C21: not implemented"

end SL.Drv.C21
