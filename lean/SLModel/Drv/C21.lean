import SLModel.Drv.Util
import SLModel.Core.Highlight
open Lean
namespace SL.Drv.C21
open SL.Drv SL.Highlight

def spanOf (j : Json) : Except String Span := do
  let l ← natList j
  match l with
  | [s, e] => return (s, e)
  | _ => throw "span: expected [s,e]"

/-- `find` table: `[[off, s, e], …]`; offsets not listed have no match -/
def findTable (j : Array Json) : Except String (List (Nat × Span)) :=
  j.toList.mapM (fun row => do
    let l ← natList row
    match l with
    | [o, s, e] => return (o, (s, e))
    | _ => throw "find: expected [off,s,e]")

/-- `rematch` table: `[["<fragment hex>", [[s,e],…]], …]` -/
def rematchTable (j : Array Json) : Except String (List (Bytes × List Span)) :=
  j.toList.mapM (fun row => do
    let a ← row.getArr?
    match a.toList with
    | [f, sp] =>
      let fb ← hexToBytes (← f.getStr?)
      let spans ← (← sp.getArr?).toList.mapM spanOf
      return (fb, spans)
    | _ => throw "rematch: expected [hex, spans]")

/-- `{"op":"highlight","text":hex,"find":[[off,s,e]…],"rematch":[[hex,[[s,e]…]]…],"size":n,
"nfrag":n,"pre":hex,"post":hex,"snap":bool,"has_pattern":bool,"snippet":bool}` →
`{"fragments":[hex…],"untagged":[hex…],"on_boundary":[bool…],"spans_ok":[bool…]}`.
With `"snippet":true` the result is `make_snippet` (size 120, one fragment, last element). -/
def handle (req : Json) : Except String Json := do
  let op ← getStr req "op"
  match op with
  | "highlight" =>
    let t ← hexToBytes (← getStr req "text")
    let ft ← findTable (getArrD req "find")
    let rt ← rematchTable (getArrD req "rematch")
    let find : Nat → Option Span := fun off => ft.lookup off
    let rematch : Bytes → List Span := fun f => (rt.lookup f).getD []
    let snippet := getBoolD req "snippet" false
    let size0 ← getNat req "size"
    let nfrag0 ← getNat req "nfrag"
    let size := if snippet then 120 else size0
    let nfrag := if snippet then 1 else nfrag0
    let pre ← hexToBytes (getStrD req "pre" "")
    let post ← hexToBytes (getStrD req "post" "")
    let hasPattern := getBoolD req "has_pattern" true
    let slice := if getBoolD req "snap" false then sliceSnap else sliceCode
    let frs : List (List Piece) :=
      if snippet then (makeSnippet slice t hasPattern find rematch).toList
      else ((fieldHighlights slice t hasPattern find rematch size nfrag).getD [])
    let vis := if t.isEmpty || !hasPattern then [] else visited find nfrag 0
    return Json.mkObj [
      ("fragments", Json.arr (frs.map (fun p => (bytesToHex (render pre post p) : Json))).toArray),
      ("untagged", Json.arr (frs.map (fun p => (bytesToHex (untag p) : Json))).toArray),
      ("on_boundary", Json.arr (vis.map (fun m => (windowOnBoundary t m.1 size : Json))).toArray),
      ("spans_ok", Json.arr (rt.map (fun fs => (spansOk fs.1.length 0 fs.2 : Json))).toArray)]
  | _ => throw s!"C21: unknown op {op}"

end SL.Drv.C21
