import SLModel.Drv.Util
open Lean
namespace SL.Drv.C22

/-- stub: no model operations for C22 yet -/
def handle (_req : Json) : Except String Json := .error "C22: not implemented"

end SL.Drv.C22
