import SLModel.Drv.Util
import SLModel.Core.Suggest
open Lean
namespace SL.Drv.C22
open SL.Drv SL.Suggest

/-- byte order of UTF-8 text = code-point order of the character lists -/
def ltText (a b : List Char) : Bool := decide (a < b)

def dictOf (j : Json) : Except String (Dict Char) := do
  let a ← j.getArr?
  a.toList.mapM (fun row => do
    let r ← row.getArr?
    match r.toList with
    | [t, d] => return ((← t.getStr?).toList, ← d.getNat?)
    | _ => throw "dict entry: expected [term, df]")

def fuzzyOf (j : Json) : Except String FuzzyOpts := do
  return { maxEdits := ← getNat j "max_edits", prefixLength := ← getNat j "prefix_length",
           maxExpansions := ← getNat j "max_expansions", minLength := ← getNat j "min_length" }

def candJson (c : Cand Char) : Json :=
  Json.mkObj [("text", String.ofList c.term), ("doc_freq", c.df), ("score6", c.score6)]

/-- `{"op":"suggest","segs":[[["term",df],…],…],"input":"…","size":n,"fuzzy":null|{…}}` →
`{"options":[{"text","doc_freq","score6"}…],"all":[…same, before the size cut…]}`;
`{"op":"lev","a":"…","b":"…","k":n}` → `{"lev":n,"bounded":n|null}` -/
def handle (req : Json) : Except String Json := do
  let op ← getStr req "op"
  match op with
  | "suggest" =>
    let segs ← (← getArr req "segs").toList.mapM dictOf
    let input := (← getStr req "input").toList
    let size ← getNat req "size"
    let fz ← match getOpt req "fuzzy" with
      | none => pure none
      | some j => (fuzzyOf j).map some
    let opts := suggest ltText segs input size fz
    let all := sortBy (before ltText) (collect segs input size fz)
    return Json.mkObj [
      ("options", Json.arr (opts.map candJson).toArray),
      ("all", Json.arr (all.map candJson).toArray)]
  | "lev" =>
    let a := (← getStr req "a").toList
    let b := (← getStr req "b").toList
    let k ← getNat req "k"
    let bl : Json := match boundedLev a b k with
      | none => Json.null
      | some d => (d : Json)
    return Json.mkObj [("lev", lev a b), ("bounded", bl)]
  | _ => throw s!"C22: unknown op {op}"

end SL.Drv.C22
