import SLModel.Drv.Doc
import SLModel.Drv.C04
import SLModel.Core.HttpWrites
open Lean
namespace SL.Drv.C23
open SL.Drv SL.Drv.DocJ SL.Doc SL.Contents SL.HttpWrites

abbrev D := J String

def reqOf (j : Json) : Except String (Req String D) := do
  let kind ← getStr j "kind"
  match kind with
  | "add" => return .add ((getArrD j "docs").toList.map toJ)
  | "bulk" => return .bulk ((getArrD j "docs").toList.map toJ)
  | "delete" => return .delete (← (getArrD j "ids").toList.mapM (·.getStr?))
  | "malformed" => return .malformed
  | "commit" => return .commit
  | "refresh" => return .refresh
  | "compact" => return .compact
  | "search" => return .search
  | _ => throw s!"C23: unknown request kind {kind}"

def respJson : Resp → Json
  | .queued n => Json.mkObj [("class", "queued"), ("n", n)]
  | .rejected => Json.mkObj [("class", "rejected")]
  | .done => Json.mkObj [("class", "done")]
  | .serverError => Json.mkObj [("class", "server_error")]

def stepJson (ru : Rules String D) (r : Req String D) (p : Resp × St String D) : Json :=
  Json.mkObj [
    ("resp", respJson p.1),
    ("pending", Json.arr (p.2.log.pending.map C04.opJson).toArray),
    ("contents", C04.contentsJson (abs p.2.segs)),
    ("segments", (p.2.segs.length : Nat)),
    ("handles", (p.2.handles.length : Nat)),
    ("acked", Json.arr ((ackedOps ru r).map C04.opJson).toArray),
    ("rolls_back", rollsBack ru r)]

/-- `{"op":"run","repaired":b,"schema":…,"reqs":[…]}` → `{"steps":[…]}`: response class, pending
operations of the log, contents a reader sees — after every request, from `mechTrace`
(= `mechServe` = `denote` + `mechStep`, the definitions `Props/C23` is about);
`{"op":"accepts","schema":…,"doc":…}` / `{"op":"id_ok","id":…}`: the library's decisions. -/
def handle (req : Json) : Except String Json := do
  let op ← getStr req "op"
  match op with
  | "run" =>
    let s := schemaOf (← req.getObjVal? "schema")
    let repaired := getBoolD req "repaired" true
    let reqs ← (getArrD req "reqs").toList.mapM reqOf
    let ru := jsonRules s
    let tr := mechTrace repaired ru (C04.cfgOf s) (init false) reqs
    let fl := flatRun repaired ru (project s) reqs
    return Json.mkObj [
      ("steps", Json.arr ((reqs.zip tr).map (fun p => stepJson ru p.1 p.2)).toArray),
      ("flat_pending", Json.arr (fl.pending.map C04.opJson).toArray),
      ("flat_contents", C04.contentsJson fl.committed)]
  | "accepts" =>
    let s := schemaOf (← req.getObjVal? "schema")
    let d := toJ (← req.getObjVal? "doc")
    return Json.mkObj [("id", match addId s d with | some i => (i : Json) | none => Json.null)]
  | "id_ok" =>
    return Json.mkObj [("ok", deleteIdOk (← getStr req "id"))]
  | _ => throw s!"C23: unknown op {op}"

end SL.Drv.C23
