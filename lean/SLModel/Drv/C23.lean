import SLModel.Drv.Util
open Lean
namespace SL.Drv.C23

/-- stub: no model operations for C23 yet -/
def handle (_req : Json) : Except String Json := .error "C23: not implemented"

end SL.Drv.C23
