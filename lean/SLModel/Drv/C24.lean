import SLModel.Drv.Util
open Lean
namespace SL.Drv.C24

/-- stub: no model operations for C24 yet -/
def handle (_req : Json) : Except String Json := .error "C24: not implemented"

end SL.Drv.C24
