import SLModel.Drv.Util
import SLModel.Core.HttpResp
open Lean
namespace SL.Drv.C24
open SL.Drv SL.Http

def endpointOf (s : String) : Except String Endpoint :=
  match s with
  | "healthz" => .ok .healthz | "init" => .ok .init | "add" => .ok .add | "bulk" => .ok .bulk
  | "delete" => .ok .delete | "commit" => .ok .commit | "refresh" => .ok .refresh
  | "compact" => .ok .compact | "search" => .ok .search | "inspect" => .ok .inspect
  | "stats" => .ok .stats
  | _ => .error s!"C24: unknown endpoint {s}"

def routeOf (j : Json) : Except String Route := do
  match ← getStr j "kind" with
  | "hit" => return .hit (← endpointOf (← getStr j "endpoint"))
  | "wrong_method" => return .wrongMethod (← endpointOf (← getStr j "endpoint"))
  | "unknown_path" => return .unknownPath
  | k => throw s!"C24: unknown route kind {k}"

def payloadOf (s : String) : Except String Payload :=
  match s with
  | "ok" => .ok .ok
  | "stall" => .ok .stall
  | "no_json_content_type" => .ok (.rejected .missingJsonContentType)
  | "syntax_error" => .ok (.rejected .syntaxError)
  | "data_error" => .ok (.rejected .dataError)
  | "length_limit" => .ok (.rejected .lengthLimit)
  | "buffer_error" => .ok (.rejected .bufferError)
  | _ => .error s!"C24: unknown payload {s}"

def addBodyOf (s : String) : Except String AddBody :=
  match s with
  | "docs" => .ok .docs | "empty" => .ok .empty | "bad_line" => .ok .badLine
  | "read_err" => .ok .readErr | "limit_err" => .ok .limitErr | "stall" => .ok .stall
  | _ => .error s!"C24: unknown add body {s}"

def idxOf (s : String) : Except String IdxState :=
  match s with
  | "ready" => .ok .ready | "missing" => .ok .missing | "corrupt" => .ok .corrupt
  | _ => .error s!"C24: unknown index state {s}"

def coreOf (s : String) : Except String Core :=
  match s with
  | "ok" => .ok .ok | "err" => .ok .err | "panic" => .ok .panic
  | _ => .error s!"C24: unknown core outcome {s}"

def factsOf (j : Json) : Except String Facts := do
  return {
    declaredOversize := getBoolD j "declared_oversize" false
    payload := ← payloadOf (getStrD j "payload" "ok")
    addBody := ← addBodyOf (getStrD j "add_body" "docs")
    inputBad := getBoolD j "input_bad" false
    manifestExists := getBoolD j "manifest_exists" false
    idx := ← idxOf (getStrD j "idx" "ready")
    writerErr := getBoolD j "writer_err" false
    core := ← coreOf (getStrD j "core" "ok") }

def shapeStr : Shape → String
  | .okJson => "ok_json" | .errorJson => "error_json" | .empty => "empty" | .noResponse => "no_response"

def kindStr : Kind → String
  | .none => "" | .bodyTooLarge => "body_too_large" | .timeout => "timeout"
  | .invalidRequest => "invalid_request" | .invalidLimit => "invalid_limit"
  | .indexMissing => "index_missing" | .openIndex => "open_index" | .indexExists => "index_exists"
  | .initJoin => "init_join" | .initFailed => "init_failed" | .readBody => "read_body"
  | .invalidDocument => "invalid_document" | .writerOpen => "writer_open"
  | .addFailed => "add_failed" | .addJoin => "add_join"
  | .missingOrInvalidInput => "missing_documents|invalid_document|missing_ids|invalid_id"
  | .deleteFailed => "delete_failed" | .commitJoin => "commit_join" | .commitFailed => "commit_failed"
  | .refreshJoin => "refresh_join" | .refreshFailed => "refresh_failed"
  | .compactJoin => "compact_join" | .compactFailed => "compact_failed"
  | .searchJoin => "search_join" | .searchFailed => "search_failed"
  | .notFound => "not_found" | .methodNotAllowed => "method_not_allowed"
  | .deleteJoin => "delete_join"

/-- `{"op":"respond","route":{"kind":"hit","endpoint":"search"},"facts":{…}}` →
`{"status":n,"shape":"error_json","kind":"search_join","well_formed":b}` -/
def handle (req : Json) : Except String Json := do
  let op ← getStr req "op"
  match op with
  | "respond" =>
    let r ← routeOf (← req.getObjVal? "route")
    let f ← factsOf (← req.getObjVal? "facts")
    -- `"legacy": true` asks for the service before the repairs 378f311 / 771419c / c4eccfe
    let x := if getBoolD req "legacy" false then respondLegacy r f else respond r f
    return Json.mkObj [("status", x.status), ("shape", shapeStr x.shape), ("kind", kindStr x.kind),
      ("well_formed", wellFormed x)]
  | _ => throw s!"C24: unknown op {op}"

end SL.Drv.C24
