import SLModel.Drv.Util
open Lean
namespace SL.Drv.C25

/-- stub: no model operations for C25 yet -/
def handle (_req : Json) : Except String Json := .error "C25: not implemented"

end SL.Drv.C25
