import SLModel.Drv.Util
import SLModel.Core.Frontend
open Lean
namespace SL.Drv.C25
open SL.Drv SL.Frontend

/-! JSON glue for `Core/Frontend`: `ν := Json` (query nodes), `J := Json` (opaque subtrees),
`κ := String` (ids), `δ := Json` (a document wrapped as `{"id": <string|null>, "doc": {…}}`,
where `id = null` means that the library rejects the document — decided by the harness with
the real `Schema::validate_document`). -/

def optStr (j : Json) (k : String) : Option String :=
  match j.getObjVal? k with
  | .ok (.str s) => some s
  | _ => none

def optNat (j : Json) (k : String) : Option Nat :=
  match j.getObjVal? k with
  | .ok v => match v.getNat? with | .ok n => some n | .error _ => none
  | .error _ => none

def objList (j : Json) : List (String × Json) :=
  match j with
  | .obj kvs => kvs.toList
  | _ => []

def aggsOf (j : Json) : Except String (AggsArg Json) := do
  match getOpt j "aggs" with
  | none => return .absent
  | some a =>
    match ← getStr a "kind" with
    | "absent" => return .absent
    | "blank" => return .blank
    | "invalid" => return .invalid
    | "parsed" => return .parsed (objList (← a.getObjVal? "map"))
    | k => throw s!"C25: unknown aggs kind {k}"

def cliArgsOf (j : Json) : Except String (CliArgs Json) := do
  let d : CliArgs Json := {}
  return {
    query := optStr j "query"
    limit := getNatD j "limit" d.limit
    execution := match optStr j "execution" with | some s => s.toList | none => d.execution
    bmwBlockSize := optNat j "bmw_block_size"
    fields := (optStr j "fields").map String.toList
    returnStored := getBoolD j "return_stored" false
    highlight := optStr j "highlight"
    cursor := optStr j "cursor"
    returnHits := getBoolD j "return_hits" true
    sort := (optStr j "sort").map String.toList
    aggs := ← aggsOf j }

def execStr : Exec → String
  | .bm25 => "bm25" | .wand => "wand" | .bmw => "bmw"

def sortJson (s : SortSpec) : Json :=
  let base : List (String × Json) := [("field", Json.str (String.ofList s.field))]
  match s.order with
  | none => Json.mkObj base
  | some .asc => Json.mkObj (base ++ [("order", Json.str "asc")])
  | some .desc => Json.mkObj (base ++ [("order", Json.str "desc")])

def optJ (k : String) (v : Option Json) : List (String × Json) :=
  match v with
  | some x => [(k, x)]
  | none => []

/-- the request in the repository's own serde format -/
def requestJson (r : Request Json Json) : Json :=
  Json.mkObj <|
    [("query", match r.query with | .str s => Json.str s | .node n => n),
     ("limit", (r.limit : Json)),
     ("return_hits", (r.returnHits : Json)),
     ("sort", Json.arr (r.sort.map sortJson).toArray),
     ("execution", (execStr r.execution : Json)),
     ("return_stored", (r.returnStored : Json)),
     ("aggs", Json.mkObj r.aggs),
     ("explain", (r.explain : Json)),
     ("profile", (r.profile : Json))] ++
    optJ "fields" (r.fields.map fun fs => Json.arr (fs.map fun f => Json.str (String.ofList f)).toArray) ++
    optJ "filter" r.filter ++
    optJ "candidate_size" (r.candidateSize.map fun (n : Nat) => (n : Json)) ++
    optJ "cursor" (r.cursor.map Json.str) ++
    optJ "bmw_block_size" (r.bmwBlockSize.map fun (n : Nat) => (n : Json)) ++
    optJ "fuzzy" r.fuzzy ++
    optJ "highlight_field" (r.highlightField.map Json.str) ++
    optJ "highlight" r.highlight ++
    optJ "collapse" r.collapse ++
    (if r.suggest.isEmpty then [] else [("suggest", Json.mkObj r.suggest)]) ++
    optJ "rescore" r.rescore

def cliErrStr : CliErr → String
  | .queryRequired => "query_required"
  | .limitZero => "limit_zero"
  | .badSortOrder o => "bad_sort_order:" ++ String.ofList o
  | .badAggs => "bad_aggs"

def idOfJson (d : Json) : Option String := optStr d "id"

def strList (j : Json) (k : String) : Except String (List String) := do
  let a ← getArr j k
  a.toList.mapM (·.getStr?)

def frontOf (j : Json) : Except String (FrontOp String Json) := do
  match ← getStr j "kind" with
  | "cli_init" => return .cliInit
  | "cli_add" => return .cliAdd (getArrD j "docs").toList
  | "cli_update" => return .cliUpdate (getArrD j "docs").toList
  | "cli_delete" => return .cliDelete (← strList j "ids")
  | "cli_commit" => return .cliCommit
  | "cli_compact" => return .cliCompact
  | "http_init" => return .httpInit
  | "http_add" => return .httpAdd (getArrD j "docs").toList
  | "http_bulk" => return .httpBulk (getArrD j "docs").toList
  | "http_delete" => return .httpDelete (← strList j "ids")
  | "http_commit" => return .httpCommit (getBoolD j "refresh" false)
  | "http_compact" => return .httpCompact
  | "http_refresh" => return .httpRefresh
  | "ffi_open" => return .ffiOpen
  | "ffi_add" => return .ffiAdd (← j.getObjVal? "doc")
  | "ffi_commit" => return .ffiCommit
  | k => throw s!"C25: unknown front-end op {k}"

def libJson : LibOp String Json → Json
  | .createIdx => Json.mkObj [("op", "create_idx")]
  | .openIdx c => Json.mkObj [("op", "open_idx"), ("create", c)]
  | .newWriter => Json.mkObj [("op", "new_writer")]
  | .add d => Json.mkObj [("op", "add"), ("doc", d)]
  | .addBatch docs => Json.mkObj [("op", "add_batch"), ("docs", Json.arr docs.toArray)]
  | .delete ids => Json.mkObj [("op", "delete"), ("ids", Json.arr (ids.map Json.str).toArray)]
  | .commit => Json.mkObj [("op", "commit")]
  | .rollbackIfFailed => Json.mkObj [("op", "rollback_if_failed")]
  | .dropWriter => Json.mkObj [("op", "drop_writer")]
  | .compact => Json.mkObj [("op", "compact")]
  | .refresh => Json.mkObj [("op", "refresh")]

def logJson : LogOp String Json → Json
  | .put id d => Json.mkObj [("put", id), ("doc", d)]
  | .del id => Json.mkObj [("del", id)]

def stateJson (s : St String Json) : Json :=
  Json.mkObj [
    ("committed", Json.arr (s.committed.map fun kv => Json.arr #[Json.str kv.1, kv.2]).toArray),
    ("log", Json.arr (s.log.map logJson).toArray),
    ("failed", s.failed)]

def handle (req : Json) : Except String Json := do
  let op ← getStr req "op"
  match op with
  | "cli_request" =>
    let a ← cliArgsOf (← req.getObjVal? "args")
    match (cliRequest a : Except CliErr (Request Json Json)) with
    | .ok r => return Json.mkObj [("result", "ok"), ("request", requestJson r)]
    | .error e => return Json.mkObj [("result", "error"), ("error", cliErrStr e)]
  | "ffi_request" =>
    -- `node`: the query text parsed as a `QueryNode` by the harness (null when it is not one)
    let node := getOpt req "node"
    let q ← getStr req "query"
    let limit ← getNat req "limit"
    let aggs ← aggsOf req
    match ffiRequest (fun _ => node) q limit (optStr req "cursor") aggs with
    | some r => return Json.mkObj [("result", "ok"), ("request", requestJson r)]
    | none => return Json.mkObj [("result", "none")]
  | "denote" =>
    let f ← frontOf (← req.getObjVal? "front")
    -- `"legacy": true`: the HTTP handlers before 69e89dd
    let ops := if getBoolD req "legacy" false then denoteLegacy f else denote f
    return Json.mkObj [("ops", Json.arr (ops.map libJson).toArray)]
  | "run" =>
    -- the contents semantics over a whole front-end script
    let script ← (← getArr req "script").toList.mapM frontOf
    let s := runFront idOfJson (⟨[], [], false⟩ : St String Json) script
    return Json.mkObj [("state", stateJson s)]
  | _ => throw s!"C25: unknown op {op}"

end SL.Drv.C25
