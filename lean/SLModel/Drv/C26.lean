import SLModel.Drv.Util
import SLModel.Core.Ffi
open Lean
namespace SL.Drv.C26
open SL.Drv SL.Ffi

/-- `{"op":"search","args":{…},"resp":"<hex>"}` → `{"written":"<hex>","ret":n}` -/
def handle (req : Json) : Except String Json := do
  let op ← getStr req "op"
  match op with
  | "search" =>
    let a ← req.getObjVal? "args"
    let args : Args := {
      handleNull := getBoolD a "handle_null" false
      queryNull := getBoolD a "query_null" false
      readerErr := getBoolD a "reader_err" false
      aggsBad := getBoolD a "aggs_bad" false
      searchErr := getBoolD a "search_err" false
      bufNull := getBoolD a "buf_null" false
      cap := ← getNat a "cap" }
    let resp ← hexToBytes (← getStr req "resp")
    let o := search args resp
    return Json.mkObj [("written", bytesToHex o.written), ("ret", o.ret)]
  | "copylen64" =>
    let rl ← getNat req "resp_len"
    let cap ← getNat req "cap"
    return Json.mkObj [("len", (copyLen64 rl.toUInt64 cap.toUInt64).toNat)]
  | _ => throw s!"C26: unknown op {op}"

end SL.Drv.C26
