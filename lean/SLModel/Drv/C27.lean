import SLModel.Drv.Util
import SLModel.Core.Idb
open Lean
namespace SL.Drv.C27
open SL.Drv SL.Idb

def hexData (s : String) : Except String Data := do
  let b ← hexToBytes s
  return b.map (·.toNat)

def dataHex (d : Data) : String := bytesToHex (d.map (·.toUInt8))

def parseItem (j : Json) : Except String SysLabel := do
  let op ← getStr j "op"
  match op with
  | "write_all" | "atomic_write" => return .fs (.writeAll (← getNat j "p") (← hexData (← getStr j "d")))
  | "open_write" => return .fs (.openWrite (← getNat j "h") (← getNat j "p"))
  | "open_append" => return .fs (.openAppend (← getNat j "h") (← getNat j "p"))
  | "write" => return .fs (.write (← getNat j "h") (← hexData (← getStr j "d")))
  | "flush" => return .fs (.flush (← getNat j "h"))
  | "sync" => return .fs (.syncAll (← getNat j "h"))
  | "set_len" => return .fs (.setLen (← getNat j "h") (← getNat j "n"))
  | "seek" => return .fs (.seek (← getNat j "h") (← getNat j "n"))
  | "drop" => return .fs (.drop (← getNat j "h"))
  | "remove" => return .fs (.remove (← getNat j "p"))
  | "flush_storage" => return .q .flushTake
  | "run" => return .q (.run (← getNat j "t"))
  | "succ" => return .q (.succ (← getNat j "tx"))
  | "complete" => return .q (.complete (← getNat j "tx"))
  | "skip" => return .skip
  | _ => throw s!"C27: unknown item {op}"

def obsJson (s : Sys) : Json :=
  let store := Json.mkObj (s.q.store.map (fun (pv : Path × Ver) => (toString pv.1, Json.str (dataHex pv.2.data))))
  let txs := Json.arr (s.q.txs.map (fun x =>
    match x.op with
    | .put p v => Json.arr #[(x.id : Json), "put", (p : Json), Json.str (dataHex v.data), x.succeeded]
    | .del p => Json.arr #[(x.id : Json), "del", (p : Json), Json.null, x.succeeded])).toArray
  let fl := Json.arr ((List.range s.q.flushes.length).map (fun f =>
    Json.arr #[Json.bool (flushDone s.q f), Json.bool (flushDone s.q f && flushOk s.q f)])).toArray
  Json.mkObj [("store", store), ("txs", txs), ("runnable", natsToJson (runnableTasks s.q)), ("flushes", fl)]

def runItems (s : Sys) (items : List Json) (acc : Array Json) (i : Nat) : Except String (Sys × Array Json × Option Nat) :=
  match items with
  | [] => .ok (s, acc, none)
  | j :: rest => do
    let l ← parseItem j
    match sysStep s l with
    | none => .ok (s, acc, some i)
    | some s' => runItems s' rest (acc.push (obsJson s')) (i + 1)

def parsePD (j : Json) : Except String (Path × Data) := do
  let a ← j.getArr?
  match a.toList with
  | [p, d] => return (← p.getNat?, ← natList d)
  | _ => throw "expected [path, data]"

def parseCommit (j : Json) : Except String Commit := do
  let files ← (← getArr j "files").toList.mapM parsePD
  let m ← natList (← j.getObjVal? "manifest")
  let pre ← (getArrD j "pre").toList.mapM natList
  let post ← (getArrD j "post").toList.mapM natList
  return { pre := pre, files := files, manifest := m, post := post }

def storeOf (pds : List (Path × Data)) : List (Path × Ver) :=
  pds.foldl (fun s pd => aset pd.1 ⟨pd.2, 0⟩ s) []

def recJson : Rec → Json
  | .fresh => Json.mkObj [("class", "fresh")]
  | .commit k => Json.mkObj [("class", "commit"), ("k", (k : Json))]
  | .broken => Json.mkObj [("class", "broken")]

/-- every prefix of the completion log replays to an image that reopens -/
def prefixesOk (cs : List Commit) : List (Path × Ver) → List Op → Bool
  | s, [] => recover cs s != Rec.broken
  | s, o :: os => recover cs s != Rec.broken && prefixesOk cs (applyOp s o) os

/-- per block: (number of leading log snapshots of `add_documents`, length of the first stage,
number of stages) -/
abbrev BlockShape := Nat × Nat × Nat

/-- the program has just executed the last `schedule` call of `add_documents` -/
def atYield (shapes : List BlockShape) (s : PSt) : Bool :=
  match shapes[s.started - 1]? with
  | some (pre, first, total) =>
    s.started > 0 && pre > 0 && s.inStage && s.waiting.isNone && s.stages.length + 1 == total &&
      s.cur.length + pre == first
  | none => false

/-- one poll of the page's main task: the program moves until it blocks, finishes, or yields
after `add_documents` -/
def mainPoll (shapes : List BlockShape) (yieldAfterAdd : Bool) (s : PSt) : Nat → PSt
  | 0 => s
  | n + 1 =>
    match progStep s with
    | none => s
    | some s' =>
      if yieldAfterAdd && atYield shapes s' && decide (s'.cur.length < s.cur.length) then s'
      else mainPoll shapes yieldAfterAdd s' n

/-- the specified browser with the FIFO microtask queue: runnable persistence tasks first
(lowest id), then the main task, then the next event of the oldest transaction -/
def fifoRun (shapes : List BlockShape) (y : Bool) (s : PSt) : Nat → PSt
  | 0 => s
  | n + 1 =>
    match runnableTasks s.q with
    | t :: _ =>
      match pstep s (.adv (.run t)) with
      | some s' => fifoRun shapes y s' n
      | none => s
    | [] =>
      match progStep s with
      | some _ => fifoRun shapes y (mainPoll shapes y s 10000) n
      | none =>
        match s.q.txs with
        | x :: _ =>
          match pstep s (.adv (if x.succeeded then .complete x.id else .succ x.id)) with
          | some s' => fifoRun shapes y s' n
          | none => s
        | [] => s

def shapeOf (rep : Bool) (c : Commit) : BlockShape :=
  let b := if rep then blockRepaired c else blockOf c
  (c.pre.length, (b.headD []).length, b.length)

def handle (req : Json) : Except String Json := do
  let op ← getStr req "op"
  match op with
  | "sys" =>
    let ac := getBoolD req "await_complete" false
    let items := (← getArr req "items").toList
    let s0 : Sys := { q := { awaitComplete := ac } }
    let (s, obs, stuck) ← runItems s0 items #[] 0
    let paths ← natList (← req.getObjVal? "paths")
    let files := Json.mkObj (paths.map (fun p => (toString p, match fsRead s.fs p with
      | some d => Json.str (dataHex d)
      | none => Json.null)))
    return Json.mkObj [("obs", Json.arr obs), ("files", files),
      ("stuck", match stuck with | some i => (i : Json) | none => Json.null)]
  | "recover" =>
    let cs ← (← getArr req "commits").toList.mapM parseCommit
    let st ← (← getArr req "store").toList.mapM parsePD
    return recJson (recover cs (storeOf st))
  | "ordered" =>
    let cs ← (← getArr req "commits").toList.mapM parseCommit
    let dn ← (← getArr req "done").toList.mapM parsePD
    let ops := dn.map (fun pd => Op.put pd.1 ⟨pd.2, 0⟩)
    return Json.mkObj [("ordered", Json.bool (ordered cs ops)), ("prefixes_ok", Json.bool (prefixesOk cs [] ops))]
  | "fifo" =>
    let cs ← (← getArr req "commits").toList.mapM parseCommit
    let rep := getBoolD req "repaired" false
    let s := fifoRun (cs.map (shapeOf rep)) (getBoolD req "yield_after_add" true) (initP cs rep) (getNatD req "fuel" 100000)
    let dn := s.q.done.map (fun o => match o with
      | .put p v => Json.arr #[(p : Json), natsToJson v.data]
      | .del p => Json.arr #[(p : Json), Json.null])
    return Json.mkObj [("done", Json.arr dn.toArray), ("resolved", (s.resolvedBlocks : Json)),
      ("finished", Json.bool (!s.inStage && s.rest.isEmpty && s.waiting.isNone && s.q.txs.isEmpty))]
  | _ => throw s!"C27: unknown op {op}"

end SL.Drv.C27
