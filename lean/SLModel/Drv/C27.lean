import SLModel.Drv.Util
open Lean
namespace SL.Drv.C27

/-- stub: no model operations for C27 yet -/
def handle (_req : Json) : Except String Json := .error "C27: not implemented"

end SL.Drv.C27
