import SLModel.Drv.Util
import SLModel.Core.Paths
open Lean
namespace SL.Drv.C28
open SL.Drv SL.Paths

def pathOf (s : String) : Path := (s.splitOn "/").filter (· ≠ "")
def pathStr (p : Path) : String := "/" ++ "/".intercalate p

/-- `{"op":"resolve","root":"/x/copy","stored":["/x/orig/seg.docs",…],"legacy":false}` →
the paths the code is expected to touch, and whether each lies under the root -/
def handle (req : Json) : Except String Json := do
  let op ← getStr req "op"
  match op with
  | "resolve" =>
    let root := pathOf (← getStr req "root")
    let stored ← (← getArr req "stored").toList.mapM (fun j => j.getStr?)
    let res := if getBoolD req "legacy" false then resolveLegacy else resolve
    let ts := touched res root (stored.map pathOf)
    return Json.mkObj [("paths", Json.arr (ts.map (fun p => (pathStr p : Json))).toArray),
      ("under_root", Json.arr (ts.map (fun p => (decide (root <+: p) : Json))).toArray)]
  | _ => throw s!"C28: unknown op {op}"

end SL.Drv.C28
