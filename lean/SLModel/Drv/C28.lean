import SLModel.Drv.Util
open Lean
namespace SL.Drv.C28

/-- stub: no model operations for C28 yet -/
def handle (_req : Json) : Except String Json := .error "C28: not implemented"

end SL.Drv.C28
