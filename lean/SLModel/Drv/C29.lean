import SLModel.Drv.Util
import SLModel.Core.Vector
open Lean
namespace SL.Drv.C29
open SL.Drv SL.Vec

/-- `f32::total_cmp` key: sign-magnitude bits mapped to a signed integer -/
def f32Key (x : Float32) : Int :=
  let b := x.toBits.toNat
  if b ≥ 2147483648 then -((b - 2147483648 : Nat) : Int) - 1 else (b : Int)

/-- the driver's scalars: IEEE single precision, the operations the Rust code performs -/
instance : Scalar Float32 where
  zero := 0.0
  nzero := Float32.neg 0.0
  one := 1.0
  add := (· + ·)
  sub := (· - ·)
  mul := (· * ·)
  div := (· / ·)
  neg := Float32.neg
  sqrt := Float32.sqrt
  lt a b := a < b
  le a b := a ≤ b
  tlt a b := f32Key a < f32Key b
  isNan := Float32.isNaN
  isFinite := Float32.isFinite
  fmin := Float32.ofBits 0xFF7FFFFF
  ofNat := Float32.ofNat

def jf32 (j : Json) : Except String Float32 := do
  let n ← j.getNum?
  return n.toFloat.toFloat32

def f32List (j : Json) : Except String (List Float32) := do
  let a ← j.getArr?
  a.toList.mapM jf32

def f32Json (x : Float32) : Json :=
  Json.mkObj [("v", toJson x.toFloat), ("bits", x.toBits.toNat)]

def optF32Json : Option Float32 → Json
  | some x => f32Json x
  | none => Json.null

def optNat (j : Json) (k : String) : Option Nat :=
  match getOpt j k with
  | some v => match v.getNat? with | .ok n => some n | .error _ => none
  | none => none

def optF32 (j : Json) (k : String) : Except String (Option Float32) :=
  match getOpt j k with
  | some v => do return some (← jf32 v)
  | none => return none

def metricOf (s : String) : Except String Metric :=
  match s with
  | "Cosine" => .ok .cosine
  | "L2" => .ok .l2
  | _ => .error s!"metric {s}"

/-- `VectorQuery` object (the repository's serde form) -/
def vqueryOf (j : Json) : Except String (VQuery String Float32) := do
  return { field := ← getStr j "field", vector := ← f32List (← j.getObjVal? "vector"),
           k := optNat j "k", alpha := ← optF32 j "alpha", efSearch := optNat j "ef_search",
           candidateSize := optNat j "candidate_size", boost := ← optF32 j "boost" }

/-- `VectorQuerySpec`: object form or the legacy tuple `[field, vector, alpha]` -/
def vspecOf (j : Json) : Except String (VQuery String Float32) :=
  match j with
  | .arr a =>
    if h : a.size = 3 then do
      return { field := ← a[0].getStr?, vector := ← f32List a[1], k := none,
               alpha := some (← jf32 a[2]), efSearch := none, candidateSize := none, boost := none }
    else .error "legacy vector_query tuple"
  | _ => vqueryOf j

/-- `QueryNode` JSON → the part of the tree `collect_vectors` inspects -/
partial def qnodeOf (j : Json) : Except String (QNode String Float32) := do
  let ty := getStrD j "type" ""
  match ty with
  | "vector" => return .vector (← vqueryOf j)
  | "bool" =>
    let kids (k : String) : Except String (List (QNode String Float32)) :=
      (getArrD j k).toList.mapM qnodeOf
    return .bool (← kids "must") (← kids "should") (← kids "must_not") (!(getArrD j "filter").isEmpty)
  | "dis_max" => return .disMax (← (getArrD j "queries").toList.mapM qnodeOf)
  | "function_score" | "script_score" => return .wrap (← qnodeOf (← j.getObjVal? "query"))
  | _ => return .other

def schemaOf (j : Json) : Except String (List (VField String)) := do
  let a ← j.getArr?
  a.toList.mapM (fun f => do
    return { name := ← getStr f "name", dim := ← getNat f "dim",
             metric := ← metricOf (← getStr f "metric"),
             m := getNatD f "m" 16, efc := getNatD f "efc" 64 })

def sdocOf (j : Json) : Except String (SDoc String Float32) := do
  let vecs ← match j.getObjVal? "vecs" with
    | .ok (.obj kvs) => kvs.toList.mapM (fun (k, v) => do return (k, ← f32List v))
    | _ => pure []
  return { deleted := getBoolD j "deleted" false, passFilter := getBoolD j "pass_filter" true,
           passVFilter := getBoolD j "pass_vfilter" true, textMatch := getBoolD j "text_match" false,
           bm25 := ← optF32 j "bm25", vecs := vecs }

def reqOf (j : Json) : Except String (Req String Float32) := do
  let query ← match getOpt j "query" with
    | some (.str _) => pure none
    | some q => do pure (some (← qnodeOf q))
    | none => pure none
  let vq ← match getOpt j "vector_query" with
    | some v => do pure (some (← vspecOf v))
    | none => pure none
  return { query := query, vectorQuery := vq, limit := ← getNat j "limit",
           candidateSize := optNat j "candidate_size" }

def errName : PlanErr → String
  | .both => "both" | .tooMany => "too_many" | .unknownField => "unknown_field"
  | .dim => "dim" | .alpha => "alpha" | .boost => "boost"

def hitJson (h : Hit Float32) : Json :=
  Json.mkObj [("seg", h.seg), ("doc", h.doc), ("score", f32Json h.score),
              ("vector_score", optF32Json h.vectorScore)]

def storeOfJson (j : Json) : Except String (Store Float32) := do
  let a ← j.getArr?
  a.toList.mapM (fun v => match v with
    | .null => pure none
    | v => do pure (some (← f32List v)))

/--
* `{"op":"search","schema":[…],"segments":[[doc…]…],"req":{…}[,"compacted":true]}` → outcome of
  `searchReq` (on `afterCompact schema segments` when `compacted`; `"legacy": true` selects the
  behaviour before the compaction fix, `legacyCompactSegs`)
* `{"op":"plan","schema":[…],"req":{…}}` → the plan (`buildPlan` + `effectivePlan`)
* `{"op":"graph","metric":…,"store":[vec|null…],"m":…,"efc":…}` → `buildGraph` on the prepared store
* `{"op":"hnsw_search","metric":…,"store":…,"m":…,"efc":…,"q":[…],"k":…,"ef":…}` → `search` on that graph
* `{"op":"sim","metric":…,"a":[…],"b":[…]}` → `metricSim` of the prepared vectors
-/
def handle (req : Json) : Except String Json := do
  let op ← getStr req "op"
  match op with
  | "search" =>
    let schema ← schemaOf (← req.getObjVal? "schema")
    let segs ← (← getArr req "segments").toList.mapM (fun s => do
      (← s.getArr?).toList.mapM sdocOf)
    let r ← reqOf (← req.getObjVal? "req")
    -- `"compacted": true` = the same request after `Index::compact`
    let segs := if getBoolD req "compacted" false then
        (if getBoolD req "legacy" false then legacyCompactSegs segs else afterCompact schema segs)
      else segs
    match searchReq schema segs r with
    | .error e => return Json.mkObj [("outcome", "error"), ("err", errName e)]
    | .textOnly => return Json.mkObj [("outcome", "text_only")]
    | .hits vo l =>
      return Json.mkObj [("outcome", "hits"), ("vector_only", vo),
                         ("hits", Json.arr (l.map hitJson).toArray)]
  | "compact" =>
    -- `{"op":"compact","schema":[…],"segments":[…]}` → is the call refused?
    let schema ← schemaOf (← req.getObjVal? "schema")
    let segs ← (← getArr req "segments").toList.mapM (fun s => do
      (← s.getArr?).toList.mapM sdocOf)
    match compact schema segs with
    | none => return Json.mkObj [("outcome", "refused")]
    | some l => return Json.mkObj [("outcome", "done"), ("segments", l.length)]
  | "plan" =>
    let schema ← schemaOf (← req.getObjVal? "schema")
    let r ← reqOf (← req.getObjVal? "req")
    match buildPlan schema r with
    | .error e => return Json.mkObj [("outcome", "error"), ("err", errName e)]
    | .ok p =>
      match effectivePlan p with
      | none => return Json.mkObj [("outcome", "text_only")]
      | some p =>
        return Json.mkObj [("outcome", "plan"), ("vector_only", p.vectorOnly),
          ("candidate_size", p.candidateSize),
          ("clauses", Json.arr (p.clauses.map (fun c => Json.mkObj [
            ("field", c.field), ("k", c.k), ("alpha", f32Json c.alpha), ("ef_search", c.efSearch),
            ("candidate_size", c.candidateSize), ("boost", f32Json c.boost)])).toArray)]
  | "graph" =>
    let mt ← metricOf (← getStr req "metric")
    let raw ← storeOfJson (← req.getObjVal? "store")
    let st : Store Float32 := raw.map (fun o => o.map (prep mt))
    let g := buildGraph mt st (← getNat req "m") (← getNat req "efc")
    return Json.mkObj [("entry", match g.entry with | some e => (e : Json) | none => Json.null),
                       ("m", g.m), ("ef_construction", g.efc),
                       ("neighbors", Json.arr (g.nbrs.map natsToJson).toArray)]
  | "hnsw_search" =>
    let mt ← metricOf (← getStr req "metric")
    let raw ← storeOfJson (← req.getObjVal? "store")
    let st : Store Float32 := raw.map (fun o => o.map (prep mt))
    let g := buildGraph mt st (← getNat req "m") (← getNat req "efc")
    let q := prep mt (← f32List (← req.getObjVal? "q"))
    -- `"legacy": true` = the search before `9cbe548` (bound read once per popped candidate)
    let kk ← getNat req "k"
    let ef ← getNat req "ef"
    let res := if getBoolD req "legacy" false then legacySearch mt st g q kk ef else search mt st g q kk ef
    return Json.mkObj [("hits", Json.arr (res.map (fun s =>
      Json.mkObj [("id", s.id), ("score", f32Json s.score)])).toArray)]
  | "sim" =>
    let mt ← metricOf (← getStr req "metric")
    let a ← f32List (← req.getObjVal? "a")
    let b ← f32List (← req.getObjVal? "b")
    return Json.mkObj [("sim", f32Json (metricSim mt (prep mt a) (prep mt b)))]
  | _ => throw s!"C29: unknown op {op}"

end SL.Drv.C29
