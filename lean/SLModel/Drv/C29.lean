import SLModel.Drv.Util
open Lean
namespace SL.Drv.C29

/-- stub: no model operations for C29 yet -/
def handle (_req : Json) : Except String Json := .error "C29: not implemented"

end SL.Drv.C29
