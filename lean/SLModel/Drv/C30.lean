import SLModel.Drv.Util
open Lean
namespace SL.Drv.C30

/-- stub: no model operations for C30 yet -/
def handle (_req : Json) : Except String Json := .error "C30: not implemented"

end SL.Drv.C30
