import SLModel.Drv.Util
import SLModel.Drv.AggsJson
import SLModel.Core.Aggs
open Lean
namespace SL.Drv.C30
open SL.Drv SL.Drv.AggsJson SL.Aggs

/-- (name, is_terms) of the composite sources of a request -/
def sourceKinds (agg : Json) : Except String (List (String × Bool)) := do
  let ss ← getArr agg "sources"
  ss.toList.mapM (fun s => do
    return (← getStr s "name", (← getStr s "type") == "terms"))

def pageToJson (p : Buckets String × Option (Key String)) : Json :=
  Json.mkObj [("buckets", Json.arr (p.1.map (fun b => Json.mkObj [("key", keyToJson b.1), ("count", b.2.1)])).toArray),
    ("after", match p.2 with | some k => keyToJson k | none => Json.null)]

/--
* `{"op":"walk","fields":…,"segs":…,"agg":<composite request without after>}` → the pages of
  `compositeWalk` over the merged bucket map of the mechanism (`mergeAll` of the per-segment
  `collect`s), each `after_key` sent back through `afterOfKey` (JSON round trip);
* `{"op":"page","fields":…,"segs":…,"agg":<composite request>}` → `SL.Aggs.run` (children included);
* `{"op":"cmp","a":[part…],"b":[part…]}` → `partsLt a b`, `partsLt b a`.
-/
def handle (req : Json) : Except String Json := do
  let op ← getStr req "op"
  match op with
  | "walk" =>
    let fields := (getOpt req "fields").getD (Json.mkObj [])
    let segs ← parseSegs (← req.getObjVal? "segs")
    let aggj ← req.getObjVal? "agg"
    let agg ← parseAgg fields aggj
    let kinds ← sourceKinds aggj
    let size ← getNat aggj "size"
    match mergeAll agg (segs.map (collect agg)) with
    | some (.buckets bs _) =>
      let pages := compositeWalk kinds size bs (bs.length + 1) none
      return Json.mkObj [("pages", Json.arr (pages.map pageToJson).toArray), ("total", bs.length)]
    | _ => return Json.mkObj [("pages", Json.arr #[]), ("total", (0 : Nat))]
  | "page" =>
    let fields := (getOpt req "fields").getD (Json.mkObj [])
    let segs ← parseSegs (← req.getObjVal? "segs")
    let agg ← parseAgg fields (← req.getObjVal? "agg")
    return Json.mkObj [("resp", match run agg segs with | some n => nodeToJson n | none => Json.null)]
  | "cmp" =>
    let a ← (← getArr req "a").toList.mapM partOfJson
    let b ← (← getArr req "b").toList.mapM partOfJson
    return Json.mkObj [("lt", partsLt a b), ("gt", partsLt b a)]
  | _ => throw s!"C30: unknown op {op}"

end SL.Drv.C30
