import SLModel.Drv.Util
import SLModel.Core.Doc
/-! JSON ⇄ `SL.Doc.J String`, schema parsing (the repository's own schema JSON) — driver glue,
no theorem mentions these. -/
open Lean
namespace SL.Drv.DocJ
open SL.Doc

instance : Inhabited (J String) := ⟨.null⟩
instance : Inhabited (Nested String) := ⟨.mk "" false .nil⟩

def ofKv : List (String × J String) → JO String
  | [] => .nil
  | (k, v) :: t => .cons k v (ofKv t)

partial def toJ : Json → J String
  | .null => .null
  | .bool b => .bool b
  | .num n => .num n.mantissa n.exponent
  | .str s => .str s
  | .arr a => .arr (JL.ofList (a.toList.map toJ))
  | .obj kv => .obj (ofKv (kv.toList.map (fun p => (p.1, toJ p.2))))

mutual
partial def fromJ : J String → Json
  | .null => .null
  | .bool b => .bool b
  | .num m e => .num ⟨m, e⟩
  | .str s => .str s
  | .arr a => .arr (fromJL a).toArray
  | .obj kv => Json.mkObj (fromJO kv)
partial def fromJL : JL String → List Json
  | .nil => []
  | .cons h t => fromJ h :: fromJL t
partial def fromJO : JO String → List (String × Json)
  | .nil => []
  | .cons k v t => (k, fromJ v) :: fromJO t
end

def leafOf (j : Json) (kind : Kind) : Leaf String :=
  { name := getStrD j "name" "", kind := kind,
    stored := getBoolD j "stored" false, indexed := getBoolD j "indexed" true,
    fast := getBoolD j "fast" false, nullable := getBoolD j "nullable" false }

def numKind (j : Json) : Kind := if getBoolD j "i64" false then .i64 else .f64

def propsOfList : List (NProp String) → NProps String
  | [] => .nil
  | p :: t => .cons p (propsOfList t)

partial def nestedOf (j : Json) : Nested String :=
  let props := (getArrD j "fields").toList.map (fun f =>
    match getStrD f "type" "" with
    | "text" => NProp.leaf (leafOf f .text)
    | "keyword" => NProp.leaf (leafOf f .keyword)
    | "numeric" => NProp.leaf (leafOf f (numKind f))
    | _ => NProp.object (nestedOf f))
  .mk (getStrD j "name" "") (getBoolD j "nullable" false) (propsOfList props)

def schemaOf (j : Json) : Schema String :=
  { idField := getStrD j "doc_id_field" "_id",
    flat := (getArrD j "text_fields").toList.map (leafOf · .text)
      ++ (getArrD j "keyword_fields").toList.map (leafOf · .keyword)
      ++ (getArrD j "numeric_fields").toList.map (fun f => leafOf f (numKind f)),
    nested := (getArrD j "nested_fields").toList.map nestedOf }

end SL.Drv.DocJ
