import SLModel.Drv.Util
import SLModel.Core.Post
/-!
JSON glue shared by the drivers of C13, C18, C19, C20: all four run `SL.Post.search` (the
mechanism model) or `SL.Post.Spec.search` on the hit list the harness took from the real index.

Scores travel as the `u32` bit patterns of the `f32`s the code produced, and the driver's
`ScoreOps` instance is `Float32` arithmetic with `total_cmp` order, so combined scores are
bit-exact.

request
```
{"op":"search","spec":false,"legacy":false,"legacy_scores":false,"legacy_aggs":false,
 "hits":[{"seg":0,"pos":3,"score":1069547520,"flds":[5,null],"grp":2,"resc":null|"rej"|<bits>}, …],
 "plan":[{"f":"score"|<field index>,"desc":true}, …],
 "limit":3,"cand":null,"return_hits":true,"explain":false,"profile":false,"hook":false,"nseg":2,
 "cursor":null|{"pos":4,"score":<bits>,"returned":3},
 "rescore":null|{"window":5,"mode":"total"},
 "collapse":null|{"inner":null|{"plan":[…],"from":0,"size":3|null}},
 "agg_field":0}
```
response
```
{"hits":[{"pos":3,"score":<bits>,"final":<bits>|null,"resc":[r,c]|null,"inner":[{"pos":…,"score":…,"final":…}]}],
 "total":n,"total_groups":n|null,"has_next":b,"next_pos":n|null,"agg_terms":[[g,c],…],"agg_count":n,"profile":b}
```
-/
open Lean
namespace SL.Drv.Post
open SL.Drv SL.Post

/-- `f32::total_cmp` as an order on bit patterns -/
def ordKey (b : UInt32) : UInt32 :=
  if b &&& 0x80000000 != 0 then ~~~ b else b ||| 0x80000000

def f32Ops : ScoreOps UInt32 where
  lt a b := ordKey a < ordKey b
  add a b := (Float32.ofBits a + Float32.ofBits b).toBits
  mul a b := (Float32.ofBits a * Float32.ofBits b).toBits
  zero := 0

def parseMode (s : String) : Except String Mode :=
  match s with
  | "total" => .ok .total
  | "multiply" => .ok .multiply
  | "sum" => .ok .sum
  | "max" => .ok .max
  | "min" => .ok .min
  | _ => .error s!"unknown rescore mode {s}"

def parsePlan (j : Json) : Except String Plan := do
  let a ← j.getArr?
  a.toList.mapM fun e => do
    let desc := getBoolD e "desc" false
    match e.getObjVal? "f" with
    | .ok (.str "score") => pure ⟨.score, desc⟩
    | .ok v => do
      let i ← v.getNat?
      pure ⟨.fld i, desc⟩
    | .error er => throw er

def parseHit (j : Json) : Except String (Hit UInt32) := do
  let seg ← getNat j "seg"
  let pos ← getNat j "pos"
  let score ← getNat j "score"
  let flds ← (getArrD j "flds").toList.mapM fun v =>
    match v with
    | .null => pure (none : Option Int)
    | v => do let i ← v.getInt?; pure (some i)
  let grp := (getOpt j "grp").bind fun v => v.getNat?.toOption
  let resc : Resc UInt32 ← match getOpt j "resc" with
    | none => pure .noMatch
    | some (.str "rej") => pure .rejected
    | some v => do let b ← v.getNat?; pure (.val b.toUInt32)
  return { seg := seg, doc := pos, score := score.toUInt32, flds := flds, grp := grp, resc := resc, expl := none }

def hitJson (h : Hit UInt32) : List (String × Json) :=
  [("pos", (h.doc : Json)), ("score", (h.score.toNat : Json)),
   ("final", match h.expl with | some e => (e.final.toNat : Json) | none => Json.null),
   ("resc", match h.expl.bind (·.resc) with
      | some (r, c) => Json.arr #[(r.toNat : Json), (c.toNat : Json)]
      | none => Json.null)]

def parseReq (req : Json) (hits : List (Hit UInt32)) : Except String (Req UInt32) := do
  let plan ← parsePlan (← req.getObjVal? "plan")
  let limit ← getNat req "limit"
  let cand := (getOpt req "cand").bind fun v => v.getNat?.toOption
  let cursor ← match getOpt req "cursor" with
    | none => pure none
    | some c => do
      let pos ← getNat c "pos"
      let sc ← getNat c "score"
      let ret ← getNat c "returned"
      match hits.find? (fun h => h.doc == pos) with
      | none => throw "cursor position not among hits"
      | some h => pure (some ({ h with score := sc.toUInt32 }, ret))
  let rescore ← match getOpt req "rescore" with
    | none => pure none
    | some r => do
      let w ← getNat r "window"
      let m ← parseMode (← getStr r "mode")
      pure (some ({ window := w, mode := m } : RescoreReq))
  let collapse ← match getOpt req "collapse" with
    | none => pure none
    | some c =>
      match getOpt c "inner" with
      | none => pure (some ({ inner := none } : CollapseReq))
      | some i => do
        let ip ← parsePlan (← i.getObjVal? "plan")
        let from_ := getNatD i "from" 0
        let size := (getOpt i "size").bind fun v => v.getNat?.toOption
        pure (some ({ inner := some (ip, { from_ := from_, size := size }) } : CollapseReq))
  return { plan := plan, limit := limit, cand := cand, returnHits := getBoolD req "return_hits" true,
           explain := getBoolD req "explain" false, profile := getBoolD req "profile" false,
           hook := getBoolD req "hook" false,
           nseg := getNatD req "nseg" 1, cursor := cursor, rescore := rescore, collapse := collapse,
           aggField := getNatD req "agg_field" 0 }

def respJson (r : Resp UInt32) : Json :=
  Json.mkObj [
    ("hits", Json.arr (r.hits.map fun (h, inner) =>
      Json.mkObj (hitJson h ++ [("inner", Json.arr (inner.map fun i => Json.mkObj (hitJson i)).toArray)])).toArray),
    ("total", (r.total : Json)),
    ("total_groups", match r.totalGroups with | some n => (n : Json) | none => Json.null),
    ("has_next", (r.next.isSome : Json)),
    ("next_pos", match r.next with | some h => (h.doc : Json) | none => Json.null),
    ("agg_terms", Json.arr (r.aggTerms.map fun (g, c) => Json.arr #[(g : Json), (c : Json)]).toArray),
    ("agg_count", (r.aggCount : Json)),
    ("profile", (r.profile : Json))]

/-- the one operation all four properties use -/
def handle (tag : String) (req : Json) : Except String Json := do
  let op ← getStr req "op"
  match op with
  | "search" =>
    let hits ← (← getArr req "hits").toList.mapM parseHit
    let r ← parseReq req hits
    let resp :=
      if getBoolD req "spec" false then Spec.search f32Ops r hits
      else if getBoolD req "legacy" false then legacySearch f32Ops r hits
      else if getBoolD req "legacy_scores" false then legacyScoreSearch f32Ops r hits
      else if getBoolD req "legacy_aggs" false then legacyAggSearch f32Ops r hits
      else search f32Ops r hits
    return respJson resp
  | _ => throw s!"{tag}: unknown op {op}"

end SL.Drv.Post
