import Lean.Data.Json
/-! JSON helpers for the driver (not part of the model; no theorem mentions these). -/
open Lean
namespace SL.Drv

def getNat (j : Json) (k : String) : Except String Nat := do
  let v ← j.getObjVal? k
  v.getNat?

def getInt (j : Json) (k : String) : Except String Int := do
  let v ← j.getObjVal? k
  v.getInt?

def getBool (j : Json) (k : String) : Except String Bool := do
  let v ← j.getObjVal? k
  v.getBool?

def getBoolD (j : Json) (k : String) (d : Bool) : Bool :=
  match j.getObjVal? k with
  | .ok v => match v.getBool? with | .ok b => b | .error _ => d
  | .error _ => d

def getNatD (j : Json) (k : String) (d : Nat) : Nat :=
  match j.getObjVal? k with
  | .ok v => match v.getNat? with | .ok b => b | .error _ => d
  | .error _ => d

def getStr (j : Json) (k : String) : Except String String := do
  let v ← j.getObjVal? k
  v.getStr?

def getStrD (j : Json) (k : String) (d : String) : String :=
  match j.getObjVal? k with
  | .ok v => match v.getStr? with | .ok b => b | .error _ => d
  | .error _ => d

def getArr (j : Json) (k : String) : Except String (Array Json) := do
  let v ← j.getObjVal? k
  v.getArr?

def getArrD (j : Json) (k : String) : Array Json :=
  match j.getObjVal? k with
  | .ok v => match v.getArr? with | .ok b => b | .error _ => #[]
  | .error _ => #[]

def getOpt (j : Json) (k : String) : Option Json :=
  match j.getObjVal? k with
  | .ok .null => none
  | .ok v => some v
  | .error _ => none

def natList (j : Json) : Except String (List Nat) := do
  let a ← j.getArr?
  a.toList.mapM (·.getNat?)

def byteList (j : Json) : Except String (List UInt8) := do
  let l ← natList j
  return l.map (·.toUInt8)

def bytesToJson (l : List UInt8) : Json := Json.arr (l.map (fun b => (b.toNat : Json))).toArray

def natsToJson (l : List Nat) : Json := Json.arr (l.map (fun (b : Nat) => (b : Json))).toArray

def hexDigit (c : Char) : Option Nat :=
  if '0' ≤ c ∧ c ≤ '9' then some (c.toNat - '0'.toNat)
  else if 'a' ≤ c ∧ c ≤ 'f' then some (c.toNat - 'a'.toNat + 10)
  else if 'A' ≤ c ∧ c ≤ 'F' then some (c.toNat - 'A'.toNat + 10)
  else none

/-- bytes shipped as a hex string -/
def hexToBytes (s : String) : Except String (List UInt8) :=
  let rec go : List Char → List UInt8 → Except String (List UInt8)
    | [], acc => .ok acc.reverse
    | [_], _ => .error "odd hex"
    | a :: b :: r, acc =>
      match hexDigit a, hexDigit b with
      | some x, some y => go r ((x * 16 + y).toUInt8 :: acc)
      | _, _ => .error "bad hex"
  go s.toList []

def bytesToHex (l : List UInt8) : String :=
  let d (n : Nat) : Char := if n < 10 then Char.ofNat (48 + n) else Char.ofNat (87 + n)
  String.ofList (l.flatMap (fun b => [d (b.toNat / 16), d (b.toNat % 16)]))

end SL.Drv
