import SLModel.Core.Aggs
import SLModel.Lemmas.SMap
import SLModel.Lemmas.AggsOrder
/-!
# Bucket maps: pointwise description and the merge homomorphism

`look k` of a segment's (thresholded) bucket map is described by `entry`, a function of the
bucket's documents alone; the homomorphism and commutativity statements are then pure facts
about `entry`/`optUnion` (no lists of buckets involved).
-/
namespace SL.Aggs
open SL.ISort (StrictTotal)

section
variable {φ κ : Type} [KOrd κ] [DecidableEq κ]
set_option linter.unusedSectionVars false

abbrev BVal (κ : Type) := Nat × List (Node κ)

/-- the `min_doc_count` test of `TermsCollector::finish` / `HistogramCollector::finish` -/
def keepMin (m : Nat) (x : Key κ × Nat × List (Node κ)) : Bool := decide (m ≤ x.2.1)

/-- what a segment's bucket map says about key `k`, from the bucket's documents `f`:
`ex` = the bucket exists without documents (range, filter, histogram bounds) -/
def entry (ex : Bool) (m : Nat) (eag : Bool) (C : List (Doc φ κ) → List (Node κ))
    (f : List (Doc φ κ)) : Option (BVal κ) :=
  if ex || decide (0 < f.length) then
    (if m ≤ f.length then some (f.length, if f.isEmpty && !eag then [] else C f) else none)
  else none

theorem mem_flatMap_keysOf (b : BSpec φ κ) (docs : List (Doc φ κ)) (k : Key κ) :
    k ∈ docs.flatMap (keysOf b) ↔ 0 < (docs.filter (inB b k)).length := by
  rw [List.mem_flatMap, List.length_pos_iff_exists_mem]
  constructor
  · rintro ⟨d, hd, hk⟩
    exact ⟨d, List.mem_filter.mpr ⟨hd, by simp [inB, hk]⟩⟩
  · rintro ⟨d, hd⟩
    obtain ⟨hd1, hd2⟩ := List.mem_filter.mp hd
    exact ⟨d, hd1, by simpa [inB] using hd2⟩

theorem ksorted_rawBuckets (h : StrictTotal (KOrd.lt (κ := κ))) (b : BSpec φ κ)
    (C : List (Doc φ κ) → List (Node κ)) (docs : List (Doc φ κ)) :
    KSorted Key.lt (rawBuckets b C docs) := by
  unfold rawBuckets
  exact ksorted_mapVal (fun kv => bucketOf b C docs kv.1) (ksorted_keySet (keyLt_strictTotal h) _)

theorem look_rawBuckets (h : StrictTotal (KOrd.lt (κ := κ))) (b : BSpec φ κ)
    (C : List (Doc φ κ) → List (Node κ)) (docs : List (Doc φ κ)) (k : Key κ) :
    look k (rawBuckets b C docs) =
      if k ∈ docs.flatMap (keysOf b) ++ extraKeys b then some (bucketOf b C docs k) else none := by
  unfold rawBuckets
  rw [look_mapVal (fun kv => bucketOf b C docs kv.1), look_keySet (keyLt_strictTotal h)]
  split <;> rfl

/-- Claim A: the thresholded bucket map of a document list, pointwise -/
theorem look_filter_raw (h : StrictTotal (KOrd.lt (κ := κ))) (b : BSpec φ κ) (m : Nat)
    (C : List (Doc φ κ) → List (Node κ)) (docs : List (Doc φ κ)) (k : Key κ) :
    look k ((rawBuckets b C docs).filter (keepMin m)) =
      entry (decide (k ∈ extraKeys b)) m (eager b) C (docs.filter (inB b k)) := by
  rw [look_filter (keyLt_strictTotal h) _ (ksorted_rawBuckets h b C docs), look_rawBuckets h]
  unfold entry bucketOf keepMin
  by_cases hex : k ∈ extraKeys b
  · simp [hex]
  · by_cases hpos : 0 < (docs.filter (inB b k)).length
    · have : k ∈ docs.flatMap (keysOf b) := (mem_flatMap_keysOf b docs k).mpr hpos
      simp [hex, hpos, this]
    · have : k ∉ docs.flatMap (keysOf b) := fun hm => hpos ((mem_flatMap_keysOf b docs k).mp hm)
      simp [hex, hpos, this]

/-- combination of two bucket values in `merge_bucket_lists` -/
def combine (M : List (Node κ) → List (Node κ) → List (Node κ)) (v w : BVal κ) : BVal κ :=
  (v.1 + w.1, M v.2 w.2)

theorem entry_nonempty (ex eag : Bool) (m : Nat) (hm : m ≤ 1)
    (C : List (Doc φ κ) → List (Node κ)) (f : List (Doc φ κ)) (hf : f ≠ []) :
    entry ex m eag C f = some (f.length, C f) := by
  have hpos : 0 < f.length := List.length_pos_iff.mpr hf
  have hm2 : m ≤ f.length := by omega
  have he : f.isEmpty = false := by cases f with | nil => exact absurd rfl hf | cons _ _ => rfl
  simp [entry, hpos, hm2, he]

/-- Claim B: the entry of a concatenation is the merge of the entries, provided the threshold is
at most 1 and the children are homomorphic -/
theorem entry_append (ex eag : Bool) (m : Nat) (hm : m ≤ 1)
    (C : List (Doc φ κ) → List (Node κ)) (M : List (Node κ) → List (Node κ) → List (Node κ))
    (hC : ∀ X Y, C (X ++ Y) = M (C X) (C Y))
    (hM0 : M [] [] = []) (hM1 : ∀ Y, M [] (C Y) = C Y) (hM2 : ∀ X, M (C X) [] = C X)
    (fx fy : List (Doc φ κ)) :
    entry ex m eag C (fx ++ fy) = optUnion (combine M) (entry ex m eag C fx) (entry ex m eag C fy) := by
  have hm' : m = 0 ∨ m = 1 := by omega
  cases fx with
  | nil =>
    cases fy with
    | nil =>
      rcases hm' with rfl | rfl <;> cases ex <;> cases eag <;>
        simp [entry, optUnion, combine, hM0, ← hC]
    | cons y fy =>
      rcases hm' with rfl | rfl <;> cases ex <;> cases eag <;>
        simp [entry, optUnion, combine, hM1, ← hC]
  | cons x fx =>
    cases fy with
    | nil =>
      rcases hm' with rfl | rfl <;> cases ex <;> cases eag <;>
        simp [entry, optUnion, combine, hM2, ← hC]
    | cons y fy =>
      have e1 := entry_nonempty ex eag m hm C (x :: fx) (by simp)
      have e2 := entry_nonempty ex eag m hm C (y :: fy) (by simp)
      have e3 := entry_nonempty ex eag m hm C ((x :: fx) ++ (y :: fy)) (by simp)
      rw [e1, e2, e3]
      simp only [optUnion, combine, List.length_append, hC]

/-- commutativity of the merge of two entries, given commutativity on the children -/
theorem entry_comm (ex eag : Bool) (m : Nat)
    (C : List (Doc φ κ) → List (Node κ)) (M : List (Node κ) → List (Node κ) → List (Node κ))
    (hC : ∀ X Y, M (C X) (C Y) = M (C Y) (C X))
    (hM1 : ∀ Y, M [] (C Y) = C Y) (hM2 : ∀ X, M (C X) [] = C X)
    (fx fy : List (Doc φ κ)) :
    optUnion (combine M) (entry ex m eag C fx) (entry ex m eag C fy) =
      optUnion (combine M) (entry ex m eag C fy) (entry ex m eag C fx) := by
  unfold entry
  by_cases h1 : (ex || decide (0 < fx.length)) = true <;>
  by_cases h2 : (ex || decide (0 < fy.length)) = true <;>
  by_cases h3 : m ≤ fx.length <;> by_cases h4 : m ≤ fy.length <;>
    simp only [h1, h2, h3, h4, if_true, if_false, optUnion, Bool.false_eq_true] <;>
    try rfl
  -- both present
  simp only [combine, Nat.add_comm fy.length fx.length]
  congr 2
  by_cases e1 : (fx.isEmpty && !eag) = true <;> by_cases e2 : (fy.isEmpty && !eag) = true <;>
    simp only [e1, e2, if_true, if_false, Bool.false_eq_true]
  · rw [hM1, hM2]
  · rw [hM2, hM1]
  · exact hC fx fy

theorem filter_keepMin_zero (bs : Buckets κ) : bs.filter (keepMin 0) = bs := by
  apply List.filter_eq_self.mpr
  intro x _
  simp [keepMin]

/-- the homomorphism on thresholded bucket maps -/
theorem filter_raw_append (h : StrictTotal (KOrd.lt (κ := κ))) (b : BSpec φ κ) (m : Nat)
    (hm : m ≤ 1) (C : List (Doc φ κ) → List (Node κ))
    (M : List (Node κ) → List (Node κ) → List (Node κ))
    (hC : ∀ X Y, C (X ++ Y) = M (C X) (C Y))
    (hM0 : M [] [] = []) (hM1 : ∀ Y, M [] (C Y) = C Y) (hM2 : ∀ X, M (C X) [] = C X)
    (xs ys : List (Doc φ κ)) :
    (rawBuckets b C (xs ++ ys)).filter (keepMin m) =
      unionWith Key.lt (combine M) ((rawBuckets b C xs).filter (keepMin m))
        ((rawBuckets b C ys).filter (keepMin m)) := by
  have hk := keyLt_strictTotal h
  have sx := ksorted_filter (keepMin m) (ksorted_rawBuckets h b C xs)
  have sy := ksorted_filter (keepMin m) (ksorted_rawBuckets h b C ys)
  apply ext hk (ksorted_filter _ (ksorted_rawBuckets h b C _)) (ksorted_unionWith hk _ _ sx)
  intro k
  rw [look_unionWith hk _ sx sy, look_filter_raw h, look_filter_raw h, look_filter_raw h,
    List.filter_append]
  exact entry_append _ _ m hm C M hC hM0 hM1 hM2 _ _

theorem filter_raw_comm (h : StrictTotal (KOrd.lt (κ := κ))) (b : BSpec φ κ) (m : Nat)
    (C : List (Doc φ κ) → List (Node κ))
    (M : List (Node κ) → List (Node κ) → List (Node κ))
    (hC : ∀ X Y, M (C X) (C Y) = M (C Y) (C X))
    (hM1 : ∀ Y, M [] (C Y) = C Y) (hM2 : ∀ X, M (C X) [] = C X)
    (xs ys : List (Doc φ κ)) :
    unionWith Key.lt (combine M) ((rawBuckets b C xs).filter (keepMin m))
        ((rawBuckets b C ys).filter (keepMin m)) =
    unionWith Key.lt (combine M) ((rawBuckets b C ys).filter (keepMin m))
        ((rawBuckets b C xs).filter (keepMin m)) := by
  have hk := keyLt_strictTotal h
  have sx := ksorted_filter (keepMin m) (ksorted_rawBuckets h b C xs)
  have sy := ksorted_filter (keepMin m) (ksorted_rawBuckets h b C ys)
  apply ext hk (ksorted_unionWith hk _ _ sx) (ksorted_unionWith hk _ _ sy)
  intro k
  rw [look_unionWith hk _ sx sy, look_unionWith hk _ sy sx, look_filter_raw h, look_filter_raw h]
  exact entry_comm _ _ m C M hC hM1 hM2 _ _

theorem mem_rawBuckets_key (h : StrictTotal (KOrd.lt (κ := κ))) (b : BSpec φ κ)
    (C : List (Doc φ κ) → List (Node κ)) (docs : List (Doc φ κ)) :
    ∀ x ∈ rawBuckets b C docs, x.1 ∈ docs.flatMap (keysOf b) ++ extraKeys b := by
  intro x hx
  unfold rawBuckets at hx
  simp only [List.mem_map] at hx
  obtain ⟨kv, hkv, rfl⟩ := hx
  have hk := keyLt_strictTotal h
  have hl := look_of_mem hk (ksorted_keySet hk _) (show (kv.1, kv.2) ∈ _ from hkv)
  rw [look_keySet hk] at hl
  by_cases hm : kv.1 ∈ docs.flatMap (keysOf b) ++ extraKeys b
  · exact hm
  · simp [hm] at hl


end
end SL.Aggs
