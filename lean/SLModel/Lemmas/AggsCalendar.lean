import SLModel.Core.Aggs
/-!
# Calendar arithmetic of `Core/Aggs` and the alignment of date_histogram bucket keys

`civilFromDays (daysFromCivil y m 1) = (y, m, 1)` for every year and month (the year-of-era part
is checked exhaustively in the kernel: 400 years × 12 months; the era part is linear
arithmetic), the month of `civilFromDays` is in 1..12, and from these:
`truncCalendar` is idempotent and `addInterval` maps unit starts to unit starts.
-/
namespace SL.Aggs

/-- day of era of (year of era, March-based month, day 1) -/
def doeOf (yoe mp : Int) : Int := yoe * 365 + yoe / 4 - yoe / 100 + ((153 * mp + 2) / 5 + 1 - 1)

/-- the part of `civilFromDays` after the era split -/
def civilOfDoe (era doe : Int) : Int × Int × Int :=
  let yoe := (doe - doe / 1460 + doe / 36524 - doe / 146096) / 365
  let y := yoe + era * 400
  let doy := doe - (365 * yoe + yoe / 4 - yoe / 100)
  let mp := (5 * doy + 2) / 153
  let d := doy - (153 * mp + 2) / 5 + 1
  let m := if mp < 10 then mp + 3 else mp - 9
  (if m ≤ 2 then y + 1 else y, m, d)

theorem civilFromDays_eq (z : Int) :
    civilFromDays z =
      civilOfDoe ((z + 719468) / 146097) ((z + 719468) - (z + 719468) / 146097 * 146097) := rfl

/-- month (1..12) of a March-based month number -/
def monthOfMp (mp : Int) : Int := if mp < 10 then mp + 3 else mp - 9

def innerOk (yoe mp : Nat) : Bool :=
  let doe := doeOf yoe mp
  decide (0 ≤ doe) && decide (doe < 146097) &&
    decide (civilOfDoe 0 doe =
      (if monthOfMp mp ≤ 2 then (yoe : Int) + 1 else (yoe : Int), monthOfMp mp, 1))

/-- exhaustive over the 400 years of an era and the 12 months -/
theorem inner_all : ∀ yoe : Fin 400, ∀ mp : Fin 12, innerOk yoe.val mp.val = true := by
  decide +kernel

theorem inner (yoe mp : Int) (h0 : 0 ≤ yoe) (h1 : yoe < 400) (h2 : 0 ≤ mp) (h3 : mp < 12) :
    0 ≤ doeOf yoe mp ∧ doeOf yoe mp < 146097 ∧
    civilOfDoe 0 (doeOf yoe mp) = (if monthOfMp mp ≤ 2 then yoe + 1 else yoe, monthOfMp mp, 1) := by
  obtain ⟨a, rfl⟩ := Int.eq_ofNat_of_zero_le h0
  obtain ⟨b, rfl⟩ := Int.eq_ofNat_of_zero_le h2
  have ha : a < 400 := by omega
  have hb : b < 12 := by omega
  have := inner_all ⟨a, ha⟩ ⟨b, hb⟩
  simp only [innerOk, Bool.and_eq_true, decide_eq_true_eq] at this
  exact ⟨this.1.1, this.1.2, this.2⟩

theorem civilOfDoe_era (era doe : Int) :
    civilOfDoe era doe =
      ((civilOfDoe 0 doe).1 + era * 400, (civilOfDoe 0 doe).2.1, (civilOfDoe 0 doe).2.2) := by
  unfold civilOfDoe
  simp only
  split <;> simp <;> omega

/-- **round trip** on the first of a month -/
theorem civilFromDays_daysFromCivil (y m : Int) (h1 : 1 ≤ m) (h2 : m ≤ 12) :
    civilFromDays (daysFromCivil y m 1) = (y, m, 1) := by
  -- the year the algorithm works with, its era and year of era, the March-based month
  let y' := if m ≤ 2 then y - 1 else y
  have hmp0 : 0 ≤ (m + 9) % 12 := by omega
  have hmp1 : (m + 9) % 12 < 12 := by omega
  have hy0 : 0 ≤ y' - y' / 400 * 400 := by omega
  have hy1 : y' - y' / 400 * 400 < 400 := by omega
  obtain ⟨hd0, hd1, hc⟩ := inner (y' - y' / 400 * 400) ((m + 9) % 12) hy0 hy1 hmp0 hmp1
  have hz : daysFromCivil y m 1 + 719468 = y' / 400 * 146097 + doeOf (y' - y' / 400 * 400) ((m + 9) % 12) := by
    unfold daysFromCivil doeOf
    simp only [y']
    omega
  have hera : (daysFromCivil y m 1 + 719468) / 146097 = y' / 400 := by rw [hz]; omega
  rw [civilFromDays_eq, hera]
  have hdoe : daysFromCivil y m 1 + 719468 - y' / 400 * 146097
      = doeOf (y' - y' / 400 * 400) ((m + 9) % 12) := by rw [hz]; omega
  rw [hdoe, civilOfDoe_era, hc]
  have hm : monthOfMp ((m + 9) % 12) = m := by unfold monthOfMp; split <;> omega
  simp only [hm]
  refine Prod.ext ?_ (Prod.ext rfl rfl)
  simp only [y']
  split <;> omega

theorem civilFromDays_month_range (z : Int) :
    1 ≤ (civilFromDays z).2.1 ∧ (civilFromDays z).2.1 ≤ 12 := by
  unfold civilFromDays
  simp only
  split <;> omega

/-! ### unit starts -/

theorem mul_msPerDay_div (n : Int) : n * msPerDay / msPerDay = n := by
  unfold msPerDay; omega

/-- the bucket keys of a date histogram are unit starts shifted by the offset (calendar
intervals) or multiples of the step shifted by the offset (fixed intervals) -/
def Aligned (iv : DInterval) (offset k : Int) : Prop :=
  match iv with
  | .fixed step => (k - offset) % step = 0
  | .calendar u => truncCalendar false (k - offset) u = some (k - offset)

/-- `truncate_calendar` returns a fixed point of itself -/
theorem truncCalendar_idem (u : CalUnit) (x t : Int) (h : truncCalendar false x u = some t) :
    truncCalendar false t u = some t := by
  have hm := civilFromDays_month_range (x / msPerDay)
  cases u with
  | day =>
    simp only [truncCalendar, Option.some.injEq] at h ⊢
    subst h; rw [mul_msPerDay_div]
  | week =>
    simp only [truncCalendar, Option.some.injEq] at h ⊢
    subst h; rw [mul_msPerDay_div]
    congr 1; omega
  | month =>
    simp only [truncCalendar, Option.some.injEq] at h ⊢
    subst h
    rw [mul_msPerDay_div, civilFromDays_daysFromCivil _ _ hm.1 hm.2]
  | quarter =>
    simp only [truncCalendar, Bool.false_and, Bool.false_eq_true, if_false, Option.some.injEq] at h ⊢
    subst h
    have hq1 : 1 ≤ ((civilFromDays (x / msPerDay)).2.1 - 1) / 3 * 3 + 1 := by omega
    have hq2 : ((civilFromDays (x / msPerDay)).2.1 - 1) / 3 * 3 + 1 ≤ 12 := by omega
    rw [mul_msPerDay_div, civilFromDays_daysFromCivil _ _ hq1 hq2]
    simp only
    congr 2
    omega
  | year =>
    simp only [truncCalendar, Option.some.injEq] at h ⊢
    subst h
    rw [mul_msPerDay_div, civilFromDays_daysFromCivil _ _ (by omega) (by omega)]

/-- `add_calendar` maps a unit start to the next unit start -/
theorem truncCalendar_addInterval (u : CalUnit) (t : Int)
    (h : truncCalendar false t u = some t) :
    truncCalendar false (addInterval (.calendar u) t) u = some (addInterval (.calendar u) t) := by
  have hm := civilFromDays_month_range (t / msPerDay)
  cases u with
  | day =>
    simp only [truncCalendar, addInterval, Option.some.injEq]
    rw [mul_msPerDay_div]
  | week =>
    simp only [truncCalendar, Option.some.injEq] at h
    have hd : (t / msPerDay - (t / msPerDay + 3) % 7) = t / msPerDay := by
      have := congrArg (· / msPerDay) h
      simp only [mul_msPerDay_div] at this
      exact this
    simp only [truncCalendar, addInterval, Option.some.injEq]
    rw [mul_msPerDay_div]
    congr 1; omega
  | month =>
    simp only [truncCalendar, addInterval, Option.some.injEq]
    split
    · rw [mul_msPerDay_div, civilFromDays_daysFromCivil _ _ (by omega) (by omega)]
    · rw [mul_msPerDay_div, civilFromDays_daysFromCivil _ _ (by omega) (by omega)]
  | quarter =>
    simp only [truncCalendar, Bool.false_and, Bool.false_eq_true, if_false, Option.some.injEq] at h
    -- the month of an aligned instant is a quarter start
    have hq1 : 1 ≤ ((civilFromDays (t / msPerDay)).2.1 - 1) / 3 * 3 + 1 := by omega
    have hq2 : ((civilFromDays (t / msPerDay)).2.1 - 1) / 3 * 3 + 1 ≤ 12 := by omega
    have hd := congrArg (· / msPerDay) h
    simp only [mul_msPerDay_div] at hd
    have hc := civilFromDays_daysFromCivil (civilFromDays (t / msPerDay)).1 _ hq1 hq2
    rw [hd] at hc
    have hmq : (civilFromDays (t / msPerDay)).2.1 = ((civilFromDays (t / msPerDay)).2.1 - 1) / 3 * 3 + 1 :=
      congrArg (fun c => c.2.1) hc
    simp only [truncCalendar, addInterval, Bool.false_and, Bool.false_eq_true, if_false,
      Option.some.injEq]
    split
    · rw [mul_msPerDay_div, civilFromDays_daysFromCivil _ _ (by omega) (by omega)]
      simp only
      congr 2; omega
    · rw [mul_msPerDay_div, civilFromDays_daysFromCivil _ _ (by omega) (by omega)]
      simp only
      congr 2; omega
  | year =>
    simp only [truncCalendar, addInterval, Option.some.injEq]
    rw [mul_msPerDay_div, civilFromDays_daysFromCivil _ _ (by omega) (by omega)]

/-- the key of a value is aligned -/
theorem aligned_dateBucket (iv : DInterval) (offset v k : Int)
    (h : dateBucket false iv offset v = some k) : Aligned iv offset k := by
  cases iv with
  | fixed step =>
    simp only [dateBucket, Option.some.injEq] at h
    subst h
    simp only [Aligned]
    have : -(-(v - offset) / step) * step + offset - offset = -(-(v - offset) / step) * step := by omega
    rw [this, Int.mul_emod_left]
  | calendar u =>
    simp only [dateBucket, Option.map_eq_some_iff] at h
    obtain ⟨t, ht, rfl⟩ := h
    simp only [Aligned]
    have : t + offset - offset = t := by omega
    rw [this]
    exact truncCalendar_idem u _ _ ht

/-- the fill step keeps the alignment -/
theorem aligned_fillStep (iv : DInterval) (offset k : Int) (h : Aligned iv offset k) :
    Aligned iv offset (fillStep iv offset k) := by
  cases iv with
  | fixed step =>
    simp only [Aligned, fillStep] at h ⊢
    have : k + step - offset = (k - offset) + step := by omega
    rw [this, Int.add_emod_right]
    exact h
  | calendar u =>
    simp only [Aligned, fillStep] at h ⊢
    have : addInterval (.calendar u) (k - offset) + offset - offset = addInterval (.calendar u) (k - offset) := by
      omega
    rw [this]
    exact truncCalendar_addInterval u _ h

theorem aligned_fillFrom (iv : DInterval) (offset hi : Int) :
    ∀ (fuel : Nat) (cur : Int), Aligned iv offset cur →
      ∀ k ∈ fillFrom (fillStep iv offset) cur hi fuel, Aligned iv offset k
  | 0, _, _, k, hk => by simp [fillFrom] at hk
  | fuel + 1, cur, hc, k, hk => by
    unfold fillFrom at hk
    split at hk
    · rcases List.mem_cons.mp hk with rfl | hk
      · exact hc
      · exact aligned_fillFrom iv offset hi fuel _ (aligned_fillStep iv offset cur hc) k hk
    · simp at hk

end SL.Aggs
