import SLModel.Core.Aggs
import SLModel.Lemmas.ISort
/-!
# The key orders of `Core/Aggs` are strict total orders

`Part.lt` (`CompositeKeyPart::cmp`), `partsLt` (`CompositeKey::cmp`) and `Key.lt` are strict
total orders whenever the atom order is; the atom orders used by the driver (`String`) and by the
kernel-checked witnesses (`Nat`) are.
-/
namespace SL.Aggs
open SL.ISort (StrictTotal asymm)

theorem ratLt_strictTotal : StrictTotal ratLt where
  irrefl a := by simp [ratLt, Rat.lt_irrefl]
  trans a b c h1 h2 := by
    simp only [ratLt, decide_eq_true_eq] at *
    grind
  total a b hne := by
    simp only [ratLt, decide_eq_true_eq]
    grind

theorem blt_self (a : Nat) : Nat.blt a a = false := by
  cases h : Nat.blt a a with
  | false => rfl
  | true => rw [Nat.blt_eq] at h; omega

theorem natLt_strictTotal : StrictTotal (KOrd.lt (κ := Nat)) where
  irrefl a := blt_self a
  trans a b c h1 h2 := by
    simp only [KOrd.lt, Nat.blt_eq] at *
    omega
  total a b hne := by
    simp only [KOrd.lt, Nat.blt_eq]
    omega

theorem stringLt_strictTotal : StrictTotal (KOrd.lt (κ := String)) where
  irrefl a := by simp [KOrd.lt, String.lt_irrefl]
  trans a b c h1 h2 := by
    simp only [KOrd.lt, decide_eq_true_eq] at *
    exact String.lt_trans h1 h2
  total a b hne := by
    simp only [KOrd.lt, decide_eq_true_eq]
    apply Classical.byContradiction
    intro hcon
    have h1 : ¬ a < b := fun h => hcon (Or.inl h)
    have h2 : ¬ b < a := fun h => hcon (Or.inr h)
    exact hne (String.le_antisymm (String.not_lt.mp h2) (String.not_lt.mp h1))

section
variable {κ : Type} [KOrd κ]

theorem partLt_strictTotal (h : StrictTotal (KOrd.lt (κ := κ))) : StrictTotal (Part.lt (κ := κ)) where
  irrefl a := by
    cases a with
    | str s => simp [Part.lt, h.irrefl]
    | num q => simp [Part.lt, Rat.lt_irrefl]
  trans a b c h1 h2 := by
    cases a <;> cases b <;> cases c <;> simp only [Part.lt, decide_eq_true_eq] at * <;>
      first
        | exact h.trans _ _ _ h1 h2
        | (simp at *)
        | grind
  total a b hne := by
    cases a with
    | str s =>
      cases b with
      | str t =>
        have : s ≠ t := fun e => hne (by rw [e])
        simpa [Part.lt] using h.total s t this
      | num q => simp [Part.lt]
    | num p =>
      cases b with
      | str t => simp [Part.lt]
      | num q =>
        have : p ≠ q := fun e => hne (by rw [e])
        simp only [Part.lt, decide_eq_true_eq]
        grind

theorem partsLt_irrefl (h : StrictTotal (Part.lt (κ := κ))) : ∀ a : List (Part κ), partsLt a a = false
  | [] => rfl
  | x :: xs => by simp [partsLt, h.irrefl, partsLt_irrefl h xs]

theorem partsLt_trans (h : StrictTotal (Part.lt (κ := κ))) :
    ∀ a b c : List (Part κ), partsLt a b = true → partsLt b c = true → partsLt a c = true
  | [], [], _, h1, _ => by simp [partsLt] at h1
  | [], _ :: _, [], _, h2 => by simp [partsLt] at h2
  | [], _ :: _, _ :: _, _, _ => by simp [partsLt]
  | _ :: _, [], _, h1, _ => by simp [partsLt] at h1
  | _ :: _, _ :: _, [], _, h2 => by simp [partsLt] at h2
  | x :: xs, y :: ys, z :: zs, h1, h2 => by
    unfold partsLt at h1 h2 ⊢
    by_cases hxy : Part.lt x y = true
    · by_cases hyz : Part.lt y z = true
      · simp [h.trans _ _ _ hxy hyz]
      · simp only [hyz] at h2
        by_cases hzy : Part.lt z y = true
        · simp [hzy] at h2
        · have : y = z := by
            apply Classical.byContradiction; intro hne
            rcases h.total y z hne with h' | h' <;> simp_all
          subst this; simp [hxy]
    · simp only [hxy] at h1
      by_cases hyx : Part.lt y x = true
      · simp [hyx] at h1
      · have hxy' : x = y := by
          apply Classical.byContradiction; intro hne
          rcases h.total x y hne with h' | h' <;> simp_all
        subst hxy'
        simp only [hyx] at h1
        by_cases hxz : Part.lt x z = true
        · simp [hxz]
        · simp only [hxz] at h2 ⊢
          by_cases hzx : Part.lt z x = true
          · simp [hzx] at h2
          · simp only [hzx] at h2 ⊢
            simp at h1 h2 ⊢
            exact partsLt_trans h xs ys zs h1 h2

theorem partsLt_total (h : StrictTotal (Part.lt (κ := κ))) :
    ∀ a b : List (Part κ), a ≠ b → partsLt a b = true ∨ partsLt b a = true
  | [], [], hne => absurd rfl hne
  | [], _ :: _, _ => by simp [partsLt]
  | _ :: _, [], _ => by simp [partsLt]
  | x :: xs, y :: ys, hne => by
    unfold partsLt
    by_cases hxy : Part.lt x y = true
    · simp [hxy]
    · by_cases hyx : Part.lt y x = true
      · simp [hyx]
      · have hxy' : x = y := by
          apply Classical.byContradiction; intro hne'
          rcases h.total x y hne' with h' | h' <;> simp_all
        subst hxy'
        have : xs ≠ ys := fun e => hne (by rw [e])
        simp only [hxy, if_false]
        simpa using partsLt_total h xs ys this

theorem partsLt_strictTotal (h : StrictTotal (KOrd.lt (κ := κ))) : StrictTotal (partsLt (κ := κ)) :=
  let hp := partLt_strictTotal h
  ⟨partsLt_irrefl hp, partsLt_trans hp, partsLt_total hp⟩

theorem keyLt_strictTotal (h : StrictTotal (KOrd.lt (κ := κ))) : StrictTotal (Key.lt (κ := κ)) where
  irrefl a := by
    cases a with
    | str s => simp [Key.lt, h.irrefl]
    | num i => simp [Key.lt]
    | parts ps => simp [Key.lt, (partsLt_strictTotal h).irrefl]
    | unit => exact blt_self 3
  trans a b c h1 h2 := by
    cases a <;> cases b <;> cases c <;>
      simp only [Key.lt, Key.rank, Nat.blt_eq, decide_eq_true_eq] at * <;>
      first
        | exact h.trans _ _ _ h1 h2
        | exact (partsLt_strictTotal h).trans _ _ _ h1 h2
        | omega
  total a b hne := by
    cases a <;> cases b <;> simp only [Key.lt, Key.rank, Nat.blt_eq, decide_eq_true_eq] <;>
      first
        | omega
        | (rename_i s t
           have : s ≠ t := fun e => hne (by rw [e])
           first
             | exact h.total s t this
             | exact (partsLt_strictTotal h).total s t this
             | omega)
        | exact absurd rfl hne

end
end SL.Aggs
