import SLModel.Core.Aggs
/-!
# `merge_stats` is the monoid of (count, min, max, sum, Σ(x-mean)²)

The streaming/parallel Welford update of the code computes exactly the statistics of the
concatenated value list (`specStats`), over `Rat`.
-/
namespace SL.Aggs

theorem foldl_add (a : Rat) (l : List Rat) : l.foldl (· + ·) a = a + sumL l := by
  unfold sumL
  induction l generalizing a with
  | nil => simp only [List.foldl_nil]; grind
  | cons x xs ih =>
    simp only [List.foldl_cons]
    rw [ih (a + x), ih (0 + x)]
    grind

theorem sumL_cons (x : Rat) (l : List Rat) : sumL (x :: l) = x + sumL l := by
  show List.foldl (· + ·) (0 + x) l = x + sumL l
  rw [foldl_add]; grind

theorem sumL_append (xs ys : List Rat) : sumL (xs ++ ys) = sumL xs + sumL ys := by
  induction xs with
  | nil =>
    have h0 : sumL ([] : List Rat) = 0 := rfl
    rw [List.nil_append, h0]; grind
  | cons x xs ih => simp only [List.cons_append, sumL_cons, ih]; grind

theorem foldl_min (a x : Rat) (t : List Rat) : t.foldl min (min a x) = min a (t.foldl min x) := by
  induction t generalizing a x with
  | nil => rfl
  | cons y t ih =>
    simp only [List.foldl_cons]
    rw [ih (min a x) y, ih x y]
    grind

theorem foldl_max (a x : Rat) (t : List Rat) : t.foldl max (max a x) = max a (t.foldl max x) := by
  induction t generalizing a x with
  | nil => rfl
  | cons y t ih =>
    simp only [List.foldl_cons]
    have : max (max a x) y = max a (max x y) := by grind
    rw [this, ih a (max x y)]

theorem minL_append (x : Rat) (xs : List Rat) (y : Rat) (ys : List Rat) :
    minL x (xs ++ y :: ys) = min (minL x xs) (minL y ys) := by
  unfold minL
  rw [List.foldl_append, List.foldl_cons, foldl_min]

theorem maxL_append (x : Rat) (xs : List Rat) (y : Rat) (ys : List Rat) :
    maxL x (xs ++ y :: ys) = max (maxL x xs) (maxL y ys) := by
  unfold maxL
  rw [List.foldl_append, List.foldl_cons, foldl_max]

theorem specStats_single (v : Rat) : specStats [v] = Stats.single v := by
  simp only [specStats, Stats.single, minL, maxL, sumL, List.foldl_cons, List.foldl_nil, List.map,
    List.length_cons, List.length_nil]
  congr 1 <;> grind

/-- the m2 update is the textbook identity for pooled sums of squared deviations -/
theorem m2_identity (qa qb sa sb na nb : Rat) (ha : na ≠ 0) (hb : nb ≠ 0) (hab : na + nb ≠ 0) :
    (qa - sa * sa / na) + (qb - sb * sb / nb) +
      (sb / nb - sa / na) * (sb / nb - sa / na) * (na * nb / (na + nb)) =
    (qa + qb) - (sa + sb) * (sa + sb) / (na + nb) := by
  grind

theorem natCast_pos_ne (n : Nat) (h : n ≠ 0) : (n : Rat) ≠ 0 := by
  intro e
  have : ((n : Int) : Rat) = ((0 : Int) : Rat) := by simpa using e
  have := Rat.intCast_inj.mp this
  omega

/-- `merge_stats` of the statistics of two lists is the statistics of their concatenation -/
theorem mergeStats_spec (xs ys : List Rat) :
    mergeStats (specStats xs) (specStats ys) = specStats (xs ++ ys) := by
  cases xs with
  | nil => simp [mergeStats, specStats, Stats.zero]
  | cons x xs =>
    cases ys with
    | nil => simp [mergeStats, specStats, Stats.zero]
    | cons y ys =>
      have hna : ((xs.length + 1 : Nat) : Rat) ≠ 0 := natCast_pos_ne _ (by omega)
      have hnb : ((ys.length + 1 : Nat) : Rat) ≠ 0 := natCast_pos_ne _ (by omega)
      have hnab : ((xs.length + 1 : Nat) : Rat) + ((ys.length + 1 : Nat) : Rat) ≠ 0 := by
        have h := natCast_pos_ne ((xs.length + 1) + (ys.length + 1)) (by omega)
        intro e; apply h
        rw [← e]; simp [Rat.natCast_add]
      simp only [List.cons_append]
      simp only [specStats, mergeStats, List.length_cons, Nat.add_eq_zero_iff, Nat.succ_ne_zero,
        and_false, if_false, List.length_append]
      have hmin := minL_append x xs y ys
      have hmax := maxL_append x xs y ys
      have hsum : sumL (x :: (xs ++ y :: ys)) = sumL (x :: xs) + sumL (y :: ys) := by
        rw [← List.cons_append, sumL_append]
      have hsq : sumL ((x :: (xs ++ y :: ys)).map (fun v => v * v))
          = sumL ((x :: xs).map (fun v => v * v)) + sumL ((y :: ys).map (fun v => v * v)) := by
        rw [← List.cons_append, List.map_append, sumL_append]
      have hcount : ((xs.length + 1 + (ys.length + 1) : Nat) : Rat)
          = ((xs.length + 1 : Nat) : Rat) + ((ys.length + 1 : Nat) : Rat) := by
        simp [Rat.natCast_add]
      have hlen2 : ((xs.length + (ys.length + 1) + 1 : Nat) : Rat)
          = ((xs.length + 1 : Nat) : Rat) + ((ys.length + 1 : Nat) : Rat) := by
        have : xs.length + (ys.length + 1) + 1 = xs.length + 1 + (ys.length + 1) := by omega
        rw [this, hcount]
      congr 1
      · omega
      · exact hmin.symm
      · exact hmax.symm
      · exact hsum.symm
      · rw [hsq, hsum, hlen2, hcount]
        exact m2_identity _ _ _ _ _ _ hna hnb hnab

/-- the streaming collector computes the reference statistics -/
theorem collectStats_eq_spec (vals : List Rat) : collectStats vals = specStats vals := by
  have key : ∀ (l pre : List Rat),
      l.foldl (fun s v => mergeStats s (Stats.single v)) (specStats pre) = specStats (pre ++ l) := by
    intro l
    induction l with
    | nil => intro pre; simp
    | cons v t ih =>
      intro pre
      simp only [List.foldl_cons]
      rw [← specStats_single, mergeStats_spec, ih]
      simp
  have := key vals []
  simpa [collectStats, specStats] using this

theorem collectStats_append (xs ys : List Rat) :
    collectStats (xs ++ ys) = mergeStats (collectStats xs) (collectStats ys) := by
  rw [collectStats_eq_spec, collectStats_eq_spec, collectStats_eq_spec, mergeStats_spec]

theorem mergeStats_comm_of_pos (a b : Stats) (ha : a.count ≠ 0) (hb : b.count ≠ 0) :
    mergeStats a b = mergeStats b a := by
  unfold mergeStats
  simp only [ha, hb, if_false]
  have hc : ((a.count + b.count : Nat) : Rat) = ((b.count + a.count : Nat) : Rat) := by
    rw [Nat.add_comm]
  congr 1
  · omega
  · grind
  · grind
  · grind
  · rw [hc]; grind

/-- on the states that can arise (statistics of value lists) `merge_stats` is commutative -/
theorem mergeStats_comm_spec (xs ys : List Rat) :
    mergeStats (specStats xs) (specStats ys) = mergeStats (specStats ys) (specStats xs) := by
  cases xs with
  | nil => cases ys <;> simp [mergeStats, specStats, Stats.zero]
  | cons x xs =>
    cases ys with
    | nil => simp [mergeStats, specStats, Stats.zero]
    | cons y ys =>
      apply mergeStats_comm_of_pos <;> simp [specStats]

end SL.Aggs
