import SLModel.Core.Aggs
import SLModel.Lemmas.ISort
import SLModel.Lemmas.SMap
import SLModel.Lemmas.AggsTree
/-!
# Top-k of a union from the top-k's of the parts (top_hits with `from = 0`)

`T n l = (sortBy lt l).take n` for a strict total order: `T n (T n A ++ T n B) = T n (A ++ B)`.
Also: the sort key order of top_hits (`hitLt`) is a strict total order.
-/
namespace SL.Aggs
open SL.ISort (StrictTotal Sorted)

section
variable {α : Type} {lt : α → α → Bool}

theorem eq_of_not_lt' (hst : StrictTotal lt) {a b : α} (h1 : lt a b = false) (h2 : lt b a = false) :
    a = b := by
  apply Classical.byContradiction
  intro hne
  rcases hst.total a b hne with h | h
  · rw [h1] at h; exact absurd h (by simp)
  · rw [h2] at h; exact absurd h (by simp)

theorem take_sortIns_take (x : α) : ∀ (n : Nat) (l : List α),
    (sortIns lt x l).take n = (sortIns lt x (l.take n)).take n
  | 0, _ => by simp
  | n + 1, [] => by simp
  | n + 1, y :: ys => by
    simp only [List.take_succ_cons, sortIns]
    split
    · simp only [List.take_succ_cons]
      congr 1
      cases n with
      | zero => simp
      | succ m => simp [List.take_succ_cons, List.take_take]
    · simp only [List.take_succ_cons]
      congr 1
      exact take_sortIns_take x n ys

theorem sorted_sortBy (h : StrictTotal lt) (l : List α) : Sorted lt (sortBy lt l) := by
  rw [sortBy_eq]; exact SL.ISort.isort_sorted h l

theorem sortIns_of_sorted (h : StrictTotal lt) (x : α) : ∀ (l : List α), Sorted lt (x :: l) →
    sortIns lt x l = x :: l
  | [], _ => rfl
  | y :: ys, hs => by
    unfold Sorted at hs
    rw [List.pairwise_cons] at hs
    unfold sortIns
    by_cases hxy : lt x y = true
    · simp [hxy]
    · have hyx : lt y x = false := hs.1 y (by simp)
      have hxy' : lt x y = false := by simpa using hxy
      have e : x = y := eq_of_not_lt' h hxy' hyx
      subst e
      simp only [hxy']
      have : Sorted lt (x :: ys) := by
        unfold Sorted
        rw [List.pairwise_cons]
        exact ⟨fun z hz => hs.1 z (by simp [hz]), (List.pairwise_cons.mp hs.2).2⟩
      simp [sortIns_of_sorted h x ys this]

theorem sortBy_of_sorted (h : StrictTotal lt) : ∀ (l : List α), Sorted lt l → sortBy lt l = l
  | [], _ => rfl
  | x :: xs, hs => by
    have hxs : Sorted lt xs := by
      unfold Sorted at hs ⊢; exact (List.pairwise_cons.mp hs).2
    simp only [sortBy, sortBy_of_sorted h xs hxs]
    exact sortIns_of_sorted h x xs hs

theorem sorted_take (n : Nat) {l : List α} (hs : Sorted lt l) : Sorted lt (l.take n) := by
  unfold Sorted at *
  exact hs.sublist (List.take_sublist n l)

/-- the `n` best of a list -/
def topN (lt : α → α → Bool) (n : Nat) (l : List α) : List α := (sortBy lt l).take n

theorem topN_cons (n : Nat) (x : α) (l : List α) :
    topN lt n (x :: l) = (sortIns lt x (topN lt n l)).take n := by
  unfold topN
  simp only [sortBy]
  exact take_sortIns_take x n _

theorem topN_idem (h : StrictTotal lt) (n : Nat) (l : List α) :
    topN lt n (topN lt n l) = topN lt n l := by
  unfold topN
  rw [sortBy_of_sorted h _ (sorted_take n (sorted_sortBy h l)), List.take_take]
  simp

theorem topN_append_right (h : StrictTotal lt) (n : Nat) (a b : List α) :
    topN lt n (a ++ b) = topN lt n (a ++ topN lt n b) := by
  induction a with
  | nil => simp [topN_idem h]
  | cons x a ih => simp only [List.cons_append, topN_cons, ih]

theorem topN_perm (h : StrictTotal lt) (n : Nat) {a b : List α} (p : a.Perm b) :
    topN lt n a = topN lt n b := by
  unfold topN; rw [sortBy_perm h p]

/-- **top-k merge**: the best `n` of a union are the best `n` of the parts' best `n` -/
theorem topN_merge (h : StrictTotal lt) (n : Nat) (a b : List α) :
    topN lt n (topN lt n a ++ topN lt n b) = topN lt n (a ++ b) := by
  rw [← topN_append_right h n (topN lt n a) b,
    topN_perm h n (List.perm_append_comm (l₁ := topN lt n a) (l₂ := b)),
    ← topN_append_right h n b a, topN_perm h n (List.perm_append_comm (l₁ := b) (l₂ := a))]

end

/-! ### the order of top_hits -/

theorem svLt_strictTotal (d : Bool) : StrictTotal (svLt d) where
  irrefl a := by cases a <;> cases d <;> simp [svLt, Rat.lt_irrefl]
  trans a b c h1 h2 := by
    cases a <;> cases b <;> cases c <;> cases d <;> simp [svLt] at * <;> grind
  total a b hne := by
    cases a with
    | none =>
      cases b with
      | none => exact absurd rfl hne
      | some y => simp [svLt]
    | some x =>
      cases b with
      | none => simp [svLt]
      | some y =>
        have : x ≠ y := fun e => hne (by rw [e])
        cases d <;> simp [svLt] <;> grind

theorem keysLt_irrefl : ∀ (ds : List Bool) (a : List (Option Rat)), keysLt ds a a = false
  | _, [] => by simp [keysLt]
  | ds, x :: xs => by
    simp [keysLt, (svLt_strictTotal (headDir ds)).irrefl, keysLt_irrefl ds.tail xs]

theorem keysLt_trans : ∀ (ds : List Bool) (a b c : List (Option Rat)),
    keysLt ds a b = true → keysLt ds b c = true → keysLt ds a c = true
  | _, [], [], _, h1, _ => by simp [keysLt] at h1
  | _, [], _ :: _, [], _, h2 => by simp [keysLt] at h2
  | _, [], _ :: _, _ :: _, _, _ => by simp [keysLt]
  | _, _ :: _, [], _, h1, _ => by simp [keysLt] at h1
  | _, _ :: _, _ :: _, [], _, h2 => by simp [keysLt] at h2
  | ds, x :: xs, y :: ys, z :: zs, h1, h2 => by
    have h := svLt_strictTotal (headDir ds)
    unfold keysLt at h1 h2 ⊢
    by_cases hxy : svLt (headDir ds) x y = true
    · by_cases hyz : svLt (headDir ds) y z = true
      · simp [h.trans _ _ _ hxy hyz]
      · simp only [hyz] at h2
        by_cases hzy : svLt (headDir ds) z y = true
        · simp [hzy] at h2
        · have : y = z := by
            apply Classical.byContradiction; intro hne
            rcases h.total y z hne with h' | h' <;> simp_all
          subst this; simp [hxy]
    · simp only [hxy] at h1
      by_cases hyx : svLt (headDir ds) y x = true
      · simp [hyx] at h1
      · have hxy' : x = y := by
          apply Classical.byContradiction; intro hne
          rcases h.total x y hne with h' | h' <;> simp_all
        subst hxy'
        simp only [hyx] at h1
        by_cases hxz : svLt (headDir ds) x z = true
        · simp [hxz]
        · simp only [hxz] at h2 ⊢
          by_cases hzx : svLt (headDir ds) z x = true
          · simp [hzx] at h2
          · simp only [hzx] at h2 ⊢
            simp at h1 h2 ⊢
            exact keysLt_trans ds.tail xs ys zs h1 h2

theorem keysLt_total : ∀ (ds : List Bool) (a b : List (Option Rat)), a ≠ b →
    keysLt ds a b = true ∨ keysLt ds b a = true
  | _, [], [], hne => absurd rfl hne
  | _, [], _ :: _, _ => by simp [keysLt]
  | _, _ :: _, [], _ => by simp [keysLt]
  | ds, x :: xs, y :: ys, hne => by
    have h := svLt_strictTotal (headDir ds)
    unfold keysLt
    by_cases hxy : svLt (headDir ds) x y = true
    · simp [hxy]
    · by_cases hyx : svLt (headDir ds) y x = true
      · simp [hyx]
      · have hxy' : x = y := by
          apply Classical.byContradiction; intro hne'
          rcases h.total x y hne' with h' | h' <;> simp_all
        subst hxy'
        have : xs ≠ ys := fun e => hne (by rw [e])
        simp only [hxy]
        simpa using keysLt_total ds.tail xs ys this

theorem keysLt_strictTotal (ds : List Bool) : StrictTotal (keysLt ds) :=
  ⟨keysLt_irrefl ds, keysLt_trans ds, keysLt_total ds⟩

/-- `SortKey::cmp` is a strict total order on (key parts, index position) -/
theorem hitLt_strictTotal (ds : List Bool) : StrictTotal (hitLt ds) where
  irrefl a := by simp [hitLt, keysLt_irrefl]
  trans a b c h1 h2 := by
    have hk := keysLt_strictTotal ds
    obtain ⟨ka, ia⟩ := a; obtain ⟨kb, ib⟩ := b; obtain ⟨kc, ic⟩ := c
    simp only [hitLt, Bool.or_eq_true, Bool.and_eq_true, Bool.not_eq_true', decide_eq_true_eq] at *
    rcases h1 with h1 | ⟨h1, h1'⟩ <;> rcases h2 with h2 | ⟨h2, h2'⟩
    · exact Or.inl (hk.trans _ _ _ h1 h2)
    · -- ka < kb, kb ≤ kc (not kc < kb): kb = kc or kb < kc
      by_cases hbc : keysLt ds kb kc = true
      · exact Or.inl (hk.trans _ _ _ h1 hbc)
      · have : kb = kc := eq_of_not_lt' hk (by simpa using hbc) h2
        subst this; exact Or.inl h1
    · by_cases hab : keysLt ds ka kb = true
      · exact Or.inl (hk.trans _ _ _ hab h2)
      · have : ka = kb := eq_of_not_lt' hk (by simpa using hab) h1
        subst this; exact Or.inl h2
    · by_cases hab : keysLt ds ka kb = true
      · by_cases hbc : keysLt ds kb kc = true
        · exact Or.inl (hk.trans _ _ _ hab hbc)
        · have : kb = kc := eq_of_not_lt' hk (by simpa using hbc) h2
          subst this; exact Or.inl hab
      · have e1 : ka = kb := eq_of_not_lt' hk (by simpa using hab) h1
        subst e1
        by_cases hbc : keysLt ds ka kc = true
        · exact Or.inl hbc
        · have e2 : ka = kc := eq_of_not_lt' hk (by simpa using hbc) h2
          subst e2
          exact Or.inr ⟨h1, by omega⟩
  total a b hne := by
    have hk := keysLt_strictTotal ds
    obtain ⟨ka, ia⟩ := a; obtain ⟨kb, ib⟩ := b
    simp only [hitLt, Bool.or_eq_true, Bool.and_eq_true, Bool.not_eq_true', decide_eq_true_eq]
    by_cases hab : keysLt ds ka kb = true
    · exact Or.inl (Or.inl hab)
    · by_cases hba : keysLt ds kb ka = true
      · exact Or.inr (Or.inl hba)
      · have e : ka = kb := eq_of_not_lt' hk (by simpa using hab) (by simpa using hba)
        subst e
        have hi : ia ≠ ib := fun e => hne (by rw [e])
        have hirr := keysLt_irrefl ds ka
        rcases Nat.lt_or_gt_of_ne hi with h | h
        · exact Or.inl (Or.inr ⟨hirr, h⟩)
        · exact Or.inr (Or.inr ⟨hirr, h⟩)

section
variable {φ κ : Type}

/-- what `finish()` / `merge_top_hits` keep is the `from + size` best hits -/
theorem hitsKeep_eq (dirs : List Bool) (size fromN : Nat) (hs : List (List (Option Rat) × Nat)) :
    hitsKeep dirs size fromN hs = topN (hitLt dirs) (hitsLimit size fromN) hs := rfl

/-- cutting the `from`/`size` window out of the kept hits = cutting it out of the full ranking -/
theorem window_of_topN {α : Type} (lt : α → α → Bool) (size fromN : Nat) (l : List α) :
    ((topN lt (hitsLimit size fromN) l).drop fromN).take size =
      ((sortBy lt l).drop fromN).take size := by
  unfold topN hitsLimit
  rw [List.drop_take, List.take_take]
  congr 1
  omega

end

end SL.Aggs
