import SLModel.Core.Aggs
import SLModel.Lemmas.ISort
import SLModel.Lemmas.SMap
import SLModel.Lemmas.AggsOrder
import SLModel.Lemmas.AggsStats
import SLModel.Lemmas.AggsBuckets
/-!
# Helper lemmas for the induction over the aggregation tree (C12)
-/
namespace SL.Aggs
open SL.ISort (StrictTotal)

section
variable {φ κ : Type}

/-- the doc-count floor of `finish()` (rare_terms keeps `doc_count > 0`; nothing else filters) -/
def BSpec.minOf : BSpec φ κ → Nat
  | .rare _ _ _ => 1
  | _ => 0

theorem BSpec.minOf_le (b : BSpec φ κ) : b.minOf ≤ 1 := by
  cases b <;> simp [BSpec.minOf]

variable [KOrd κ] [DecidableEq κ]
set_option linter.unusedSectionVars false

theorem finishSeg_eq (b : BSpec φ κ) (bs : Buckets κ) :
    finishSeg b bs = bs.filter (keepMin b.minOf) := by
  cases b with
  | rare _ _ _ => rfl
  | terms _ _ _ _ => simp only [finishSeg, BSpec.minOf]; exact (filter_keepMin_zero bs).symm
  | range _ _ _ => simp only [finishSeg, BSpec.minOf]; exact (filter_keepMin_zero bs).symm
  | hist _ _ _ _ _ _ _ => simp only [finishSeg, BSpec.minOf]; exact (filter_keepMin_zero bs).symm
  | dhist _ _ _ _ _ _ _ => simp only [finishSeg, BSpec.minOf]; exact (filter_keepMin_zero bs).symm
  | filter _ => simp only [finishSeg, BSpec.minOf]; exact (filter_keepMin_zero bs).symm
  | composite _ _ _ => simp only [finishSeg, BSpec.minOf]; exact (filter_keepMin_zero bs).symm

/-! ### insertion sort facts -/

theorem sortIns_eq {α : Type} (lt : α → α → Bool) (x : α) (l : List α) :
    sortIns lt x l = SL.ISort.ins lt x l := by
  induction l with
  | nil => rfl
  | cons y ys ih => simp [sortIns, SL.ISort.ins, ih]

theorem sortBy_eq {α : Type} (lt : α → α → Bool) (l : List α) :
    sortBy lt l = SL.ISort.isort lt l := by
  induction l with
  | nil => rfl
  | cons x xs ih => simp [sortBy, SL.ISort.isort, ih, sortIns_eq]

theorem perm_sortIns {α : Type} (lt : α → α → Bool) (x : α) (l : List α) :
    (sortIns lt x l).Perm (x :: l) := by
  induction l with
  | nil => simp [sortIns]
  | cons y ys ih =>
    unfold sortIns
    split
    · exact List.Perm.refl _
    · exact ((List.Perm.cons y ih).trans (List.Perm.swap x y ys))

theorem perm_sortBy {α : Type} (lt : α → α → Bool) (l : List α) : (sortBy lt l).Perm l := by
  induction l with
  | nil => exact List.Perm.refl _
  | cons x xs ih => exact (perm_sortIns lt x _).trans (List.Perm.cons x ih)

theorem sortBy_perm {α : Type} {lt : α → α → Bool} (h : StrictTotal lt) {l₁ l₂ : List α}
    (p : l₁.Perm l₂) : sortBy lt l₁ = sortBy lt l₂ := by
  rw [sortBy_eq, sortBy_eq]; exact SL.ISort.isort_perm h p

/-- sorting commutes with a map that the comparison does not see -/
theorem sortIns_map {α β : Type} (lt : α → α → Bool) (lt' : β → β → Bool) (g : α → β)
    (hg : ∀ a b, lt' (g a) (g b) = lt a b) (x : α) (l : List α) :
    sortIns lt' (g x) (l.map g) = (sortIns lt x l).map g := by
  induction l with
  | nil => rfl
  | cons y ys ih =>
    simp only [List.map_cons, sortIns, hg]
    split <;> simp [ih]

theorem sortBy_map {α β : Type} (lt : α → α → Bool) (lt' : β → β → Bool) (g : α → β)
    (hg : ∀ a b, lt' (g a) (g b) = lt a b) (l : List α) :
    sortBy lt' (l.map g) = (sortBy lt l).map g := by
  induction l with
  | nil => rfl
  | cons x xs ih => simp only [List.map_cons, sortBy, ih, sortIns_map lt lt' g hg]

/-! ### children lists -/

theorem mergeList_nil_nil (subs : Aggs φ κ) : mergeList subs [] [] = [] := by
  cases subs <;> simp [mergeList]

theorem mergeList_nil_left (subs : Aggs φ κ) (Y : List (Doc φ κ)) :
    mergeList subs [] (collectList subs Y) = collectList subs Y := by
  cases subs <;> simp [mergeList, collectList]

theorem mergeList_nil_right (subs : Aggs φ κ) (X : List (Doc φ κ)) :
    mergeList subs (collectList subs X) [] = collectList subs X := by
  cases subs <;> simp [mergeList, collectList]

/-- apply `g` to the children of every bucket -/
def onChildren (g : List (Node κ) → List (Node κ)) (x : Key κ × Nat × List (Node κ)) :
    Key κ × Nat × List (Node κ) := (x.1, x.2.1, g x.2.2)

theorem rawBuckets_map (b : BSpec φ κ) (C : List (Doc φ κ) → List (Node κ))
    (g : List (Node κ) → List (Node κ)) (hg : g [] = []) (docs : List (Doc φ κ)) :
    (rawBuckets b C docs).map (onChildren g) = rawBuckets b (fun d => g (C d)) docs := by
  unfold rawBuckets
  rw [List.map_map]
  apply List.map_congr_left
  intro kv _
  simp only [Function.comp, onChildren, bucketOf]
  split <;> simp_all

theorem rawBuckets_congr (b : BSpec φ κ) (C C' : List (Doc φ κ) → List (Node κ))
    (h : ∀ d, C d = C' d) (docs : List (Doc φ κ)) : rawBuckets b C docs = rawBuckets b C' docs := by
  have : C = C' := funext h
  rw [this]

/-! ### presentation commutes with a map on the children -/

theorem termsLt_onChildren (g : List (Node κ) → List (Node κ)) (x y : Key κ × Nat × List (Node κ)) :
    termsLt (onChildren g x) (onChildren g y) = termsLt x y := rfl

theorem rareLt_onChildren (g : List (Node κ) → List (Node κ)) (x y : Key κ × Nat × List (Node κ)) :
    rareLt (onChildren g x) (onChildren g y) = rareLt x y := rfl

theorem truncate_map {α β : Type} (g : α → β) (size : Option Nat) (l : List α) :
    truncate size (l.map g) = (truncate size l).map g := by
  cases size <;> simp [truncate, List.map_take]

theorem filter_onChildren (g : List (Node κ) → List (Node κ))
    (p : Key κ × Nat × List (Node κ) → Bool) (hp : ∀ x, p (onChildren g x) = p x) (bs : Buckets κ) :
    (bs.map (onChildren g)).filter p = (bs.filter p).map (onChildren g) := by
  rw [List.filter_map]
  congr 1
  apply List.filter_congr
  intro x _
  exact hp x

theorem afterFilter_map (g : List (Node κ) → List (Node κ)) (after : Option (List (Part κ)))
    (bs : Buckets κ) :
    afterFilter after (bs.map (onChildren g)) = (afterFilter after bs).map (onChildren g) := by
  cases after with
  | none => rfl
  | some a => exact filter_onChildren g _ (fun _ => rfl) bs

theorem finalPost_map (b : BSpec φ κ) (g : List (Node κ) → List (Node κ)) (bs : Buckets κ) :
    finalPost b (bs.map (onChildren g)) =
      ((finalPost b bs).1.map (onChildren g), (finalPost b bs).2) := by
  cases b with
  | terms f size minDoc missing =>
    simp only [finalPost]
    rw [filter_onChildren g _ (fun _ => rfl), sortBy_map termsLt termsLt (onChildren g)
      (termsLt_onChildren g), truncate_map]
  | rare f maxDoc size =>
    simp only [finalPost]
    rw [filter_onChildren g _ (fun _ => rfl), sortBy_map rareLt rareLt (onChildren g)
      (rareLt_onChildren g), truncate_map]
  | hist _ _ _ _ _ _ _ =>
    simp only [finalPost]
    rw [filter_onChildren g _ (fun _ => rfl)]
  | dhist _ _ _ _ _ _ _ =>
    simp only [finalPost]
    rw [filter_onChildren g _ (fun _ => rfl)]
  | range _ _ _ => simp [finalPost]
  | filter _ => simp [finalPost]
  | composite srcs size after =>
    simp only [finalPost, afterFilter_map, List.length_map]
    split
    · have e : List.take size (List.map (onChildren g) (afterFilter after bs)) =
          List.map (onChildren g) (List.take size (afterFilter after bs)) := by
        simp [List.map_take]
      rw [e, List.getLast?_map, Option.map_map]
      rfl
    · rfl

/-- `finalize_response` sees through the `doc_count > 0` filter of `RareTermsCollector::finish` -/
theorem finalPost_finishSeg (b : BSpec φ κ) (bs : Buckets κ) :
    finalPost b (finishSeg b bs) = finalPost b bs := by
  cases b with
  | rare f maxDoc size =>
    simp only [finalPost, finishSeg, List.filter_filter]
    congr 3
    apply List.filter_congr
    intro x _
    by_cases h : 0 < x.2.1 <;> simp [h] <;> omega
  | _ => rfl

end
end SL.Aggs
