import SLModel.Core.Aggs
import SLModel.Lemmas.ISort
import SLModel.Lemmas.SMap
import SLModel.Lemmas.AggsOrder
import SLModel.Lemmas.AggsStats
import SLModel.Lemmas.AggsBuckets
/-!
# Helper lemmas for the induction over the aggregation tree (C12)
-/
namespace SL.Aggs
open SL.ISort (StrictTotal)

section
variable {φ κ : Type}

/-! ### which requests never lose information before the merge -/

def DInterval.isFixed : DInterval → Bool
  | .fixed _ => true
  | .calendar _ => false

def DInterval.isQuarter : DInterval → Bool
  | .calendar .quarter => true
  | _ => false

theorem dateBucket_strict_irrelevant {iv : DInterval} (h : iv.isQuarter = false) (s1 s2 : Bool)
    (off v : Int) : dateBucket s1 iv off v = dateBucket s2 iv off v := by
  cases iv with
  | fixed step => rfl
  | calendar u => cases u <;> first | rfl | simp [DInterval.isQuarter] at h

def CSrc.isF64 : CSrc φ → Bool
  | .terms _ => true
  | .hist _ _ c => c

/-- the per-segment thresholds of the node cannot drop anything that the thresholds applied to
the merged counts would keep: no terms `size`, `min_doc_count ≤ 1`, no rare_terms, composite
histogram sources over f64 columns only -/
def BSpec.safe : BSpec φ κ → Bool
  | .terms _ size minDoc _ => size.isNone && decide (minDoc ≤ 1)
  | .rare _ _ _ => false
  | .hist _ _ _ minDoc _ _ _ => decide (minDoc ≤ 1)
  | .dhist _ iv offset minDoc ext hard _ ideal =>
    decide (minDoc ≤ 1) &&
      (ideal || ((decide (offset = 0) || iv.isFixed || (ext.or hard).isNone) && !iv.isQuarter))
  | .composite srcs _ _ => srcs.all CSrc.isF64
  | _ => true

mutual
def Agg.safe : Agg φ κ → Bool
  | .bucket b subs => b.safe && subs.safe
  | .topHits _ fromN _ => decide (fromN = 0)
  | _ => true
def Aggs.safe : Aggs φ κ → Bool
  | .nil => true
  | .cons a r => a.safe && r.safe
end

/-- the `min_doc_count` in force at a node (0 where the kind has none) -/
def BSpec.minOf : BSpec φ κ → Nat
  | .terms _ _ minDoc _ => minDoc
  | .hist _ _ _ minDoc _ _ _ => minDoc
  | .dhist _ _ _ minDoc _ _ _ _ => minDoc
  | _ => 0

theorem BSpec.minOf_le {b : BSpec φ κ} (hs : b.safe = true) : b.minOf ≤ 1 := by
  cases b <;> simp_all [BSpec.safe, BSpec.minOf]

theorem CSrc.ideal_of_isF64 {s : CSrc φ} (h : s.isF64 = true) : s.ideal = s := by
  cases s with
  | terms f => rfl
  | hist f i c => simp [CSrc.isF64] at h; subst h; rfl

theorem BSpec.ideal_of_safe {b : BSpec φ κ} (hs : b.safe = true)
    (hd : ∀ f iv o m e h mi a, b ≠ .dhist f iv o m e h mi a) : b.ideal = b := by
  cases b with
  | composite srcs size after =>
    simp only [BSpec.safe, List.all_eq_true] at hs
    simp only [BSpec.ideal]
    congr 1
    conv => rhs; rw [← List.map_id srcs]
    apply List.map_congr_left
    intro s hsrc
    exact CSrc.ideal_of_isF64 (hs s hsrc)
  | dhist f iv o m e h mi a => exact absurd rfl (hd f iv o m e h mi a)
  | _ => rfl

theorem fillFrom_congr (n1 n2 : Int → Int) (hn : ∀ x, n1 x = n2 x) (cur hi : Int) (fuel : Nat) :
    fillFrom n1 cur hi fuel = fillFrom n2 cur hi fuel := by
  have : n1 = n2 := funext hn
  rw [this]

variable [KOrd κ] [DecidableEq κ]
set_option linter.unusedSectionVars false

theorem finishSeg_safe {b : BSpec φ κ} (hs : b.safe = true) (bs : Buckets κ) :
    finishSeg b bs = bs.filter (keepMin b.minOf) := by
  cases b with
  | terms f size minDoc missing =>
    simp only [BSpec.safe, Bool.and_eq_true, Option.isNone_iff_eq_none] at hs
    obtain ⟨rfl, _⟩ := hs
    simp only [finishSeg, keepTop, BSpec.minOf]; rfl
  | rare _ _ _ => simp [BSpec.safe] at hs
  | hist _ _ _ _ _ _ _ => simp only [finishSeg, BSpec.minOf]; rfl
  | dhist _ _ _ _ _ _ _ _ => simp only [finishSeg, BSpec.minOf]; rfl
  | range _ _ _ => simp only [finishSeg, BSpec.minOf]; exact (filter_keepMin_zero bs).symm
  | filter _ => simp only [finishSeg, BSpec.minOf]; exact (filter_keepMin_zero bs).symm
  | composite _ _ _ => simp only [finishSeg, BSpec.minOf]; exact (filter_keepMin_zero bs).symm

theorem mergePost_safe {b : BSpec φ κ} (hs : b.safe = true) (bs : Buckets κ) :
    mergePost b bs = bs := by
  cases b <;> simp_all [mergePost, BSpec.safe]

/-! ### insertion sort facts -/

theorem sortIns_eq {α : Type} (lt : α → α → Bool) (x : α) (l : List α) :
    sortIns lt x l = SL.ISort.ins lt x l := by
  induction l with
  | nil => rfl
  | cons y ys ih => simp [sortIns, SL.ISort.ins, ih]

theorem sortBy_eq {α : Type} (lt : α → α → Bool) (l : List α) :
    sortBy lt l = SL.ISort.isort lt l := by
  induction l with
  | nil => rfl
  | cons x xs ih => simp [sortBy, SL.ISort.isort, ih, sortIns_eq]

theorem perm_sortIns {α : Type} (lt : α → α → Bool) (x : α) (l : List α) :
    (sortIns lt x l).Perm (x :: l) := by
  induction l with
  | nil => simp [sortIns]
  | cons y ys ih =>
    unfold sortIns
    split
    · exact List.Perm.refl _
    · exact ((List.Perm.cons y ih).trans (List.Perm.swap x y ys))

theorem perm_sortBy {α : Type} (lt : α → α → Bool) (l : List α) : (sortBy lt l).Perm l := by
  induction l with
  | nil => exact List.Perm.refl _
  | cons x xs ih => exact (perm_sortIns lt x _).trans (List.Perm.cons x ih)

theorem sortBy_perm {α : Type} {lt : α → α → Bool} (h : StrictTotal lt) {l₁ l₂ : List α}
    (p : l₁.Perm l₂) : sortBy lt l₁ = sortBy lt l₂ := by
  rw [sortBy_eq, sortBy_eq]; exact SL.ISort.isort_perm h p

/-- sorting commutes with a map that the comparison does not see -/
theorem sortIns_map {α β : Type} (lt : α → α → Bool) (lt' : β → β → Bool) (g : α → β)
    (hg : ∀ a b, lt' (g a) (g b) = lt a b) (x : α) (l : List α) :
    sortIns lt' (g x) (l.map g) = (sortIns lt x l).map g := by
  induction l with
  | nil => rfl
  | cons y ys ih =>
    simp only [List.map_cons, sortIns, hg]
    split <;> simp [ih]

theorem sortBy_map {α β : Type} (lt : α → α → Bool) (lt' : β → β → Bool) (g : α → β)
    (hg : ∀ a b, lt' (g a) (g b) = lt a b) (l : List α) :
    sortBy lt' (l.map g) = (sortBy lt l).map g := by
  induction l with
  | nil => rfl
  | cons x xs ih => simp only [List.map_cons, sortBy, ih, sortIns_map lt lt' g hg]

/-! ### children lists -/

theorem mergeList_nil_nil (subs : Aggs φ κ) : mergeList subs [] [] = [] := by
  cases subs <;> simp [mergeList]

theorem mergeList_nil_left (subs : Aggs φ κ) (Y : List (Doc φ κ)) :
    mergeList subs [] (collectList subs Y) = collectList subs Y := by
  cases subs <;> simp [mergeList, collectList]

theorem mergeList_nil_right (subs : Aggs φ κ) (X : List (Doc φ κ)) :
    mergeList subs (collectList subs X) [] = collectList subs X := by
  cases subs <;> simp [mergeList, collectList]

/-- apply `g` to the children of every bucket -/
def onChildren (g : List (Node κ) → List (Node κ)) (x : Key κ × Nat × List (Node κ)) :
    Key κ × Nat × List (Node κ) := (x.1, x.2.1, g x.2.2)

theorem rawBuckets_map (b : BSpec φ κ) (C : List (Doc φ κ) → List (Node κ))
    (g : List (Node κ) → List (Node κ)) (hg : g [] = []) (docs : List (Doc φ κ)) :
    (rawBuckets b C docs).map (onChildren g) = rawBuckets b (fun d => g (C d)) docs := by
  unfold rawBuckets
  rw [List.map_map]
  apply List.map_congr_left
  intro kv _
  simp only [Function.comp, onChildren, bucketOf]
  split <;> simp_all

theorem rawBuckets_congr (b : BSpec φ κ) (C C' : List (Doc φ κ) → List (Node κ))
    (h : ∀ d, C d = C' d) (docs : List (Doc φ κ)) : rawBuckets b C docs = rawBuckets b C' docs := by
  have : C = C' := funext h
  rw [this]

theorem rawBuckets_congr_spec (b b' : BSpec φ κ) (hk : keysOf b = keysOf b')
    (he : extraKeys b = extraKeys b') (hg : eager b = eager b')
    (C : List (Doc φ κ) → List (Node κ)) (docs : List (Doc φ κ)) :
    rawBuckets b C docs = rawBuckets b' C docs := by
  unfold rawBuckets bucketOf inB
  rw [hk, he, hg]

/-- on a safe request the reference reads the same buckets as the mechanism -/
theorem rawBuckets_ideal {b : BSpec φ κ} (hs : b.safe = true)
    (C : List (Doc φ κ) → List (Node κ)) (docs : List (Doc φ κ)) :
    rawBuckets b.ideal C docs = rawBuckets b C docs := by
  cases b with
  | dhist f iv o m e h mi a =>
    simp only [BSpec.safe, Bool.and_eq_true, Bool.or_eq_true, decide_eq_true_eq,
      Bool.not_eq_true'] at hs
    obtain ⟨_, hs⟩ := hs
    rcases hs with ha | ⟨hs, hq⟩
    · subst ha; rfl
    · apply rawBuckets_congr_spec
      · funext d
        have e1 : (fun v => (dateBucket (!true) iv o v).map (Key.num (κ := κ))) =
            (fun v => (dateBucket (!a) iv o v).map (Key.num (κ := κ))) := by
          funext v; rw [dateBucket_strict_irrelevant hq (!true) (!a)]
        simp only [BSpec.ideal, keysOf]
        rw [e1]
      · simp only [extraKeys, BSpec.ideal]
        cases hb : e.or h with
        | none => rfl
        | some lh =>
          obtain ⟨lo, hi⟩ := lh
          simp only
          rw [dateBucket_strict_irrelevant hq (!true) (!a) o lo,
            dateBucket_strict_irrelevant hq (!true) (!a) o hi]
          split
          · congr 1
            apply fillFrom_congr
            intro x
            rcases hs with (ho | hf) | hn
            · subst ho; cases a <;> simp [fillStep]
            · cases iv with
              | fixed step => cases a <;> simp [fillStep, addInterval] <;> omega
              | calendar u => simp [DInterval.isFixed] at hf
            · rw [hb] at hn; simp at hn
          · rfl
      · rfl
  | terms _ _ _ _ => rfl
  | rare _ _ _ => rfl
  | range _ _ _ => rfl
  | hist _ _ _ _ _ _ _ => rfl
  | filter _ => rfl
  | composite srcs size after =>
    rw [BSpec.ideal_of_safe hs (by intros; simp)]

/-! ### presentation commutes with a map on the children -/

theorem termsLt_onChildren (g : List (Node κ) → List (Node κ)) (x y : Key κ × Nat × List (Node κ)) :
    termsLt (onChildren g x) (onChildren g y) = termsLt x y := rfl

theorem rareLt_onChildren (g : List (Node κ) → List (Node κ)) (x y : Key κ × Nat × List (Node κ)) :
    rareLt (onChildren g x) (onChildren g y) = rareLt x y := rfl

theorem truncate_map {α β : Type} (g : α → β) (size : Option Nat) (l : List α) :
    truncate size (l.map g) = (truncate size l).map g := by
  cases size <;> simp [truncate, List.map_take]

theorem filter_onChildren (g : List (Node κ) → List (Node κ))
    (p : Key κ × Nat × List (Node κ) → Bool) (hp : ∀ x, p (onChildren g x) = p x) (bs : Buckets κ) :
    (bs.map (onChildren g)).filter p = (bs.filter p).map (onChildren g) := by
  rw [List.filter_map]
  congr 1
  apply List.filter_congr
  intro x _
  exact hp x

theorem afterFilter_map (g : List (Node κ) → List (Node κ)) (after : Option (List (Part κ)))
    (bs : Buckets κ) :
    afterFilter after (bs.map (onChildren g)) = (afterFilter after bs).map (onChildren g) := by
  cases after with
  | none => rfl
  | some a => exact filter_onChildren g _ (fun _ => rfl) bs

theorem specPost_map (b : BSpec φ κ) (g : List (Node κ) → List (Node κ)) (bs : Buckets κ) :
    specPost b (bs.map (onChildren g)) =
      ((specPost b bs).1.map (onChildren g), (specPost b bs).2) := by
  cases b with
  | terms f size minDoc missing =>
    simp only [specPost]
    rw [filter_onChildren g _ (fun _ => rfl), sortBy_map termsLt termsLt (onChildren g)
      (termsLt_onChildren g), truncate_map]
  | rare f maxDoc size =>
    simp only [specPost]
    rw [filter_onChildren g _ (fun _ => rfl), sortBy_map rareLt rareLt (onChildren g)
      (rareLt_onChildren g), truncate_map]
  | hist _ _ _ _ _ _ _ =>
    simp only [specPost]
    rw [filter_onChildren g _ (fun _ => rfl)]
  | dhist _ _ _ _ _ _ _ _ =>
    simp only [specPost]
    rw [filter_onChildren g _ (fun _ => rfl)]
  | range _ _ _ => simp [specPost, finalPost]
  | filter _ => simp [specPost, finalPost]
  | composite srcs size after =>
    simp only [specPost, finalPost, afterFilter_map, List.length_map]
    split
    · have e : List.take size (List.map (onChildren g) (afterFilter after bs)) =
          List.map (onChildren g) (List.take size (afterFilter after bs)) := by
        simp [List.map_take]
      rw [e, List.getLast?_map, Option.map_map]
      rfl
    · rfl

end
end SL.Aggs
