import SLModel.Core.Sort
import SLModel.Lemmas.ISort
/-!
# Lemmas/BTop — bounded top-K selection over a strict total order

For the generic machinery of `Core/Sort` (`ins`, `isort`, `pushRanked`, `pushAll`, `heapSearch`,
`fastSearch`): a bounded heap fed with all elements, and per-group top-K followed by a merge,
both return the `limit`-prefix of the fully sorted list (`specSearch`) when `limit ≤ K`.
Core Lean only.
-/
set_option linter.unusedSimpArgs false
namespace SL.Sort
open SL.ISort (StrictTotal Sorted)

section
variable {α : Type} {lt : α → α → Bool}

theorem ins_eq (x : α) (l : List α) : ins lt x l = SL.ISort.ins lt x l := by
  induction l with
  | nil => rfl
  | cons y ys ih => simp [ins, SL.ISort.ins, ih]

theorem isort_eq (l : List α) : isort lt l = SL.ISort.isort lt l := by
  induction l with
  | nil => rfl
  | cons y ys ih => simp [isort, SL.ISort.isort, ins_eq, ih]

theorem ins_length (x : α) (l : List α) : (ins lt x l).length = l.length + 1 := by
  induction l with
  | nil => simp [ins]
  | cons y ys ih => unfold ins; split <;> simp [ih]

theorem isort_sorted' (h : StrictTotal lt) (l : List α) : Sorted lt (isort lt l) := by
  rw [isort_eq]; exact SL.ISort.isort_sorted h l

theorem isort_perm' (h : StrictTotal lt) {l₁ l₂ : List α} (p : l₁.Perm l₂) :
    isort lt l₁ = isort lt l₂ := by
  rw [isort_eq, isort_eq]; exact SL.ISort.isort_perm h p

theorem take_ins_take (x : α) : ∀ (k : Nat) (S : List α),
    (ins lt x S).take k = (ins lt x (S.take k)).take k := by
  intro k S
  induction S generalizing k with
  | nil => simp
  | cons y ys ih =>
    cases k with
    | zero => simp
    | succ k =>
      simp only [List.take_succ_cons]
      unfold ins
      split
      · simp only [List.take_succ_cons]
        cases k with
        | zero => simp
        | succ k => simp [List.take_take]
      · simp only [List.take_succ_cons]
        rw [ih k]

/-- the `k` first elements in comparator order -/
def topk (lt : α → α → Bool) (k : Nat) (l : List α) : List α := (isort lt l).take k

theorem topk_cons (k : Nat) (x : α) (l : List α) :
    topk lt k (x :: l) = (ins lt x (topk lt k l)).take k :=
  take_ins_take x k (isort lt l)

/-- an element that is not before any element of `H` goes to the end -/
theorem ins_worse (x : α) (H : List α) (h : ∀ y ∈ H, lt x y = false) : ins lt x H = H ++ [x] := by
  induction H with
  | nil => simp [ins]
  | cons y ys ih =>
    unfold ins
    simp only [h y (by simp)]
    simp [ih (fun z hz => h z (by simp [hz]))]

theorem ins_of_sorted_cons (h : StrictTotal lt) (x : α) : ∀ l : List α, Sorted lt (x :: l) →
    ins lt x l = x :: l := by
  intro l
  induction l with
  | nil => intro _; rfl
  | cons y ys ih =>
    intro hs
    unfold Sorted at hs
    rw [List.pairwise_cons] at hs
    unfold ins
    by_cases hxy : lt x y = true
    · simp [hxy]
    · have hyx : lt y x = false := hs.1 y (by simp)
      have hxy' : lt x y = false := by simpa using hxy
      have heq : x = y := by
        by_cases he : x = y
        · exact he
        · rcases h.total x y he with h1 | h1
          · rw [hxy'] at h1; exact absurd h1 (by simp)
          · rw [hyx] at h1; exact absurd h1 (by simp)
      subst heq
      simp only [hxy']
      have : Sorted lt (x :: ys) := by
        unfold Sorted
        rw [List.pairwise_cons]
        exact ⟨fun z hz => hs.1 z (by simp [hz]), (List.pairwise_cons.mp hs.2).2⟩
      simp [ih this]

theorem isort_of_sorted (h : StrictTotal lt) : ∀ l : List α, Sorted lt l → isort lt l = l := by
  intro l
  induction l with
  | nil => intro _; rfl
  | cons x xs ih =>
    intro hs
    have hxs : Sorted lt xs := (List.pairwise_cons.mp hs).2
    simp only [isort]
    rw [ih hxs]
    exact ins_of_sorted_cons h x xs hs

theorem topk_sorted (h : StrictTotal lt) (k : Nat) (l : List α) : Sorted lt (topk lt k l) :=
  List.Pairwise.sublist (List.take_sublist k _) (isort_sorted' h l)

theorem topk_idem (h : StrictTotal lt) (k : Nat) (l : List α) :
    topk lt k (topk lt k l) = topk lt k l := by
  show (isort lt (topk lt k l)).take k = topk lt k l
  rw [isort_of_sorted h _ (topk_sorted h k l)]
  unfold topk
  rw [List.take_take]; simp

theorem topk_perm (h : StrictTotal lt) (k : Nat) {l₁ l₂ : List α} (p : l₁.Perm l₂) :
    topk lt k l₁ = topk lt k l₂ := by
  unfold topk; rw [isort_perm' h p]

theorem topk_append_right (h : StrictTotal lt) (k : Nat) (l₂ : List α) : ∀ l₁ : List α,
    topk lt k (l₁ ++ l₂) = topk lt k (l₁ ++ topk lt k l₂) := by
  intro l₁
  induction l₁ with
  | nil => simp [topk_idem h]
  | cons x xs ih => simp only [List.cons_append, topk_cons, ih]

/-- **merging**: the top-`k` of a concatenation is the top-`k` of the concatenated top-`k`s -/
theorem topk_append (h : StrictTotal lt) (k : Nat) (l₁ l₂ : List α) :
    topk lt k (l₁ ++ l₂) = topk lt k (topk lt k l₁ ++ topk lt k l₂) := by
  rw [topk_append_right h k l₂ l₁,
    topk_perm h k (List.perm_append_comm : (l₁ ++ topk lt k l₂).Perm (topk lt k l₂ ++ l₁)),
    topk_append_right h k l₁ (topk lt k l₂),
    topk_perm h k (List.perm_append_comm :
      (topk lt k l₂ ++ topk lt k l₁).Perm (topk lt k l₁ ++ topk lt k l₂))]

theorem topk_flatten (h : StrictTotal lt) (k : Nat) : ∀ Ls : List (List α),
    topk lt k Ls.flatten = topk lt k (Ls.map (topk lt k)).flatten := by
  intro Ls
  induction Ls with
  | nil => rfl
  | cons L Ls ih =>
    simp only [List.flatten_cons, List.map_cons]
    rw [topk_append h k L, ih, ← topk_append_right h k _ (topk lt k L)]

theorem take_topk (k m : Nat) (hm : m ≤ k) (l : List α) : (topk lt k l).take m = topk lt m l := by
  unfold topk
  rw [List.take_take, Nat.min_eq_left hm]

/-! ## the bounded heap -/

theorem ins_append_last (x w : α) (hxw : lt x w = true) : ∀ A : List α,
    ins lt x (A ++ [w]) = ins lt x A ++ [w] := by
  intro A
  induction A with
  | nil => simp [ins, hxw]
  | cons y ys ih =>
    simp only [List.cons_append, ins]
    split
    · rfl
    · simp [ih]

/-- `push_ranked` keeps the `K` best: it is insertion followed by truncation -/
theorem pushRanked_eq (h : StrictTotal lt) (K : Nat) (H : List α) (x : α) (hs : Sorted lt H)
    (hlen : H.length ≤ K) : pushRanked lt K H x = (ins lt x H).take K := by
  unfold pushRanked
  by_cases hK : K = 0
  · subst hK
    have : H = [] := List.eq_nil_of_length_eq_zero (by omega)
    simp [this]
  · simp only [hK, if_false]
    by_cases hlt : H.length < K
    · simp only [hlt, if_true]
      rw [List.take_of_length_le (by rw [ins_length]; omega)]
    · simp only [hlt, if_false]
      have hfull : H.length = K := by omega
      cases hl : H.getLast? with
      | none =>
        have : H = [] := List.getLast?_eq_none_iff.mp hl
        subst this; simp at hfull; omega
      | some w =>
        obtain ⟨A, rfl⟩ := List.getLast?_eq_some_iff.mp hl
        simp only [List.dropLast_concat]
        have hAlen : A.length + 1 = K := by simpa using hfull
        by_cases hxw : lt x w = true
        · simp only [hxw, if_true]
          rw [ins_append_last x w hxw A, ← hAlen, ← ins_length (lt := lt) x A]
          simp
        · have hxw' : lt x w = false := by simpa using hxw
          simp only [hxw']
          have hall : ∀ y ∈ A ++ [w], lt x y = false := by
            intro y hy
            rcases List.mem_append.mp hy with hy | hy
            · unfold Sorted at hs
              rw [List.pairwise_append] at hs
              have hwy : lt w y = false := hs.2.2 y hy w (by simp)
              cases hxy : lt x y with
              | false => rfl
              | true =>
                by_cases he : x = w
                · subst he; rw [hwy] at hxy; exact absurd hxy (by simp)
                · rcases h.total x w he with h1 | h1
                  · rw [hxw'] at h1; exact absurd h1 (by simp)
                  · have := h.trans w x y h1 hxy
                    rw [hwy] at this; exact absurd this (by simp)
            · simp at hy; subst hy; exact hxw'
          rw [ins_worse x _ hall, ← hfull]
          exact (List.take_left' rfl).symm

theorem pushAll_eq (h : StrictTotal lt) (K : Nat) : ∀ (xs done : List α),
    pushAll lt K (topk lt K done) xs = topk lt K (xs.reverse ++ done) := by
  intro xs
  induction xs with
  | nil => intro done; simp [pushAll]
  | cons x xs ih =>
    intro done
    simp only [pushAll]
    rw [pushRanked_eq h K _ x (topk_sorted h K done) (by unfold topk; simp [List.length_take]; omega),
      ← topk_cons, ih (x :: done)]
    simp

/-- **field sorts**: the heap of capacity `K ≥ limit` over all matches, sorted and truncated, is
the `limit`-prefix of all matches in comparator order -/
theorem heapSearch_eq_spec (h : StrictTotal lt) (K limit : Nat) (hK : limit ≤ K)
    (segs : List (List α)) : heapSearch lt K limit segs = specSearch lt limit segs := by
  unfold heapSearch specSearch
  have := pushAll_eq h K segs.flatten []
  simp only [List.append_nil] at this
  have h0 : topk lt K ([] : List α) = [] := by simp [topk, isort]
  rw [h0] at this
  rw [this, isort_of_sorted h _ (topk_sorted h K _), take_topk K limit hK,
    topk_perm h limit (List.reverse_perm _)]
  rfl

/-- **default score sort**: per-segment top-`K`, merge, sort, truncate -/
theorem fastSearch_eq_spec (h : StrictTotal lt) (K limit : Nat) (hK : limit ≤ K)
    (segs : List (List α)) : fastSearch lt K limit segs = specSearch lt limit segs := by
  unfold fastSearch specSearch
  show topk lt limit (segs.map fun s => topk lt K s).flatten = topk lt limit segs.flatten
  rw [← take_topk K limit hK, ← take_topk K limit hK segs.flatten, topk_flatten h K segs]

theorem specSearch_sorted (h : StrictTotal lt) (limit : Nat) (segs : List (List α)) :
    Sorted lt (specSearch lt limit segs) := topk_sorted h limit _

end

/-! ## naturality: the machinery commutes with an order-preserving `map` -/

section
variable {α β : Type} {lta : α → α → Bool} {ltb : β → β → Bool} (f : β → α)
  (hf : ∀ a b, ltb a b = lta (f a) (f b))
include hf

theorem map_ins (x : β) (l : List β) : (ins ltb x l).map f = ins lta (f x) (l.map f) := by
  induction l with
  | nil => rfl
  | cons y ys ih =>
    simp only [ins, List.map_cons, hf]
    split <;> simp [ih]

theorem map_isort (l : List β) : (isort ltb l).map f = isort lta (l.map f) := by
  induction l with
  | nil => rfl
  | cons y ys ih => simp only [isort, List.map_cons, map_ins f hf, ih]

theorem map_pushRanked (K : Nat) (H : List β) (x : β) :
    (pushRanked ltb K H x).map f = pushRanked lta K (H.map f) (f x) := by
  unfold pushRanked
  by_cases hK : K = 0
  · simp [hK]
  · simp only [hK, if_false, List.length_map]
    by_cases hlt : H.length < K
    · simp only [hlt, if_true, map_ins f hf]
    · simp only [hlt, if_false, List.getLast?_map]
      cases hl : H.getLast? with
      | none => simp
      | some w =>
        simp only [Option.map_some, hf]
        split
        · rw [map_ins f hf, List.map_dropLast]
        · rfl

theorem map_pushAll (K : Nat) : ∀ (xs H : List β),
    (pushAll ltb K H xs).map f = pushAll lta K (H.map f) (xs.map f) := by
  intro xs
  induction xs with
  | nil => intro H; rfl
  | cons x xs ih =>
    intro H
    simp only [pushAll, List.map_cons, ih, map_pushRanked f hf]

theorem map_heapSearch (K limit : Nat) (segs : List (List β)) :
    (heapSearch ltb K limit segs).map f = heapSearch lta K limit (segs.map (List.map f)) := by
  unfold heapSearch
  rw [List.map_take, map_isort f hf, map_pushAll f hf, List.map_flatten]
  rfl

theorem map_fastSearch (K limit : Nat) (segs : List (List β)) :
    (fastSearch ltb K limit segs).map f = fastSearch lta K limit (segs.map (List.map f)) := by
  unfold fastSearch
  rw [List.map_take, map_isort f hf, List.map_flatten, List.map_map, List.map_map]
  congr 3
  apply List.map_congr_left
  intro s _
  simp only [Function.comp, List.map_take, map_isort f hf]

theorem map_specSearch (limit : Nat) (segs : List (List β)) :
    (specSearch ltb limit segs).map f = specSearch lta limit (segs.map (List.map f)) := by
  unfold specSearch
  rw [List.map_take, map_isort f hf, List.map_flatten]

end

/-! ## lifting lists into a subtype -/

def liftL {α : Type} (P : α → Prop) : (l : List α) → (∀ x ∈ l, P x) → List {x // P x}
  | [], _ => []
  | x :: xs, h => ⟨x, h x (by simp)⟩ :: liftL P xs (fun y hy => h y (by simp [hy]))

theorem liftL_map {α : Type} (P : α → Prop) : ∀ (l : List α) (h : ∀ x ∈ l, P x),
    (liftL P l h).map Subtype.val = l := by
  intro l
  induction l with
  | nil => intro _; rfl
  | cons x xs ih => intro h; simp [liftL, ih]

def liftLL {α : Type} (P : α → Prop) : (L : List (List α)) → (∀ l ∈ L, ∀ x ∈ l, P x) →
    List (List {x // P x})
  | [], _ => []
  | l :: ls, h => liftL P l (h l (by simp)) :: liftLL P ls (fun m hm => h m (by simp [hm]))

theorem liftLL_map {α : Type} (P : α → Prop) : ∀ (L : List (List α)) (h : ∀ l ∈ L, ∀ x ∈ l, P x),
    (liftLL P L h).map (List.map Subtype.val) = L := by
  intro L
  induction L with
  | nil => intro _; rfl
  | cons l ls ih =>
    intro h
    simp only [liftLL, List.map_cons]
    rw [liftL_map, ih]

end SL.Sort
