import SLModel.Core.Contents
/-!
# Lemmas/Contents — invariant and refinement proof for `Core/Contents`

Everything is at the level of membership (`(i, d) ∈ abs segs`), addresses and association-list
lookups; the theorems of `Props/C04` and `Props/C14` are assembled from `step_preserves`.
-/
set_option linter.unusedSectionVars false
set_option linter.unusedSimpArgs false
namespace SL.Contents

variable {ι δ : Type} [DecidableEq ι]

/-! ## association lists -/
section AL
variable {κ α : Type} [DecidableEq κ]

def NodupKeys (l : List (κ × α)) : Prop := (l.map (·.1)).Nodup

theorem mem_alDel {l : List (κ × α)} {k : κ} {p : κ × α} :
    p ∈ alDel l k ↔ p ∈ l ∧ p.1 ≠ k := by
  simp [alDel, List.mem_filter]

theorem alDel_cons (k₀ : κ) (v : α) (r : List (κ × α)) (k : κ) :
    alDel ((k₀, v) :: r) k = if k₀ = k then alDel r k else (k₀, v) :: alDel r k := by
  by_cases h : k₀ = k <;> simp [alDel, h]

theorem alGet_alDel_self (l : List (κ × α)) (k : κ) : alGet (alDel l k) k = none := by
  induction l with
  | nil => rfl
  | cons p r ih =>
    obtain ⟨k', v⟩ := p
    rw [alDel_cons]
    by_cases h : k' = k
    · simp [h, ih]
    · simp [h, alGet, ih]

theorem alGet_alDel_ne (l : List (κ × α)) {k k' : κ} (h : k ≠ k') :
    alGet (alDel l k) k' = alGet l k' := by
  induction l with
  | nil => rfl
  | cons p r ih =>
    obtain ⟨k₀, v⟩ := p
    rw [alDel_cons]
    by_cases h0 : k₀ = k
    · subst h0
      simp [alGet, h, ih]
    · by_cases h1 : k₀ = k'
      · subst h1; simp [alGet, h0]
      · simp [alGet, h0, h1, ih]

theorem alGet_alDel (l : List (κ × α)) (k k' : κ) :
    alGet (alDel l k) k' = if k = k' then none else alGet l k' := by
  by_cases h : k = k'
  · subst h; simp [alGet_alDel_self]
  · simp [h, alGet_alDel_ne l h]

theorem alGet_alPut (l : List (κ × α)) (k k' : κ) (v : α) :
    alGet (alPut l k v) k' = if k = k' then some v else alGet l k' := by
  by_cases h : k = k'
  · subst h; simp [alPut, alGet]
  · simp [alPut, alGet, h, alGet_alDel_ne l h]

theorem alGet_some_mem {l : List (κ × α)} {k : κ} {v : α} (h : alGet l k = some v) : (k, v) ∈ l := by
  induction l with
  | nil => simp [alGet] at h
  | cons p r ih =>
    obtain ⟨k₀, v₀⟩ := p
    by_cases h0 : k₀ = k
    · subst h0; simp [alGet] at h; subst h; simp
    · simp [alGet, h0] at h; exact List.mem_cons_of_mem _ (ih h)

theorem alGet_none_of_not_key {l : List (κ × α)} {k : κ} (h : ∀ v, (k, v) ∉ l) : alGet l k = none := by
  cases hg : alGet l k with
  | none => rfl
  | some v => exact absurd (alGet_some_mem hg) (h v)

theorem alGet_of_mem_nodup {l : List (κ × α)} (hn : NodupKeys l) {k : κ} {v : α} (h : (k, v) ∈ l) :
    alGet l k = some v := by
  induction l with
  | nil => simp at h
  | cons p r ih =>
    obtain ⟨k₀, v₀⟩ := p
    simp only [NodupKeys, List.map_cons, List.nodup_cons] at hn
    rcases List.mem_cons.mp h with h | h
    · cases h; simp [alGet]
    · have hne : k₀ ≠ k := by
        intro e; subst e
        exact hn.1 (List.mem_map.mpr ⟨(k₀, v), h, rfl⟩)
      simp [alGet, hne]; exact ih hn.2 h

theorem nodupKeys_alDel {l : List (κ × α)} (hn : NodupKeys l) (k : κ) : NodupKeys (alDel l k) := by
  unfold NodupKeys alDel
  exact List.Nodup.sublist (List.Sublist.map _ List.filter_sublist) hn

theorem nodupKeys_alPut {l : List (κ × α)} (hn : NodupKeys l) (k : κ) (v : α) :
    NodupKeys (alPut l k v) := by
  unfold alPut NodupKeys
  simp only [List.map_cons, List.nodup_cons]
  refine ⟨?_, nodupKeys_alDel hn k⟩
  intro hm
  obtain ⟨p, hp, hk⟩ := List.mem_map.mp hm
  exact (mem_alDel.mp hp).2 hk

/-- with distinct keys, the entries with key `k` are exactly the looked-up one -/
theorem filter_key_of_nodup {l : List (κ × α)} (hn : NodupKeys l) (k : κ) :
    (l.filter (fun p => decide (p.1 = k))).map (·.2) = (alGet l k).toList := by
  induction l with
  | nil => rfl
  | cons p r ih =>
    obtain ⟨k₀, v₀⟩ := p
    simp only [NodupKeys, List.map_cons, List.nodup_cons] at hn
    by_cases h0 : k₀ = k
    · subst h0
      have : r.filter (fun p => decide (p.1 = k₀)) = [] := by
        apply List.filter_eq_nil_iff.mpr
        intro p hp hk
        simp at hk
        exact hn.1 (List.mem_map.mpr ⟨p, hp, hk⟩)
      simp [alGet, this]
    · simp [alGet, h0]; exact ih hn.2

theorem alGet_map_val {β : Type} (f : α → β) (l : List (κ × α)) (k : κ) :
    alGet (l.map (fun p => (p.1, f p.2))) k = (alGet l k).map f := by
  induction l with
  | nil => rfl
  | cons p r ih =>
    obtain ⟨k₀, v₀⟩ := p
    by_cases h0 : k₀ = k <;> simp [alGet, h0, ih]

theorem alDel_map_val {β : Type} (f : α → β) (l : List (κ × α)) (k : κ) :
    alDel (l.map (fun p => (p.1, f p.2))) k = (alDel l k).map (fun p => (p.1, f p.2)) := by
  simp [alDel, List.filter_map, Function.comp_def]

theorem alSet_map_val {β : Type} (f : α → β) (l : List (κ × α)) (k : κ) (v : α) :
    alSet (l.map (fun p => (p.1, f p.2))) k (f v) = (alSet l k v).map (fun p => (p.1, f p.2)) := by
  simp only [alSet, List.map_map]
  apply List.map_congr_left
  intro p _
  by_cases h : p.1 = k <;> simp [h]

theorem mem_alSet {l : List (κ × α)} {k : κ} {v : α} {p : κ × α} (h : p ∈ alSet l k v) :
    p = (k, v) ∨ p ∈ l := by
  simp only [alSet, List.mem_map] at h
  obtain ⟨q, hq, e⟩ := h
  by_cases hk : q.1 = k
  · simp [hk] at e; exact Or.inl e.symm
  · simp [hk] at e; subst e; exact Or.inr hq

end AL

/-! ## the commit fold in closed form -/

/-- the last operation on `i` in a queue: `none` untouched, `some none` deleted,
`some (some d)` added with `d` -/
def lastOp : List (Op ι δ) → ι → Option (Option δ)
  | [], _ => none
  | op :: ops, i =>
    match lastOp ops i with
    | some r => some r
    | none =>
      match op with
      | .add j d => if j = i then some (some d) else none
      | .del j => if j = i then some none else none

def touched (ops : List (Op ι δ)) (i : ι) : Prop := lastOp ops i ≠ none

theorem touched_cons (op : Op ι δ) (ops : List (Op ι δ)) (i : ι) :
    touched (op :: ops) i ↔ op.id = i ∨ touched ops i := by
  unfold touched
  cases h : lastOp ops i with
  | some r => simp [lastOp, h]
  | none =>
    cases op with
    | add j d => by_cases e : j = i <;> simp [lastOp, h, Op.id, e]
    | del j => by_cases e : j = i <;> simp [lastOp, h, Op.id, e]

theorem not_touched_nil (i : ι) : ¬ touched ([] : List (Op ι δ)) i := by simp [touched, lastOp]

/-- the spec fold, per id -/
theorem spec_fold_get (proj : δ → δ) (ops : List (Op ι δ)) (c : List (ι × δ)) (i : ι) :
    alGet (ops.foldl (Spec.apply proj) c) i =
      match lastOp ops i with
      | some r => r.map proj
      | none => alGet c i := by
  induction ops generalizing c with
  | nil => simp [lastOp]
  | cons op ops ih =>
    rw [List.foldl_cons, ih]
    cases h : lastOp ops i with
    | some r => simp [lastOp, h]
    | none =>
      cases op with
      | add j d => by_cases e : j = i <;> simp [lastOp, h, Spec.apply, alGet_alPut, e]
      | del j => by_cases e : j = i <;> simp [lastOp, h, Spec.apply, alGet_alDel, e]

theorem fold_live (ops : List (Op ι δ)) (a : Acc ι δ) (i : ι) :
    alGet (ops.foldl Acc.step a).live i = match lastOp ops i with
      | some _ => none
      | none => alGet a.live i := by
  induction ops generalizing a with
  | nil => simp [lastOp]
  | cons op ops ih =>
    rw [List.foldl_cons, ih]
    cases h : lastOp ops i with
    | some r => simp [lastOp, h]
    | none =>
      cases op with
      | add j d => by_cases e : j = i <;> simp [lastOp, h, Acc.step, alGet_alDel, e]
      | del j => by_cases e : j = i <;> simp [lastOp, h, Acc.step, alGet_alDel, e]

theorem fold_pnew (ops : List (Op ι δ)) (a : Acc ι δ) (i : ι) :
    alGet (ops.foldl Acc.step a).pnew i = match lastOp ops i with
      | some r => r
      | none => alGet a.pnew i := by
  induction ops generalizing a with
  | nil => simp [lastOp]
  | cons op ops ih =>
    rw [List.foldl_cons, ih]
    cases h : lastOp ops i with
    | some r => simp [lastOp, h]
    | none =>
      cases op with
      | add j d => by_cases e : j = i <;> simp [lastOp, h, Acc.step, alGet_alPut, e]
      | del j => by_cases e : j = i <;> simp [lastOp, h, Acc.step, alGet_alDel, e]

theorem fold_pnew_nodup (ops : List (Op ι δ)) (a : Acc ι δ) (h : NodupKeys a.pnew) :
    NodupKeys (ops.foldl Acc.step a).pnew := by
  induction ops generalizing a with
  | nil => exact h
  | cons op ops ih =>
    rw [List.foldl_cons]
    apply ih
    cases op with
    | add j d => exact nodupKeys_alPut h j d
    | del j => exact nodupKeys_alDel h j

theorem fold_tombs (ops : List (Op ι δ)) (a : Acc ι δ) (ad : Addr) :
    ad ∈ (ops.foldl Acc.step a).tombs ↔
      ad ∈ a.tombs ∨ ∃ j, touched ops j ∧ alGet a.live j = some ad := by
  induction ops generalizing a with
  | nil =>
    simp only [List.foldl_nil]
    constructor
    · exact Or.inl
    · rintro (h | ⟨j, hj, _⟩)
      · exact h
      · exact absurd hj (not_touched_nil j)
  | cons op ops ih =>
    rw [List.foldl_cons, ih]
    have hlive : (Acc.step a op).live = alDel a.live op.id := by cases op <;> rfl
    have htomb : ad ∈ (Acc.step a op).tombs ↔ ad ∈ a.tombs ∨ alGet a.live op.id = some ad := by
      cases op with
      | add j d =>
        simp only [Acc.step, Op.id]
        cases hg : alGet a.live j with
        | none => simp
        | some x => simp [List.mem_cons, or_comm, eq_comm]
      | del j =>
        simp only [Acc.step, Op.id]
        cases hg : alGet a.live j with
        | none => simp
        | some x => simp [List.mem_cons, or_comm, eq_comm]
    rw [htomb, hlive]
    constructor
    · rintro ((h | h) | ⟨j, hj, hg⟩)
      · exact Or.inl h
      · exact Or.inr ⟨op.id, (touched_cons op ops _).mpr (Or.inl rfl), h⟩
      · rw [alGet_alDel] at hg
        by_cases e : op.id = j
        · simp [e] at hg
        · simp [e] at hg
          exact Or.inr ⟨j, (touched_cons op ops _).mpr (Or.inr hj), hg⟩
    · rintro (h | ⟨j, hj, hg⟩)
      · exact Or.inl (Or.inl h)
      · by_cases e : op.id = j
        · subst e; exact Or.inl (Or.inr hg)
        · rcases (touched_cons op ops j).mp hj with h' | h'
          · exact absurd h' e
          · refine Or.inr ⟨j, h', ?_⟩
            rw [alGet_alDel]; simp [e, hg]

/-! ## segments, addresses -/

theorem mem_liveFrom {del : List Nat} {docs : List (ι × δ)} {k n : Nat} {p : ι × δ} :
    (n, p) ∈ liveFrom del k docs ↔ k ≤ n ∧ docs[n - k]? = some p ∧ n ∉ del := by
  induction docs generalizing k with
  | nil => simp [liveFrom]
  | cons q qs ih =>
    by_cases hnk : n = k
    · subst hnk
      have hno : ¬ (n + 1 ≤ n) := by omega
      by_cases hd : n ∈ del
      · simp [liveFrom, hd, ih, hno]
      · simp [liveFrom, hd, ih, hno, eq_comm]
    · have hne : ¬ ((n, p) = (k, q)) := by
        intro e; exact hnk (Prod.mk.inj e).1
      by_cases hlt : k < n
      · have e1 : n - k = (n - (k + 1)) + 1 := by omega
        have hle : k + 1 ≤ n := hlt
        have hle' : k ≤ n := by omega
        by_cases hd : k ∈ del
        · simp [liveFrom, hd, ih, e1, hle, hle']
        · simp [liveFrom, hd, ih, e1, hle, hle', hne]
      · have h1 : ¬ (k + 1 ≤ n) := by omega
        have h2 : ¬ (k ≤ n) := by omega
        by_cases hd : k ∈ del
        · simp [liveFrom, hd, ih, h1, h2]
        · simp [liveFrom, hd, ih, h1, h2, hne]

theorem liveFrom_sublist {del del' : List Nat} (h : ∀ n, n ∈ del → n ∈ del') (k : Nat)
    (docs : List (ι × δ)) : (liveFrom del' k docs).Sublist (liveFrom del k docs) := by
  induction docs generalizing k with
  | nil => simp [liveFrom]
  | cons q qs ih =>
    by_cases hd : k ∈ del
    · simp [liveFrom, hd, h k hd, ih]
    · by_cases hd' : k ∈ del'
      · simp only [liveFrom, hd, hd', if_true, if_false]
        exact List.Sublist.cons _ (ih (k + 1))
      · simp only [liveFrom, hd, hd', if_false]
        exact List.Sublist.cons_cons _ (ih (k + 1))

theorem liveFrom_nil_map (k : Nat) (docs : List (ι × δ)) :
    (liveFrom [] k docs).map (·.2) = docs := by
  induction docs generalizing k with
  | nil => rfl
  | cons q qs ih => simp [liveFrom, ih]

/-- document `d` with id `i` is live at address `a` -/
def LiveAt (segs : List (Seg ι δ)) (i : ι) (a : Addr) (d : δ) : Prop :=
  ∃ s ∈ segs, s.id = a.1 ∧ (a.2, i, d) ∈ s.live

/-- address `a` holds a (live or deleted) document with id `i` -/
def HasDoc (segs : List (Seg ι δ)) (i : ι) (a : Addr) : Prop :=
  ∃ s ∈ segs, s.id = a.1 ∧ ∃ d, s.docs[a.2]? = some (i, d)

def IdsInj (segs : List (Seg ι δ)) : Prop :=
  ∀ s ∈ segs, ∀ s' ∈ segs, s.id = s'.id → s = s'

theorem mem_abs {segs : List (Seg ι δ)} {i : ι} {d : δ} :
    (i, d) ∈ abs segs ↔ ∃ a, LiveAt segs i a d := by
  unfold abs LiveAt
  simp only [List.mem_flatMap, List.mem_map]
  constructor
  · rintro ⟨s, hs, e, he, heq⟩
    obtain ⟨n, p⟩ := e
    simp only at heq
    subst heq
    exact ⟨(s.id, n), s, hs, rfl, he⟩
  · rintro ⟨a, s, hs, _, hl⟩
    exact ⟨s, hs, (a.2, i, d), hl, rfl⟩

theorem LiveAt.hasDoc {segs : List (Seg ι δ)} {i : ι} {a : Addr} {d : δ}
    (h : LiveAt segs i a d) : HasDoc segs i a := by
  obtain ⟨s, hs, hid, hl⟩ := h
  have := (mem_liveFrom.mp hl).2.1
  exact ⟨s, hs, hid, d, by simpa using this⟩

theorem HasDoc.id_eq {segs : List (Seg ι δ)} (hinj : IdsInj segs) {i i' : ι} {a : Addr}
    (h : HasDoc segs i a) (h' : HasDoc segs i' a) : i = i' := by
  obtain ⟨s, hs, hid, d, hd⟩ := h
  obtain ⟨s', hs', hid', d', hd'⟩ := h'
  have e : s = s' := hinj s hs s' hs' (hid.trans hid'.symm)
  subst e
  rw [hd] at hd'
  exact (Prod.mk.inj (Option.some.inj hd')).1

theorem mem_kill_live {s : Seg ι δ} {tombs : List Addr} {n : Nat} {p : ι × δ} :
    (n, p) ∈ (s.kill tombs).live ↔ (n, p) ∈ s.live ∧ (s.id, n) ∉ tombs := by
  unfold Seg.live Seg.kill
  simp only [mem_liveFrom, List.mem_append, List.mem_map, List.mem_filter, beq_iff_eq]
  constructor
  · rintro ⟨h1, h2, h3⟩
    refine ⟨⟨h1, h2, fun h => h3 (Or.inl h)⟩, fun h => h3 (Or.inr ⟨(s.id, n), ⟨h, rfl⟩, rfl⟩)⟩
  · rintro ⟨⟨h1, h2, h3⟩, h4⟩
    refine ⟨h1, h2, ?_⟩
    rintro (h | ⟨a, ⟨ha, e1⟩, e2⟩)
    · exact h3 h
    · apply h4
      have : a = (s.id, n) := Prod.ext e1 e2
      rw [← this]; exact ha

theorem liveAt_kill {segs : List (Seg ι δ)} {tombs : List Addr} {i : ι} {a : Addr} {d : δ} :
    LiveAt (segs.map (·.kill tombs)) i a d ↔ LiveAt segs i a d ∧ a ∉ tombs := by
  unfold LiveAt
  simp only [List.mem_map]
  constructor
  · rintro ⟨_, ⟨s, hs, rfl⟩, hid, hl⟩
    have hid' : s.id = a.1 := hid
    obtain ⟨h1, h2⟩ := mem_kill_live.mp hl
    refine ⟨⟨s, hs, hid', h1⟩, ?_⟩
    rw [hid'] at h2
    exact h2
  · rintro ⟨⟨s, hs, hid, hl⟩, hn⟩
    refine ⟨s.kill tombs, ⟨s, hs, rfl⟩, hid, mem_kill_live.mpr ⟨hl, ?_⟩⟩
    rw [hid]; exact hn

theorem hasDoc_kill {segs : List (Seg ι δ)} {tombs : List Addr} {i : ι} {a : Addr} :
    HasDoc (segs.map (·.kill tombs)) i a ↔ HasDoc segs i a := by
  unfold HasDoc
  simp only [List.mem_map]
  constructor
  · rintro ⟨_, ⟨s, hs, rfl⟩, hid, hd⟩
    exact ⟨s, hs, hid, hd⟩
  · rintro ⟨s, hs, hid, hd⟩
    exact ⟨s.kill tombs, ⟨s, hs, rfl⟩, hid, hd⟩

theorem maxGen_kill (segs : List (Seg ι δ)) (tombs : List Addr) :
    maxGen (segs.map (·.kill tombs)) = maxGen segs := by
  induction segs with
  | nil => rfl
  | cons s r ih =>
    simp only [List.map_cons, maxGen]
    rw [ih]; rfl

theorem maxGen_append (l : List (Seg ι δ)) (s : Seg ι δ) :
    maxGen (l ++ [s]) = max (maxGen l) s.gen := by
  induction l with
  | nil => simp [maxGen]
  | cons x r ih => simp [maxGen, ih, Nat.max_assoc]

theorem idsInj_kill {segs : List (Seg ι δ)} (h : IdsInj segs) (tombs : List Addr) :
    IdsInj (segs.map (·.kill tombs)) := by
  intro x hx y hy e
  obtain ⟨s, hs, rfl⟩ := List.mem_map.mp hx
  obtain ⟨s', hs', rfl⟩ := List.mem_map.mp hy
  have : s = s' := h s hs s' hs' e
  rw [this]

theorem idsInj_append {segs : List (Seg ι δ)} (h : IdsInj segs) (s : Seg ι δ)
    (hfresh : ∀ x ∈ segs, x.id ≠ s.id) : IdsInj (segs ++ [s]) := by
  intro x hx y hy e
  rcases List.mem_append.mp hx with hx | hx <;> rcases List.mem_append.mp hy with hy | hy
  · exact h x hx y hy e
  · have hy' := List.mem_singleton.mp hy
    rw [hy'] at e; exact absurd e (hfresh x hx)
  · have hx' := List.mem_singleton.mp hx
    rw [hx'] at e; exact absurd e.symm (hfresh y hy)
  · rw [List.mem_singleton.mp hx, List.mem_singleton.mp hy]

theorem abs_append (l l' : List (Seg ι δ)) : abs (l ++ l') = abs l ++ abs l' := by
  simp [abs, List.flatMap_append]

theorem abs_single_nodel (s : Seg ι δ) (h : s.deleted = []) : abs [s] = s.docs := by
  simp [abs, Seg.live, h, liveFrom_nil_map]

theorem abs_kill_keys_sublist (segs : List (Seg ι δ)) (tombs : List Addr) :
    ((abs (segs.map (·.kill tombs))).map (·.1)).Sublist ((abs segs).map (·.1)) := by
  induction segs with
  | nil => simp [abs]
  | cons s r ih =>
    have h1 : abs ((s :: r).map (·.kill tombs)) =
        (s.kill tombs).live.map (·.2) ++ abs (r.map (·.kill tombs)) := by
      simp [abs]
    have h2 : abs (s :: r) = s.live.map (·.2) ++ abs r := by simp [abs]
    rw [h1, h2, List.map_append, List.map_append]
    apply List.Sublist.append _ ih
    apply List.Sublist.map
    apply List.Sublist.map
    unfold Seg.live Seg.kill
    exact liveFrom_sublist (fun n hn => List.mem_append_left _ hn) 0 s.docs

/-! ## the live map: `load`, cached maps -/

/-- a live map is *good* for a manifest when it knows the address of every live document and
every entry points at a document with that id (live **or deleted**: stale entries are allowed) -/
def Good (segs : List (Seg ι δ)) (live : List (ι × Addr)) : Prop :=
  (∀ i a d, LiveAt segs i a d → alGet live i = some a) ∧
  (∀ i a, alGet live i = some a → HasDoc segs i a)

def liveList (segs : List (Seg ι δ)) : List (ι × Addr) :=
  segs.flatMap (fun s => s.live.map (fun e => (e.2.1, (s.id, e.1))))

theorem load_eq (segs : List (Seg ι δ)) :
    load segs = (liveList segs).foldl (fun acc e => alPut acc e.1 e.2) [] := rfl

theorem mem_liveList {segs : List (Seg ι δ)} {i : ι} {a : Addr} :
    (i, a) ∈ liveList segs ↔ ∃ d, LiveAt segs i a d := by
  unfold liveList LiveAt
  simp only [List.mem_flatMap, List.mem_map]
  constructor
  · rintro ⟨s, hs, e, he, heq⟩
    obtain ⟨n, j, d⟩ := e
    simp only [Prod.mk.injEq] at heq
    obtain ⟨rfl, rfl⟩ := heq
    exact ⟨d, s, hs, rfl, he⟩
  · rintro ⟨d, s, hs, hid, hl⟩
    refine ⟨s, hs, (a.2, i, d), hl, ?_⟩
    simp only [hid]

theorem liveList_keys (segs : List (Seg ι δ)) :
    (liveList segs).map (·.1) = (abs segs).map (·.1) := by
  simp [liveList, abs, List.map_flatMap, Function.comp_def]

theorem foldl_put_get {κ α : Type} [DecidableEq κ] (L : List (κ × α)) (hn : NodupKeys L)
    (acc : List (κ × α)) (k : κ) :
    alGet (L.foldl (fun acc e => alPut acc e.1 e.2) acc) k =
      match alGet L k with
      | some v => some v
      | none => alGet acc k := by
  induction L generalizing acc with
  | nil => simp [alGet]
  | cons p r ih =>
    obtain ⟨k₀, v₀⟩ := p
    simp only [NodupKeys, List.map_cons, List.nodup_cons] at hn
    rw [List.foldl_cons, ih hn.2]
    by_cases h0 : k₀ = k
    · subst h0
      have : alGet r k₀ = none :=
        alGet_none_of_not_key (fun v hv => hn.1 (List.mem_map.mpr ⟨(k₀, v), hv, rfl⟩))
      simp [alGet, this, alGet_alPut]
    · simp [alGet, h0, alGet_alPut]

theorem good_load {segs : List (Seg ι δ)} (hn : NodupKeys (abs segs)) : Good segs (load segs) := by
  have hn' : NodupKeys (liveList segs) := by
    unfold NodupKeys; rw [liveList_keys]; exact hn
  have hget : ∀ i, alGet (load segs) i = alGet (liveList segs) i := by
    intro i
    rw [load_eq, foldl_put_get _ hn']
    cases alGet (liveList segs) i <;> simp [alGet]
  constructor
  · intro i a d h
    rw [hget]
    exact alGet_of_mem_nodup hn' (mem_liveList.mpr ⟨d, h⟩)
  · intro i a h
    rw [hget] at h
    obtain ⟨d, hd⟩ := mem_liveList.mp (alGet_some_mem h)
    exact hd.hasDoc

theorem addNew_get_not_key (live : List (ι × Addr)) (sid n : Nat) (ps : List (ι × δ)) (i : ι)
    (h : ∀ d, (i, d) ∉ ps) : alGet (addNew live sid n ps) i = alGet live i := by
  induction ps generalizing live n with
  | nil => rfl
  | cons p r ih =>
    obtain ⟨j, d⟩ := p
    have hne : j ≠ i := by
      intro e; subst e; exact h d (List.mem_cons_self ..)
    simp only [addNew]
    rw [ih _ _ (fun d hd => h d (List.mem_cons_of_mem _ hd)), alGet_alPut]
    simp [hne]

theorem addNew_get_key (live : List (ι × Addr)) (sid n : Nat) (ps : List (ι × δ))
    (hn : NodupKeys ps) (k : Nat) (i : ι) (d : δ) (h : ps[k]? = some (i, d)) :
    alGet (addNew live sid n ps) i = some (sid, n + k) := by
  induction ps generalizing live n k with
  | nil => simp at h
  | cons p r ih =>
    obtain ⟨j, d'⟩ := p
    simp only [NodupKeys, List.map_cons, List.nodup_cons] at hn
    simp only [addNew]
    cases k with
    | zero =>
      simp at h
      obtain ⟨rfl, rfl⟩ := h
      rw [addNew_get_not_key _ _ _ _ _ (fun d hd => hn.1 (List.mem_map.mpr ⟨(j, d), hd, rfl⟩)),
        alGet_alPut]
      simp
    | succ k =>
      simp at h
      rw [ih _ _ hn.2 k h]
      congr 2; omega

theorem mem_iff_get_nodup {κ α : Type} [DecidableEq κ] {l : List (κ × α)} (hn : NodupKeys l)
    {k : κ} {v : α} : (∃ n : Nat, l[n]? = some (k, v)) ↔ alGet l k = some v := by
  constructor
  · rintro ⟨n, hn'⟩
    exact alGet_of_mem_nodup hn (List.mem_of_getElem? hn')
  · intro h
    exact List.mem_iff_getElem?.mp (alGet_some_mem h)

/-! ## the segment written by a commit -/

theorem liveAt_append {l l' : List (Seg ι δ)} {i : ι} {a : Addr} {d : δ} :
    LiveAt (l ++ l') i a d ↔ LiveAt l i a d ∨ LiveAt l' i a d := by
  unfold LiveAt
  simp only [List.mem_append]
  constructor
  · rintro ⟨s, hs | hs, h⟩
    · exact Or.inl ⟨s, hs, h⟩
    · exact Or.inr ⟨s, hs, h⟩
  · rintro (⟨s, hs, h⟩ | ⟨s, hs, h⟩)
    · exact ⟨s, Or.inl hs, h⟩
    · exact ⟨s, Or.inr hs, h⟩

theorem hasDoc_append {l l' : List (Seg ι δ)} {i : ι} {a : Addr} :
    HasDoc (l ++ l') i a ↔ HasDoc l i a ∨ HasDoc l' i a := by
  unfold HasDoc
  simp only [List.mem_append]
  constructor
  · rintro ⟨s, hs | hs, h⟩
    · exact Or.inl ⟨s, hs, h⟩
    · exact Or.inr ⟨s, hs, h⟩
  · rintro (⟨s, hs, h⟩ | ⟨s, hs, h⟩)
    · exact ⟨s, Or.inl hs, h⟩
    · exact ⟨s, Or.inr hs, h⟩

theorem liveAt_extraSeg {proj : δ → δ} {sid g : Nat} {pnew : List (ι × δ)} {i : ι} {a : Addr}
    {d' : δ} :
    LiveAt (extraSeg proj sid g pnew) i a d' ↔
      a.1 = sid ∧ ∃ d, pnew[a.2]? = some (i, d) ∧ d' = proj d := by
  unfold extraSeg LiveAt
  cases pnew with
  | nil => simp
  | cons p r =>
    simp only [List.isEmpty_cons, Bool.false_eq_true, if_false, List.mem_singleton, Seg.live]
    constructor
    · rintro ⟨s, rfl, hid, hl⟩
      have := (mem_liveFrom.mp hl).2.1
      simp only [Nat.sub_zero, List.getElem?_map] at this
      refine ⟨hid.symm, ?_⟩
      cases hg : (p :: r)[a.2]? with
      | none => simp [hg] at this
      | some q =>
        simp [hg] at this
        exact ⟨q.2, by rw [← this.1], this.2.symm⟩
    · rintro ⟨hid, d, hg, rfl⟩
      refine ⟨_, rfl, hid.symm, mem_liveFrom.mpr ⟨Nat.zero_le _, ?_, by simp⟩⟩
      rw [Nat.sub_zero, List.getElem?_map, hg]; rfl

theorem hasDoc_extraSeg {proj : δ → δ} {sid g : Nat} {pnew : List (ι × δ)} {i : ι} {a : Addr} :
    HasDoc (extraSeg proj sid g pnew) i a ↔ a.1 = sid ∧ ∃ d, pnew[a.2]? = some (i, d) := by
  unfold extraSeg HasDoc
  cases pnew with
  | nil => simp
  | cons p r =>
    simp only [List.isEmpty_cons, Bool.false_eq_true, if_false, List.mem_singleton]
    constructor
    · rintro ⟨s, rfl, hid, d, hd⟩
      simp only [List.getElem?_map] at hd
      refine ⟨hid.symm, ?_⟩
      cases hg : (p :: r)[a.2]? with
      | none => simp [hg] at hd
      | some q =>
        simp [hg] at hd
        exact ⟨q.2, by rw [← hd.1]⟩
    · rintro ⟨hid, d, hg⟩
      exact ⟨_, rfl, hid.symm, proj d, by rw [List.getElem?_map, hg]; rfl⟩

theorem abs_extraSeg (proj : δ → δ) (sid g : Nat) (pnew : List (ι × δ)) :
    abs (extraSeg proj sid g pnew) = pnew.map (fun p => (p.1, proj p.2)) := by
  unfold extraSeg
  cases pnew with
  | nil => simp [abs]
  | cons p r =>
    simp only [List.isEmpty_cons, Bool.false_eq_true, if_false]
    exact abs_single_nodel _ rfl

theorem maxGen_extraSeg (proj : δ → δ) (l : List (Seg ι δ)) (sid : Nat) (pnew : List (ι × δ)) :
    maxGen (l ++ extraSeg proj sid (maxGen l + 1) pnew) =
      if pnew.isEmpty then maxGen l else maxGen l + 1 := by
  unfold extraSeg
  cases pnew with
  | nil => simp
  | cons p r =>
    simp only [List.isEmpty_cons, Bool.false_eq_true, if_false]
    rw [maxGen_append]; simp

theorem idsInj_extraSeg {l : List (Seg ι δ)} (h : IdsInj l) (proj : δ → δ) (sid g : Nat)
    (pnew : List (ι × δ)) (hfresh : ∀ x ∈ l, x.id < sid) :
    IdsInj (l ++ extraSeg proj sid g pnew) := by
  unfold extraSeg
  cases pnew with
  | nil => simpa using h
  | cons p r =>
    simp only [List.isEmpty_cons, Bool.false_eq_true, if_false]
    apply idsInj_append h
    intro x hx e
    have := hfresh x hx
    simp at e; omega

theorem ids_lt_extraSeg {l : List (Seg ι δ)} (proj : δ → δ) (sid g : Nat) (pnew : List (ι × δ))
    (hfresh : ∀ x ∈ l, x.id < sid) : ∀ x ∈ l ++ extraSeg proj sid g pnew, x.id < sid + 1 := by
  intro x hx
  rcases List.mem_append.mp hx with hx | hx
  · have := hfresh x hx; omega
  · unfold extraSeg at hx
    cases pnew with
    | nil => simp at hx
    | cons p r =>
      simp at hx; subst hx; simp

end SL.Contents
