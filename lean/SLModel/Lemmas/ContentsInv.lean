import SLModel.Lemmas.Contents
/-!
# Lemmas/ContentsInv — `commit`/`compact` preserve the invariant and refine the spec
-/
set_option linter.unusedSectionVars false
set_option linter.unusedSimpArgs false
namespace SL.Contents

variable {ι δ : Type} [DecidableEq ι]

/-- manifest part of the invariant -/
structure SegInv (proj : δ → δ) (segs : List (Seg ι δ)) (nextSeg : Nat) : Prop where
  inj : IdsInj segs
  lt : ∀ x ∈ segs, x.id < nextSeg
  nodup : NodupKeys (abs segs)
  fixed : ∀ p ∈ abs segs, proj p.2 = p.2

/-- a cached live map tagged with generation `gen` is usable: the tag never exceeds the manifest's
maximal generation and, when it equals it, the map is good (a superset with correct addresses) -/
def CacheOK (segs : List (Seg ι δ)) (live : List (ι × Addr)) (gen : Nat) : Prop :=
  gen ≤ maxGen segs ∧ (gen = maxGen segs → Good segs live)

/-! ## commit -/

def cAcc (live0 : List (ι × Addr)) (ops : List (Op ι δ)) : Acc ι δ :=
  ops.foldl Acc.step { live := live0, tombs := [], pnew := [] }

def cSegs1 (segs : List (Seg ι δ)) (live0 : List (ι × Addr)) (ops : List (Op ι δ)) :
    List (Seg ι δ) :=
  segs.map (·.kill (cAcc live0 ops).tombs)

def cSegs2 (proj : δ → δ) (segs : List (Seg ι δ)) (nextSeg : Nat) (live0 : List (ι × Addr))
    (ops : List (Op ι δ)) : List (Seg ι δ) :=
  cSegs1 segs live0 ops ++
    extraSeg proj nextSeg (maxGen (cSegs1 segs live0 ops) + 1) (cAcc live0 ops).pnew

theorem pn_nodup (live0 : List (ι × Addr)) (ops : List (Op ι δ)) :
    NodupKeys (cAcc live0 ops).pnew := by
  apply fold_pnew_nodup
  simp [NodupKeys]

theorem pn_get (live0 : List (ι × Addr)) (ops : List (Op ι δ)) (i : ι) :
    alGet (cAcc live0 ops).pnew i = match lastOp ops i with
      | some r => r
      | none => none := by
  unfold cAcc
  rw [fold_pnew]
  cases lastOp ops i <;> simp [alGet]

theorem pn_touched {live0 : List (ι × Addr)} {ops : List (Op ι δ)} {i : ι} {d : δ}
    (h : alGet (cAcc live0 ops).pnew i = some d) : touched ops i := by
  rw [pn_get] at h
  unfold touched
  cases hl : lastOp ops i with
  | none => simp [hl] at h
  | some r => simp

theorem live_get (live0 : List (ι × Addr)) (ops : List (Op ι δ)) (i : ι) :
    alGet (cAcc live0 ops).live i = match lastOp ops i with
      | some _ => none
      | none => alGet live0 i := by
  exact fold_live ops _ i

theorem liveAt_segs1 {segs : List (Seg ι δ)} (hinj : IdsInj segs) {live0 : List (ι × Addr)}
    (hgood : Good segs live0) (ops : List (Op ι δ)) {i : ι} {a : Addr} {d : δ} :
    LiveAt (cSegs1 segs live0 ops) i a d ↔ LiveAt segs i a d ∧ ¬ touched ops i := by
  unfold cSegs1
  rw [liveAt_kill]
  constructor
  · rintro ⟨hl, hnt⟩
    refine ⟨hl, fun ht => hnt ?_⟩
    exact (fold_tombs ops _ a).mpr (Or.inr ⟨i, ht, hgood.1 i a d hl⟩)
  · rintro ⟨hl, hnt⟩
    refine ⟨hl, fun hmem => ?_⟩
    rcases (fold_tombs ops _ a).mp hmem with h | ⟨j, hj, hg⟩
    · simp at h
    · have e : j = i := HasDoc.id_eq hinj (hgood.2 j a hg) hl.hasDoc
      subst e
      exact hnt hj

theorem liveAt_segs2 (proj : δ → δ) {segs : List (Seg ι δ)} (hinj : IdsInj segs) (nextSeg : Nat)
    {live0 : List (ι × Addr)} (hgood : Good segs live0) (ops : List (Op ι δ))
    {i : ι} {a : Addr} {d' : δ} :
    LiveAt (cSegs2 proj segs nextSeg live0 ops) i a d' ↔
      (LiveAt segs i a d' ∧ ¬ touched ops i) ∨
      (a.1 = nextSeg ∧ ∃ d, (cAcc live0 ops).pnew[a.2]? = some (i, d) ∧ d' = proj d) := by
  unfold cSegs2
  rw [liveAt_append, liveAt_segs1 hinj hgood, liveAt_extraSeg]

theorem mem_abs_segs2 (proj : δ → δ) {segs : List (Seg ι δ)} (hinj : IdsInj segs) (nextSeg : Nat)
    {live0 : List (ι × Addr)} (hgood : Good segs live0) (ops : List (Op ι δ)) {i : ι} {d' : δ} :
    (i, d') ∈ abs (cSegs2 proj segs nextSeg live0 ops) ↔
      ((i, d') ∈ abs segs ∧ ¬ touched ops i) ∨
      (∃ d, alGet (cAcc live0 ops).pnew i = some d ∧ d' = proj d) := by
  rw [mem_abs]
  constructor
  · rintro ⟨a, h⟩
    rcases (liveAt_segs2 proj hinj nextSeg hgood ops).mp h with ⟨hl, hnt⟩ | ⟨_, d, hg, e⟩
    · exact Or.inl ⟨mem_abs.mpr ⟨a, hl⟩, hnt⟩
    · exact Or.inr ⟨d, (mem_iff_get_nodup (pn_nodup live0 ops)).mp ⟨a.2, hg⟩, e⟩
  · rintro (⟨hm, hnt⟩ | ⟨d, hg, e⟩)
    · obtain ⟨a, hl⟩ := mem_abs.mp hm
      exact ⟨a, (liveAt_segs2 proj hinj nextSeg hgood ops).mpr (Or.inl ⟨hl, hnt⟩)⟩
    · obtain ⟨n, hn⟩ := (mem_iff_get_nodup (pn_nodup live0 ops)).mpr hg
      exact ⟨(nextSeg, n), (liveAt_segs2 proj hinj nextSeg hgood ops).mpr (Or.inr ⟨rfl, d, hn, e⟩)⟩

/-- the refinement step for `commit`: membership in the new contents = lookup in the spec fold -/
theorem commit_refines (proj : δ → δ) {segs : List (Seg ι δ)} (hinj : IdsInj segs) (nextSeg : Nat)
    {live0 : List (ι × Addr)} (hgood : Good segs live0) (ops : List (Op ι δ))
    {c : List (ι × δ)} (href : ∀ i d, (i, d) ∈ abs segs ↔ alGet c i = some d) (i : ι) (d' : δ) :
    (i, d') ∈ abs (cSegs2 proj segs nextSeg live0 ops) ↔
      alGet (ops.foldl (Spec.apply proj) c) i = some d' := by
  rw [mem_abs_segs2 proj hinj nextSeg hgood, spec_fold_get, href, pn_get]
  unfold touched
  cases h : lastOp ops i with
  | none => simp
  | some r =>
    cases r with
    | none => simp
    | some d => simp [eq_comm]

theorem commit_nodup (proj : δ → δ) {segs : List (Seg ι δ)} (hinj : IdsInj segs)
    (hnd : NodupKeys (abs segs)) (nextSeg : Nat)
    {live0 : List (ι × Addr)} (hgood : Good segs live0) (ops : List (Op ι δ)) :
    NodupKeys (abs (cSegs2 proj segs nextSeg live0 ops)) := by
  unfold cSegs2 NodupKeys
  rw [abs_append, abs_extraSeg, List.map_append, List.nodup_append]
  refine ⟨?_, ?_, ?_⟩
  · exact List.Nodup.sublist (abs_kill_keys_sublist segs _) hnd
  · rw [List.map_map]
    exact pn_nodup live0 ops
  · intro x hx y hy e
    subst e
    obtain ⟨p, hp, hpx⟩ := List.mem_map.mp hx
    obtain ⟨q, hq, hqx⟩ := List.mem_map.mp hy
    obtain ⟨q', hq', rfl⟩ := List.mem_map.mp hq
    obtain ⟨i, d⟩ := p
    simp only at hpx hqx
    subst hpx
    obtain ⟨a, hl⟩ := mem_abs.mp hp
    have hnt := ((liveAt_segs1 hinj hgood ops).mp hl).2
    have hget : alGet (cAcc live0 ops).pnew q'.1 = some q'.2 :=
      alGet_of_mem_nodup (pn_nodup live0 ops) hq'
    rw [← hqx] at hnt
    exact hnt (pn_touched hget)

theorem commit_fixed (proj : δ → δ) (hproj : ∀ d, proj (proj d) = proj d)
    {segs : List (Seg ι δ)} (hinj : IdsInj segs)
    (hfix : ∀ p ∈ abs segs, proj p.2 = p.2) (nextSeg : Nat)
    {live0 : List (ι × Addr)} (hgood : Good segs live0) (ops : List (Op ι δ)) :
    ∀ p ∈ abs (cSegs2 proj segs nextSeg live0 ops), proj p.2 = p.2 := by
  rintro ⟨i, d'⟩ hp
  rcases (mem_abs_segs2 proj hinj nextSeg hgood ops).mp hp with ⟨hm, _⟩ | ⟨d, _, e⟩
  · exact hfix _ hm
  · simp only [e, hproj]

theorem commit_good (proj : δ → δ) {segs : List (Seg ι δ)} (hinj : IdsInj segs) (nextSeg : Nat)
    {live0 : List (ι × Addr)} (hgood : Good segs live0) (ops : List (Op ι δ)) :
    Good (cSegs2 proj segs nextSeg live0 ops)
      (addNew (cAcc live0 ops).live nextSeg 0 (cAcc live0 ops).pnew) := by
  constructor
  · intro i a d' h
    rcases (liveAt_segs2 proj hinj nextSeg hgood ops).mp h with ⟨hl, hnt⟩ | ⟨ha, d, hg, _⟩
    · have hnk : ∀ d, (i, d) ∉ (cAcc live0 ops).pnew := fun d hd =>
        hnt (pn_touched (alGet_of_mem_nodup (pn_nodup live0 ops) hd))
      rw [addNew_get_not_key _ _ _ _ _ hnk, live_get]
      unfold touched at hnt
      cases hl' : lastOp ops i with
      | none => simp; exact hgood.1 i a d' hl
      | some r => exact absurd (by simp [hl']) hnt
    · rw [addNew_get_key _ _ _ _ (pn_nodup live0 ops) a.2 i d hg]
      congr 1
      exact Prod.ext ha.symm (by simp)
  · intro i a h
    unfold cSegs2
    rw [hasDoc_append]
    cases hp : alGet (cAcc live0 ops).pnew i with
    | none =>
      left
      have hnk : ∀ d, (i, d) ∉ (cAcc live0 ops).pnew := fun d hd => by
        rw [alGet_of_mem_nodup (pn_nodup live0 ops) hd] at hp; simp at hp
      rw [addNew_get_not_key _ _ _ _ _ hnk, live_get] at h
      unfold cSegs1
      rw [hasDoc_kill]
      cases hl' : lastOp ops i with
      | none => simp [hl'] at h; exact hgood.2 i a h
      | some r => simp [hl'] at h
    | some d =>
      right
      obtain ⟨n, hn⟩ := (mem_iff_get_nodup (pn_nodup live0 ops)).mpr hp
      rw [addNew_get_key _ _ _ _ (pn_nodup live0 ops) n i d hn] at h
      rw [hasDoc_extraSeg]
      have : a = (nextSeg, 0 + n) := (Option.some.inj h).symm
      subst this
      exact ⟨rfl, d, by simpa using hn⟩

theorem maxGen_segs2 (proj : δ → δ) (segs : List (Seg ι δ)) (nextSeg : Nat)
    (live0 : List (ι × Addr)) (ops : List (Op ι δ)) :
    maxGen (cSegs2 proj segs nextSeg live0 ops) =
      if (cAcc live0 ops).pnew.isEmpty then maxGen segs else maxGen segs + 1 := by
  unfold cSegs2
  rw [maxGen_extraSeg]
  unfold cSegs1
  rw [maxGen_kill]

/-- caches of *other* handles stay usable across a commit: either a segment was added (their tag
is now too old) or only tombstones were added (a good map stays good) -/
theorem commit_other (proj : δ → δ) {segs : List (Seg ι δ)} (hinj : IdsInj segs) (nextSeg : Nat)
    {live0 : List (ι × Addr)} (hgood : Good segs live0) (ops : List (Op ι δ))
    {live : List (ι × Addr)} {gen : Nat} (h : CacheOK segs live gen) :
    CacheOK (cSegs2 proj segs nextSeg live0 ops) live gen := by
  unfold CacheOK at h ⊢
  rw [maxGen_segs2]
  cases hp : (cAcc live0 ops).pnew with
  | nil =>
    simp only [List.isEmpty_nil, if_true]
    refine ⟨h.1, fun e => ?_⟩
    obtain ⟨g1, g2⟩ := h.2 e
    constructor
    · intro i a d hl
      rcases (liveAt_segs2 proj hinj nextSeg hgood ops).mp hl with ⟨hl', _⟩ | ⟨_, d0, hg, _⟩
      · exact g1 i a d hl'
      · rw [hp] at hg; simp at hg
    · intro i a hg
      unfold cSegs2
      rw [hasDoc_append]
      left
      unfold cSegs1
      rw [hasDoc_kill]
      exact g2 i a hg
  | cons p r =>
    simp only [List.isEmpty_cons, Bool.false_eq_true, if_false]
    refine ⟨by omega, fun e => ?_⟩
    omega

theorem commit_segInv (proj : δ → δ) (hproj : ∀ d, proj (proj d) = proj d)
    {segs : List (Seg ι δ)} {nextSeg : Nat} (hinv : SegInv proj segs nextSeg)
    {live0 : List (ι × Addr)} (hgood : Good segs live0) (ops : List (Op ι δ)) :
    SegInv proj (cSegs2 proj segs nextSeg live0 ops) (nextSeg + 1) := by
  have hlt1 : ∀ x ∈ cSegs1 segs live0 ops, x.id < nextSeg := by
    intro x hx
    obtain ⟨s, hs, rfl⟩ := List.mem_map.mp hx
    exact hinv.lt s hs
  constructor
  · unfold cSegs2
    exact idsInj_extraSeg (idsInj_kill hinv.inj _) proj _ _ _ hlt1
  · unfold cSegs2
    exact ids_lt_extraSeg proj _ _ _ hlt1
  · exact commit_nodup proj hinv.inj hinv.nodup nextSeg hgood ops
  · exact commit_fixed proj hproj hinv.inj hinv.fixed nextSeg hgood ops

/-! ## compact -/

def compactSeg (proj : δ → δ) (segs : List (Seg ι δ)) (nextSeg : Nat) : Seg ι δ :=
  { id := nextSeg, gen := maxGen segs + 1,
    docs := (abs segs).map (fun p => (p.1, proj p.2)), deleted := [] }

theorem abs_compactSeg (proj : δ → δ) {segs : List (Seg ι δ)}
    (hfix : ∀ p ∈ abs segs, proj p.2 = p.2) (nextSeg : Nat) :
    abs [compactSeg proj segs nextSeg] = abs segs := by
  rw [abs_single_nodel _ rfl]
  show (abs segs).map (fun p => (p.1, proj p.2)) = abs segs
  conv => rhs; rw [← List.map_id (abs segs)]
  apply List.map_congr_left
  intro p hp
  rw [hfix p hp]; rfl

theorem compact_segInv (proj : δ → δ) {segs : List (Seg ι δ)} {nextSeg : Nat}
    (hinv : SegInv proj segs nextSeg) :
    SegInv proj [compactSeg proj segs nextSeg] (nextSeg + 1) := by
  constructor
  · intro x hx y hy _
    rw [List.mem_singleton.mp hx, List.mem_singleton.mp hy]
  · intro x hx
    rw [List.mem_singleton.mp hx]; simp [compactSeg]
  · rw [abs_compactSeg proj hinv.fixed]; exact hinv.nodup
  · rw [abs_compactSeg proj hinv.fixed]; exact hinv.fixed

theorem compact_other (proj : δ → δ) (segs : List (Seg ι δ)) (nextSeg : Nat)
    {live : List (ι × Addr)} {gen : Nat} (h : CacheOK segs live gen) :
    CacheOK [compactSeg proj segs nextSeg] live gen := by
  unfold CacheOK at h ⊢
  have : maxGen [compactSeg proj segs nextSeg] = maxGen segs + 1 := by
    simp [maxGen, compactSeg]
  rw [this]
  exact ⟨by omega, fun e => by omega⟩

/-! ## states -/

/-- the invariant of the mechanism state -/
structure Inv (proj : δ → δ) (s : St ι δ) : Prop where
  seg : SegInv proj s.segs s.nextSeg
  handles : ∀ p ∈ s.handles, CacheOK s.segs p.2.live p.2.liveGen

/-- what the spec sees of a handle -/
def absH (h : Handle ι δ) : Spec.Handle ι δ := { queue := h.queue, pos := h.pos }

/-- refinement relation between a mechanism state and a spec state: same log, same queues and
positions, and the live documents of the segments are exactly the committed map -/
structure Refines (s : St ι δ) (t : Spec.St ι δ) : Prop where
  log : s.log = t.log
  ser : s.nextSer = t.nextSer
  handles : s.handles.map (fun p => (p.1, absH p.2)) = t.handles
  contents : ∀ i d, (i, d) ∈ abs s.segs ↔ alGet t.committed i = some d

theorem handles_get {s : St ι δ} {t : Spec.St ι δ} (hr : Refines s t) (h : Nat) :
    alGet t.handles h = (alGet s.handles h).map absH := by
  rw [← hr.handles, alGet_map_val]

theorem forall_alSet {κ α : Type} [DecidableEq κ] {P : α → Prop} {l : List (κ × α)} {k : κ} {v : α}
    (hl : ∀ p ∈ l, P p.2) (hv : P v) : ∀ p ∈ alSet l k v, P p.2 := by
  intro p hp
  rcases mem_alSet hp with e | h
  · rw [e]; exact hv
  · exact hl p h

theorem forall_alDel {κ α : Type} [DecidableEq κ] {P : α → Prop} {l : List (κ × α)} {k : κ}
    (hl : ∀ p ∈ l, P p.2) : ∀ p ∈ alDel l k, P p.2 :=
  fun p hp => hl p (mem_alDel.mp hp).1

theorem inv_init (proj : δ → δ) (mem : Bool) : Inv proj (init mem : St ι δ) := by
  constructor
  · constructor
    · intro x hx; simp [init] at hx
    · intro x hx; simp [init] at hx
    · simp [init, abs, NodupKeys]
    · intro p hp; simp [init, abs] at hp
  · intro p hp; simp [init] at hp

theorem refines_init (mem : Bool) : Refines (init mem : St ι δ) (Spec.init mem) := by
  constructor <;> simp [init, Spec.init, abs, alGet]

theorem commit_eq (cfg : Cfg δ) (s : St ι δ) (hid : Nat) (hd : Handle ι δ)
    (hg : alGet s.handles hid = some hd) (hq : hd.queue.isEmpty = false) :
    commit cfg s hid =
      ({ s with
          segs := cSegs2 cfg.proj s.segs s.nextSeg
            (if maxGen s.segs = hd.liveGen then hd.live else load s.segs) hd.queue,
          log := s.log.clear, nextSeg := s.nextSeg + 1,
          handles := alSet s.handles hid
            { queue := [],
              live := addNew
                (cAcc (if maxGen s.segs = hd.liveGen then hd.live else load s.segs) hd.queue).live
                s.nextSeg 0
                (cAcc (if maxGen s.segs = hd.liveGen then hd.live else load s.segs) hd.queue).pnew,
              liveGen := maxGen (cSegs2 cfg.proj s.segs s.nextSeg
                (if maxGen s.segs = hd.liveGen then hd.live else load s.segs) hd.queue),
              pos := 0 } }, .ok) := by
  unfold commit
  simp only [hg, hq]
  rfl

theorem compact_eq (cfg : Cfg δ) (s : St ι δ) :
    compact cfg s = (s, .ok) ∨ compact cfg s = (s, .refused) ∨ compact cfg s = (s, .failed) ∨
    (2 ≤ s.segs.length ∧ cfg.safe = true ∧ (abs s.segs).all (fun p => cfg.reingestOk p.2) = true ∧
      compact cfg s =
        ({ s with segs := [compactSeg cfg.proj s.segs s.nextSeg], nextSeg := s.nextSeg + 1 }, .ok)) := by
  unfold compact
  by_cases h1 : s.segs.length ≤ 1
  · simp [h1]
  · by_cases h2 : cfg.safe = true
    · by_cases h3 : (abs s.segs).all (fun p => cfg.reingestOk p.2) = true
      · right; right; right
        refine ⟨by omega, h2, h3, ?_⟩
        simp only [h1, h2, h3, if_false, Bool.not_true, Bool.false_eq_true]
        rfl
      · simp [h1, h2, h3]
    · simp [h1, h2]

/-- every call preserves the invariant and the refinement relation -/
theorem step_preserves (cfg : Cfg δ) (hproj : ∀ d, cfg.proj (cfg.proj d) = cfg.proj d)
    {s : St ι δ} {t : Spec.St ι δ} (hi : Inv cfg.proj s) (hr : Refines s t) (c : Call ι δ) :
    Inv cfg.proj (step cfg s c).1 ∧ Refines (step cfg s c).1 (Spec.step cfg.proj t c) := by
  cases c with
  | newWriter h =>
    simp only [step, Spec.step]
    constructor
    · refine ⟨hi.seg, ?_⟩
      intro p hp
      rcases List.mem_cons.mp hp with e | hp
      · rw [e]
        exact ⟨Nat.le_refl _, fun _ => good_load hi.seg.nodup⟩
      · exact hi.handles p (mem_alDel.mp hp).1
    · refine ⟨?_, hr.ser, ?_, hr.contents⟩
      · simp only [hr.log]
      · rw [← hr.handles, alDel_map_val absH, List.map_cons, hr.log]
        rfl
  | add h i d size =>
    cases hg : alGet s.handles h with
    | none =>
      have ht : alGet t.handles h = none := by rw [handles_get hr, hg]; rfl
      simp only [step, Spec.step, hg, ht]
      exact ⟨hi, hr⟩
    | some hd =>
      have ht : alGet t.handles h = some (absH hd) := by rw [handles_get hr, hg]; rfl
      simp only [step, Spec.step, hg, ht]
      constructor
      · refine ⟨hi.seg, ?_⟩
        exact forall_alSet (P := fun (x : Handle ι δ) => CacheOK s.segs x.live x.liveGen) hi.handles
          (hi.handles _ (alGet_some_mem hg))
      · refine ⟨?_, ?_, ?_, hr.contents⟩
        · simp only [hr.log, hr.ser, absH]
        · simp only [hr.ser]
        · simp only [← hr.handles, absH, hr.log, hr.ser]
          exact (alSet_map_val absH s.handles h _).symm
  | del h i size =>
    cases hg : alGet s.handles h with
    | none =>
      have ht : alGet t.handles h = none := by rw [handles_get hr, hg]; rfl
      simp only [step, Spec.step, hg, ht]
      exact ⟨hi, hr⟩
    | some hd =>
      have ht : alGet t.handles h = some (absH hd) := by rw [handles_get hr, hg]; rfl
      simp only [step, Spec.step, hg, ht]
      constructor
      · refine ⟨hi.seg, ?_⟩
        exact forall_alSet (P := fun (x : Handle ι δ) => CacheOK s.segs x.live x.liveGen) hi.handles
          (hi.handles _ (alGet_some_mem hg))
      · refine ⟨?_, ?_, ?_, hr.contents⟩
        · simp only [hr.log, hr.ser, absH]
        · simp only [hr.ser]
        · simp only [← hr.handles, absH, hr.log, hr.ser]
          exact (alSet_map_val absH s.handles h _).symm
  | commit h =>
    cases hg : alGet s.handles h with
    | none =>
      have ht : alGet t.handles h = none := by rw [handles_get hr, hg]; rfl
      simp only [step, commit, Spec.step, hg, ht]
      exact ⟨hi, hr⟩
    | some hd =>
      have ht : alGet t.handles h = some (absH hd) := by rw [handles_get hr, hg]; rfl
      cases hq : hd.queue.isEmpty with
      | true =>
        have hq' : (absH hd).queue.isEmpty = true := hq
        simp only [step, commit, Spec.step, hg, ht, hq, hq', if_true]
        exact ⟨hi, hr⟩
      | false =>
        have hq' : (absH hd).queue.isEmpty = false := hq
        have hc := hi.handles _ (alGet_some_mem hg)
        have hgood : Good s.segs (if maxGen s.segs = hd.liveGen then hd.live else load s.segs) := by
          by_cases e : maxGen s.segs = hd.liveGen
          · simp only [e, if_true]; exact hc.2 e.symm
          · simp only [e, if_false]; exact good_load hi.seg.nodup
        simp only [step, Spec.step, ht, hq', commit_eq cfg s h hd hg hq, Bool.false_eq_true, if_false]
        constructor
        · refine ⟨commit_segInv cfg.proj hproj hi.seg hgood hd.queue, ?_⟩
          intro p hp
          have hp' : p ∈ alSet s.handles h _ := hp
          rcases mem_alSet hp' with e | hp''
          · rw [e]
            exact ⟨Nat.le_refl _, fun _ => commit_good cfg.proj hi.seg.inj s.nextSeg hgood hd.queue⟩
          · exact commit_other cfg.proj hi.seg.inj s.nextSeg hgood hd.queue (hi.handles p hp'')
        · refine ⟨?_, hr.ser, ?_, ?_⟩
          · simp only [hr.log]
          · simp only [← hr.handles]
            exact (alSet_map_val absH s.handles h _).symm
          · intro i d
            exact commit_refines cfg.proj hi.seg.inj s.nextSeg hgood hd.queue hr.contents i d
  | rollback h =>
    cases hg : alGet s.handles h with
    | none =>
      have ht : alGet t.handles h = none := by rw [handles_get hr, hg]; rfl
      simp only [step, Spec.step, hg, ht]
      exact ⟨hi, hr⟩
    | some hd =>
      have ht : alGet t.handles h = some (absH hd) := by rw [handles_get hr, hg]; rfl
      simp only [step, Spec.step, hg, ht]
      constructor
      · refine ⟨hi.seg, ?_⟩
        exact forall_alSet (P := fun (x : Handle ι δ) => CacheOK s.segs x.live x.liveGen) hi.handles
          (hi.handles _ (alGet_some_mem hg))
      · refine ⟨?_, hr.ser, ?_, hr.contents⟩
        · simp only [hr.log]
        · simp only [← hr.handles]
          exact (alSet_map_val absH s.handles h _).symm
  | dropWriter h =>
    simp only [step, Spec.step]
    constructor
    · exact ⟨hi.seg, forall_alDel (P := fun (x : Handle ι δ) => CacheOK s.segs x.live x.liveGen) hi.handles⟩
    · refine ⟨hr.log, hr.ser, ?_, hr.contents⟩
      simp only [← hr.handles, alDel_map_val]
  | compact =>
    simp only [step, Spec.step]
    rcases compact_eq cfg s with e | e | e | ⟨_, _, _, e⟩
    · rw [e]; exact ⟨hi, hr⟩
    · rw [e]; exact ⟨hi, hr⟩
    · rw [e]; exact ⟨hi, hr⟩
    · rw [e]
      constructor
      · refine ⟨compact_segInv cfg.proj hi.seg, ?_⟩
        intro p hp
        exact compact_other cfg.proj s.segs s.nextSeg (hi.handles p hp)
      · refine ⟨hr.log, hr.ser, hr.handles, ?_⟩
        intro i d
        show (i, d) ∈ abs [compactSeg cfg.proj s.segs s.nextSeg] ↔ _
        rw [abs_compactSeg cfg.proj hi.seg.fixed]
        exact hr.contents i d
  | reopen =>
    simp only [step, Spec.step]
    constructor
    · exact ⟨hi.seg, by intro p hp; simp at hp⟩
    · exact ⟨hr.log, hr.ser, by simp, hr.contents⟩

/-- the invariant and the refinement hold after every call list -/
theorem run_preserves (cfg : Cfg δ) (hproj : ∀ d, cfg.proj (cfg.proj d) = cfg.proj d)
    (mem : Bool) (cs : List (Call ι δ)) :
    Inv cfg.proj (run cfg mem cs) ∧ Refines (run cfg mem cs) (Spec.run cfg.proj mem cs) := by
  unfold run Spec.run
  suffices h : ∀ (s : St ι δ) (t : Spec.St ι δ), Inv cfg.proj s → Refines s t →
      Inv cfg.proj (cs.foldl (fun s c => (step cfg s c).1) s) ∧
      Refines (cs.foldl (fun s c => (step cfg s c).1) s) (cs.foldl (Spec.step cfg.proj) t) from
    h _ _ (inv_init cfg.proj mem) (refines_init mem)
  induction cs with
  | nil => intro s t hi hr; exact ⟨hi, hr⟩
  | cons c cs ih =>
    intro s t hi hr
    obtain ⟨hi', hr'⟩ := step_preserves cfg hproj hi hr c
    exact ih _ _ hi' hr'

/-- per-id form of the refinement (used by `Props/C04` and `Props/C14`) -/
theorem contents_refines_aux (cfg : Cfg δ) (hproj : ∀ d, cfg.proj (cfg.proj d) = cfg.proj d)
    (mem : Bool) (cs : List (Call ι δ)) (i : ι) :
    copies (run cfg mem cs).segs i = (alGet (Spec.run cfg.proj mem cs).committed i).toList := by
  obtain ⟨hi, hr⟩ := run_preserves cfg hproj mem cs
  unfold copies
  rw [filter_key_of_nodup hi.seg.nodup]
  congr 1
  apply Option.ext
  intro d
  constructor
  · intro h
    exact (hr.contents i d).mp (alGet_some_mem h)
  · intro h
    exact alGet_of_mem_nodup hi.seg.nodup ((hr.contents i d).mpr h)

/-- identity projection on naturals (witnesses) -/
def cfgId : Cfg Nat := { proj := id, safe := true, reingestOk := fun _ => true }

end SL.Contents
