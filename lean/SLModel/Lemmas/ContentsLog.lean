import SLModel.Lemmas.Contents
/-!
# Lemmas/ContentsLog — the shared log never invents operations

For both backends: every operation a handle can inherit from the log, every queued operation and
every committed document stems from an `add`/`delete` call of the history.  (The in-memory log can
*lose* operations — stale positions, zero gaps — but replay never yields anything that was not
appended; in the model this is structural, in the code it rests on the checksum assumption stated at
`parse`.)
-/
set_option linter.unusedSectionVars false
set_option linter.unusedSimpArgs false
namespace SL.Contents

variable {ι δ : Type} [DecidableEq ι]

def Cell.opIn (A : List (Op ι δ)) : Cell ι δ → Prop
  | .zero => True
  | .byte op _ _ _ => op ∈ A

def CellsIn (A : List (Op ι δ)) (cells : List (Cell ι δ)) : Prop := ∀ c ∈ cells, c.opIn A

theorem parse_subset {A : List (Op ι δ)} : ∀ (fuel : Nat) (cells : List (Cell ι δ)),
    CellsIn A cells → ∀ op ∈ parse fuel cells, op ∈ A := by
  intro fuel
  induction fuel with
  | zero => intro cells _ op h; simp [parse] at h
  | succ n ih =>
    intro cells hc op h
    cases cells with
    | nil => simp [parse] at h
    | cons c cs =>
      cases c with
      | zero => simp [parse] at h
      | byte o ser size off =>
        simp only [parse] at h
        split at h
        · rcases List.mem_cons.mp h with e | h'
          · rw [e]; exact hc _ (List.mem_cons_self ..)
          · apply ih (cs.drop (size - 1)) _ op h'
            intro c hcm
            exact hc c (List.mem_cons_of_mem _ (List.mem_of_mem_drop hcm))
        · simp at h

theorem cellsIn_zeros (A : List (Op ι δ)) (n : Nat) : CellsIn A (zeros n : List (Cell ι δ)) := by
  induction n with
  | zero => intro c h; simp [zeros] at h
  | succ n ih =>
    intro c h
    simp only [zeros, List.mem_cons] at h
    rcases h with e | h
    · rw [e]; trivial
    · exact ih c h

theorem cellsIn_recCells (A : List (Op ι δ)) (op : Op ι δ) (hop : op ∈ A) (ser size : Nat) :
    ∀ (n off : Nat), CellsIn A (recCells op ser size n off) := by
  intro n
  induction n with
  | zero => intro off c h; simp [recCells] at h
  | succ n ih =>
    intro off c h
    simp only [recCells, List.mem_cons] at h
    rcases h with e | h
    · rw [e]; exact hop
    · exact ih (off + 1) c h

theorem cellsIn_mono {A B : List (Op ι δ)} (h : ∀ x ∈ A, x ∈ B) {cells : List (Cell ι δ)}
    (hc : CellsIn A cells) : CellsIn B cells := by
  intro c hm
  have := hc c hm
  cases c with
  | zero => trivial
  | byte o _ _ _ => exact h o this

theorem cellsIn_writeAt {A : List (Op ι δ)} {cells new : List (Cell ι δ)} (pos : Nat)
    (hc : CellsIn A cells) (hn : CellsIn A new) : CellsIn A (writeAt cells pos new) := by
  intro c hm
  simp only [writeAt, List.mem_append] at hm
  have hpad : CellsIn A (cells ++ zeros (pos - cells.length)) := by
    intro c h
    rcases List.mem_append.mp h with h | h
    · exact hc c h
    · exact cellsIn_zeros A _ c h
  rcases hm with (h | h) | h
  · exact hpad c (List.mem_of_mem_take h)
  · exact hn c h
  · exact hpad c (List.mem_of_mem_drop h)

/-- every operation the log can hand to a new handle is in `A` -/
def LogIn (A : List (Op ι δ)) : Log ι δ → Prop
  | .fs ops => ∀ op ∈ ops, op ∈ A
  | .mem cells => CellsIn A cells

theorem pending_subset {A : List (Op ι δ)} {l : Log ι δ} (h : LogIn A l) :
    ∀ op ∈ l.pending, op ∈ A := by
  cases l with
  | fs ops => exact h
  | mem cells => exact parse_subset _ _ h

theorem logIn_clear (A : List (Op ι δ)) (l : Log ι δ) : LogIn A l.clear := by
  cases l with
  | fs ops => intro op h; simp at h
  | mem cells => intro c h; simp at h

theorem logIn_openCut {A : List (Op ι δ)} {l : Log ι δ} (h : LogIn A l) : LogIn A l.openCut := by
  cases l with
  | fs ops => exact h
  | mem cells => intro c hm; exact h c (List.mem_of_mem_take hm)

theorem logIn_mono {A B : List (Op ι δ)} (hab : ∀ x ∈ A, x ∈ B) {l : Log ι δ} (h : LogIn A l) :
    LogIn B l := by
  cases l with
  | fs ops => intro op hm; exact hab op (h op hm)
  | mem cells => exact cellsIn_mono hab h

theorem logIn_append {A : List (Op ι δ)} {l : Log ι δ} (h : LogIn A l) (pos : Nat) (op : Op ι δ)
    (ser size : Nat) : LogIn (op :: A) (l.append pos op ser size).1 := by
  cases l with
  | fs ops =>
    intro o hm
    simp only [Log.append, List.mem_append, List.mem_singleton] at hm
    rcases hm with hm | hm
    · exact List.mem_cons_of_mem _ (h o hm)
    · rw [hm]; exact List.mem_cons_self ..
  | mem cells =>
    apply cellsIn_writeAt
    · exact cellsIn_mono (fun x hx => List.mem_cons_of_mem _ hx) h
    · exact cellsIn_recCells _ op (List.mem_cons_self ..) ser size size 0

/-- the add/delete operations of a call list (whether or not the handle existed) -/
def callOps : List (Call ι δ) → List (Op ι δ)
  | [] => []
  | .add _ i d _ :: cs => .add i d :: callOps cs
  | .del _ i _ :: cs => .del i :: callOps cs
  | _ :: cs => callOps cs

theorem mem_callOps_append {cs cs' : List (Call ι δ)} {op : Op ι δ} :
    op ∈ callOps (cs ++ cs') ↔ op ∈ callOps cs ∨ op ∈ callOps cs' := by
  induction cs with
  | nil => simp [callOps]
  | cons c cs ih =>
    cases c <;> simp [callOps, ih, or_assoc]

theorem fold_apply_mem (proj : δ → δ) (ops : List (Op ι δ)) (c : List (ι × δ)) (i : ι) (d : δ)
    (h : (i, d) ∈ ops.foldl (Spec.apply proj) c) :
    (i, d) ∈ c ∨ ∃ d0, Op.add i d0 ∈ ops ∧ d = proj d0 := by
  induction ops generalizing c with
  | nil => exact Or.inl h
  | cons op ops ih =>
    rcases ih _ h with h' | ⟨d0, hm, e⟩
    · cases op with
      | add j d1 =>
        simp only [Spec.apply, alPut, List.mem_cons] at h'
        rcases h' with e | h'
        · cases e
          exact Or.inr ⟨d1, List.mem_cons_self .., rfl⟩
        · exact Or.inl (mem_alDel.mp h').1
      | del j =>
        simp only [Spec.apply] at h'
        exact Or.inl (mem_alDel.mp h').1
    · exact Or.inr ⟨d0, List.mem_cons_of_mem _ hm, e⟩

/-- invariant of the spec state relative to the operations called so far -/
structure OpsInv (proj : δ → δ) (A : List (Op ι δ)) (t : Spec.St ι δ) : Prop where
  log : LogIn A t.log
  queues : ∀ p ∈ t.handles, ∀ op ∈ p.2.queue, op ∈ A
  committed : ∀ i d, (i, d) ∈ t.committed → ∃ d0, Op.add i d0 ∈ A ∧ d = proj d0

theorem opsInv_mono {proj : δ → δ} {A B : List (Op ι δ)} (hab : ∀ x ∈ A, x ∈ B) {t : Spec.St ι δ}
    (h : OpsInv proj A t) : OpsInv proj B t :=
  ⟨logIn_mono hab h.log, fun p hp op ho => hab op (h.queues p hp op ho),
   fun i d hm => let ⟨d0, h1, h2⟩ := h.committed i d hm; ⟨d0, hab _ h1, h2⟩⟩

theorem mem_alSet' {κ α : Type} [DecidableEq κ] {l : List (κ × α)} {k : κ} {v : α} {p : κ × α}
    (h : p ∈ alSet l k v) : p.2 = v ∨ p ∈ l := by
  simp only [alSet, List.mem_map] at h
  obtain ⟨q, hq, e⟩ := h
  by_cases hk : q.1 = k
  · simp [hk] at e; left; rw [← e]
  · simp [hk] at e; subst e; exact Or.inr hq

theorem spec_step_opsInv (proj : δ → δ) {A : List (Op ι δ)} {t : Spec.St ι δ}
    (h : OpsInv proj A t) (c : Call ι δ) :
    OpsInv proj (callOps [c] ++ A) (Spec.step proj t c) := by
  cases c with
  | newWriter k =>
    simp only [Spec.step, callOps, List.nil_append]
    refine ⟨logIn_openCut h.log, ?_, h.committed⟩
    intro p hp op ho
    rcases List.mem_cons.mp hp with e | hp
    · rw [e] at ho; exact pending_subset h.log op ho
    · exact h.queues p (mem_alDel.mp hp).1 op ho
  | add k i d size =>
    simp only [callOps, List.cons_append, List.nil_append]
    cases hg : alGet t.handles k with
    | none =>
      simp only [Spec.step, hg]
      exact opsInv_mono (fun x hx => List.mem_cons_of_mem _ hx) h
    | some hd =>
      simp only [Spec.step, hg]
      refine ⟨logIn_append h.log _ _ _ _, ?_, ?_⟩
      · intro p hp op ho
        rcases mem_alSet' hp with e | hp
        · rw [e] at ho
          simp only [List.mem_append, List.mem_singleton] at ho
          rcases ho with ho | ho
          · exact List.mem_cons_of_mem _ (h.queues _ (alGet_some_mem hg) op ho)
          · rw [ho]; exact List.mem_cons_self ..
        · exact List.mem_cons_of_mem _ (h.queues p hp op ho)
      · intro j dj hm
        obtain ⟨d0, h1, h2⟩ := h.committed j dj hm
        exact ⟨d0, List.mem_cons_of_mem _ h1, h2⟩
  | del k i size =>
    simp only [callOps, List.cons_append, List.nil_append]
    cases hg : alGet t.handles k with
    | none =>
      simp only [Spec.step, hg]
      exact opsInv_mono (fun x hx => List.mem_cons_of_mem _ hx) h
    | some hd =>
      simp only [Spec.step, hg]
      refine ⟨logIn_append h.log _ _ _ _, ?_, ?_⟩
      · intro p hp op ho
        rcases mem_alSet' hp with e | hp
        · rw [e] at ho
          simp only [List.mem_append, List.mem_singleton] at ho
          rcases ho with ho | ho
          · exact List.mem_cons_of_mem _ (h.queues _ (alGet_some_mem hg) op ho)
          · rw [ho]; exact List.mem_cons_self ..
        · exact List.mem_cons_of_mem _ (h.queues p hp op ho)
      · intro j dj hm
        obtain ⟨d0, h1, h2⟩ := h.committed j dj hm
        exact ⟨d0, List.mem_cons_of_mem _ h1, h2⟩
  | commit k =>
    simp only [callOps, List.nil_append]
    cases hg : alGet t.handles k with
    | none => simp only [Spec.step, hg]; exact h
    | some hd =>
      simp only [Spec.step, hg]
      by_cases hq : hd.queue.isEmpty = true
      · simp only [hq, if_true]; exact h
      · simp only [hq, if_false]
        refine ⟨logIn_clear A _, ?_, ?_⟩
        · intro p hp op ho
          rcases mem_alSet' hp with e | hp
          · rw [e] at ho; simp at ho
          · exact h.queues p hp op ho
        · intro i d hm
          rcases fold_apply_mem proj hd.queue t.committed i d hm with h' | ⟨d0, hm', e⟩
          · exact h.committed i d h'
          · exact ⟨d0, h.queues _ (alGet_some_mem hg) _ hm', e⟩
  | rollback k =>
    simp only [callOps, List.nil_append]
    cases hg : alGet t.handles k with
    | none => simp only [Spec.step, hg]; exact h
    | some hd =>
      simp only [Spec.step, hg]
      refine ⟨logIn_clear A _, ?_, h.committed⟩
      intro p hp op ho
      rcases mem_alSet' hp with e | hp
      · rw [e] at ho; simp at ho
      · exact h.queues p hp op ho
  | dropWriter k =>
    simp only [Spec.step, callOps, List.nil_append]
    exact ⟨h.log, fun p hp => h.queues p (mem_alDel.mp hp).1, h.committed⟩
  | compact => simp only [Spec.step, callOps, List.nil_append]; exact h
  | reopen =>
    simp only [Spec.step, callOps, List.nil_append]
    exact ⟨h.log, fun p hp => by simp at hp, h.committed⟩

theorem spec_run_opsInv (proj : δ → δ) (mem : Bool) (cs : List (Call ι δ)) :
    ∃ A, (∀ op ∈ A, op ∈ callOps cs) ∧ OpsInv proj A (Spec.run proj mem cs) := by
  unfold Spec.run
  suffices h : ∀ (cs : List (Call ι δ)) (A : List (Op ι δ)) (t : Spec.St ι δ), OpsInv proj A t →
      ∃ B, (∀ op ∈ B, op ∈ A ∨ op ∈ callOps cs) ∧ OpsInv proj B (cs.foldl (Spec.step proj) t) by
    obtain ⟨B, hb, hi⟩ := h cs [] (Spec.init mem) (by
      refine ⟨?_, ?_, ?_⟩
      · cases mem
        · intro op hm; simp at hm
        · intro c hm; simp at hm
      · intro p hp; simp [Spec.init] at hp
      · intro i d hm; simp [Spec.init] at hm)
    refine ⟨B, fun op hm => ?_, hi⟩
    rcases hb op hm with h' | h'
    · simp at h'
    · exact h'
  intro cs
  induction cs with
  | nil => intro A t h; exact ⟨A, fun op hm => Or.inl hm, h⟩
  | cons c cs ih =>
    intro A t h
    obtain ⟨B, hb, hi⟩ := ih _ _ (spec_step_opsInv proj h c)
    refine ⟨B, fun op hm => ?_, hi⟩
    rcases hb op hm with h' | h'
    · rcases List.mem_append.mp h' with h'' | h''
      · right
        have : op ∈ callOps ([c] ++ cs) := mem_callOps_append.mpr (Or.inl h'')
        simpa using this
      · exact Or.inl h''
    · right
      have : op ∈ callOps ([c] ++ cs) := mem_callOps_append.mpr (Or.inr h')
      simpa using this

end SL.Contents
