import SLModel.Core.CursorBytes
/-! Lemmas about the byte-level cursor decoders (used by `Props/C16`). -/
namespace SL.CursorBytes

theorem map_isPanic {α β : Type} (f : α → β) (o : Out α) : (o.map f).isPanic = o.isPanic := by
  cases o <;> rfl

theorem map_eq_panic {α β : Type} (f : α → β) (o : Out α) : o.map f = .panic ↔ o = .panic := by
  cases o <;> simp [Out.map]

theorem decodePairs_not_panic (plus : Bool) (bs : List Nat) : (decodePairs plus bs).isPanic = false := by
  fun_induction decodePairs plus bs with
  | case1 a b r h => simp [Out.isPanic]
  | case2 a b r v h ih => simp [map_isPanic, ih]
  | case3 bs h => rfl

theorem bindOut_isPanic {α β : Type} (o : Out α) (f : α → Out β)
    (ho : o.isPanic = false) (hf : ∀ v, (f v).isPanic = false) : (bindOut o f).isPanic = false := by
  cases o with
  | ok v => exact hf v
  | err e => rfl
  | panic => simp [Out.isPanic] at ho

theorem parseScore_not_panic (bytes : List Nat) : (parseScore bytes).isPanic = false := by
  unfold parseScore
  split
  · split
    · rfl
    · simp only []
      split <;> rfl
  · rfl

/-- a chunk that is not valid UTF-8 on its own is not a hex byte either -/
theorem pairVal_none_of_bad (plus : Bool) (a b : Nat) (h : utf8Ok2 a b = false) : pairVal plus a b = none := by
  have hv : ∀ x, 128 ≤ x → hexVal x = none := by
    intro x hx
    unfold hexVal
    have h1 : ¬ (48 ≤ x ∧ x ≤ 57) := by omega
    have h2 : ¬ (97 ≤ x ∧ x ≤ 102) := by omega
    have h3 : ¬ (65 ≤ x ∧ x ≤ 70) := by omega
    simp [h1, h2, h3]
  have hab : 128 ≤ a ∨ 128 ≤ b := by
    simp [utf8Ok2] at h
    by_cases ha : a < 128
    · right
      have := h.1 ha
      omega
    · left; omega
  unfold pairVal
  split
  · rename_i hp
    simp at hp
    rcases hab with ha | hb
    · omega
    · exact hv b hb
  · rcases hab with ha | hb
    · simp [hv a ha]
    · rw [hv b hb]
      cases hexVal a <;> rfl

/-- the legacy loop agrees with the byte decoder whenever it does not panic -/
theorem legacyPairs_eq (plus : Bool) (bs : List Nat) (h : legacyPairs plus bs ≠ .panic) :
    legacyPairs plus bs = decodePairs plus bs := by
  fun_induction legacyPairs plus bs with
  | case1 a b r hbad => simp at h
  | case2 a b r hok hnone => simp [decodePairs, hnone]
  | case3 a b r hok v hv ih =>
    have hr : legacyPairs plus r ≠ .panic := by
      intro hp
      apply h
      simp [hp, Out.map]
    simp [decodePairs, hv, ih hr]
  | case4 bs hshort =>
    unfold decodePairs
    split
    · rename_i a b r
      exact absurd rfl (hshort a b r)
    all_goals rfl

/-- the legacy loop panics exactly when the first chunk that is not valid UTF-8 is reached
before any chunk fails to parse, i.e. when it *is* the first chunk that fails to parse -/
theorem legacyPairs_panic_iff (plus : Bool) (bs : List Nat) :
    legacyPairs plus bs = .panic ↔
      ((firstBadChunk bs).isSome = true ∧ firstBadChunk bs = firstBadDigit plus bs) := by
  fun_induction legacyPairs plus bs with
  | case1 a b r hbad =>
    have hb : utf8Ok2 a b = false := by simpa using hbad
    simp [firstBadChunk, firstBadDigit, hb, pairVal_none_of_bad plus a b hb]
  | case2 a b r hok hnone =>
    have hb : utf8Ok2 a b = true := by simpa using hok
    simp [firstBadChunk, firstBadDigit, hb, hnone]
  | case3 a b r hok v hv ih =>
    have hb : utf8Ok2 a b = true := by simpa using hok
    rw [map_eq_panic, ih]
    simp [firstBadChunk, firstBadDigit, hb, hv]
    cases hfc : firstBadChunk r <;> cases hfd : firstBadDigit plus r <;> simp
  | case4 bs hshort =>
    have h1 : firstBadChunk bs = none := by
      unfold firstBadChunk
      split
      · rename_i a b r
        exact absurd rfl (hshort a b r)
      · rfl
    simp [h1]

theorem firstBadChunk_none_of_ascii (bs : List Nat) (h : ∀ b ∈ bs, b < 128) : firstBadChunk bs = none := by
  fun_induction firstBadChunk bs with
  | case1 a b r hbad =>
    have ha := h a (by simp)
    have hb := h b (by simp)
    simp [utf8Ok2, ha, hb] at hbad
  | case2 a b r hok ih =>
    have : firstBadChunk r = none := ih (fun x hx => h x (by simp [hx]))
    simp [this]
  | case3 bs hshort => rfl

/-! ### the loop since 0bc4e6f (`repairedPairs`) -/

theorem forget_map {α β : Type} (f : α → β) (o : Out α) : (o.map f).forget = (o.forget).map f := by
  cases o <;> rfl

theorem repairedPairs_not_panic (plus : Bool) (bs : List Nat) : (repairedPairs plus bs).isPanic = false := by
  fun_induction repairedPairs plus bs with
  | case1 a b r h => rfl
  | case2 a b r h hn => rfl
  | case3 a b r h v hv ih => simp [map_isPanic, ih]
  | case4 bs h => rfl

/-- the two-step loop of the code (UTF-8 test, then radix parse) has the outcome of the
nibble decoder on every input (only the wording of the error can differ) -/
theorem repairedPairs_forget (plus : Bool) (bs : List Nat) :
    (repairedPairs plus bs).forget = (decodePairs plus bs).forget := by
  fun_induction repairedPairs plus bs with
  | case1 a b r hbad =>
    have hb : utf8Ok2 a b = false := by simpa using hbad
    simp [decodePairs, pairVal_none_of_bad plus a b hb, Out.forget]
  | case2 a b r hok hnone => simp [decodePairs, hnone]
  | case3 a b r hok v hv ih => simp [decodePairs, hv, forget_map, ih]
  | case4 bs hshort =>
    unfold decodePairs
    split
    · rename_i a b r
      exact absurd rfl (hshort a b r)
    all_goals rfl

/-- wherever the original loop does not panic it IS the repaired loop (same value, same error) -/
theorem legacyPairs_eq_repaired (plus : Bool) (bs : List Nat) (h : legacyPairs plus bs ≠ .panic) :
    legacyPairs plus bs = repairedPairs plus bs := by
  fun_induction legacyPairs plus bs with
  | case1 a b r hbad => simp at h
  | case2 a b r hok hnone =>
    have hb : utf8Ok2 a b = true := by simpa using hok
    simp [repairedPairs, hb, hnone]
  | case3 a b r hok v hv ih =>
    have hb : utf8Ok2 a b = true := by simpa using hok
    have hr : legacyPairs plus r ≠ .panic := by
      intro hp
      apply h
      simp [hp, Out.map]
    simp [repairedPairs, hb, hv, ih hr]
  | case4 bs hshort =>
    unfold repairedPairs
    split
    · rename_i a b r
      exact absurd rfl (hshort a b r)
    all_goals rfl

theorem forget_bindOut {α β : Type} (o o' : Out α) (f : α → Out β) (h : o.forget = o'.forget) :
    (bindOut o f).forget = (bindOut o' f).forget := by
  cases o <;> cases o' <;> simp_all [Out.forget, bindOut]

end SL.CursorBytes
