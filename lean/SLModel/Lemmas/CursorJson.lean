import SLModel.Core.Cursor
/-!
# Lemmas/CursorJson — facts about the JSON reader of `Core/Cursor` (C11)

Part 1: every reader returns a rest that is no longer than its input (strictly shorter where a
byte is consumed) — the measure behind `decode_total` ("the fuel of the two loops never runs out").
-/
namespace SL.Cursor

theorem skipWs_len (bs : Bytes) : (skipWs bs).length ≤ bs.length := by
  induction bs with
  | nil => simp [skipWs]
  | cons b r ih => unfold skipWs; split <;> simp <;> omega

theorem tok_len {c : Nat} {bs r : Bytes} (h : tok c bs = some r) : r.length < bs.length := by
  unfold tok at h
  have := skipWs_len bs
  split at h
  · cases h
  · rename_i b t heq
    split at h
    · injection h with h; subst h; rw [heq] at this; simp at this; omega
    · cases h

theorem spanDigits_len (bs : Bytes) : (spanDigits bs).2.length ≤ bs.length := by
  induction bs with
  | nil => simp [spanDigits]
  | cons b r ih => unfold spanDigits; split <;> simp <;> omega

theorem lexSign_len (bs : Bytes) : (lexSign bs).2.length ≤ bs.length := by
  unfold lexSign
  split
  · split <;> simp
  · simp

theorem lexFrac_len {bs r : Bytes} {f : Option Bytes} (h : lexFrac bs = some (f, r)) :
    r.length ≤ bs.length := by
  unfold lexFrac at h
  split at h
  · rename_i b t
    split at h
    · split at h
      · cases h
      · injection h with h; injection h with h1 h2; subst h2
        have := spanDigits_len t; simp; omega
    · injection h with h; injection h with h1 h2; subst h2; simp
  · injection h with h; injection h with h1 h2; subst h2; simp

theorem expSign_len (bs : Bytes) : (expSign bs).2.length ≤ bs.length := by
  unfold expSign
  split
  · split
    · simp
    · split <;> simp
  · simp

theorem lexExp_len {bs r : Bytes} {e : Option (Bool × Bytes)} (h : lexExp bs = some (e, r)) :
    r.length ≤ bs.length := by
  unfold lexExp at h
  split at h
  · rename_i c t
    split at h
    · split at h
      · cases h
      · injection h with h; injection h with h1 h2; subst h2
        have := expSign_len t
        have := spanDigits_len (expSign t).2
        simp only [List.length_cons]
        omega
    · injection h with h; injection h with h1 h2; subst h2; simp
  · injection h with h; injection h with h1 h2; subst h2; simp

theorem lexNum_len {bs r : Bytes} {n : Num} (h : lexNum bs = some (n, r)) : r.length ≤ bs.length := by
  unfold lexNum at h
  simp only at h
  split at h
  · cases h
  · split at h
    · cases h
    · split at h
      · cases h
      · rename_i frac r2 hf
        split at h
        · cases h
        · rename_i exp r3 he
          injection h with h; injection h with h1 h2; subst h2
          have := lexSign_len bs
          have := spanDigits_len (lexSign bs).2
          have := lexFrac_len hf
          have := lexExp_len he
          omega

theorem consStr_some {pre : Bytes} {o : Option (Bytes × Bytes)} {s r : Bytes}
    (h : consStr pre o = some (s, r)) : ∃ s', o = some (s', r) := by
  unfold consStr at h
  split at h
  · cases h
  · rename_i s' r'
    injection h with h; injection h with h1 h2; subst h2
    exact ⟨s', rfl⟩

theorem lexStrRaw_len : ∀ (n : Nat) (bs : Bytes), bs.length ≤ n → ∀ s r,
    lexStrRaw bs = some (s, r) → r.length < bs.length := by
  intro n
  induction n with
  | zero =>
    intro bs hb s r h
    cases bs with
    | nil => simp [lexStrRaw] at h
    | cons b t => simp at hb
  | succ n ih =>
    intro bs hb s r h
    cases bs with
    | nil => simp [lexStrRaw] at h
    | cons b t =>
      have ht : t.length ≤ n := by simpa using hb
      unfold lexStrRaw at h
      repeat' split at h
      all_goals first
        | (cases h; done)
        | (obtain ⟨s', hs'⟩ := consStr_some h
           have := ih _ (by (try simp only [List.length_cons] at *); omega) _ _ hs'
           (try simp only [List.length_cons] at *); omega)
        | (cases h; simp)

theorem lexStrRaw_len' {bs s r : Bytes} (h : lexStrRaw bs = some (s, r)) : r.length < bs.length :=
  lexStrRaw_len _ _ (Nat.le_refl _) _ _ h

theorem lexStr_len {bs s r : Bytes} (h : lexStr bs = some (s, r)) : r.length < bs.length := by
  unfold lexStr at h
  split at h
  · cases h
  · rename_i s' r' heq
    split at h
    · injection h with h; injection h with h1 h2; subst h2
      exact lexStrRaw_len _ _ (Nat.le_refl _) _ _ heq
    · cases h


/-!
Part 2: length facts of the composite readers and "fuel never runs out".
-/

theorem skipWs_cons_len {bs r : Bytes} {b : UInt8} (h : skipWs bs = b :: r) : r.length < bs.length := by
  have := skipWs_len bs
  rw [h] at this
  simp at this; omega

theorem closeVal_len {v v' : CVal} {rest r : Bytes} (h : closeVal v rest = .ok v' r) :
    r.length < rest.length := by
  unfold closeVal at h
  repeat' split at h
  all_goals first
    | (cases h; done)
    | (cases h; rename_i heq; exact skipWs_cons_len heq)

theorem readContent_len {tag bs r : Bytes} {v : CVal} (h : readContent tag bs = .ok v r) :
    r.length < bs.length := by
  unfold readContent at h
  repeat' split at h
  all_goals first
    | (cases h; done)
    | grind [→ closeVal_len, → lexStr_len, → lexNum_len]

theorem readVal_len {bs r : Bytes} {v : CVal} (h : readVal bs = .ok v r) : r.length < bs.length := by
  unfold readVal at h
  repeat' split at h
  all_goals first
    | (cases h; done)
    | (have := @skipWs_len; grind [→ tok_len, → lexStr_len, → readContent_len, → skipWs_cons_len])

theorem closeVal_nofuel (v : CVal) (rest : Bytes) : closeVal v rest ≠ .fuel := by
  unfold closeVal
  repeat' split
  all_goals (intro h; cases h)

theorem readContent_nofuel (tag bs : Bytes) : readContent tag bs ≠ .fuel := by
  unfold readContent
  repeat' split
  all_goals first
    | (intro h; cases h; done)
    | exact closeVal_nofuel _ _

theorem readVal_nofuel (bs : Bytes) : readVal bs ≠ .fuel := by
  unfold readVal
  repeat' split
  all_goals first
    | (intro h; cases h; done)
    | exact readContent_nofuel _ _

theorem readVals_len : ∀ (fuel : Nat) (bs r : Bytes) (vs : List CVal),
    readVals fuel bs = .ok vs r → r.length < bs.length := by
  intro fuel
  induction fuel with
  | zero => intro bs r vs h; simp [readVals] at h
  | succ fuel ih =>
    intro bs r vs h
    unfold readVals at h
    repeat' split at h
    all_goals first
      | (cases h; done)
      | (have := ih; grind [→ readVal_len, → skipWs_cons_len])

/-- the element loop never runs out of fuel when started with more fuel than bytes -/
theorem readVals_fuel : ∀ (fuel : Nat) (bs : Bytes), bs.length < fuel → readVals fuel bs ≠ .fuel := by
  intro fuel
  induction fuel with
  | zero => intro bs hb; omega
  | succ fuel ih =>
    intro bs hb h
    unfold readVals at h
    repeat' split at h
    all_goals first
      | (cases h; done)
      | (rename_i heq; exact absurd heq (readVal_nofuel _))
      | (have := ih; grind [→ readVal_len, → skipWs_cons_len])

theorem readValues_len {bs r : Bytes} {vs : List CVal} (h : readValues bs = .ok vs r) :
    r.length < bs.length := by
  unfold readValues at h
  repeat' split at h
  all_goals first
    | (cases h; done)
    | (have := readVals_len; grind [→ tok_len])

theorem readValues_nofuel (bs : Bytes) : readValues bs ≠ .fuel := by
  unfold readValues
  repeat' split
  all_goals first
    | (intro h; cases h; done)
    | (rename_i r _ _; exact readVals_fuel _ _ (Nat.lt_succ_self _))

theorem skipScalar_len {bs r : Bytes} (h : skipScalar bs = .ok () r) : r.length ≤ bs.length := by
  unfold skipScalar at h
  repeat' split at h
  all_goals first
    | (cases h; done)
    | (cases h; simp only [List.length_drop, List.length_cons]; omega)
    | grind [→ lexNum_len, → lexStrRaw_len']

theorem skipScalar_nofuel (bs : Bytes) : skipScalar bs ≠ .fuel := by
  unfold skipScalar
  repeat' split
  all_goals (intro h; cases h)

theorem readUnsigned_len {max : Nat} {bs r : Bytes} {v : Nat} (h : readUnsigned max bs = .ok v r) :
    r.length ≤ bs.length := by
  unfold readUnsigned at h
  repeat' split at h
  all_goals first
    | (cases h; done)
    | grind [→ lexNum_len]

theorem readUnsigned_nofuel (max : Nat) (bs : Bytes) : readUnsigned max bs ≠ .fuel := by
  unfold readUnsigned
  repeat' split
  all_goals (intro h; cases h)

theorem readNumField_len {cur : Option Nat} {max : Nat} {set : Nat → Acc} {bs r : Bytes} {a : Acc}
    (h : readNumField cur max set bs = .ok a r) : r.length ≤ bs.length := by
  unfold readNumField at h
  repeat' split at h
  all_goals first
    | (cases h; done)
    | grind [→ readUnsigned_len]

theorem readNumField_nofuel (cur : Option Nat) (max : Nat) (set : Nat → Acc) (bs : Bytes) :
    readNumField cur max set bs ≠ .fuel := by
  unfold readNumField
  repeat' split
  all_goals first
    | (intro h; cases h; done)
    | (rename_i heq; exact absurd heq (readUnsigned_nofuel _ _))

theorem readField_len {key bs r : Bytes} {a a' : Acc} (h : readField key a bs = .ok a' r) :
    r.length ≤ bs.length := by
  unfold readField at h
  repeat' split at h
  all_goals first
    | (cases h; done)
    | exact readNumField_len h
    | grind [→ readValues_len, → skipScalar_len]

theorem readField_nofuel (key : Bytes) (a : Acc) (bs : Bytes) : readField key a bs ≠ .fuel := by
  unfold readField
  repeat' split
  all_goals first
    | (intro h; cases h; done)
    | exact readNumField_nofuel _ _ _ _
    | (rename_i heq; exact absurd heq (readValues_nofuel _))
    | (rename_i heq; exact absurd heq (skipScalar_nofuel _))

/-- the member loop never runs out of fuel when started with more fuel than bytes -/
theorem readMembers_fuel : ∀ (fuel : Nat) (a : Acc) (bs : Bytes), bs.length < fuel →
    readMembers fuel a bs ≠ .fuel := by
  intro fuel
  induction fuel with
  | zero => intro a bs hb; omega
  | succ fuel ih =>
    intro a bs hb h
    unfold readMembers at h
    repeat' split at h
    all_goals first
      | (cases h; done)
      | (rename_i heq; exact absurd heq (readField_nofuel _ _ _))
      | (have := ih; have := @skipWs_len
         grind [→ tok_len, → lexStr_len, → readField_len, → skipWs_cons_len])

theorem finishSort_nofuel (a : Acc) (rest : Bytes) : finishSort a rest ≠ .error .fuel := by
  unfold finishSort
  repeat' split
  all_goals (intro h; cases h)

theorem parseSortJson_nofuel (bs : Bytes) : parseSortJson bs ≠ .error .fuel := by
  unfold parseSortJson
  repeat' split
  all_goals first
    | (intro h; cases h; done)
    | exact finishSort_nofuel _ _
    | (rename_i heq; exact absurd heq (readMembers_fuel _ _ _ (Nat.lt_succ_self _)))

end SL.Cursor
