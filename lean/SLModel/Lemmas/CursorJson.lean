import SLModel.Core.Cursor
/-!
# Lemmas/CursorJson — facts about the JSON reader of `Core/Cursor` (C11)

Part 1: every reader returns a rest that is no longer than its input (strictly shorter where a
byte is consumed) — the measure behind `decode_total` ("the fuel of the two loops never runs out").
-/
namespace SL.Cursor

theorem skipWs_len (bs : Bytes) : (skipWs bs).length ≤ bs.length := by
  induction bs with
  | nil => simp [skipWs]
  | cons b r ih => unfold skipWs; split <;> simp <;> omega

theorem tok_len {c : Nat} {bs r : Bytes} (h : tok c bs = some r) : r.length < bs.length := by
  unfold tok at h
  have := skipWs_len bs
  split at h
  · cases h
  · rename_i b t heq
    split at h
    · injection h with h; subst h; rw [heq] at this; simp at this; omega
    · cases h

theorem spanDigits_len (bs : Bytes) : (spanDigits bs).2.length ≤ bs.length := by
  induction bs with
  | nil => simp [spanDigits]
  | cons b r ih => unfold spanDigits; split <;> simp <;> omega

theorem lexSign_len (bs : Bytes) : (lexSign bs).2.length ≤ bs.length := by
  unfold lexSign
  split
  · split <;> simp
  · simp

theorem lexFrac_len {bs r : Bytes} {f : Option Bytes} (h : lexFrac bs = some (f, r)) :
    r.length ≤ bs.length := by
  unfold lexFrac at h
  split at h
  · rename_i b t
    split at h
    · split at h
      · cases h
      · injection h with h; injection h with h1 h2; subst h2
        have := spanDigits_len t; simp; omega
    · injection h with h; injection h with h1 h2; subst h2; simp
  · injection h with h; injection h with h1 h2; subst h2; simp

theorem expSign_len (bs : Bytes) : (expSign bs).2.length ≤ bs.length := by
  unfold expSign
  split
  · split
    · simp
    · split <;> simp
  · simp

theorem lexExp_len {bs r : Bytes} {e : Option (Bool × Bytes)} (h : lexExp bs = some (e, r)) :
    r.length ≤ bs.length := by
  unfold lexExp at h
  split at h
  · rename_i c t
    split at h
    · split at h
      · cases h
      · injection h with h; injection h with h1 h2; subst h2
        have := expSign_len t
        have := spanDigits_len (expSign t).2
        simp only [List.length_cons]
        omega
    · injection h with h; injection h with h1 h2; subst h2; simp
  · injection h with h; injection h with h1 h2; subst h2; simp

theorem lexNum_len {bs r : Bytes} {n : Num} (h : lexNum bs = some (n, r)) : r.length ≤ bs.length := by
  unfold lexNum at h
  simp only at h
  split at h
  · cases h
  · split at h
    · cases h
    · split at h
      · cases h
      · rename_i frac r2 hf
        split at h
        · cases h
        · rename_i exp r3 he
          injection h with h; injection h with h1 h2; subst h2
          have := lexSign_len bs
          have := spanDigits_len (lexSign bs).2
          have := lexFrac_len hf
          have := lexExp_len he
          omega

theorem consStr_some {pre : Bytes} {o : Option (Bytes × Bytes)} {s r : Bytes}
    (h : consStr pre o = some (s, r)) : ∃ s', o = some (s', r) := by
  unfold consStr at h
  split at h
  · cases h
  · rename_i s' r'
    injection h with h; injection h with h1 h2; subst h2
    exact ⟨s', rfl⟩

theorem lexStrRaw_len : ∀ (n : Nat) (bs : Bytes), bs.length ≤ n → ∀ s r,
    lexStrRaw bs = some (s, r) → r.length < bs.length := by
  intro n
  induction n with
  | zero =>
    intro bs hb s r h
    cases bs with
    | nil => simp [lexStrRaw] at h
    | cons b t => simp at hb
  | succ n ih =>
    intro bs hb s r h
    cases bs with
    | nil => simp [lexStrRaw] at h
    | cons b t =>
      have ht : t.length ≤ n := by simpa using hb
      unfold lexStrRaw at h
      repeat' split at h
      all_goals first
        | (cases h; done)
        | (obtain ⟨s', hs'⟩ := consStr_some h
           have := ih _ (by (try simp only [List.length_cons] at *); omega) _ _ hs'
           (try simp only [List.length_cons] at *); omega)
        | (cases h; simp)

theorem lexStrRaw_len' {bs s r : Bytes} (h : lexStrRaw bs = some (s, r)) : r.length < bs.length :=
  lexStrRaw_len _ _ (Nat.le_refl _) _ _ h

theorem lexStr_len {bs s r : Bytes} (h : lexStr bs = some (s, r)) : r.length < bs.length := by
  unfold lexStr at h
  split at h
  · cases h
  · rename_i s' r' heq
    split at h
    · injection h with h; injection h with h1 h2; subst h2
      exact lexStrRaw_len _ _ (Nat.le_refl _) _ _ heq
    · cases h


/-!
Part 2: length facts of the composite readers and "fuel never runs out".
-/

theorem skipWs_cons_len {bs r : Bytes} {b : UInt8} (h : skipWs bs = b :: r) : r.length < bs.length := by
  have := skipWs_len bs
  rw [h] at this
  simp at this; omega

theorem closeVal_len {v v' : CVal} {rest r : Bytes} (h : closeVal v rest = .ok v' r) :
    r.length < rest.length := by
  unfold closeVal at h
  repeat' split at h
  all_goals first
    | (cases h; done)
    | (cases h; rename_i heq; exact skipWs_cons_len heq)

theorem readContent_len {tag bs r : Bytes} {v : CVal} (h : readContent tag bs = .ok v r) :
    r.length < bs.length := by
  unfold readContent at h
  repeat' split at h
  all_goals first
    | (cases h; done)
    | grind [→ closeVal_len, → lexStr_len, → lexNum_len]

theorem readVal_len {bs r : Bytes} {v : CVal} (h : readVal bs = .ok v r) : r.length < bs.length := by
  unfold readVal at h
  repeat' split at h
  all_goals first
    | (cases h; done)
    | (have := @skipWs_len; grind [→ tok_len, → lexStr_len, → readContent_len, → skipWs_cons_len])

theorem closeVal_nofuel (v : CVal) (rest : Bytes) : closeVal v rest ≠ .fuel := by
  unfold closeVal
  repeat' split
  all_goals (intro h; cases h)

theorem readContent_nofuel (tag bs : Bytes) : readContent tag bs ≠ .fuel := by
  unfold readContent
  repeat' split
  all_goals first
    | (intro h; cases h; done)
    | exact closeVal_nofuel _ _

theorem readVal_nofuel (bs : Bytes) : readVal bs ≠ .fuel := by
  unfold readVal
  repeat' split
  all_goals first
    | (intro h; cases h; done)
    | exact readContent_nofuel _ _

theorem readVals_len : ∀ (fuel : Nat) (bs r : Bytes) (vs : List CVal),
    readVals fuel bs = .ok vs r → r.length < bs.length := by
  intro fuel
  induction fuel with
  | zero => intro bs r vs h; simp [readVals] at h
  | succ fuel ih =>
    intro bs r vs h
    unfold readVals at h
    repeat' split at h
    all_goals first
      | (cases h; done)
      | (have := ih; grind [→ readVal_len, → skipWs_cons_len])

/-- the element loop never runs out of fuel when started with more fuel than bytes -/
theorem readVals_fuel : ∀ (fuel : Nat) (bs : Bytes), bs.length < fuel → readVals fuel bs ≠ .fuel := by
  intro fuel
  induction fuel with
  | zero => intro bs hb; omega
  | succ fuel ih =>
    intro bs hb h
    unfold readVals at h
    repeat' split at h
    all_goals first
      | (cases h; done)
      | (rename_i heq; exact absurd heq (readVal_nofuel _))
      | (have := ih; grind [→ readVal_len, → skipWs_cons_len])

theorem readValues_len {bs r : Bytes} {vs : List CVal} (h : readValues bs = .ok vs r) :
    r.length < bs.length := by
  unfold readValues at h
  repeat' split at h
  all_goals first
    | (cases h; done)
    | (have := readVals_len; grind [→ tok_len])

theorem readValues_nofuel (bs : Bytes) : readValues bs ≠ .fuel := by
  unfold readValues
  repeat' split
  all_goals first
    | (intro h; cases h; done)
    | (rename_i r _ _; exact readVals_fuel _ _ (Nat.lt_succ_self _))

theorem skipScalar_len {bs r : Bytes} (h : skipScalar bs = .ok () r) : r.length ≤ bs.length := by
  unfold skipScalar at h
  repeat' split at h
  all_goals first
    | (cases h; done)
    | (cases h; simp only [List.length_drop, List.length_cons]; omega)
    | grind [→ lexNum_len, → lexStrRaw_len']

theorem skipScalar_nofuel (bs : Bytes) : skipScalar bs ≠ .fuel := by
  unfold skipScalar
  repeat' split
  all_goals (intro h; cases h)

theorem readUnsigned_len {max : Nat} {bs r : Bytes} {v : Nat} (h : readUnsigned max bs = .ok v r) :
    r.length ≤ bs.length := by
  unfold readUnsigned at h
  repeat' split at h
  all_goals first
    | (cases h; done)
    | grind [→ lexNum_len]

theorem readUnsigned_nofuel (max : Nat) (bs : Bytes) : readUnsigned max bs ≠ .fuel := by
  unfold readUnsigned
  repeat' split
  all_goals (intro h; cases h)

theorem readNumField_len {cur : Option Nat} {max : Nat} {set : Nat → Acc} {bs r : Bytes} {a : Acc}
    (h : readNumField cur max set bs = .ok a r) : r.length ≤ bs.length := by
  unfold readNumField at h
  repeat' split at h
  all_goals first
    | (cases h; done)
    | grind [→ readUnsigned_len]

theorem readNumField_nofuel (cur : Option Nat) (max : Nat) (set : Nat → Acc) (bs : Bytes) :
    readNumField cur max set bs ≠ .fuel := by
  unfold readNumField
  repeat' split
  all_goals first
    | (intro h; cases h; done)
    | (rename_i heq; exact absurd heq (readUnsigned_nofuel _ _))

theorem readField_len {key bs r : Bytes} {a a' : Acc} (h : readField key a bs = .ok a' r) :
    r.length ≤ bs.length := by
  unfold readField at h
  repeat' split at h
  all_goals first
    | (cases h; done)
    | exact readNumField_len h
    | grind [→ readValues_len, → skipScalar_len]

theorem readField_nofuel (key : Bytes) (a : Acc) (bs : Bytes) : readField key a bs ≠ .fuel := by
  unfold readField
  repeat' split
  all_goals first
    | (intro h; cases h; done)
    | exact readNumField_nofuel _ _ _ _
    | (rename_i heq; exact absurd heq (readValues_nofuel _))
    | (rename_i heq; exact absurd heq (skipScalar_nofuel _))

/-- the member loop never runs out of fuel when started with more fuel than bytes -/
theorem readMembers_fuel : ∀ (fuel : Nat) (a : Acc) (bs : Bytes), bs.length < fuel →
    readMembers fuel a bs ≠ .fuel := by
  intro fuel
  induction fuel with
  | zero => intro a bs hb; omega
  | succ fuel ih =>
    intro a bs hb h
    unfold readMembers at h
    repeat' split at h
    all_goals first
      | (cases h; done)
      | (rename_i heq; exact absurd heq (readField_nofuel _ _ _))
      | (have := ih; have := @skipWs_len
         grind [→ tok_len, → lexStr_len, → readField_len, → skipWs_cons_len])

theorem finishSort_nofuel (a : Acc) (rest : Bytes) : finishSort a rest ≠ .error .fuel := by
  unfold finishSort
  repeat' split
  all_goals (intro h; cases h)

theorem parseSortJson_nofuel (bs : Bytes) : parseSortJson bs ≠ .error .fuel := by
  unfold parseSortJson
  repeat' split
  all_goals first
    | (intro h; cases h; done)
    | exact finishSort_nofuel _ _
    | (rename_i heq; exact absurd heq (readMembers_fuel _ _ _ (Nat.lt_succ_self _)))

/-! Part 3: printing then reading numbers -/

def valLE : List Nat → Nat
  | [] => 0
  | d :: ds => d + 10 * valLE ds

theorem valLE_digitsLE : ∀ (fuel n : Nat), n < fuel → valLE (digitsLE fuel n) = n := by
  intro fuel
  induction fuel with
  | zero => intro n h; omega
  | succ fuel ih =>
    intro n h
    unfold digitsLE
    split
    · simp [valLE]
    · have := ih (n / 10) (by omega)
      simp only [valLE, this]; omega

theorem digitsLE_lt10 : ∀ (fuel n : Nat), ∀ d ∈ digitsLE fuel n, d < 10 := by
  intro fuel
  induction fuel with
  | zero => intro n d hd; simp [digitsLE] at hd
  | succ fuel ih =>
    intro n d hd
    unfold digitsLE at hd
    split at hd
    · simp at hd; omega
    · rcases List.mem_cons.mp hd with rfl | hd
      · omega
      · exact ih _ d hd

theorem digitsLE_ne_nil (fuel n : Nat) : digitsLE (fuel + 1) n ≠ [] := by
  unfold digitsLE; split <;> simp

/-- the most significant digit of a positive number is not zero -/
theorem digitsLE_last : ∀ (fuel n : Nat), n < fuel → 0 < n →
    ∃ ini m, digitsLE fuel n = ini ++ [m] ∧ 0 < m := by
  intro fuel
  induction fuel with
  | zero => intro n h; omega
  | succ fuel ih =>
    intro n h hp
    unfold digitsLE
    split
    · exact ⟨[], n, rfl, hp⟩
    · obtain ⟨ini, m, he, hm⟩ := ih (n / 10) (by omega) (by omega)
      exact ⟨n % 10 :: ini, m, by rw [he]; rfl, hm⟩

def digitByte (d : Nat) : UInt8 := (48 + d).toUInt8

theorem natDec_eq (n : Nat) : natDec n = ((digitsLE (n + 1) n).reverse).map digitByte := rfl

theorem digitByte_toNat (d : Nat) (h : d < 10) : (digitByte d).toNat = 48 + d := by
  unfold digitByte
  simp [Nat.toUInt8, UInt8.toNat_ofNat']; omega

theorem isDigit_digitByte (d : Nat) (h : d < 10) : isDigit (digitByte d) = true := by
  simp [isDigit, digitByte_toNat d h]; omega

theorem natDec_all_digits (n : Nat) : ∀ b ∈ natDec n, isDigit b = true := by
  intro b hb
  rw [natDec_eq] at hb
  obtain ⟨d, hd, rfl⟩ := List.mem_map.mp hb
  exact isDigit_digitByte d (digitsLE_lt10 _ _ d (List.mem_reverse.mp hd))

theorem natDec_ne_nil (n : Nat) : natDec n ≠ [] := by
  rw [natDec_eq]
  simp [digitsLE_ne_nil]

theorem digitsVal_map (l : List Nat) (hl : ∀ d ∈ l, d < 10) (a : Nat) :
    (l.map digitByte).foldl (fun a d => a * 10 + (d.toNat - 48)) a = l.foldl (fun a d => a * 10 + d) a := by
  induction l generalizing a with
  | nil => rfl
  | cons d ds ih =>
    simp only [List.map_cons, List.foldl_cons]
    rw [digitByte_toNat d (hl d (by simp))]
    have : 48 + d - 48 = d := by omega
    rw [this]
    exact ih (fun x hx => hl x (by simp [hx])) _

theorem foldl_reverse_valLE (l : List Nat) : l.reverse.foldl (fun a d => a * 10 + d) 0 = valLE l := by
  induction l with
  | nil => rfl
  | cons d ds ih =>
    simp only [List.reverse_cons, List.foldl_append, List.foldl_cons, List.foldl_nil, ih, valLE]
    omega

theorem digitsVal_natDec (n : Nat) : digitsVal (natDec n) = n := by
  unfold digitsVal
  rw [natDec_eq, digitsVal_map _ (fun d hd => digitsLE_lt10 _ _ d (List.mem_reverse.mp hd)),
    foldl_reverse_valLE, valLE_digitsLE _ _ (Nat.lt_succ_self n)]

/-- no superfluous leading zero -/
theorem natDec_leading (n : Nat) (d0 : UInt8) (dr : Bytes) (h : natDec n = d0 :: dr) :
    ¬ (d0.toNat = 48 ∧ dr ≠ []) := by
  intro ⟨h0, hne⟩
  rcases Nat.eq_zero_or_pos n with hz | hp
  · subst hz
    have : natDec 0 = [digitByte 0] := by rfl
    rw [this] at h
    injection h with _ h2
    exact hne h2.symm
  · obtain ⟨ini, m, he, hm⟩ := digitsLE_last (n + 1) n (Nat.lt_succ_self n) hp
    rw [natDec_eq, he] at h
    simp only [List.reverse_append, List.reverse_cons, List.reverse_nil, List.nil_append,
      List.cons_append, List.map_cons] at h
    injection h with h1 _
    have hm10 : m < 10 := digitsLE_lt10 (n + 1) n m (by rw [he]; simp)
    rw [← h1, digitByte_toNat m hm10] at h0
    omega

/-- what may follow a number: end of input or a byte that cannot continue it -/
def NumEnd : Bytes → Prop
  | [] => True
  | b :: _ => isDigit b = false ∧ b.toNat ≠ 46 ∧ b.toNat ≠ 101 ∧ b.toNat ≠ 69

def NoDigitHead : Bytes → Prop
  | [] => True
  | b :: _ => isDigit b = false

theorem NumEnd.noDigit {r : Bytes} (h : NumEnd r) : NoDigitHead r := by
  cases r with
  | nil => trivial
  | cons b t => exact h.1

theorem spanDigits_append (ds r : Bytes) (hall : ∀ b ∈ ds, isDigit b = true) (hr : NoDigitHead r) :
    spanDigits (ds ++ r) = (ds, r) := by
  induction ds with
  | nil =>
    cases r with
    | nil => rfl
    | cons b t =>
      have hb : isDigit b = false := hr
      simp only [List.nil_append]; unfold spanDigits; simp [hb]
  | cons d ds ih =>
    have hd : isDigit d = true := hall d (by simp)
    have := ih (fun b hb => hall b (by simp [hb]))
    simp only [List.cons_append]
    unfold spanDigits
    simp [hd, this]

theorem lexFrac_end (r : Bytes) (h : NumEnd r) : lexFrac r = some (none, r) := by
  unfold lexFrac
  cases r with
  | nil => rfl
  | cons b t => simp only; obtain ⟨_, h46, _, _⟩ := h; simp [h46]

theorem lexExp_end (r : Bytes) (h : NumEnd r) : lexExp r = some (none, r) := by
  unfold lexExp
  cases r with
  | nil => rfl
  | cons b t => simp only; obtain ⟨_, _, h1, h2⟩ := h; simp [h1, h2]

theorem natDec_head (n : Nat) : ∃ d0 dr, natDec n = d0 :: dr ∧ isDigit d0 = true := by
  cases h : natDec n with
  | nil => exact absurd h (natDec_ne_nil n)
  | cons d0 dr => exact ⟨d0, dr, rfl, natDec_all_digits n d0 (by rw [h]; simp)⟩

theorem lexSign_digit (d0 : UInt8) (t : Bytes) (h : isDigit d0 = true) : lexSign (d0 :: t) = (false, d0 :: t) := by
  unfold lexSign
  have : d0.toNat ≠ 45 := by
    simp [isDigit] at h; omega
  simp [this]

/-- reading a printed natural number: the token -/
theorem lexNum_natDec (n : Nat) (r : Bytes) (hr : NumEnd r) :
    lexNum (natDec n ++ r) = some ({ neg := false, int := natDec n, frac := none, exp := none, lex := natDec n }, r) := by
  obtain ⟨d0, dr, hd, hdig⟩ := natDec_head n
  have hspan : spanDigits (natDec n ++ r) = (natDec n, r) :=
    spanDigits_append _ _ (natDec_all_digits n) hr.noDigit
  have hsign : lexSign (natDec n ++ r) = (false, natDec n ++ r) := by
    rw [hd]; exact lexSign_digit d0 _ hdig
  unfold lexNum
  simp only [hsign, hspan]
  rw [hd]
  simp only
  have hlead := natDec_leading n d0 dr hd
  simp only [hlead, if_false, lexFrac_end r hr, lexExp_end r hr]
  have hlen : (d0 :: dr ++ r).length - r.length = (d0 :: dr).length := by
    simp only [List.length_append, List.length_cons]; omega
  rw [hlen, List.take_left' rfl]

theorem readUnsigned_natDec (max n : Nat) (hn : n ≤ max) (r : Bytes) (hr : NumEnd r) :
    readUnsigned max (natDec n ++ r) = .ok n r := by
  unfold readUnsigned
  rw [lexNum_natDec n r hr]
  simp [Num.asUnsigned, Num.isInt, digitsVal_natDec, hn]

/-! Part 4: printing then reading strings -/

theorem toUInt8_toNat' (n : Nat) (h : n < 256) : n.toUInt8.toNat = n := by
  simp [Nat.toUInt8, UInt8.toNat_ofNat']; omega

theorem hexVal_hexChar' : ∀ n, n < 16 → hexVal (hexChar n) = some n := by decide

theorem lit_toNat : (34 : UInt8).toNat = 34 ∧ (92 : UInt8).toNat = 92 ∧ (117 : UInt8).toNat = 117 ∧
    (48 : UInt8).toNat = 48 ∧ (98 : UInt8).toNat = 98 ∧ (116 : UInt8).toNat = 116 ∧ (110 : UInt8).toNat = 110 ∧
    (102 : UInt8).toNat = 102 ∧ (114 : UInt8).toNat = 114 := by decide

theorem lexStrRaw_simple (e x : UInt8) (rest : Bytes) (he : ¬ e.toNat = 117) (hs : simpleEsc e = some x) :
    lexStrRaw (92 :: e :: rest) = consStr [x] (lexStrRaw rest) := by
  rw [lexStrRaw.eq_def]
  have e1 : ¬ (92 : UInt8).toNat = 34 := by decide
  have e2 : (92 : UInt8).toNat = 92 := by decide
  simp only [e2, if_true, he, hs, if_false]
  simp

theorem lexStrRaw_plainByte (b : UInt8) (rest : Bytes) (h34 : ¬ b.toNat = 34) (h92 : ¬ b.toNat = 92)
    (h32 : ¬ b.toNat < 32) : lexStrRaw (b :: rest) = consStr [b] (lexStrRaw rest) := by
  rw [lexStrRaw.eq_def]
  simp only [h34, h92, h32, if_false]

theorem lexStrRaw_u00 (b : UInt8) (rest : Bytes) (hlt : b.toNat < 32) :
    lexStrRaw (escU b ++ rest) = consStr [b] (lexStrRaw rest) := by
  have hbb : b.toNat.toUInt8 = b := by simp [Nat.toUInt8, UInt8.ofNat_toNat]
  have h1 := hexVal_hexChar' (b.toNat / 16) (by omega)
  have h2 := hexVal_hexChar' (b.toNat % 16) (by omega)
  have h0 : hexVal 48 = some 0 := by decide
  have hx : hex4 48 48 (hexChar (b.toNat / 16)) (hexChar (b.toNat % 16)) = some b.toNat := by
    unfold hex4
    simp only [h0, h1, h2]
    congr 1; omega
  simp only [escU, List.cons_append, List.nil_append]
  rw [lexStrRaw.eq_def]
  have e1 : ¬ (92 : UInt8).toNat = 34 := by decide
  have e2 : (92 : UInt8).toNat = 92 := by decide
  have e3 : (117 : UInt8).toNat = 117 := by decide
  simp only [e2, e3, if_true, hx]
  have hs1 : ¬ (56320 ≤ b.toNat ∧ b.toNat ≤ 57343) := by omega
  have hs2 : ¬ (55296 ≤ b.toNat ∧ b.toNat ≤ 56319) := by omega
  simp only [hs1, hs2, if_false]
  have : utf8Enc b.toNat = [b] := by
    unfold utf8Enc
    have : b.toNat < 128 := by omega
    simp [this, hbb]
  rw [this]
  simp

/-- reading one escaped byte gives the byte back -/
theorem lexStrRaw_escByte (b : UInt8) (rest : Bytes) :
    lexStrRaw (escByte b ++ rest) = consStr [b] (lexStrRaw rest) := by
  have hbb : b.toNat.toUInt8 = b := by simp [Nat.toUInt8, UInt8.ofNat_toNat]
  unfold escByte
  simp only
  by_cases h34 : b.toNat = 34
  · have : b = 34 := by rw [← hbb, h34]; rfl
    subst this
    exact lexStrRaw_simple 34 34 rest (by decide) (by decide)
  · by_cases h92 : b.toNat = 92
    · have : b = 92 := by rw [← hbb, h92]; rfl
      subst this
      exact lexStrRaw_simple 92 92 rest (by decide) (by decide)
    · by_cases h8 : b.toNat = 8
      · have : b = 8 := by rw [← hbb, h8]; rfl
        subst this
        exact lexStrRaw_simple 98 8 rest (by decide) (by decide)
      · by_cases h9 : b.toNat = 9
        · have : b = 9 := by rw [← hbb, h9]; rfl
          subst this
          exact lexStrRaw_simple 116 9 rest (by decide) (by decide)
        · by_cases h10 : b.toNat = 10
          · have : b = 10 := by rw [← hbb, h10]; rfl
            subst this
            exact lexStrRaw_simple 110 10 rest (by decide) (by decide)
          · by_cases h12 : b.toNat = 12
            · have : b = 12 := by rw [← hbb, h12]; rfl
              subst this
              exact lexStrRaw_simple 102 12 rest (by decide) (by decide)
            · by_cases h13 : b.toNat = 13
              · have : b = 13 := by rw [← hbb, h13]; rfl
                subst this
                exact lexStrRaw_simple 114 13 rest (by decide) (by decide)
              · by_cases hlt : b.toNat < 32
                · simp only [h34, h92, h8, h9, h10, h12, h13, hlt, if_false, if_true]
                  exact lexStrRaw_u00 b rest hlt
                · simp only [h34, h92, h8, h9, h10, h12, h13, hlt, if_false, List.cons_append, List.nil_append]
                  exact lexStrRaw_plainByte b rest h34 h92 hlt

theorem lexStrRaw_print (s rest : Bytes) :
    lexStrRaw (s.flatMap escByte ++ 34 :: rest) = some (s, rest) := by
  induction s with
  | nil =>
    simp only [List.flatMap_nil, List.nil_append]
    rw [lexStrRaw.eq_def]
    have e1 : (34 : UInt8).toNat = 34 := by decide
    simp only [e1, if_true]
  | cons b t ih =>
    simp only [List.flatMap_cons, List.append_assoc]
    rw [lexStrRaw_escByte, ih]
    simp [consStr]

/-- **string round trip**: a printed JSON string reads back as the original bytes -/
theorem lexStr_print (s rest : Bytes) (hv : validUtf8 s = true) :
    lexStr (s.flatMap escByte ++ 34 :: rest) = some (s, rest) := by
  unfold lexStr
  rw [lexStrRaw_print]
  simp [hv]

/-- keys and tags are plain: nothing to escape, valid UTF-8 -/
def Plain (s : Bytes) : Prop := s.flatMap escByte = s ∧ validUtf8 s = true

theorem lexStr_plain (s rest : Bytes) (hp : Plain s) : lexStr (s ++ 34 :: rest) = some (s, rest) := by
  have := lexStr_print s rest hp.2
  rw [hp.1] at this
  exact this

/-! Part 5: printing then reading values -/

theorem skipWs_nonws (b : UInt8) (r : Bytes) (h : isWs b = false) : skipWs (b :: r) = b :: r := by
  unfold skipWs; simp [h]

theorem tok_hit (c : Nat) (b : UInt8) (r : Bytes) (hb : b.toNat = c) (hw : isWs b = false) :
    tok c (b :: r) = some r := by
  unfold tok; rw [skipWs_nonws b r hw]; simp [hb]

theorem tok_miss (c : Nat) (b : UInt8) (r : Bytes) (hb : ¬ b.toNat = c) (hw : isWs b = false) :
    tok c (b :: r) = none := by
  unfold tok; rw [skipWs_nonws b r hw]; simp [hb]

theorem isWs_of_digit (b : UInt8) (h : isDigit b = true) : isWs b = false := by
  simp [isDigit] at h
  simp [isWs]; omega

theorem plain_kT : Plain kT := by constructor <;> decide
theorem plain_kV : Plain kV := by constructor <;> decide
theorem plain_tScore : Plain tScore := by constructor <;> decide
theorem plain_tI64 : Plain tI64 := by constructor <;> decide
theorem plain_tF64 : Plain tF64 := by constructor <;> decide
theorem plain_tStr : Plain tStr := by constructor <;> decide
theorem plain_tMissing : Plain tMissing := by constructor <;> decide

theorem closeVal_brace (v : CVal) (R : Bytes) : closeVal v (125 :: R) = .ok v R := by
  unfold closeVal
  rw [skipWs_nonws 125 R (by decide)]
  simp

theorem numEnd_brace (R : Bytes) : NumEnd (125 :: R) := by
  refine ⟨by decide, by decide, by decide, by decide⟩

theorem numEnd_comma (R : Bytes) : NumEnd (44 :: R) := by
  refine ⟨by decide, by decide, by decide, by decide⟩

theorem skipWs_natDec (n : Nat) (R : Bytes) : skipWs (natDec n ++ R) = natDec n ++ R := by
  obtain ⟨d0, dr, hd, hdig⟩ := natDec_head n
  rw [hd]
  exact skipWs_nonws d0 _ (isWs_of_digit d0 hdig)

/-- values the code can put into a cursor -/
def CVal.wf : CVal → Prop
  | .score b => b ≤ u32Max
  | .i64 v => -9223372036854775808 ≤ v ∧ v ≤ 9223372036854775807
  | .f64 b => b ≤ u64Max
  | .str s => validUtf8 s = true
  | .missing => True

theorem readContent_score (b : Nat) (hb : b ≤ u32Max) (R : Bytes) :
    readContent tScore (skipWs (natDec b ++ 125 :: R)) = .ok (.score b) R := by
  rw [skipWs_natDec]
  unfold readContent
  have h1 : ¬ tScore = tStr := by decide
  simp only [h1, if_false, lexNum_natDec b _ (numEnd_brace R)]
  simp [Num.asUnsigned, Num.isInt, digitsVal_natDec, hb, closeVal_brace]

theorem readContent_i64 (v : Int) (hv : -9223372036854775808 ≤ v ∧ v ≤ 9223372036854775807) (R : Bytes) :
    readContent tI64 (skipWs (intDec v ++ 125 :: R)) = .ok (.i64 v) R := by
  have h1 : ¬ tI64 = tStr := by decide
  have h2 : ¬ tI64 = tScore := by decide
  cases v with
  | ofNat n =>
    simp only [intDec]
    rw [skipWs_natDec]
    unfold readContent
    simp only [h1, h2, if_false, if_true, lexNum_natDec n _ (numEnd_brace R)]
    have hn : ¬ n > 9223372036854775807 := by
      have := hv.2
      simp only [Int.ofNat_eq_natCast] at this
      omega
    simp [Num.asI64, Num.isInt, digitsVal_natDec, hn, closeVal_brace]
  | negSucc n =>
    simp only [intDec, List.cons_append]
    rw [skipWs_nonws 45 _ (by decide)]
    unfold readContent
    simp only [h1, h2, if_false, if_true]
    -- the sign, then the digits
    have hl : lexNum (45 :: (natDec (n + 1) ++ 125 :: R)) =
        some ({ neg := true, int := natDec (n + 1), frac := none, exp := none,
                lex := 45 :: natDec (n + 1) }, 125 :: R) := by
      obtain ⟨d0, dr, hd, hdig⟩ := natDec_head (n + 1)
      have hspan : spanDigits (natDec (n + 1) ++ 125 :: R) = (natDec (n + 1), 125 :: R) :=
        spanDigits_append _ _ (natDec_all_digits (n + 1)) (numEnd_brace R).noDigit
      unfold lexNum
      have hs : lexSign (45 :: (natDec (n + 1) ++ 125 :: R)) = (true, natDec (n + 1) ++ 125 :: R) := by
        unfold lexSign; simp
      simp only [hs, hspan]
      rw [hd]
      simp only
      have hlead := natDec_leading (n + 1) d0 dr hd
      simp only [hlead, if_false, lexFrac_end _ (numEnd_brace R), lexExp_end _ (numEnd_brace R)]
      have hlen : (45 :: (d0 :: dr ++ 125 :: R)).length - (125 :: R).length = (45 :: d0 :: dr).length := by
        simp only [List.length_append, List.length_cons]; omega
      have happ : (45 :: (d0 :: dr ++ 125 :: R)) = (45 :: d0 :: dr) ++ 125 :: R := by simp
      rw [hlen, happ, List.take_left' rfl]
    rw [hl]
    have hn1 : ¬ (n + 1 = 0 ∨ n + 1 > 9223372036854775808) := by
      have := hv.1
      omega
    simp only [Num.asI64, Num.isInt, Option.isNone_none, Bool.and_self, Bool.not_true, Bool.false_eq_true,
      if_false, if_true, digitsVal_natDec, hn1]
    simp [closeVal_brace]
    omega

theorem readContent_f64 (b : Nat) (hb : b ≤ u64Max) (R : Bytes) :
    readContent tF64 (skipWs (natDec b ++ 125 :: R)) = .ok (.f64 b) R := by
  rw [skipWs_natDec]
  unfold readContent
  have h1 : ¬ tF64 = tStr := by decide
  have h2 : ¬ tF64 = tScore := by decide
  have h3 : ¬ tF64 = tI64 := by decide
  simp only [h1, h2, h3, if_false, lexNum_natDec b _ (numEnd_brace R)]
  simp [Num.asUnsigned, Num.isInt, digitsVal_natDec, hb, closeVal_brace]

theorem readContent_str (s : Bytes) (hs : validUtf8 s = true) (R : Bytes) :
    readContent tStr (skipWs (jsonStr s ++ 125 :: R)) = .ok (.str s) R := by
  unfold jsonStr
  simp only [List.cons_append, List.append_assoc, List.nil_append]
  rw [skipWs_nonws 34 _ (by decide)]
  unfold readContent
  have e : (34 : UInt8).toNat = 34 := by decide
  simp only [if_true, e, lexStr_print s _ hs, closeVal_brace]

/-! Part 6: values, the `values` array, members, the whole payload -/

/-- after `"key":` — the shared prefix of `readVal` and `readMembers` steps -/
theorem tok_quote (R : Bytes) : tok 34 (34 :: R) = some R := tok_hit 34 34 R (by decide) (by decide)
theorem tok_colon (R : Bytes) : tok 58 (58 :: R) = some R := tok_hit 58 58 R (by decide) (by decide)

theorem skipWs_comma (R : Bytes) : skipWs (44 :: R) = 44 :: R := skipWs_nonws 44 R (by decide)
theorem skipWs_brace (R : Bytes) : skipWs (125 :: R) = 125 :: R := skipWs_nonws 125 R (by decide)
theorem skipWs_bracket (R : Bytes) : skipWs (93 :: R) = 93 :: R := skipWs_nonws 93 R (by decide)
theorem skipWs_lbrace (R : Bytes) : skipWs (123 :: R) = 123 :: R := skipWs_nonws 123 R (by decide)

theorem readVal_tagged (tag val R : Bytes) (v : CVal) (htag : Plain tag) (hk : knownTag tag = true)
    (hm : ¬ tag = tMissing) (hc : readContent tag (skipWs (val ++ 125 :: R)) = .ok v R) :
    readVal ((tagged tag val).tail ++ R) = .ok v R := by
  have hform : (tagged tag val).tail ++ R =
      34 :: (kT ++ 34 :: 58 :: 34 :: (tag ++ 34 :: 44 :: 34 :: (kV ++ 34 :: 58 :: (val ++ 125 :: R)))) := by
    simp [tagged, mem, quoted, List.append_assoc]
  have hkT : ∀ X, lexStr (kT ++ 34 :: X) = some (kT, X) := fun X => lexStr_plain kT X plain_kT
  have hkV : ∀ X, lexStr (kV ++ 34 :: X) = some (kV, X) := fun X => lexStr_plain kV X plain_kV
  have htg : ∀ X, lexStr (tag ++ 34 :: X) = some (tag, X) := fun X => lexStr_plain tag X htag
  rw [hform]
  unfold readVal
  simp only [tok_quote, tok_colon, hkT, hkV, htg, hk, hm, skipWs_comma, ne_eq, not_true_eq_false, if_false,
    Bool.not_true, Bool.false_eq_true]
  simpa using hc

theorem readVal_missing (R : Bytes) : readVal ((printVal .missing).tail ++ R) = .ok .missing R := by
  have hform : (printVal .missing).tail ++ R = 34 :: (kT ++ 34 :: 58 :: 34 :: (tMissing ++ 34 :: 125 :: R)) := by
    simp [printVal, mem, quoted, List.append_assoc]
  have hkT : ∀ X, lexStr (kT ++ 34 :: X) = some (kT, X) := fun X => lexStr_plain kT X plain_kT
  have htg : ∀ X, lexStr (tMissing ++ 34 :: X) = some (tMissing, X) := fun X => lexStr_plain tMissing X plain_tMissing
  have hk : knownTag tMissing = true := by decide
  rw [hform]
  unfold readVal
  simp only [tok_quote, tok_colon, hkT, htg, hk, skipWs_brace, ne_eq, not_true_eq_false, if_false,
    Bool.not_true, Bool.false_eq_true]
  simp

/-- every printed value starts with `{` -/
theorem printVal_head (v : CVal) : printVal v = 123 :: (printVal v).tail := by
  cases v <;> rfl

/-- **value round trip** -/
theorem readVal_print (v : CVal) (hv : v.wf) (R : Bytes) : readVal ((printVal v).tail ++ R) = .ok v R := by
  cases v with
  | score b =>
    exact readVal_tagged tScore (natDec b) R _ plain_tScore (by decide) (by decide) (readContent_score b hv R)
  | i64 x =>
    exact readVal_tagged tI64 (intDec x) R _ plain_tI64 (by decide) (by decide) (readContent_i64 x hv R)
  | f64 l =>
    exact readVal_tagged tF64 (natDec l) R _ plain_tF64 (by decide) (by decide) (readContent_f64 l hv R)
  | str s =>
    exact readVal_tagged tStr (jsonStr s) R _ plain_tStr (by decide) (by decide) (readContent_str s hv R)
  | missing => exact readVal_missing R

theorem readVals_print : ∀ (vs : List CVal), vs ≠ [] → (∀ v ∈ vs, v.wf) → ∀ (fuel : Nat) (R : Bytes),
    vs.length ≤ fuel → readVals fuel (printVals vs ++ 93 :: R) = .ok vs R := by
  intro vs
  induction vs with
  | nil => intro h; exact absurd rfl h
  | cons v rest ih =>
    intro _ hwf fuel R hfuel
    cases fuel with
    | zero => simp at hfuel
    | succ fuel =>
      have hv : v.wf := hwf v (by simp)
      have e123 : (123 : UInt8).toNat = 123 := by decide
      cases rest with
      | nil =>
        simp only [printVals]
        rw [printVal_head v]
        simp only [List.cons_append]
        unfold readVals
        simp only [skipWs_lbrace, readVal_print v hv, skipWs_bracket]
        simp
      | cons w r =>
        simp only [printVals]
        rw [printVal_head v]
        simp only [List.cons_append, List.append_assoc]
        have hrec := ih (by simp) (fun x hx => hwf x (by simp [hx])) fuel R (by simp at hfuel ⊢; omega)
        unfold readVals
        simp only [skipWs_lbrace, readVal_print v hv, skipWs_comma]
        simp [hrec]

theorem printVals_length (vs : List CVal) : vs.length ≤ (printVals vs).length := by
  induction vs with
  | nil => simp
  | cons v rest ih =>
    cases rest with
    | nil => simp only [printVals]; rw [printVal_head]; simp
    | cons w r =>
      simp only [printVals, List.length_append, List.length_cons] at ih ⊢
      omega

/-- **`values` array round trip** -/
theorem readValues_print (vs : List CVal) (hwf : ∀ v ∈ vs, v.wf) (R : Bytes) :
    readValues (91 :: (printVals vs ++ 93 :: R)) = .ok vs R := by
  unfold readValues
  rw [tok_hit 91 91 _ (by decide) (by decide)]
  cases vs with
  | nil =>
    simp only [printVals, List.nil_append]
    rw [tok_hit 93 93 _ (by decide) (by decide)]
  | cons v rest =>
    have hne : printVals (v :: rest) = 123 :: (printVals (v :: rest)).tail := by
      cases rest with
      | nil => simp only [printVals]; exact printVal_head v
      | cons w r => simp only [printVals]; rw [printVal_head v]; rfl
    have hmiss : tok 93 (printVals (v :: rest) ++ 93 :: R) = none := by
      rw [hne]; exact tok_miss 93 123 _ (by decide) (by decide)
    simp only [hmiss]
    apply readVals_print (v :: rest) (by simp) hwf
    have := printVals_length (v :: rest)
    simp only [List.length_append, List.length_cons] at this ⊢
    omega

/-! Part 7: members and the whole payload -/

theorem plain_kVersion : Plain kVersion := by constructor <;> decide
theorem plain_kGeneration : Plain kGeneration := by constructor <;> decide
theorem plain_kReturned : Plain kReturned := by constructor <;> decide
theorem plain_kPlanHash : Plain kPlanHash := by constructor <;> decide
theorem plain_kSegmentOrd : Plain kSegmentOrd := by constructor <;> decide
theorem plain_kDocId : Plain kDocId := by constructor <;> decide
theorem plain_kValues : Plain kValues := by constructor <;> decide

/-- one member followed by `,` -/
theorem readMembers_comma (fuel : Nat) (a a' : Acc) (key val R : Bytes) (hkey : Plain key)
    (hws : skipWs (val ++ 44 :: R) = val ++ 44 :: R)
    (hf : readField key a (val ++ 44 :: R) = .ok a' (44 :: R)) :
    readMembers (fuel + 1) a (mem key val ++ 44 :: R) = readMembers fuel a' R := by
  have hform : mem key val ++ 44 :: R = 34 :: (key ++ 34 :: 58 :: (val ++ 44 :: R)) := by
    simp [mem, List.append_assoc]
  have hk : ∀ X, lexStr (key ++ 34 :: X) = some (key, X) := fun X => lexStr_plain key X hkey
  rw [hform]
  rw [readMembers]
  simp only [tok_quote, tok_colon, hk, hws, hf, skipWs_comma]
  simp

/-- the last member followed by `}` -/
theorem readMembers_close (fuel : Nat) (a a' : Acc) (key val R : Bytes) (hkey : Plain key)
    (hws : skipWs (val ++ 125 :: R) = val ++ 125 :: R)
    (hf : readField key a (val ++ 125 :: R) = .ok a' (125 :: R)) :
    readMembers (fuel + 1) a (mem key val ++ 125 :: R) = .ok a' R := by
  have hform : mem key val ++ 125 :: R = 34 :: (key ++ 34 :: 58 :: (val ++ 125 :: R)) := by
    simp [mem, List.append_assoc]
  have hk : ∀ X, lexStr (key ++ 34 :: X) = some (key, X) := fun X => lexStr_plain key X hkey
  rw [hform]
  rw [readMembers]
  simp only [tok_quote, tok_colon, hk, hws, hf, skipWs_brace]
  simp

theorem readNumField_natDec (max n : Nat) (hn : n ≤ max) (set : Nat → Acc) (R : Bytes) (hr : NumEnd R) :
    readNumField none max set (natDec n ++ R) = .ok (set n) R := by
  unfold readNumField
  simp [readUnsigned_natDec max n hn R hr]

/-- fields the code can put into a sort cursor -/
def SortCursor.wf (c : SortCursor) : Prop :=
  c.version ≤ 255 ∧ c.generation ≤ u32Max ∧ c.returned ≤ u32Max ∧ c.planHash ≤ u32Max ∧
  c.segmentOrd ≤ u32Max ∧ c.docId ≤ u32Max ∧ ∀ v ∈ c.values, v.wf

/-- **payload round trip**: `serde_json::from_slice(to_vec(state)) = state` in the model -/
theorem parseSortJson_sortJson (c : SortCursor) (hw : c.wf) : parseSortJson (sortJson c) = .ok c := by
  obtain ⟨h1, h2, h3, h4, h5, h6, h7⟩ := hw
  -- the seven `readField` steps
  have f1 : ∀ R, readField kVersion {} (natDec c.version ++ 44 :: R) =
      .ok { version := some c.version } (44 :: R) := by
    intro R
    unfold readField
    simp only [if_true]
    exact readNumField_natDec 255 _ h1 _ _ (numEnd_comma R)
  have f2 : ∀ R, readField kGeneration { version := some c.version } (natDec c.generation ++ 44 :: R) =
      .ok { version := some c.version, generation := some c.generation } (44 :: R) := by
    intro R
    unfold readField
    have d1 : ¬ kGeneration = kVersion := by decide
    simp only [d1, if_false, if_true]
    exact readNumField_natDec u32Max _ h2 _ _ (numEnd_comma R)
  have f3 : ∀ R, readField kReturned { version := some c.version, generation := some c.generation }
      (natDec c.returned ++ 44 :: R) =
      .ok { version := some c.version, generation := some c.generation, returned := some c.returned } (44 :: R) := by
    intro R
    unfold readField
    have d1 : ¬ kReturned = kVersion := by decide
    have d2 : ¬ kReturned = kGeneration := by decide
    simp only [d1, d2, if_false, if_true]
    exact readNumField_natDec u32Max _ h3 _ _ (numEnd_comma R)
  have f4 : ∀ R, readField kPlanHash
      { version := some c.version, generation := some c.generation, returned := some c.returned }
      (natDec c.planHash ++ 44 :: R) =
      .ok { version := some c.version, generation := some c.generation, returned := some c.returned,
            planHash := some c.planHash } (44 :: R) := by
    intro R
    unfold readField
    have d1 : ¬ kPlanHash = kVersion := by decide
    have d2 : ¬ kPlanHash = kGeneration := by decide
    have d3 : ¬ kPlanHash = kReturned := by decide
    simp only [d1, d2, d3, if_false, if_true]
    exact readNumField_natDec u32Max _ h4 _ _ (numEnd_comma R)
  have f5 : ∀ R, readField kSegmentOrd
      { version := some c.version, generation := some c.generation, returned := some c.returned,
        planHash := some c.planHash }
      (natDec c.segmentOrd ++ 44 :: R) =
      .ok { version := some c.version, generation := some c.generation, returned := some c.returned,
            planHash := some c.planHash, segmentOrd := some c.segmentOrd } (44 :: R) := by
    intro R
    unfold readField
    have d1 : ¬ kSegmentOrd = kVersion := by decide
    have d2 : ¬ kSegmentOrd = kGeneration := by decide
    have d3 : ¬ kSegmentOrd = kReturned := by decide
    have d4 : ¬ kSegmentOrd = kPlanHash := by decide
    simp only [d1, d2, d3, d4, if_false, if_true]
    exact readNumField_natDec u32Max _ h5 _ _ (numEnd_comma R)
  have f6 : ∀ R, readField kDocId
      { version := some c.version, generation := some c.generation, returned := some c.returned,
        planHash := some c.planHash, segmentOrd := some c.segmentOrd }
      (natDec c.docId ++ 44 :: R) =
      .ok { version := some c.version, generation := some c.generation, returned := some c.returned,
            planHash := some c.planHash, segmentOrd := some c.segmentOrd, docId := some c.docId } (44 :: R) := by
    intro R
    unfold readField
    have d1 : ¬ kDocId = kVersion := by decide
    have d2 : ¬ kDocId = kGeneration := by decide
    have d3 : ¬ kDocId = kReturned := by decide
    have d4 : ¬ kDocId = kPlanHash := by decide
    have d5 : ¬ kDocId = kSegmentOrd := by decide
    simp only [d1, d2, d3, d4, d5, if_false, if_true]
    exact readNumField_natDec u32Max _ h6 _ _ (numEnd_comma R)
  have f7 : ∀ R, readField kValues
      { version := some c.version, generation := some c.generation, returned := some c.returned,
        planHash := some c.planHash, segmentOrd := some c.segmentOrd, docId := some c.docId }
      (91 :: (printVals c.values ++ 93 :: 125 :: R)) =
      .ok { version := some c.version, generation := some c.generation, returned := some c.returned,
            planHash := some c.planHash, segmentOrd := some c.segmentOrd, docId := some c.docId,
            values := some c.values } (125 :: R) := by
    intro R
    unfold readField
    have d1 : ¬ kValues = kVersion := by decide
    have d2 : ¬ kValues = kGeneration := by decide
    have d3 : ¬ kValues = kReturned := by decide
    have d4 : ¬ kValues = kPlanHash := by decide
    have d5 : ¬ kValues = kSegmentOrd := by decide
    have d6 : ¬ kValues = kDocId := by decide
    simp only [d1, d2, d3, d4, d5, d6, if_false, if_true, readValues_print c.values h7]
    simp
  -- assemble
  have hws : ∀ n R, skipWs (natDec n ++ 44 :: R) = natDec n ++ 44 :: R := fun n R => skipWs_natDec n _
  unfold parseSortJson sortJson
  rw [skipWs_lbrace]
  have e123 : (123 : UInt8).toNat = 123 := by decide
  simp only [e123, if_true]
  have hmiss : ∀ X, tok 125 (mem kVersion (natDec c.version) ++ X) = none := by
    intro X
    have : mem kVersion (natDec c.version) ++ X = 34 :: (kVersion ++ 34 :: 58 :: natDec c.version ++ X) := by
      simp [mem, List.append_assoc]
    rw [this]
    exact tok_miss 125 34 _ (by decide) (by decide)
  simp only [hmiss]
  -- enough fuel for seven members
  generalize hfuel : (mem kVersion (natDec c.version) ++ 44 :: (mem kGeneration (natDec c.generation) ++
    44 :: (mem kReturned (natDec c.returned) ++ 44 :: (mem kPlanHash (natDec c.planHash) ++
    44 :: (mem kSegmentOrd (natDec c.segmentOrd) ++ 44 :: (mem kDocId (natDec c.docId) ++
    44 :: (mem kValues (91 :: (printVals c.values ++ [93])) ++ [125]))))))).length + 1 = fuel
  have hf7 : 7 ≤ fuel := by
    rw [← hfuel]
    simp only [mem, List.length_append, List.length_cons]
    omega
  obtain ⟨k, rfl⟩ : ∃ k, fuel = k + 7 := ⟨fuel - 7, by omega⟩
  rw [readMembers_comma (k + 6) _ _ kVersion _ _ plain_kVersion (hws _ _) (f1 _)]
  rw [readMembers_comma (k + 5) _ _ kGeneration _ _ plain_kGeneration (hws _ _) (f2 _)]
  rw [readMembers_comma (k + 4) _ _ kReturned _ _ plain_kReturned (hws _ _) (f3 _)]
  rw [readMembers_comma (k + 3) _ _ kPlanHash _ _ plain_kPlanHash (hws _ _) (f4 _)]
  rw [readMembers_comma (k + 2) _ _ kSegmentOrd _ _ plain_kSegmentOrd (hws _ _) (f5 _)]
  rw [readMembers_comma (k + 1) _ _ kDocId _ _ plain_kDocId (hws _ _) (f6 _)]
  have hlast : mem kValues (91 :: (printVals c.values ++ [93])) ++ [125] =
      mem kValues (91 :: (printVals c.values ++ [93])) ++ 125 :: [] := rfl
  have hval : (91 :: (printVals c.values ++ [93])) ++ 125 :: [] = 91 :: (printVals c.values ++ 93 :: 125 :: []) := by
    simp
  rw [hlast, readMembers_close k _ _ kValues _ _ plain_kValues
    (by rw [hval]; exact skipWs_nonws 91 _ (by decide)) (by rw [hval]; exact f7 [])]
  simp [finishSort, skipWs, Acc.finish]

end SL.Cursor
